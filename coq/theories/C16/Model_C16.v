(* C16 model: report files are well formed and faithful to the traffic.
   Executable definitions only.

   Part 1  cassettes.py write_double_quoted (the escaper, exact over code
           points), the scalar sites of vcr_writer that are assembled by plain
           concatenation (single quoted: uri, method, command, encoding ...;
           double quoted raw: header names), json.dumps(ensure_ascii) as used for
           header values / the reason phrase, and decoders for YAML 1.1
           double quoted and single quoted one-line flow scalars following
           PyYAML (reader printable check + scanner.scan_flow_scalar).
   Part 2  context.py Statistic.on_scenario_finished + junitxml.py
           JunitXMLHandler.handle_event as a state machine over event histories.
   Part 3  CassetteWriter.handle_event + the vcr_writer / har_writer queue loop:
           which delivered interactions reach the file. *)
From Coq Require Import List NArith Bool.
From Verif Require Import Common.Str.
Import ListNotations.
Open Scope N_scope.

(* ------------------------------------------------------------------ *)
(* Part 1a: small helpers                                              *)
(* ------------------------------------------------------------------ *)
Fixpoint assoc (k : N) (t : list (N * N)) : option N :=
  match t with
  | [] => None
  | (a, b) :: t' => if N.eqb k a then Some b else assoc k t'
  end.

Definition DQ : N := 34.
Definition SQ : N := 39.
Definition BS : N := 92.

(* Python str code points *)
Definition is_cp (c : N) : bool := c <=? 0x10FFFF.
Definition is_unicode (s : str) : bool := forallb is_cp s.
Definition is_surrogate (c : N) : bool := (0xD800 <=? c) && (c <=? 0xDFFF).
Definition no_surrogates (s : str) : bool := forallb (fun c => negb (is_surrogate c)) s.

(* upper case hex digit of d < 16, as the X presentation type prints it *)
Definition hexd (d : N) : N := if d <? 10 then 48 + d else 55 + d.
(* lower case, as json.dumps prints it *)
Definition hexd_l (d : N) : N := if d <? 10 then 48 + d else 87 + d.
(* format(ord(ch), 02X / 04X / 08X): exact for values below 16^width, which the
   guards ch <= xff, ch <= uffff and is_cp guarantee *)
Definition hex2 (v : N) : str := [hexd (v / 16 mod 16); hexd (v mod 16)].
Definition hex4 (v : N) : str :=
  [hexd (v / 4096 mod 16); hexd (v / 256 mod 16); hexd (v / 16 mod 16); hexd (v mod 16)].
Definition hex8 (v : N) : str :=
  [hexd (v / 268435456 mod 16); hexd (v / 16777216 mod 16); hexd (v / 1048576 mod 16); hexd (v / 65536 mod 16);
   hexd (v / 4096 mod 16); hexd (v / 256 mod 16); hexd (v / 16 mod 16); hexd (v mod 16)].
Definition hex4_l (v : N) : str :=
  [hexd_l (v / 4096 mod 16); hexd_l (v / 256 mod 16); hexd_l (v / 16 mod 16); hexd_l (v mod 16)].

(* value of a hex digit, either case (PyYAML: 0123456789ABCDEFabcdef) *)
Definition unhex (h : N) : option N :=
  if (48 <=? h) && (h <=? 57) then Some (h - 48)
  else if (65 <=? h) && (h <=? 70) then Some (h - 55)
  else if (97 <=? h) && (h <=? 102) then Some (h - 87)
  else None.
Fixpoint hexval_aux (hs : str) (acc : N) : option N :=
  match hs with
  | [] => Some acc
  | h :: hs' => match unhex h with Some d => hexval_aux hs' (16 * acc + d) | None => None end
  end.
Definition hexval (hs : str) : option N := hexval_aux hs 0.

(* ------------------------------------------------------------------ *)
(* Part 1b: write_double_quoted  (cassettes.py:310-350)                *)
(* ------------------------------------------------------------------ *)
(* yaml.emitter.Emitter.ESCAPE_REPLACEMENTS: code point -> letter *)
Definition emit_tab : list (N * N) :=
  [(0, 48); (7, 97); (8, 98); (9, 116); (10, 110); (11, 118); (12, 102); (13, 114); (27, 101);
   (34, 34); (92, 92); (0x85, 78); (0xA0, 95); (0x2028, 76); (0x2029, 80)].

(* line 329-333: ch in the special set, or not in one of the three raw ranges *)
Definition needs_escape (c : N) : bool :=
  mem c [34; 92; 0x85; 0x2028; 0x2029; 0xFEFF]
  || negb (((0x20 <=? c) && (c <=? 0x7E)) || ((0xA0 <=? c) && (c <=? 0xD7FF)) || ((0xE000 <=? c) && (c <=? 0xFFFD))).

(* lines 339-346 *)
Definition escape (c : N) : str :=
  BS :: match assoc c emit_tab with
        | Some r => [r]
        | None => if c <=? 0xFF then 120 :: hex2 c
                  else if c <=? 0xFFFF then 117 :: hex4 c
                  else 85 :: hex8 c
        end.

Definition wdq_char (c : N) : str := if needs_escape c then escape c else [c].

(* the functional reading of the loop: every character is either copied or escaped *)
Definition write_double_quoted (s : str) : str := DQ :: flat_map wdq_char s ++ [DQ].

(* the loop as written: indices start/end over the text, raw runs flushed as slices
   text[start:end] (lines 323-350).  Fuel = number of iterations left. *)
Definition slice (s : str) (a b : nat) : str := firstn (b - a) (skipn a s).
Fixpoint wdq_loop (text : str) (fuel : nat) (start end_ : nat) (out : str) : str :=
  match fuel with
  | O => out
  | S fuel' =>
    if Nat.leb end_ (length text) then
      match nth_error text end_ with
      | None =>                                     (* ch is None: flush the pending run *)
        if Nat.ltb start end_ then wdq_loop text fuel' end_ (S end_) (out ++ slice text start end_)
        else wdq_loop text fuel' start (S end_) out
      | Some c =>
        if needs_escape c then
          let out1 := if Nat.ltb start end_ then out ++ slice text start end_ else out in
          wdq_loop text fuel' (S end_) (S end_) (out1 ++ escape c)
        else wdq_loop text fuel' start (S end_) out
      end
    else out
  end.
Definition write_double_quoted_loop (s : str) : str :=
  wdq_loop s (S (S (length s))) 0 0 [DQ] ++ [DQ].

(* what may appear on the output line: printable, no line break, no BOM *)
Definition line_safe (c : N) : bool :=
  ((0x20 <=? c) && (c <=? 0x7E))
  || ((0xA0 <=? c) && (c <=? 0xD7FF) && negb (c =? 0x2028) && negb (c =? 0x2029))
  || ((0xE000 <=? c) && (c <=? 0xFFFD) && negb (c =? 0xFEFF)).

(* ------------------------------------------------------------------ *)
(* Part 1c: the concatenation sites of vcr_writer                      *)
(* ------------------------------------------------------------------ *)
(* f-strings of the form  key: QUOTE{value}QUOTE  with the single quote and the value AS IT IS: id 221, status 222,
   component mode 237, phase name 240, recorded_at 276, method 279, status code 289, elapsed 291, http_version 299,
   base64_string, check name / status 141.  Before commit 059139b3 also uri, command and both encoding sites
   (regression sentinel). *)
Definition emit_sq (s : str) : str := SQ :: s ++ [SQ].
(* _escape_single_quoted(value) = str(value).replace(QUOTE, QUOTE QUOTE)  (cassettes.py:106-108) *)
Definition escape_sq (s : str) : str := replace_char SQ [SQ; SQ] s.
(* uri 288, command 205, encoding 168 / 196 since 059139b3 *)
Definition emit_sq_escaped (s : str) : str := SQ :: escape_sq s ++ [SQ].
(* f-strings putting a header name between two double quote characters (127/132) *)
Definition emit_dq_raw (s : str) : str := DQ :: s ++ [DQ].

(* json.dumps(v) with ensure_ascii=True for a str (format_header_values 120, message 290):
   py_encode_basestring_ascii *)
Definition json_tab : list (N * N) :=
  [(34, 34); (92, 92); (10, 110); (13, 114); (9, 116); (8, 98); (12, 102)].
Definition json_char (c : N) : str :=
  match assoc c json_tab with
  | Some r => [BS; r]
  | None =>
    if (0x20 <=? c) && (c <=? 0x7E) then [c]
    else if c <? 0x10000 then BS :: 117 :: hex4_l c
    else let v := c - 0x10000 in
         BS :: 117 :: hex4_l (0xD800 + v / 1024 mod 1024) ++ BS :: 117 :: hex4_l (0xDC00 + v mod 1024)
  end.
Definition json_dumps (s : str) : str := DQ :: flat_map json_char s ++ [DQ].

(* ------------------------------------------------------------------ *)
(* Part 1d: YAML 1.1 one-line flow scalar decoders, after PyYAML       *)
(* ------------------------------------------------------------------ *)
(* yaml.reader.Reader.NON_PRINTABLE, complemented *)
Definition printable (c : N) : bool :=
  (c =? 9) || (c =? 10) || (c =? 13) || ((0x20 <=? c) && (c <=? 0x7E)) || (c =? 0x85)
  || ((0xA0 <=? c) && (c <=? 0xD7FF)) || ((0xE000 <=? c) && (c <=? 0xFFFD))
  || ((0x10000 <=? c) && (c <=? 0x10FFFF)).
Definition is_break (c : N) : bool := mem c [10; 13; 0x85; 0x2028; 0x2029].
(* a character the scanner copies verbatim inside double quotes.  Line breaks (folding)
   are outside this decoder: it answers None, i.e. it accepts LESS than YAML does. *)
Definition dq_lit (c : N) : bool := printable c && negb (is_break c) && negb (c =? DQ) && negb (c =? BS).
Definition sq_lit (c : N) : bool := printable c && negb (is_break c) && negb (c =? SQ).

(* yaml.scanner.Scanner.ESCAPE_REPLACEMENTS: letter -> code point *)
Definition scan_tab : list (N * N) :=
  [(48, 0); (97, 7); (98, 8); (116, 9); (9, 9); (110, 10); (118, 11); (102, 12); (114, 13); (101, 27);
   (32, 32); (34, 34); (92, 92); (47, 47); (78, 0x85); (95, 0xA0); (76, 0x2028); (80, 0x2029)].

(* chr(int(hex, 16)): ValueError above x10FFFF; strict = libyaml, which also rejects surrogates *)
Definition code_ok (strict : bool) (v : N) : bool := is_cp v && negb (strict && is_surrogate v).
Definition code (strict : bool) (hs : str) (k : option str) : option str :=
  match hexval hs with
  | Some v => if code_ok strict v then option_map (cons v) k else None
  | None => None
  end.

(* after the opening quote: Some decoded when the scalar closes exactly at the end of the input *)
Fixpoint dq_body (strict : bool) (l : str) : option str :=
  match l with
  | [] => None
  | c :: rest =>
    if c =? DQ then match rest with [] => Some [] | _ :: _ => None end
    else if c =? BS then
      match rest with
      | [] => None
      | e :: r1 =>
        match assoc e scan_tab with
        | Some v => option_map (cons v) (dq_body strict r1)
        | None =>
          if e =? 120 then
            match r1 with h1 :: h2 :: r => code strict [h1; h2] (dq_body strict r) | _ => None end
          else if e =? 117 then
            match r1 with h1 :: h2 :: h3 :: h4 :: r => code strict [h1; h2; h3; h4] (dq_body strict r) | _ => None end
          else if e =? 85 then
            match r1 with
            | h1 :: h2 :: h3 :: h4 :: h5 :: h6 :: h7 :: h8 :: r =>
              code strict [h1; h2; h3; h4; h5; h6; h7; h8] (dq_body strict r)
            | _ => None
            end
          else None
        end
      end
    else if dq_lit c then option_map (cons c) (dq_body strict rest)
    else None
  end.

Definition yaml_dq_decode_gen (strict : bool) (t : str) : option str :=
  match t with
  | c :: l => if c =? DQ then dq_body strict l else None
  | [] => None
  end.
(* PyYAML (pure Python loader) *)
Definition yaml_dq_decode : str -> option str := yaml_dq_decode_gen false.
(* libyaml (CSafeLoader) *)
Definition yaml_dq_decode_strict : str -> option str := yaml_dq_decode_gen true.

Fixpoint sq_body (l : str) : option str :=
  match l with
  | [] => None
  | c :: rest =>
    if c =? SQ then
      match rest with
      | [] => Some []
      | d :: rest' => if d =? SQ then option_map (cons SQ) (sq_body rest') else None
      end
    else if sq_lit c then option_map (cons c) (sq_body rest)
    else None
  end.
Definition yaml_sq_decode (t : str) : option str :=
  match t with
  | c :: l => if c =? SQ then sq_body l else None
  | [] => None
  end.

Definition sq_free (s : str) : bool := forallb sq_lit s.
(* printable, no line break: what a one-line single quoted scalar can carry once quotes are doubled *)
Definition one_line_char (c : N) : bool := printable c && negb (is_break c).
Definition one_line (s : str) : bool := forallb one_line_char s.
Definition dq_raw_free (s : str) : bool := forallb dq_lit s.
(* header values / reason phrases are latin-1 on the wire *)
Definition is_bmp (s : str) : bool := forallb (fun c => c <? 0x10000) s.

(* ------------------------------------------------------------------ *)
(* Part 2: Statistic.on_scenario_finished + JunitXMLHandler            *)
(* ------------------------------------------------------------------ *)
(* labels, case ids and failure identities (class, operation, _unique_key) are numbered *)
Definition label := N.
Definition fkey := N.
Inductive status := StSuccess | StFailure | StError | StSkip | StInterrupted.

(* one recorded case: id and its CheckNodes (Some f = failed check carrying Failure f) *)
Record case_rec := { c_id : N; c_checks : list (option fkey) }.
Record recorder := { r_label : label; r_cases : list case_rec }.

Inductive event :=
| ScenarioFinished (r : recorder) (st : status) (has_skip_reason : bool)
| NonFatalError (l : label)
| EngineFinished
| OtherEvent.

Definition groups := list (N * list fkey).          (* case_id -> GroupedFailures.failures *)
Record stat := { failures : list (label * groups); unique : list fkey }.
Definition stat0 : stat := {| failures := []; unique := [] |}.

Fixpoint dget {A} (k : N) (d : list (N * A)) : option A :=
  match d with
  | [] => None
  | (a, v) :: d' => if N.eqb k a then Some v else dget k d'
  end.
(* dict[k] = v keeps the position of an existing key *)
Fixpoint dset {A} (k : N) (v : A) (d : list (N * A)) : list (N * A) :=
  match d with
  | [] => [(k, v)]
  | (a, w) :: d' => if N.eqb k a then (a, v) :: d' else (a, w) :: dset k v d'
  end.

(* context.py:87-99, the loop over the checks of one case *)
Fixpoint scan_checks (checks : list (option fkey)) (uniq : list fkey) (cur : list fkey) : list fkey * list fkey :=
  match checks with
  | [] => (uniq, cur)
  | None :: cs => scan_checks cs uniq cur
  | Some f :: cs => if mem f uniq then scan_checks cs uniq cur
                    else scan_checks cs (uniq ++ [f]) (cur ++ [f])
  end.

(* context.py:75-111 *)
Fixpoint scan_cases (cases : list case_rec) (uniq : list fkey) (fl : groups) : list fkey * groups :=
  match cases with
  | [] => (uniq, fl)
  | c :: cs =>
    match c_checks c with
    | [] => scan_cases cs uniq fl                          (* if not checks: continue *)
    | _ =>
      let '(uniq1, cur) := scan_checks (c_checks c) uniq [] in
      match cur with
      | [] => scan_cases cs uniq1 fl
      | _ => scan_cases cs uniq1 (dset (c_id c) cur fl)
      end
    end
  end.

(* context.py:54-160 (extraction failures and counters are not part of the model) *)
Definition on_scenario_finished (s : stat) (r : recorder) : stat :=
  let fl0 := match dget (r_label r) (failures s) with Some g => g | None => [] end in
  let '(uniq1, fl1) := scan_cases (r_cases r) (unique s) fl0 in
  {| failures := match fl1 with [] => failures s | _ => dset (r_label r) fl1 (failures s) end;
     unique := uniq1 |}.

(* junit_xml.TestCase as far as the handler fills it *)
Record tcase := { t_failures : list groups; t_skipped : nat; t_errors : nat }.
Definition tcase0 : tcase := {| t_failures := []; t_skipped := 0; t_errors := 0 |}.
Definition tcases := list (label * tcase).
Definition get_or_create (l : label) (t : tcases) : tcases :=
  match dget l t with Some _ => t | None => t ++ [(l, tcase0)] end.
Definition tupdate (l : label) (f : tcase -> tcase) (t : tcases) : tcases :=
  map (fun kv => if N.eqb (fst kv) l then (fst kv, f (snd kv)) else kv) t.

Inductive jresult :=
| Crash (key_error : label)                     (* KeyError in handle_event: _execute re-raises, the run aborts *)
| Running (s : stat) (t : tcases) (written : option tcases).

(* executor._execute: ctx.on_event(event) first, then handler.handle_event(ctx, event).
   strict = true is the handler BEFORE commit 12c14c85 (ctx.statistic.failures[label], KeyError);
   strict = false is the handler as it is now: failures.get(label, {}) and add_failure always adds a
   failure element (with the already-reported message when there is no group of its own). *)
Definition add_failure_groups (g : groups) (c : tcase) : tcase :=
  {| t_failures := t_failures c ++ [g]; t_skipped := t_skipped c; t_errors := t_errors c |}.

Definition junit_step (strict : bool) (s : stat) (t : tcases) (w : option tcases) (e : event) : jresult :=
  match e with
  | ScenarioFinished r st reason =>
    let s1 := on_scenario_finished s r in
    let t1 := get_or_create (r_label r) t in
    match st with
    | StFailure =>
      match dget (r_label r) (failures s1) with
      | None => if strict then Crash (r_label r)
                else Running s1 (tupdate (r_label r) (add_failure_groups []) t1) w
      | Some g => Running s1 (tupdate (r_label r) (add_failure_groups g) t1) w
      end
    | StSkip =>
      if reason then Running s1 (tupdate (r_label r) (fun c => {| t_failures := t_failures c; t_skipped := S (t_skipped c); t_errors := t_errors c |}) t1) w
      else Running s1 t1 w
    | _ => Running s1 t1 w
    end
  | NonFatalError l =>
    let t1 := get_or_create l t in
    Running s (tupdate l (fun c => {| t_failures := t_failures c; t_skipped := t_skipped c; t_errors := S (t_errors c) |}) t1) w
  | EngineFinished => Running s t (Some t)
  | OtherEvent => Running s t w
  end.

Fixpoint junit_from (strict : bool) (s : stat) (t : tcases) (w : option tcases) (h : list event) : jresult :=
  match h with
  | [] => Running s t w
  | e :: h' =>
    match junit_step strict s t w e with
    | Crash l => Crash l
    | Running s1 t1 w1 => junit_from strict s1 t1 w1 h'
    end
  end.
Definition junit_run (h : list event) : jresult := junit_from false stat0 [] None h.
(* regression sentinel: the handler before the fix *)
Definition junit_run_old (h : list event) : jresult := junit_from true stat0 [] None h.
Definition junit_crashes_old (h : list event) : bool :=
  match junit_run_old h with Crash _ => true | Running _ _ _ => false end.

(* the test case of label l carries at least one failure element *)
Definition has_failure (l : label) (t : tcases) : bool :=
  match dget l t with Some c => match t_failures c with [] => false | _ => true end | None => false end.
Fixpoint failure_labels (h : list event) : list label :=
  match h with
  | [] => []
  | ScenarioFinished r StFailure _ :: h' => r_label r :: failure_labels h'
  | _ :: h' => failure_labels h'
  end.

(* The region, stated without the dictionaries: walking the history with the set of
   failure identities seen so far and the set of labels under which some failure was
   FIRST seen; a FAILURE-status scenario is fine iff its label is such a label. *)
Fixpoint case_failed (checks : list (option fkey)) : list fkey :=
  match checks with
  | [] => []
  | None :: cs => case_failed cs
  | Some f :: cs => f :: case_failed cs
  end.
Definition failed_keys (r : recorder) : list fkey := flat_map (fun c => case_failed (c_checks c)) (r_cases r).
Definition has_fresh (seen : list fkey) (r : recorder) : bool :=
  existsb (fun f => negb (mem f seen)) (failed_keys r).
Fixpoint fresh_or_known_from (seen : list fkey) (known : list label) (h : list event) : bool :=
  match h with
  | [] => true
  | ScenarioFinished r st _ :: h' =>
    let known' := if has_fresh seen r then r_label r :: known else known in
    (match st with StFailure => mem (r_label r) known' | _ => true end)
    && fresh_or_known_from (seen ++ failed_keys r) known' h'
  | _ :: h' => fresh_or_known_from seen known h'
  end.
Definition fresh_failure_or_known_label (h : list event) : bool := fresh_or_known_from [] [] h.

(* ------------------------------------------------------------------ *)
(* Part 3: CassetteWriter queue and the writer loops                   *)
(* ------------------------------------------------------------------ *)
Fixpoint before_eq (s : str) : str :=
  match s with [] => [] | x :: s' => if x =? 61 then [] else x :: before_eq s' end.

(* ---- http.cookies.SimpleCookie as used by _extract_cookies (cassettes.py:464-479) ----
   _extract_cookies(headers) = [cookie for items in headers for item in items for cookie in _cookie_to_har(item)]:
   items is one header VALUE (a str), so item is one CHARACTER of it: SimpleCookie sees one-character strings. *)
Definition pieces_now (v : str) : list str := map (fun c => [c]) v.
(* sentinel: what a repaired comprehension (for item in headers) would hand to SimpleCookie *)
Definition pieces_whole (v : str) : list str := [v].

(* http.cookies._LegalChars, and the further characters the key pattern of _CookiePattern matches *)
Definition cookie_legal (c : N) : bool :=
  is_upper c || is_lower c || is_digit c || mem c [33;35;36;37;38;39;42;43;45;46;94;95;96;124;126;58].
Definition cookie_special (c : N) : bool := mem c [47;64;44;40;41;123;125;63;60;62].   (* / @ , ( ) { } ? < > *)
(* one  key=value  fragment: Morsel.set raises CookieError (Illegal key) *)
Definition fragment_error (f : str) : bool :=
  let f := strip_left [32] f in
  let k := before_eq f in
  mem 61 f && negb (match k with [] => true | c :: _ => c =? 36 end)
  && forallb (fun c => cookie_legal c || cookie_special c) k && existsb cookie_special k.
(* SimpleCookie(piece) raises CookieError.  Exact (false) for pieces shorter than 3 characters - a key, = and the
   illegal character need three; for longer pieces an approximation validated per run on the generated shapes *)
Definition cookie_error (p : str) : bool :=
  Nat.leb 3 (length p) && existsb fragment_error (split_on 59 p).
(* the morsels SimpleCookie finds in a one-character string: none *)
Definition morsels_char (c : N) : list (str * str) := [].

(* what Python makes of response.encoding when the payload is decoded *)
Inductive codec :=
| CodecOk          (* None, or a text codec Python knows, or the payload is empty (no lookup at all) *)
| CodecUnknown     (* LookupError: unknown name, or not a text encoding (base64, hex, ...) *)
| CodecRaises      (* the codec exists and decode raises a UnicodeError: undefined, idna, punycode *)
| CodecBadName.    (* the NAME is refused before any lookup: a NUL character in the charset gives
                      ValueError (embedded null character), neither a LookupError nor a UnicodeError *)

(* what matters of an interaction for reaching the file *)
Record inter := {
  i_id : N;                 (* case id: key of recorder.interactions *)
  i_userinfo : bool;        (* the request URL has a userinfo part *)
  i_response : bool;        (* a response was received (record_response vs record_request) *)
  i_codec : codec;
  i_cookie_values : list str   (* the values of the request Cookie header *)
}.
Definition s_filtered : str := [91;70;105;108;116;101;114;101;100;93].   (* [Filtered] *)
(* headers.get(Cookie) after sanitize_value: a sensitive key holding a list becomes [replacement] *)
Definition seen_cookies (sanitize : bool) (i : inter) : list str :=
  if sanitize then match i_cookie_values i with [] => [] | _ => [s_filtered] end else i_cookie_values i.
Inductive fmt := VCR | HAR.
Record wconf := { w_fmt : fmt; w_sanitize : bool; w_preserve : bool }.

(* writing this entry raises inside the writer thread.
   BEFORE commits 8fd7266e / ad7dc72b (regression sentinel):
   HAR: urlparse(sanitize_url(uri)) on  scheme://[Filtered]@host  -> ValueError (Python >= 3.11.4);
   VCR: response.content.decode(encoding, replace) with any codec problem *)
Definition entry_raises_old (w : wconf) (i : inter) : bool :=
  match w_fmt w with
  | HAR => w_sanitize w && i_userinfo i
  | VCR => negb (w_preserve w) && i_response i && match i_codec i with CodecOk => false | _ => true end
  end.
(* NOW: the HAR writer takes the query string by partition and never parses the URL; the VCR writer
   falls back to utf8 on LookupError (cassettes.py:183-188); only a codec that raises something else
   (UnicodeError of the codec, ValueError for a name with a NUL character) still kills the thread *)
Definition entry_raises (w : wconf) (i : inter) : bool :=
  match w_fmt w with
  | HAR => existsb cookie_error (flat_map pieces_now (seen_cookies (w_sanitize w) i))      (* 434: _extract_cookies, uncaught *)
  | VCR => negb (w_preserve w) && i_response i && match i_codec i with CodecRaises | CodecBadName => true | _ => false end
  end.
(* sentinel: the same with the comprehension iterating over header values instead of characters *)
Definition entry_raises_whole (w : wconf) (i : inter) : bool :=
  match w_fmt w with
  | HAR => existsb cookie_error (flat_map pieces_whole (seen_cookies (w_sanitize w) i))
  | VCR => entry_raises w i
  end.

Inductive qmsg := QInit | QProcess (ints : list inter) | QFinalize.

(* the events the handler sees, reduced to what CassetteWriter.handle_event looks at *)
Inductive cevent := CScenario (ints : list inter) | COther.
(* start(): Initialize; handle_event: Process per ScenarioFinished; shutdown(): Finalize *)
Definition cassette_queue (h : list cevent) : list qmsg :=
  QInit :: flat_map (fun e => match e with CScenario ints => [QProcess ints] | COther => [] end) h ++ [QFinalize].

Inductive wend := Closed | Died | Waiting.   (* file closed / thread died with an exception / blocked in queue.get *)

(* entries reaching the file: (case id, complete).  The VCR writer has already written the head of an
   entry (id, checks, request, response status and headers) when decode raises: that entry stays in the
   file truncated, without body and http_version.  The HAR writer raises before add_entry. *)
Definition truncated_entry (w : wconf) (i : inter) : list (N * bool) :=
  match w_fmt w with VCR => [(i_id i, false)] | HAR => [] end.

Section Writer.
Variable raises : wconf -> inter -> bool.

Fixpoint write_entries_gen (w : wconf) (ints : list inter) (out : list (N * bool)) : list (N * bool) * bool :=
  match ints with
  | [] => (out, true)
  | i :: rest => if raises w i then (out ++ truncated_entry w i, false)
                 else write_entries_gen w rest (out ++ [(i_id i, true)])
  end.

Fixpoint writer_loop_gen (w : wconf) (q : list qmsg) (out : list (N * bool)) : list (N * bool) * wend :=
  match q with
  | [] => (out, Waiting)
  | QInit :: q' => writer_loop_gen w q' out             (* VCR writes the preamble, HAR ignores it *)
  | QProcess ints :: q' =>
    let '(out1, ok) := write_entries_gen w ints out in
    if ok then writer_loop_gen w q' out1 else (out1, Died)
  | QFinalize :: _ => (out, Closed)
  end.

Definition written_gen (w : wconf) (h : list cevent) : list (N * bool) * wend := writer_loop_gen w (cassette_queue h) [].
Definition no_entry_raises_gen (w : wconf) (h : list cevent) : bool :=
  forallb (fun e => match e with CScenario ints => forallb (fun i => negb (raises w i)) ints | COther => true end) h.
End Writer.

Definition delivered (h : list cevent) : list N :=
  flat_map (fun e => match e with CScenario ints => map i_id ints | COther => [] end) h.
Definition complete (ids : list N) : list (N * bool) := map (fun i => (i, true)) ids.
Definition written : wconf -> list cevent -> list (N * bool) * wend := written_gen entry_raises.
Definition written_old : wconf -> list cevent -> list (N * bool) * wend := written_gen entry_raises_old.
Definition no_entry_raises : wconf -> list cevent -> bool := no_entry_raises_gen entry_raises.
Definition written_whole : wconf -> list cevent -> list (N * bool) * wend := written_gen entry_raises_whole.

(* meta is None  (cassettes.py:224-267): the text between the quoted status and recorded_at *)
Inductive meta_shape := MetaNone | MetaFuzzing | MetaCoverage.
Definition status_line_tail (m : meta_shape) : str :=
  match m with
  | MetaNone => [110; 117; 108; 108]          (* null glued to the quoted status on the same line *)
  | _ => [10]                                 (* a line break opens the generation block *)
  end.
(* after a closing single quote only a line break may follow on that line *)
Definition sq_line_ok (after : str) : bool :=
  match after with c :: _ => is_break c | [] => true end.

(* ------------------------------------------------------------------ *)
(* Part 4: one HAR / VCR entry as a function of ONE interaction, and    *)
(* the writer loops with the Python local variables they carry from     *)
(* one iteration to the next (sanitize_output off)                      *)
(* ------------------------------------------------------------------ *)
Definition hdict := list (str * list str).          (* dict[str, list[str]], insertion ordered *)
Fixpoint hget (k : str) (d : hdict) : option (list str) :=
  match d with
  | [] => None
  | (a, v) :: d' => if str_eqb k a then Some v else hget k d'
  end.
(* headers.get(name, [empty string])[0]; value lists are never empty *)
Definition first_of (o : option (list str)) : str := match o with Some (v :: _) => v | _ => [] end.
Definition first_values (d : hdict) : list (str * str) := map (fun kv => (fst kv, first_of (Some (snd kv)))) d.

(* how a payload is turned into text: read by the harness, foreign to the model *)
Inductive payload :=
| B64 (b : str)                            (* base64.b64encode(bytes) *)
| Utf8Replace (b : str)                    (* bytes.decode(utf-8, replace) *)
| CodecReplace (enc : str) (b : str).      (* bytes.decode(enc, replace) *)

Record xreq := { q_method : str; q_uri : str; q_headers : hdict; q_body : option str }.
Record xresp := { p_status : N; p_message : str; p_headers : hdict; p_content : str; p_encoding : option str; p_codec : codec; p_version : str }.
(* x_checks: None = the case id is not a key of recorder.checks; the bool says failed *)
Record xchg := { x_id : N; x_req : xreq; x_resp : option xresp; x_checks : option (list (str * bool)) }.

Definition s_content_type : str := [67;111;110;116;101;110;116;45;84;121;112;101].   (* Content-Type *)
Definition s_location : str := [76;111;99;97;116;105;111;110].                        (* Location *)
Definition s_cookie : str := [67;111;111;107;105;101].                                (* Cookie *)
Definition s_set_cookie : str := [83;101;116;45;67;111;111;107;105;101].               (* Set-Cookie *)
(* _extract_cookies(headers.get(name, [])) *)
Definition har_cookies (name : str) (d : hdict) : list (str * str) :=
  flat_map (fun v => flat_map morsels_char v) (match hget name d with Some vs => vs | None => [] end).
Definition s_utf8_dash : str := [117;116;102;45;56].                                  (* utf-8 *)
Definition s_utf8 : str := [117;116;102;56].                                          (* utf8 *)
Definition s_none : str := [78;111;110;101].                                          (* None *)
Definition blen (b : str) : N := N.of_nat (length b).

(* uri.partition(#)[0].partition(?)[2]  (cassettes.py:363-364) *)
Fixpoint before_char (c : N) (s : str) : str :=
  match s with [] => [] | x :: s' => if x =? c then [] else x :: before_char c s' end.
Fixpoint after_char (c : N) (s : str) : str :=
  match s with [] => [] | x :: s' => if x =? c then s' else after_char c s' end.
Definition query_of (uri : str) : str := after_char 63 (before_char 35 uri).

(* ---- HAR (cassettes.py:358-435) ---- *)
Record har_resp := {
  hr_status : N; hr_text : str; hr_version : str; hr_headers : list (str * str);
  hr_mime : str; hr_content : option payload; hr_base64 : bool; hr_size : N; hr_redirect : str; hr_cookies : list (str * str) }.
Record hentry := {
  he_method : str; he_url : str; he_query : str; he_version : str; he_headers : list (str * str);
  he_post : option (str * payload); he_body_size : N; he_resp : option har_resp; he_cookies : list (str * str) }.

(* the locals of har_writer that survive from one loop iteration to the next *)
Record hvars := { hv_post : option (str * payload); hv_resp : option har_resp; hv_version : str; hv_headers : list (str * str) }.
Definition hvars0 : hvars := {| hv_post := None; hv_resp := None; hv_version := []; hv_headers := [] |}.

Definition har_post_of (preserve : bool) (r : xreq) (b : str) : str * payload :=
  (first_of (hget s_content_type (q_headers r)), if preserve then B64 b else Utf8Replace b).      (* 365-370 *)
Definition har_resp_of (preserve : bool) (p : xresp) : har_resp :=
  {| hr_status := p_status p; hr_text := p_message p; hr_version := [72;84;84;80;47] ++ p_version p;   (* HTTP/ + version, 385 *)
     hr_headers := first_values (p_headers p);
     hr_mime := first_of (hget s_content_type (p_headers p));      (* 374: the keys were lower-cased by Response.__init__ *)
     (* 378-382: encoded_body is None for an empty payload *)
     hr_content := if preserve then match p_content p with [] => None | _ => Some (B64 (p_content p)) end
                   else Some (Utf8Replace (p_content p));
     hr_base64 := preserve;                                         (* 383: content is never None *)
     hr_size := blen (p_content p);
     hr_redirect := first_of (hget s_location (p_headers p));
     hr_cookies := har_cookies s_set_cookie (p_headers p) |}.

Definition har_step (preserve : bool) (v : hvars) (x : xchg) : hvars * hentry :=
  (* 364-372: if body is not None: post_data = ... else: post_data = None *)
  let v1 := match q_body (x_req x) with
            | Some b => {| hv_post := Some (har_post_of preserve (x_req x) b); hv_resp := hv_resp v; hv_version := hv_version v; hv_headers := hv_headers v |}
            | None => {| hv_post := None; hv_resp := hv_resp v; hv_version := hv_version v; hv_headers := hv_headers v |}
            end in
  (* 373-406: response, http_version assigned in both branches *)
  let v2 := match x_resp x with
            | Some p => {| hv_post := hv_post v1; hv_resp := Some (har_resp_of preserve p); hv_version := [72;84;84;80;47] ++ p_version p; hv_headers := first_values (p_headers p) |}
            | None => {| hv_post := hv_post v1; hv_resp := None; hv_version := []; hv_headers := hv_headers v1 |}
            end in
  (* 408-412: headers = request headers *)
  let v3 := {| hv_post := hv_post v2; hv_resp := hv_resp v2; hv_version := hv_version v2; hv_headers := first_values (q_headers (x_req x)) |} in
  (v3, {| he_method := upper_ascii (q_method (x_req x)); he_url := q_uri (x_req x); he_query := query_of (q_uri (x_req x)); he_version := hv_version v3;
          he_headers := hv_headers v3; he_post := hv_post v3;
          he_body_size := match q_body (x_req x) with Some b => blen b | None => 0 end;
          he_resp := hv_resp v3;
          he_cookies := har_cookies s_cookie (q_headers (x_req x)) |}).

Fixpoint har_loop (preserve : bool) (v : hvars) (xs : list xchg) : list hentry :=
  match xs with
  | [] => []
  | x :: xs' => let '(v1, e) := har_step preserve v x in e :: har_loop preserve v1 xs'
  end.

(* the entry as a function of one interaction only *)
Definition har_entry (preserve : bool) (x : xchg) : hentry :=
  {| he_method := upper_ascii (q_method (x_req x)); he_url := q_uri (x_req x); he_query := query_of (q_uri (x_req x));
     he_version := match x_resp x with Some p => [72;84;84;80;47] ++ p_version p | None => [] end;
     he_headers := first_values (q_headers (x_req x));
     he_post := match q_body (x_req x) with Some b => Some (har_post_of preserve (x_req x) b) | None => None end;
     he_body_size := match q_body (x_req x) with Some b => blen b | None => 0 end;
     he_resp := match x_resp x with Some p => Some (har_resp_of preserve p) | None => None end;
     he_cookies := har_cookies s_cookie (q_headers (x_req x)) |}.

(* ---- VCR (cassettes.py:201-304) ---- *)
Inductive vstatus := VSuccess | VFailure | VSkip | VError.
Record vcr_resp := { vr_code : N; vr_message : str; vr_headers : hdict; vr_body : option (str * payload); vr_version : str }.
Record ventry := {
  ve_id : N; ve_status : vstatus; ve_checks : list (str * bool); ve_uri : str; ve_method : str;
  ve_headers : hdict; ve_body : option (str * payload); ve_resp : option vcr_resp }.
(* locals of vcr_writer carried across iterations *)
Record vvars := { vv_checks : list (str * bool); vv_status : vstatus }.
Definition vvars0 : vvars := {| vv_checks := []; vv_status := VSuccess |}.

(* 206-210: SUCCESS unless some check has status FAILURE *)
Definition status_of_checks (cs : list (str * bool)) : vstatus := if existsb snd cs then VFailure else VSuccess.

Definition vcr_req_body (preserve : bool) (r : xreq) : option (str * payload) :=
  match q_body r with
  | Some b => Some (s_utf8_dash, if preserve then B64 b else Utf8Replace b)       (* 150-157 / 169-178 *)
  | None => None
  end.
Definition vcr_resp_body (preserve : bool) (p : xresp) : option (str * payload) :=
  if preserve then
    (* 159-165: encoded_body is None for an empty payload; the encoding is printed with str() *)
    match p_content p with
    | [] => None
    | _ => Some (match p_encoding p with Some e => e | None => s_none end, B64 (p_content p))
    end
  else
    (* 180-194: encoding or utf8; on LookupError fall back to utf8 (CodecRaises is outside Part 4: the thread dies) *)
    let enc0 := match p_encoding p with Some [] => s_utf8 | Some e => e | None => s_utf8 end in
    let enc := match p_codec p with CodecUnknown => s_utf8 | _ => enc0 end in
    Some (enc, CodecReplace enc (p_content p)).

Definition vcr_step (preserve : bool) (v : vvars) (x : xchg) : vvars * ventry :=
  let v1 := match x_resp x with
            | Some _ =>
              match x_checks x with
              | Some cs => {| vv_checks := cs; vv_status := status_of_checks cs |}     (* 204-210 *)
              | None => {| vv_checks := []; vv_status := VSkip |}                       (* 211-215 *)
              end
            | None => {| vv_checks := []; vv_status := VError |}                        (* 216-218 *)
            end in
  (v1, {| ve_id := x_id x; ve_status := vv_status v1; ve_checks := vv_checks v1;
          ve_uri := q_uri (x_req x); ve_method := q_method (x_req x); ve_headers := q_headers (x_req x);
          ve_body := vcr_req_body preserve (x_req x);
          ve_resp := match x_resp x with
                     | Some p => Some {| vr_code := p_status p; vr_message := p_message p; vr_headers := p_headers p;
                                         vr_body := vcr_resp_body preserve p; vr_version := p_version p |}
                     | None => None
                     end |}).

Fixpoint vcr_loop (preserve : bool) (v : vvars) (xs : list xchg) : list ventry :=
  match xs with
  | [] => []
  | x :: xs' => let '(v1, e) := vcr_step preserve v x in e :: vcr_loop preserve v1 xs'
  end.

Definition vcr_entry (preserve : bool) (x : xchg) : ventry := snd (vcr_step preserve vvars0 x).

(* ------------------------------------------------------------------ *)
(* Part 5: the LIFECYCLE of the writer thread up to process exit        *)
(* (added after seeded regression C16_c_daemon_writer_thread)           *)
(*                                                                      *)
(* cassettes.py:42-69 and executor.py:136-165.  The main thread puts    *)
(* Initialize (start), one Process per ScenarioFinished (handle_event), *)
(* Finalize (shutdown) on the queue and then joins the writer with      *)
(* WRITER_WORKER_JOIN_TIMEOUT: the join may return while the writer is  *)
(* still working on its backlog.  Then the CLI ends with sys.exit:      *)
(* Click tears its context down (file handles that Click opened for     *)
(* --report-vcr-path / --report-har-path are CLOSED there), and the     *)
(* interpreter WAITS for non-daemon threads and KILLS daemon threads.   *)
(* The writer takes one queue item at a time and may be arbitrarily     *)
(* slow: the interleaving is a schedule chosen by an adversary.         *)
(* ------------------------------------------------------------------ *)
Record lconf := {
  lc_daemon : bool;        (* threading.Thread(..., daemon=...) of CassetteWriter.__post_init__ *)
  lc_click_owned : bool    (* the report file is a click.File handle (--report-*-path) and not a LazyFile
                              made by ReportConfig.get_path (--report / --report-dir) *)
}.
(* the code as it is: a non-daemon thread (cassettes.py:54), joined for 1 second (:28, :69) *)
Definition writer_thread_daemon : bool := false.
Definition join_timeout_ms : N := 1000.
Definition lconf_report_dir : lconf := {| lc_daemon := writer_thread_daemon; lc_click_owned := false |}.
Definition lconf_report_path : lconf := {| lc_daemon := writer_thread_daemon; lc_click_owned := true |}.
(* region: the path kinds for which the report survives a join that timed out *)
Definition report_dir_owned (c : lconf) : bool := negb (lc_click_owned c).

Inductive lwriter := LRunning | LEnded (e : wend) | LKilled.     (* LKilled: a daemon thread at interpreter exit *)
Inductive mphase := MRun | MTeardown | MExited.
(* MRun: start / handle_event / shutdown up to the join; MTeardown: the join has returned (the other handlers
   shut down, the summary is printed, sys.exit is on its way); MExited: the process is gone *)
Inductive sstep := SMain | SWriter | STimeout.

Record lstate := {
  l_todo : list qmsg;             (* what the main thread will still put on the queue *)
  l_phase : mphase;
  l_queue : list qmsg;            (* put and not yet taken by the writer *)
  l_out : list (N * bool);        (* entries in the file *)
  l_writer : lwriter;
  l_open : bool                   (* the file handle is open *)
}.

(* the writer takes ONE item (the body of the while loop of vcr_writer / har_writer), file handle open *)
Definition writer_item (w : wconf) (m : qmsg) (out : list (N * bool)) : list (N * bool) * option wend :=
  match m with
  | QInit => (out, None)
  | QProcess ints => let '(out1, ok) := write_entries_gen entry_raises w ints out in (out1, if ok then None else Some Died)
  | QFinalize => (out, Some Closed)
  end.
(* the same after Click has closed the handle: every write raises ValueError (I/O operation on closed file).
   VCR: Initialize writes the preamble; an entry starts with a write; Finalize only calls path.close(), which is harmless.
   HAR: Initialize is ignored; add_entry writes; Finalize leaves the with block, whose close writes the closing brackets *)
Definition writer_item_closed (w : wconf) (m : qmsg) (out : list (N * bool)) : list (N * bool) * option wend :=
  match m, w_fmt w with
  | QInit, VCR => (out, Some Died)
  | QInit, HAR => (out, None)
  | QProcess [], _ => (out, None)
  | QProcess (_ :: _), _ => (out, Some Died)
  | QFinalize, VCR => (out, Some Closed)
  | QFinalize, HAR => (out, Some Died)
  end.
Definition writer_take (open : bool) := if open then writer_item else writer_item_closed.

(* threading._shutdown joins a non-daemon writer without a timeout: it runs until it ends; None = it blocks in
   queue.get() for ever (no Finalize was put: the process would hang) *)
Fixpoint drain (open : bool) (w : wconf) (q : list qmsg) (out : list (N * bool)) : list (N * bool) * option wend :=
  match q with
  | [] => (out, None)
  | m :: q' => match writer_take open w m out with
               | (out1, None) => drain open w q' out1
               | (out1, Some e) => (out1, Some e)
               end
  end.

(* sys.exit: context teardown (Click closes the handles it owns), then interpreter exit *)
Definition exit_step (c : lconf) (w : wconf) (st : lstate) : lstate :=
  let open1 := l_open st && negb (lc_click_owned c) in
  match l_writer st with
  | LRunning =>
    if lc_daemon c then
      {| l_todo := l_todo st; l_phase := MExited; l_queue := l_queue st; l_out := l_out st; l_writer := LKilled; l_open := open1 |}
    else
      match drain open1 w (l_queue st) (l_out st) with
      | (out1, Some e) => {| l_todo := l_todo st; l_phase := MExited; l_queue := []; l_out := out1; l_writer := LEnded e; l_open := open1 |}
      | (_, None) => st
      end
  | _ => {| l_todo := l_todo st; l_phase := MExited; l_queue := l_queue st; l_out := l_out st; l_writer := l_writer st; l_open := open1 |}
  end.

Definition set_phase (p : mphase) (st : lstate) : lstate :=
  {| l_todo := l_todo st; l_phase := p; l_queue := l_queue st; l_out := l_out st; l_writer := l_writer st; l_open := l_open st |}.

(* a step that is not enabled leaves the state as it is (the thread is blocked / nothing to time out) *)
Definition lstep (c : lconf) (w : wconf) (st : lstate) (s : sstep) : lstate :=
  match s with
  | SWriter =>
    match l_writer st, l_queue st with
    | LRunning, m :: q' =>
      let '(out1, e) := writer_take (l_open st) w m (l_out st) in
      {| l_todo := l_todo st; l_phase := l_phase st; l_queue := q'; l_out := out1;
         l_writer := match e with None => LRunning | Some e' => LEnded e' end; l_open := l_open st |}
    | _, _ => st
    end
  | SMain =>
    match l_phase st, l_todo st with
    | MRun, m :: t =>                                        (* queue.put *)
      {| l_todo := t; l_phase := MRun; l_queue := l_queue st ++ [m]; l_out := l_out st; l_writer := l_writer st; l_open := l_open st |}
    | MRun, [] =>                                            (* worker.join returns because the thread has ended *)
      match l_writer st with LRunning => st | _ => set_phase MTeardown st end
    | MTeardown, _ => exit_step c w st
    | MExited, _ => st
    end
  | STimeout =>                                              (* worker.join(timeout) returns although the thread is alive *)
    match l_phase st, l_todo st with
    | MRun, [] => set_phase MTeardown st
    | _, _ => st
    end
  end.

Definition linit (h : list cevent) : lstate :=
  {| l_todo := cassette_queue h; l_phase := MRun; l_queue := []; l_out := []; l_writer := LRunning; l_open := true |}.
Definition lrun (c : lconf) (w : wconf) (h : list cevent) (sched : list sstep) : lstate :=
  fold_left (lstep c w) sched (linit h).
(* what a reader of the report finds after the process has gone *)
Definition lresult (st : lstate) : list (N * bool) * lwriter := (l_out st, l_writer st).
Definition lexited (st : lstate) : bool := match l_phase st with MExited => true | _ => false end.

Definition is_timeout (s : sstep) : bool := match s with STimeout => true | _ => false end.
(* region for every configuration: no join ever timed out *)
Definition join_never_timed_out (sched : list sstep) : bool := forallb (fun s => negb (is_timeout s)) sched.
(* the worst schedule: everything is put, the writer has not been scheduled once, the join times out, exit *)
Definition sched_full_backlog (h : list cevent) : list sstep :=
  map (fun _ => SMain) (cassette_queue h) ++ [STimeout; SMain].

(* ------------------------------------------------------------------ *)
(* Part 6: the handlers as functions of the WHOLE ScenarioFinished     *)
(* event (added after seeded regression                                *)
(* C16_d_final_scenarios_not_recorded)                                 *)
(*                                                                      *)
(* engine/events.py:128-175: a ScenarioFinished event carries phase,    *)
(* label (None in the stateful phase), status, skip_reason, is_final    *)
(* (Hypothesis replays a failing stateful sequence once more: real      *)
(* traffic with fresh case ids; the unit phases emit is_final = True    *)
(* for the ERROR event of an operation that could not be built) and the *)
(* recorder (its own label, cases with checks, interactions).           *)
(* CassetteWriter.handle_event (cassettes.py:60-62) looks at the TYPE   *)
(* of the event only; JunitXMLHandler.handle_event (junitxml.py:21-31)  *)
(* at recorder.label, status and skip_reason.  Neither looks at         *)
(* is_final, phase or event.label.  The rule deciding which events a    *)
(* handler acts on is a parameter (forward_rule): the code is           *)
(* forward_all, every other rule is a sentinel.                         *)
(* ------------------------------------------------------------------ *)
Inductive phase_name := PhProbing | PhExamples | PhCoverage | PhFuzzing | PhStateful.

Record sf_event := {
  sf_phase : phase_name;
  sf_label : option label;       (* event.label: None in the stateful phase *)
  sf_status : status;
  sf_skip_reason : bool;         (* event.skip_reason is not None *)
  sf_is_final : bool;
  sf_rlabel : label;             (* event.recorder.label *)
  sf_cases : list case_rec;      (* event.recorder.cases with recorder.checks *)
  sf_inters : list inter         (* event.recorder.interactions, in insertion order *)
}.
Inductive fevent := FScenario (e : sf_event) | FNonFatal (l : label) | FEngineFinished | FOther.

Definition forward_rule := sf_event -> bool.
(* the code as it is: isinstance(event, ScenarioFinished) and nothing else *)
Definition forward_all : forward_rule := fun _ => true.
(* sentinel (seeded C16_d): a final scenario is taken for a repetition of a recorded one *)
Definition skip_final : forward_rule := fun e => negb (sf_is_final e).

(* CassetteWriter.handle_event: the queue items one event adds *)
Definition cassette_handle (fwd : forward_rule) (e : fevent) : list qmsg :=
  match e with
  | FScenario e => if fwd e then [QProcess (sf_inters e)] else []
  | _ => []
  end.
Definition cassette_queue_ev (fwd : forward_rule) (h : list fevent) : list qmsg :=
  QInit :: flat_map (cassette_handle fwd) h ++ [QFinalize].
Definition written_ev_gen (fwd : forward_rule) (w : wconf) (h : list fevent) : list (N * bool) * wend :=
  writer_loop_gen entry_raises w (cassette_queue_ev fwd h) [].
Definition written_ev : wconf -> list fevent -> list (N * bool) * wend := written_ev_gen forward_all.

(* what the engine delivered to the reporters: the interactions of the recorder of EVERY ScenarioFinished *)
Definition ids_of (e : sf_event) : list N := map i_id (sf_inters e).
Definition delivered_ev (h : list fevent) : list N :=
  flat_map (fun e => match e with FScenario e => ids_of e | _ => [] end) h.
(* delivered and handed to the writer / delivered and dropped by the handler, under a rule *)
Definition recorded_by (fwd : forward_rule) (h : list fevent) : list N :=
  flat_map (fun e => match e with FScenario e => if fwd e then ids_of e else [] | _ => [] end) h.
Definition lost_by (fwd : forward_rule) (h : list fevent) : list N :=
  flat_map (fun e => match e with FScenario e => if fwd e then [] else ids_of e | _ => [] end) h.

(* the reduced event of Part 3 that a full event is, under a rule *)
Definition cevent_of (fwd : forward_rule) (e : fevent) : cevent :=
  match e with
  | FScenario e => if fwd e then CScenario (sf_inters e) else COther
  | _ => COther
  end.

(* executor._execute: ctx.on_event first (Statistic, whatever the handler does), then JunitXMLHandler.handle_event.
   For a FAILURE event add_failure (junitxml.py:44-57) renders EVERY group stored under the label with
   format_failures, which reads response.text = content.decode(encoding or utf-8) (core/failures.py:306,
   core/transport.py:92-93) inside a try.  Which exceptions of response.text that try catches is a parameter
   (catch_rule).  The code as it is since 22e8a9e1 catches (UnicodeError, LookupError) and prints <BINARY>:
   an unknown codec (LookupError) and a codec that raises (undefined: UnicodeError) no longer leave the handler.
   What still escapes is the ValueError Python raises for a charset NAME with a NUL character (CodecBadName):
   _execute re-raises, the run aborts (Internal Error).  Before 22e8a9e1 only UnicodeDecodeError was caught
   (catches_decode_error_only, regression sentinel): every codec problem aborted the run.
   The group of a case keeps the response of that case, so the handler state carries the ids of the cases whose
   response text escapes the try (bad). *)
Definition recorder_of (e : sf_event) : recorder := {| r_label := sf_rlabel e; r_cases := sf_cases e |}.
Definition jevent_of (e : fevent) : event :=
  match e with
  | FScenario e => ScenarioFinished (recorder_of e) (sf_status e) (sf_skip_reason e)
  | FNonFatal l => NonFatalError l
  | FEngineFinished => EngineFinished
  | FOther => OtherEvent
  end.
(* what response.text raises for a non-empty payload, when it is not a UnicodeDecodeError of a known codec
   (that one is caught by every rule and shown as <BINARY>; CodecOk also covers the empty payload: <EMPTY>, no decode) *)
Inductive text_exn := ExLookup | ExUnicode | ExValue.
Definition text_exn_of (i : inter) : option text_exn :=
  if i_response i then
    match i_codec i with
    | CodecOk => None
    | CodecUnknown => Some ExLookup       (* LookupError: unknown encoding *)
    | CodecRaises => Some ExUnicode       (* UnicodeError that is not a UnicodeDecodeError: undefined encoding *)
    | CodecBadName => Some ExValue        (* ValueError: embedded null character *)
    end
  else None.
(* the except clause around response.text in format_failures *)
Definition catch_rule := text_exn -> bool.
(* NOW (22e8a9e1): except (UnicodeError, LookupError) *)
Definition catches_unicode_and_lookup : catch_rule := fun x => match x with ExValue => false | _ => true end.
(* BEFORE 22e8a9e1 (regression sentinel): except UnicodeDecodeError *)
Definition catches_decode_error_only : catch_rule := fun _ => false.
Definition text_raises_gen (c : catch_rule) (i : inter) : bool :=
  match text_exn_of i with Some x => negb (c x) | None => false end.
Definition text_raises : inter -> bool := text_raises_gen catches_unicode_and_lookup.
Definition bad_ids_gen (c : catch_rule) (e : sf_event) : list N := map i_id (filter (text_raises_gen c) (sf_inters e)).
Inductive abort := AbortKey (l : label) | AbortText (case_id : N).
Inductive jresult_ev := Aborted (a : abort) | RunningEv (s : stat) (t : tcases) (w : option tcases) (bad : list N).
Definition lift_ev (bad : list N) (r : jresult) : jresult_ev :=
  match r with Crash l => Aborted (AbortKey l) | Running s t w => RunningEv s t w bad end.

Definition junit_step_ev_c (c : catch_rule) (fwd : forward_rule) (s : stat) (t : tcases) (w : option tcases) (bad : list N) (e : fevent) : jresult_ev :=
  match e with
  | FScenario e' =>
    let bad1 := bad ++ bad_ids_gen c e' in
    if fwd e' then
      match sf_status e' with
      | StFailure =>
        let g := match dget (sf_rlabel e') (failures (on_scenario_finished s (recorder_of e'))) with Some g => g | None => [] end in
        match find (fun cg => mem (fst cg) bad1) g with
        | Some cg => Aborted (AbortText (fst cg))
        | None => lift_ev bad1 (junit_step false s t w (jevent_of e))
        end
      | _ => lift_ev bad1 (junit_step false s t w (jevent_of e))
      end
    else RunningEv (on_scenario_finished s (recorder_of e')) t w bad1
  | _ => lift_ev bad (junit_step false s t w (jevent_of e))
  end.
Fixpoint junit_from_ev_c (c : catch_rule) (fwd : forward_rule) (s : stat) (t : tcases) (w : option tcases) (bad : list N) (h : list fevent) : jresult_ev :=
  match h with
  | [] => RunningEv s t w bad
  | e :: h' =>
    match junit_step_ev_c c fwd s t w bad e with
    | Aborted a => Aborted a
    | RunningEv s1 t1 w1 bad1 => junit_from_ev_c c fwd s1 t1 w1 bad1 h'
    end
  end.
Definition junit_run_ev_c (c : catch_rule) (fwd : forward_rule) (h : list fevent) : jresult_ev := junit_from_ev_c c fwd stat0 [] None [] h.
(* the code as it is: the except clause of 22e8a9e1, every event forwarded *)
Definition junit_run_ev_gen (fwd : forward_rule) (h : list fevent) : jresult_ev := junit_run_ev_c catches_unicode_and_lookup fwd h.
Definition junit_run_ev : list fevent -> jresult_ev := junit_run_ev_gen forward_all.
(* sentinel: the handler with the except clause it had before 22e8a9e1 *)
Definition junit_run_ev_old : list fevent -> jresult_ev := junit_run_ev_c catches_decode_error_only forward_all.
(* region, per catch rule: no response text that could be rendered raises something the rule lets through *)
Definition texts_decodable_c (c : catch_rule) (h : list fevent) : bool :=
  forallb (fun e => match e with FScenario e => forallb (fun i => negb (text_raises_gen c i)) (sf_inters e) | _ => true end) h.
(* region of the code as it is: no response with a non-empty payload whose charset name carries a NUL character
   (unknown charsets and raising codecs are INSIDE since 22e8a9e1) *)
Definition texts_decodable : list fevent -> bool := texts_decodable_c catches_unicode_and_lookup.
(* region of the old handler: every charset is one Python decodes with (or fails with UnicodeDecodeError) *)
Definition texts_decodable_old : list fevent -> bool := texts_decodable_c catches_decode_error_only.
(* recorder labels of the FAILURE-status events, whatever their other attributes *)
Fixpoint failure_labels_ev (h : list fevent) : list label :=
  match h with
  | [] => []
  | FScenario e :: h' => match sf_status e with StFailure => sf_rlabel e :: failure_labels_ev h' | _ => failure_labels_ev h' end
  | _ :: h' => failure_labels_ev h'
  end.

(* region for the VCR writer over full events *)
Definition no_raising_codec_ev (h : list fevent) : bool :=
  forallb (fun e => match e with
                    | FScenario e => forallb (fun i => match i_codec i with CodecRaises | CodecBadName => false | _ => true end) (sf_inters e)
                    | _ => true end) h.
