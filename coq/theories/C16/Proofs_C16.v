From Coq Require Import List NArith Bool Lia ZifyBool Arith.
From Verif Require Import Common.Str C16.Model_C16.
Import ListNotations.
Open Scope N_scope.

(* ------------------------------------------------------------------ *)
(* hex digits                                                          *)
(* ------------------------------------------------------------------ *)
Lemma unhex_hexd d : d < 16 -> unhex (hexd d) = Some d.
Proof.
  intros H. unfold unhex, hexd.
  destruct (d <? 10) eqn:E.
  - replace ((48 <=? 48 + d) && (48 + d <=? 57)) with true by lia. f_equal; lia.
  - replace ((48 <=? 55 + d) && (55 + d <=? 57)) with false by lia.
    replace ((65 <=? 55 + d) && (55 + d <=? 70)) with true by lia. f_equal; lia.
Qed.

Lemma unhex_hexd_l d : d < 16 -> unhex (hexd_l d) = Some d.
Proof.
  intros H. unfold unhex, hexd_l.
  destruct (d <? 10) eqn:E.
  - replace ((48 <=? 48 + d) && (48 + d <=? 57)) with true by lia. f_equal; lia.
  - replace ((48 <=? 87 + d) && (87 + d <=? 57)) with false by lia.
    replace ((65 <=? 87 + d) && (87 + d <=? 70)) with false by lia.
    replace ((97 <=? 87 + d) && (87 + d <=? 102)) with true by lia. f_equal; lia.
Qed.

Lemma mod16 v : v mod 16 < 16.
Proof. apply N.mod_lt; discriminate. Qed.

Lemma hexval_hex2 c : c < 256 -> hexval (hex2 c) = Some c.
Proof.
  intros H. unfold hexval, hex2. cbn [hexval_aux].
  rewrite !unhex_hexd by apply mod16. f_equal.
  pose proof (N.div_mod' c 16). pose proof (mod16 c).
  assert (c / 16 < 16) by (apply N.div_lt_upper_bound; lia).
  rewrite (N.mod_small (c / 16) 16) by assumption. lia.
Qed.

Lemma digits4 c : c < 65536 ->
  16 * (16 * (16 * (16 * 0 + c / 4096 mod 16) + c / 256 mod 16) + c / 16 mod 16) + c mod 16 = c.
Proof.
  intros H.
  pose proof (N.div_mod' c 16) as E0. pose proof (mod16 c).
  pose proof (N.div_mod' (c / 16) 16) as E1. pose proof (mod16 (c / 16)).
  pose proof (N.div_mod' (c / 256) 16) as E2. pose proof (mod16 (c / 256)).
  rewrite !N.div_div in E1, E2 by discriminate.
  change (16 * 16) with 256 in *. change (256 * 16) with 4096 in *.
  assert (c / 4096 < 16) by (apply N.div_lt_upper_bound; lia).
  rewrite (N.mod_small (c / 4096) 16) by assumption.
  lia.
Qed.

Lemma hexval_hex4 c : c < 65536 -> hexval (hex4 c) = Some c.
Proof.
  intros H. unfold hexval, hex4. cbn [hexval_aux].
  rewrite !unhex_hexd by apply mod16. f_equal. apply digits4; exact H.
Qed.

Lemma hexval_hex4_l c : c < 65536 -> hexval (hex4_l c) = Some c.
Proof.
  intros H. unfold hexval, hex4_l. cbn [hexval_aux].
  rewrite !unhex_hexd_l by apply mod16. f_equal. apply digits4; exact H.
Qed.

Lemma hexval_hex8 c : c < 4294967296 -> hexval (hex8 c) = Some c.
Proof.
  intros H. unfold hexval, hex8. cbn [hexval_aux].
  rewrite !unhex_hexd by apply mod16. f_equal.
  pose proof (N.div_mod' c 16) as E0. pose proof (mod16 c).
  pose proof (N.div_mod' (c / 16) 16) as E1. pose proof (mod16 (c / 16)).
  pose proof (N.div_mod' (c / 256) 16) as E2. pose proof (mod16 (c / 256)).
  pose proof (N.div_mod' (c / 4096) 16) as E3. pose proof (mod16 (c / 4096)).
  pose proof (N.div_mod' (c / 65536) 16) as E4. pose proof (mod16 (c / 65536)).
  pose proof (N.div_mod' (c / 1048576) 16) as E5. pose proof (mod16 (c / 1048576)).
  pose proof (N.div_mod' (c / 16777216) 16) as E6. pose proof (mod16 (c / 16777216)).
  rewrite !N.div_div in E1, E2, E3, E4, E5, E6 by discriminate.
  change (16 * 16) with 256 in *. change (256 * 16) with 4096 in *. change (4096 * 16) with 65536 in *.
  change (65536 * 16) with 1048576 in *. change (1048576 * 16) with 16777216 in *.
  change (16777216 * 16) with 268435456 in *.
  assert (c / 268435456 < 16) by (apply N.div_lt_upper_bound; lia).
  rewrite (N.mod_small (c / 268435456) 16) by assumption.
  lia.
Qed.

Lemma hexd_ascii d : d < 16 -> (48 <= hexd d /\ hexd d <= 70).
Proof. intros H; unfold hexd; destruct (d <? 10) eqn:E; lia. Qed.

(* ------------------------------------------------------------------ *)
(* the double quoted decoder on the prefixes the escaper produces      *)
(* ------------------------------------------------------------------ *)
Lemma dq_body_lit strict c rest : dq_lit c = true ->
  dq_body strict (c :: rest) = option_map (cons c) (dq_body strict rest).
Proof.
  intros H0. pose proof H0 as H. unfold dq_lit in H.
  apply andb_true_iff in H; destruct H as [H Hb]. apply andb_true_iff in H; destruct H as [H Hq].
  apply negb_true_iff in Hb, Hq.
  cbn [dq_body]. rewrite Hq, Hb, H0. reflexivity.
Qed.

Lemma dq_body_tab strict e v rest : assoc e scan_tab = Some v ->
  dq_body strict (BS :: e :: rest) = option_map (cons v) (dq_body strict rest).
Proof.
  intros H. cbn [dq_body]. change (BS =? DQ) with false. change (BS =? BS) with true. cbv iota.
  rewrite H. reflexivity.
Qed.

Lemma dq_body_x strict h1 h2 rest :
  dq_body strict (BS :: 120 :: h1 :: h2 :: rest) = code strict [h1; h2] (dq_body strict rest).
Proof. reflexivity. Qed.
Lemma dq_body_u strict h1 h2 h3 h4 rest :
  dq_body strict (BS :: 117 :: h1 :: h2 :: h3 :: h4 :: rest) = code strict [h1; h2; h3; h4] (dq_body strict rest).
Proof. reflexivity. Qed.
Lemma dq_body_U strict h1 h2 h3 h4 h5 h6 h7 h8 rest :
  dq_body strict (BS :: 85 :: h1 :: h2 :: h3 :: h4 :: h5 :: h6 :: h7 :: h8 :: rest)
  = code strict [h1; h2; h3; h4; h5; h6; h7; h8] (dq_body strict rest).
Proof. reflexivity. Qed.

Lemma emit_scan_inverse c r : assoc c emit_tab = Some r -> assoc r scan_tab = Some c.
Proof.
  unfold emit_tab; cbn [assoc].
  repeat (destruct (N.eqb c _) eqn:?E;
          [apply N.eqb_eq in E; subst c; intros [= <-]; reflexivity | clear E]).
  discriminate.
Qed.

Lemma json_scan_inverse c r : assoc c json_tab = Some r -> assoc r scan_tab = Some c.
Proof.
  unfold json_tab; cbn [assoc].
  repeat (destruct (N.eqb c _) eqn:?E;
          [apply N.eqb_eq in E; subst c; intros [= <-]; reflexivity | clear E]).
  discriminate.
Qed.

Lemma not_escaped_is_lit c : needs_escape c = false -> dq_lit c = true.
Proof.
  unfold needs_escape, dq_lit, printable, is_break, mem, DQ, BS; cbn [existsb].
  intros H. lia.
Qed.

Definition code_allowed (strict : bool) (c : N) : bool := is_cp c && negb (strict && is_surrogate c).

Lemma dq_body_char strict c rest : code_allowed strict c = true ->
  dq_body strict (wdq_char c ++ rest) = option_map (cons c) (dq_body strict rest).
Proof.
  intros Hc. unfold wdq_char.
  destruct (needs_escape c) eqn:En.
  2:{ cbn [app]. apply dq_body_lit, not_escaped_is_lit, En. }
  unfold escape. destruct (assoc c emit_tab) as [r|] eqn:Et.
  - cbn [app]. apply dq_body_tab, emit_scan_inverse, Et.
  - assert (Hok : code_ok strict c = true) by exact Hc.
    destruct (c <=? 0xFF) eqn:E1; [|destruct (c <=? 0xFFFF) eqn:E2].
    + unfold hex2. cbn [app]. rewrite dq_body_x. unfold code.
      fold (hex2 c). rewrite hexval_hex2 by lia. rewrite Hok. reflexivity.
    + unfold hex4. cbn [app]. rewrite dq_body_u. unfold code.
      fold (hex4 c). rewrite hexval_hex4 by lia. rewrite Hok. reflexivity.
    + unfold hex8. cbn [app]. rewrite dq_body_U. unfold code.
      fold (hex8 c). rewrite hexval_hex8.
      * rewrite Hok. reflexivity.
      * unfold code_allowed, is_cp in Hc. lia.
Qed.

Lemma dq_body_wdq strict s : forallb (code_allowed strict) s = true ->
  dq_body strict (flat_map wdq_char s ++ [DQ]) = Some s.
Proof.
  induction s as [|c s IH]; intros H.
  - reflexivity.
  - cbn [forallb] in H; apply andb_true_iff in H; destruct H as [Hc Hs].
    cbn [flat_map]. rewrite <- app_assoc. rewrite dq_body_char by exact Hc.
    rewrite IH by exact Hs. reflexivity.
Qed.

Lemma allowed_pyyaml s : is_unicode s = true -> forallb (code_allowed false) s = true.
Proof.
  unfold is_unicode. intros H. rewrite forallb_forall in *. intros c Hin.
  unfold code_allowed. rewrite (H c Hin). reflexivity.
Qed.

Lemma allowed_strict s : is_unicode s = true -> no_surrogates s = true -> forallb (code_allowed true) s = true.
Proof.
  unfold is_unicode, no_surrogates. intros H1 H2. rewrite forallb_forall in *. intros c Hin.
  unfold code_allowed. pose proof (H2 c Hin) as H3. cbn beta in H3. rewrite (H1 c Hin). cbn [andb]. exact H3.
Qed.

Lemma dq_roundtrip s : is_unicode s = true -> yaml_dq_decode (write_double_quoted s) = Some s.
Proof.
  intros H. unfold yaml_dq_decode, yaml_dq_decode_gen, write_double_quoted.
  change (DQ =? DQ) with true. cbv iota. apply dq_body_wdq, allowed_pyyaml, H.
Qed.

Lemma dq_roundtrip_strict s : is_unicode s = true -> no_surrogates s = true ->
  yaml_dq_decode_strict (write_double_quoted s) = Some s.
Proof.
  intros H1 H2. unfold yaml_dq_decode_strict, yaml_dq_decode_gen, write_double_quoted.
  change (DQ =? DQ) with true. cbv iota. apply dq_body_wdq, allowed_strict; assumption.
Qed.

(* libyaml refuses the escape of a lone surrogate, although the emitter happily writes it *)
Lemma dq_roundtrip_strict_refuted :
  is_unicode [0xD800] = true /\ yaml_dq_decode_strict (write_double_quoted [0xD800]) = None.
Proof. split; vm_compute; reflexivity. Qed.

(* non-vacuity: a string over every class of code points *)
Definition nasty : str := [0; 9; 10; 13; 27; 32; 34; 39; 92; 0x7F; 0x85; 0xA0; 0xE9; 0x2028; 0x2029; 0xD7FF; 0xD800; 0xDFFF; 0xE000; 0xFEFF; 0xFFFD; 0xFFFE; 0xFFFF; 0x10000; 0x1F600; 0x10FFFF].
Example nasty_roundtrip : is_unicode nasty = true /\ yaml_dq_decode (write_double_quoted nasty) = Some nasty
  /\ length (write_double_quoted nasty) = 93%nat.
Proof. repeat split; vm_compute; reflexivity. Qed.

(* ------------------------------------------------------------------ *)
(* the output is one line of printable characters                      *)
(* ------------------------------------------------------------------ *)
Lemma hexd_safe d : d < 16 -> line_safe (hexd d) = true.
Proof. intros H. pose proof (hexd_ascii d H). unfold line_safe. lia. Qed.

Lemma emit_tab_safe c r : assoc c emit_tab = Some r -> line_safe r = true.
Proof.
  unfold emit_tab; cbn [assoc].
  repeat (destruct (N.eqb c _) eqn:?E; [intros [= <-]; reflexivity | clear E]).
  discriminate.
Qed.

Lemma wdq_char_safe c : forallb line_safe (wdq_char c) = true.
Proof.
  unfold wdq_char. destruct (needs_escape c) eqn:En.
  - unfold escape. destruct (assoc c emit_tab) as [r|] eqn:Et.
    + cbn [forallb]. rewrite (emit_tab_safe c r Et). reflexivity.
    + destruct (c <=? 0xFF); [|destruct (c <=? 0xFFFF)];
        unfold hex2, hex4, hex8; cbn [forallb]; rewrite !hexd_safe by apply mod16; reflexivity.
  - cbn [forallb]. rewrite andb_true_r.
    unfold needs_escape, mem in En; cbn [existsb] in En. unfold line_safe. lia.
Qed.

Lemma dq_single_line s : forallb line_safe (write_double_quoted s) = true.
Proof.
  unfold write_double_quoted. cbn [forallb]. change (line_safe DQ) with true. cbn [andb].
  rewrite forallb_app. cbn [forallb]. change (line_safe DQ) with true. rewrite !andb_true_r.
  induction s as [|c s IH]; [reflexivity|].
  cbn [flat_map]. rewrite forallb_app, wdq_char_safe, IH. reflexivity.
Qed.

Lemma line_safe_meaning c : line_safe c = true ->
  printable c = true /\ is_break c = false /\ (32 <= c) /\ c <> 0x7F /\ c <> 0xFEFF.
Proof.
  unfold line_safe, printable, is_break, mem; cbn [existsb]. intros H. repeat split; lia.
Qed.

(* the quotes inside the output are all escaped: the only unescaped double quotes are the delimiters.
   Stated through the decoder: any prefix cut of the body never closes the scalar early is implied by
   dq_roundtrip (the decoder demands that the closing quote is the last character). *)

(* ------------------------------------------------------------------ *)
(* single quoted concatenation sites                                   *)
(* ------------------------------------------------------------------ *)
Lemma sq_body_len l : forall r, sq_body l = Some r -> (length r < length l)%nat.
Proof.
  induction l as [l IH] using (well_founded_induction (Wf_nat.well_founded_ltof _ (@length N))).
  unfold ltof in IH. intros r H. destruct l as [|c rest]; [discriminate|].
  cbn [sq_body] in H. destruct (c =? SQ).
  - destruct rest as [|d rest'].
    + injection H as <-. cbn. lia.
    + destruct (d =? SQ); [|discriminate].
      destruct (sq_body rest') as [r'|] eqn:E; [|discriminate].
      injection H as <-. apply IH in E; cbn in *; lia.
  - destruct (sq_lit c); [|discriminate].
    destruct (sq_body rest) as [r'|] eqn:E; [|discriminate].
    injection H as <-. apply IH in E; cbn in *; lia.
Qed.

Lemma sq_lit_not_quote c : sq_lit c = true -> (c =? SQ) = false.
Proof. unfold sq_lit. intros H. apply andb_true_iff in H. destruct H as [_ H]. apply negb_true_iff in H. exact H. Qed.

Lemma sq_body_free s : sq_free s = true -> sq_body (s ++ [SQ]) = Some s.
Proof.
  induction s as [|c s IH]; intros H; [reflexivity|].
  cbn [sq_free forallb] in H. apply andb_true_iff in H; destruct H as [Hc Hs].
  cbn [app sq_body]. rewrite (sq_lit_not_quote c Hc), Hc. fold (sq_free s) in Hs. rewrite IH by exact Hs. reflexivity.
Qed.

Lemma sq_body_only_free s : sq_body (s ++ [SQ]) = Some s -> sq_free s = true.
Proof.
  induction s as [|c s IH]; intros H; [reflexivity|].
  cbn [app sq_body] in H. destruct (c =? SQ) eqn:Eq.
  - exfalso. destruct s as [|d s'].
    + cbn [app] in H. change (SQ =? SQ) with true in H. cbn in H. discriminate.
    + cbn [app] in H. destruct (d =? SQ); [|discriminate].
      destruct (sq_body (s' ++ [SQ])) as [r|] eqn:E; [|discriminate].
      apply sq_body_len in E. injection H as Hc Hr. subst r. rewrite app_length in E. cbn in E. lia.
  - destruct (sq_lit c) eqn:El; [|discriminate].
    destruct (sq_body (s ++ [SQ])) as [r|] eqn:E; [|discriminate].
    injection H as ->. cbn [sq_free forallb]. rewrite El. apply IH. reflexivity.
Qed.

Lemma sq_valid_iff s : yaml_sq_decode (emit_sq s) = Some s <-> sq_free s = true.
Proof.
  unfold yaml_sq_decode, emit_sq. change (SQ =? SQ) with true. cbv iota.
  split; [apply sq_body_only_free | apply sq_body_free].
Qed.

(* http://h/users(QUOTE1QUOTE) : an OData style path template *)
Definition url_with_quote : str :=
  [104;116;116;112;58;47;47;104;47;117;115;101;114;115;40;39;49;39;41].
Lemma sq_refuted : is_unicode url_with_quote = true /\ forallb line_safe url_with_quote = true
  /\ yaml_sq_decode (emit_sq url_with_quote) = None.
Proof. repeat split; vm_compute; reflexivity. Qed.
(* and a doubled quote silently decodes to a different string *)
Lemma sq_refuted_silent : yaml_sq_decode (emit_sq [97; 39; 39; 98]) = Some [97; 39; 98].
Proof. vm_compute; reflexivity. Qed.
Example sq_nonvacuous : sq_free [104;116;116;112;58;47;47;104;47;63;113;61;34;92;37;50;55] = true.
Proof. vm_compute; reflexivity. Qed.

(* ---- the sites that double the quote (commit 059139b3): uri, command, encoding ---- *)
Lemma sq_body_escaped s : sq_body (escape_sq s ++ [SQ]) = if one_line s then Some s else None.
Proof.
  unfold escape_sq, replace_char. induction s as [|c s IH]; [reflexivity|].
  cbn [flat_map one_line forallb]. destruct (N.eqb c SQ) eqn:Ec.
  - apply N.eqb_eq in Ec. subst c. cbn [app sq_body]. change (SQ =? SQ) with true. cbv iota.
    rewrite IH. change (one_line_char SQ) with true. cbn [andb]. fold (one_line s). destruct (one_line s); reflexivity.
  - cbn [app sq_body]. change (c =? SQ) with (N.eqb c SQ). rewrite Ec.
    replace (sq_lit c) with (one_line_char c) by (unfold sq_lit, one_line_char; change (c =? SQ) with (N.eqb c SQ); rewrite Ec; rewrite andb_true_r; reflexivity).
    rewrite IH. fold (one_line s). destruct (one_line_char c), (one_line s); reflexivity.
Qed.

Lemma sq_escaped_decode s : yaml_sq_decode (emit_sq_escaped s) = if one_line s then Some s else None.
Proof. unfold yaml_sq_decode, emit_sq_escaped. change (SQ =? SQ) with true. cbv iota. apply sq_body_escaped. Qed.

Lemma sq_escaped_valid_iff s : yaml_sq_decode (emit_sq_escaped s) = Some s <-> one_line s = true.
Proof. rewrite sq_escaped_decode. destruct (one_line s); split; congruence. Qed.

(* the raw rule (before the fix) against the escaping rule on the same values *)
Lemma sq_raw_rule_refuted :
  one_line url_with_quote = true
  /\ yaml_sq_decode (emit_sq url_with_quote) = None
  /\ yaml_sq_decode (emit_sq [97; 39; 39; 98]) = Some [97; 39; 98]
  /\ yaml_sq_decode (emit_sq_escaped url_with_quote) = Some url_with_quote
  /\ yaml_sq_decode (emit_sq_escaped [39; 97; 39; 39; 98; 39]) = Some [39; 97; 39; 39; 98; 39].
Proof. repeat split; vm_compute; reflexivity. Qed.

(* what is left: a value with an unprintable character or a line break (charset a DEL b with --report-preserve-bytes) *)
Lemma sq_escaped_refuted : is_unicode [97; 127; 98] = true /\ yaml_sq_decode (emit_sq_escaped [97; 127; 98]) = None.
Proof. split; vm_compute; reflexivity. Qed.

(* header names between raw double quotes *)
Lemma dq_raw_body s : dq_raw_free s = true -> dq_body false (s ++ [DQ]) = Some s.
Proof.
  induction s as [|c s IH]; intros H; [reflexivity|].
  cbn [dq_raw_free forallb] in H. apply andb_true_iff in H; destruct H as [Hc Hs].
  cbn [app]. rewrite dq_body_lit by exact Hc. fold (dq_raw_free s) in Hs. rewrite IH by exact Hs. reflexivity.
Qed.
Lemma dq_raw_valid s : dq_raw_free s = true -> yaml_dq_decode (emit_dq_raw s) = Some s.
Proof.
  intros H. unfold yaml_dq_decode, yaml_dq_decode_gen, emit_dq_raw. change (DQ =? DQ) with true. cbv iota.
  apply dq_raw_body, H.
Qed.
(* X-A then a double quote then x: not a scalar.  A backslash then n: a different name *)
Lemma dq_raw_refuted : yaml_dq_decode (emit_dq_raw [88;45;65;34;120]) = None
  /\ yaml_dq_decode (emit_dq_raw [92; 110]) = Some [10].
Proof. split; vm_compute; reflexivity. Qed.

(* meta is None *)
Lemma meta_tail : sq_line_ok (status_line_tail MetaNone) = false
  /\ sq_line_ok (status_line_tail MetaFuzzing) = true /\ sq_line_ok (status_line_tail MetaCoverage) = true.
Proof. repeat split. Qed.

(* ------------------------------------------------------------------ *)
(* json.dumps sites read back as YAML double quoted scalars            *)
(* ------------------------------------------------------------------ *)
Lemma json_char_body c rest : c < 0x10000 ->
  dq_body false (json_char c ++ rest) = option_map (cons c) (dq_body false rest).
Proof.
  intros Hc. unfold json_char. destruct (assoc c json_tab) as [r|] eqn:Et.
  - cbn [app]. apply dq_body_tab, json_scan_inverse, Et.
  - destruct ((0x20 <=? c) && (c <=? 0x7E)) eqn:E1.
    + cbn [app]. apply dq_body_lit.
      unfold json_tab in Et; cbn [assoc] in Et.
      destruct (c =? 34) eqn:E34; [discriminate|]. destruct (c =? 92) eqn:E92; [discriminate|].
      unfold dq_lit, printable, is_break, mem, DQ, BS; cbn [existsb]. lia.
    + replace (c <? 0x10000) with true by lia.
      unfold hex4_l. cbn [app]. rewrite dq_body_u. unfold code. fold (hex4_l c).
      rewrite hexval_hex4_l by lia.
      replace (code_ok false c) with true by (unfold code_ok, is_cp; cbn [andb]; lia). reflexivity.
Qed.

Lemma json_roundtrip s : is_bmp s = true -> yaml_dq_decode (json_dumps s) = Some s.
Proof.
  intros H. unfold yaml_dq_decode, yaml_dq_decode_gen, json_dumps. change (DQ =? DQ) with true. cbv iota.
  induction s as [|c s IH]; [reflexivity|].
  cbn [is_bmp forallb] in H. apply andb_true_iff in H; destruct H as [Hc Hs].
  cbn [flat_map]. rewrite <- app_assoc. rewrite json_char_body by lia.
  fold (is_bmp s) in Hs. rewrite IH by exact Hs. reflexivity.
Qed.

(* an astral character comes back as two lone surrogates (PyYAML) or not at all (libyaml) *)
Lemma json_refuted : yaml_dq_decode (json_dumps [0x1F600]) = Some [0xD83D; 0xDE00]
  /\ yaml_dq_decode_strict (json_dumps [0x1F600]) = None.
Proof. split; vm_compute; reflexivity. Qed.
Example json_nonvacuous : is_bmp [0; 9; 34; 92; 0x7F; 0x85; 0xE9; 0xFF; 0x2028; 0xFEFF] = true
  /\ yaml_dq_decode (json_dumps [0; 9; 34; 92; 0x7F; 0x85; 0xE9; 0xFF; 0x2028; 0xFEFF]) = Some [0; 9; 34; 92; 0x7F; 0x85; 0xE9; 0xFF; 0x2028; 0xFEFF].
Proof. split; vm_compute; reflexivity. Qed.

(* ------------------------------------------------------------------ *)
(* Part 3: every delivered interaction is written exactly once         *)
(* ------------------------------------------------------------------ *)
Section WriterProofs.
Variable raises : wconf -> inter -> bool.

Lemma write_entries_ok w ints : forall out,
  forallb (fun i => negb (raises w i)) ints = true ->
  write_entries_gen raises w ints out = (out ++ complete (map i_id ints), true).
Proof.
  induction ints as [|i ints IH]; intros out H.
  - cbn. rewrite app_nil_r. reflexivity.
  - cbn [forallb] in H. apply andb_true_iff in H; destruct H as [Hi Hs]. apply negb_true_iff in Hi.
    cbn [write_entries_gen map complete]. rewrite Hi. rewrite IH by exact Hs. rewrite <- app_assoc. reflexivity.
Qed.

(* what one scenario adds: ids of a prefix of its interactions; the whole of it when no entry raised *)
Lemma write_entries_prefix w ints : forall out,
  exists done rest, fst (write_entries_gen raises w ints out) = out ++ done /\ map i_id ints = map fst done ++ rest
    /\ (snd (write_entries_gen raises w ints out) = true -> rest = []).
Proof.
  induction ints as [|i ints IH]; intros out.
  - exists [], []. cbn. rewrite app_nil_r. repeat split.
  - cbn [write_entries_gen]. destruct (raises w i).
    + unfold truncated_entry. destruct (w_fmt w).
      * exists [(i_id i, false)], (map i_id ints). cbn. repeat split. discriminate.
      * exists [], (map i_id (i :: ints)). cbn. rewrite app_nil_r. repeat split. discriminate.
    + destruct (IH (out ++ [(i_id i, true)])) as (done & rest & Hd & Hr & Hok).
      exists ((i_id i, true) :: done), rest. rewrite Hd, <- app_assoc. repeat split.
      * cbn [map fst app]. rewrite Hr. reflexivity.
      * exact Hok.
Qed.

Definition qprocs (h : list cevent) : list qmsg :=
  flat_map (fun e => match e with CScenario ints => [QProcess ints] | COther => [] end) h.

Lemma complete_app a b : complete (a ++ b) = complete a ++ complete b.
Proof. unfold complete. apply map_app. Qed.

Lemma writer_loop_ok w h : forall out, no_entry_raises_gen raises w h = true ->
  writer_loop_gen raises w (qprocs h ++ [QFinalize]) out = (out ++ complete (delivered h), Closed).
Proof.
  induction h as [|e h IH]; intros out H.
  - cbn. rewrite app_nil_r. reflexivity.
  - cbn [no_entry_raises_gen forallb] in H. apply andb_true_iff in H; destruct H as [He Hh].
    destruct e as [ints|].
    + cbn [qprocs flat_map app writer_loop_gen delivered]. rewrite write_entries_ok by exact He.
      fold (qprocs h). fold (delivered h). rewrite IH by exact Hh. rewrite complete_app, <- app_assoc. reflexivity.
    + cbn [qprocs flat_map app delivered]. fold (qprocs h). fold (delivered h). apply IH, Hh.
Qed.

Lemma each_interaction_once w h : no_entry_raises_gen raises w h = true -> written_gen raises w h = (complete (delivered h), Closed).
Proof.
  intros H. unfold written_gen, cassette_queue. cbn [writer_loop_gen]. fold (qprocs h).
  rewrite writer_loop_ok by exact H. reflexivity.
Qed.

Lemma writer_loop_prefix w h : forall out,
  exists done rest, fst (writer_loop_gen raises w (qprocs h ++ [QFinalize]) out) = out ++ done /\ delivered h = map fst done ++ rest.
Proof.
  induction h as [|e h IH]; intros out.
  - exists [], []. cbn. rewrite app_nil_r. split; reflexivity.
  - destruct e as [ints|].
    + cbn [qprocs flat_map app writer_loop_gen delivered]. fold (qprocs h). fold (delivered h).
      destruct (write_entries_prefix w ints out) as (d1 & r1 & Hd1 & Hr1 & Hok).
      destruct (write_entries_gen raises w ints out) as [out1 ok] eqn:E. cbn [fst snd] in Hd1, Hok. subst out1.
      destruct ok.
      * rewrite (Hok eq_refl), app_nil_r in Hr1.
        destruct (IH (out ++ d1)) as (d2 & r2 & Hd2 & Hr2).
        exists (d1 ++ d2), r2. rewrite Hd2, <- app_assoc. split; [reflexivity|].
        rewrite Hr1, Hr2, map_app, app_assoc. reflexivity.
      * exists d1, (r1 ++ delivered h). cbn [fst]. split; [reflexivity|]. rewrite Hr1, app_assoc. reflexivity.
    + cbn [qprocs flat_map app delivered]. fold (qprocs h). fold (delivered h). apply IH.
Qed.

(* whatever happens nothing is invented, duplicated or reordered: the ids in the file are a prefix of what was delivered *)
Lemma written_is_prefix w h : exists rest, delivered h = map fst (fst (written_gen raises w h)) ++ rest.
Proof.
  unfold written_gen, cassette_queue. cbn [writer_loop_gen]. fold (qprocs h).
  destruct (writer_loop_prefix w h []) as (done & rest & Hd & Hr).
  rewrite Hd. cbn [app]. exists rest. exact Hr.
Qed.

End WriterProofs.

Definition har_sanitized : wconf := {| w_fmt := HAR; w_sanitize := true; w_preserve := false |}.
Definition vcr_default : wconf := {| w_fmt := VCR; w_sanitize := true; w_preserve := false |}.
Definition i_plain (n : N) : inter := {| i_id := n; i_userinfo := false; i_response := true; i_codec := CodecOk; i_cookie_values := [] |}.
Definition i_user (n : N) : inter := {| i_id := n; i_userinfo := true; i_response := true; i_codec := CodecOk; i_cookie_values := [] |}.
Definition i_bogus (n : N) : inter := {| i_id := n; i_userinfo := false; i_response := true; i_codec := CodecUnknown; i_cookie_values := [] |}.
Definition i_undefined (n : N) : inter := {| i_id := n; i_userinfo := false; i_response := true; i_codec := CodecRaises; i_cookie_values := [] |}.

Lemma each_interaction_once_now w h : no_entry_raises w h = true -> written w h = (complete (delivered h), Closed).
Proof. apply each_interaction_once. Qed.

Lemma written_is_prefix_now w h : exists rest, delivered h = map fst (fst (written w h)) ++ rest.
Proof. apply written_is_prefix. Qed.

(* HAR: _extract_cookies hands SimpleCookie one character at a time, and a one-character string is never a
   key=value pair: no CookieError, whatever the Cookie header holds *)
Lemma pieces_now_never_raise v : existsb cookie_error (pieces_now v) = false.
Proof.
  unfold pieces_now. induction v as [|c v IH]; [reflexivity|].
  cbn [map existsb]. rewrite IH. reflexivity.
Qed.
Lemma cookies_never_raise vs : existsb cookie_error (flat_map pieces_now vs) = false.
Proof.
  induction vs as [|v vs IH]; [reflexivity|].
  cbn [flat_map]. rewrite existsb_app, pieces_now_never_raise, IH. reflexivity.
Qed.
Lemma har_entry_never_raises san pres i : entry_raises {| w_fmt := HAR; w_sanitize := san; w_preserve := pres |} i = false.
Proof. unfold entry_raises. cbn [w_fmt w_sanitize]. apply cookies_never_raise. Qed.

Lemma har_never_raises san pres h : no_entry_raises {| w_fmt := HAR; w_sanitize := san; w_preserve := pres |} h = true.
Proof.
  unfold no_entry_raises, no_entry_raises_gen. apply forallb_forall. intros e _. destruct e as [ints|]; [|reflexivity].
  apply forallb_forall. intros i _. rewrite har_entry_never_raises. reflexivity.
Qed.
Lemma once_har san pres h :
  written {| w_fmt := HAR; w_sanitize := san; w_preserve := pres |} h = (complete (delivered h), Closed).
Proof. apply each_interaction_once_now, har_never_raises. Qed.

(* ... and the HAR cookies lists are always empty *)
Lemma har_cookies_empty name d : har_cookies name d = [].
Proof.
  unfold har_cookies. destruct (hget name d) as [vs|]; [|reflexivity].
  induction vs as [|v vs IH]; [reflexivity|]. cbn [flat_map]. rewrite IH, app_nil_r.
  induction v as [|c v IHv]; [reflexivity | exact IHv].
Qed.

(* sentinel: were the comprehension repaired to iterate over the header values, a cookie named tenant/id
   (sanitization off) would kill the HAR writer unless CookieError is caught; with sanitization on it would not *)
Definition c_tenant : str := [116;101;110;97;110;116;47;105;100;61;49].     (* tenant/id=1 *)
Definition i_cookie (n : N) (v : str) : inter :=
  {| i_id := n; i_userinfo := false; i_response := true; i_codec := CodecOk; i_cookie_values := [v] |}.
Lemma whole_value_cookies_would_raise :
  written_whole {| w_fmt := HAR; w_sanitize := false; w_preserve := false |} [CScenario [i_plain 1; i_cookie 2 c_tenant; i_plain 3]] = ([(1, true)], Died)
  /\ written_whole {| w_fmt := HAR; w_sanitize := true; w_preserve := false |} [CScenario [i_plain 1; i_cookie 2 c_tenant; i_plain 3]] = (complete [1; 2; 3], Closed)
  /\ written {| w_fmt := HAR; w_sanitize := false; w_preserve := false |} [CScenario [i_plain 1; i_cookie 2 c_tenant; i_plain 3]] = (complete [1; 2; 3], Closed).
Proof. repeat split; vm_compute; reflexivity. Qed.

(* VCR: a charset Python does not know is harmless now *)
Definition no_raising_codec (h : list cevent) : bool :=
  forallb (fun e => match e with CScenario ints => forallb (fun i => match i_codec i with CodecRaises | CodecBadName => false | _ => true end) ints | COther => true end) h.
Lemma vcr_no_raising_codec san pres h : no_raising_codec h = true ->
  no_entry_raises {| w_fmt := VCR; w_sanitize := san; w_preserve := pres |} h = true.
Proof.
  unfold no_raising_codec, no_entry_raises, no_entry_raises_gen. intros H. rewrite forallb_forall in *. intros e He.
  specialize (H e He). destruct e as [ints|]; [|reflexivity]. rewrite forallb_forall in *. intros i Hi.
  specialize (H i Hi). unfold entry_raises. cbn [w_fmt w_preserve]. destruct (i_codec i); try discriminate; rewrite ?andb_false_r; reflexivity.
Qed.
Lemma once_vcr san pres h : no_raising_codec h = true ->
  written {| w_fmt := VCR; w_sanitize := san; w_preserve := pres |} h = (complete (delivered h), Closed).
Proof. intros H. apply each_interaction_once_now, vcr_no_raising_codec, H. Qed.

(* what is left: a codec that exists and raises (charset=undefined) *)
Lemma once_refuted_vcr : delivered [CScenario [i_plain 1; i_undefined 2; i_plain 3]] = [1; 2; 3]
  /\ written vcr_default [CScenario [i_plain 1; i_undefined 2; i_plain 3]] = ([(1, true); (2, false)], Died).
Proof. split; reflexivity. Qed.
Example once_nonvacuous : no_raising_codec [CScenario [i_user 1; i_bogus 2]; COther; CScenario []; CScenario [i_plain 3]] = true
  /\ written vcr_default [CScenario [i_user 1; i_bogus 2]; COther; CScenario []; CScenario [i_plain 3]] = (complete [1; 2; 3], Closed)
  /\ written har_sanitized [CScenario [i_user 1; i_bogus 2]; COther; CScenario []; CScenario [i_plain 3]] = (complete [1; 2; 3], Closed).
Proof. repeat split; reflexivity. Qed.

(* regression sentinels: the writers before commits 8fd7266e and ad7dc72b lost exchanges on these histories *)
Lemma old_writers_lost : written_old har_sanitized [CScenario [i_user 1]; CScenario [i_plain 2]] = ([], Died)
  /\ written har_sanitized [CScenario [i_user 1]; CScenario [i_plain 2]] = (complete [1; 2], Closed)
  /\ written_old vcr_default [CScenario [i_plain 1; i_bogus 2; i_plain 3]] = ([(1, true); (2, false)], Died)
  /\ written vcr_default [CScenario [i_plain 1; i_bogus 2; i_plain 3]] = (complete [1; 2; 3], Closed).
Proof. repeat split; reflexivity. Qed.

(* ------------------------------------------------------------------ *)
(* Part 2: the JUnit handler crashes exactly outside the region        *)
(* ------------------------------------------------------------------ *)
Lemma mem_app c a b : mem c (a ++ b) = mem c a || mem c b.
Proof. unfold mem. apply existsb_app. Qed.

Lemma dget_dset_same {A} k (v : A) d : dget k (dset k v d) = Some v.
Proof.
  induction d as [|[a w] d IH]; cbn [dset dget].
  - rewrite N.eqb_refl. reflexivity.
  - destruct (N.eqb k a) eqn:E; cbn [dget]; rewrite E; [reflexivity | exact IH].
Qed.

Lemma dget_dset_other {A} k k' (v : A) d : k' <> k -> dget k' (dset k v d) = dget k' d.
Proof.
  intros Hne. induction d as [|[a w] d IH]; cbn [dset dget].
  - apply N.eqb_neq in Hne. rewrite Hne. reflexivity.
  - destruct (N.eqb k a) eqn:E; cbn [dget].
    + apply N.eqb_eq in E; subst a. apply N.eqb_neq in Hne. rewrite Hne. reflexivity.
    + rewrite IH. reflexivity.
Qed.

Lemma dset_not_nil {A} k (v : A) d : dset k v d <> [].
Proof. destruct d as [|[a w] d]; cbn [dset]; [discriminate | destruct (N.eqb k a); discriminate]. Qed.

Definition fresh_in (uniq : list fkey) (fs : list fkey) : bool := existsb (fun f => negb (mem f uniq)) fs.

Lemma fresh_in_ext u1 u2 fs : (forall f, mem f u1 = mem f u2) -> fresh_in u1 fs = fresh_in u2 fs.
Proof.
  intros H. unfold fresh_in. induction fs as [|f fs IH]; [reflexivity|].
  cbn [existsb]. rewrite H, IH. reflexivity.
Qed.

Lemma fresh_in_app u a b : fresh_in u (a ++ b) = fresh_in u a || fresh_in u b.
Proof. unfold fresh_in. apply existsb_app. Qed.

(* scan_checks: membership of the new unique list; the batch is empty iff nothing was fresh *)
Lemma scan_checks_spec checks : forall uniq cur uniq1 cur1,
  scan_checks checks uniq cur = (uniq1, cur1) ->
  (forall f, mem f uniq1 = mem f uniq || mem f (case_failed checks))
  /\ (cur1 = [] <-> cur = [] /\ fresh_in uniq (case_failed checks) = false).
Proof.
  induction checks as [|[f|] cs IH]; intros uniq cur uniq1 cur1 H.
  - cbn in H. injection H as <- <-. split.
    + intros f. cbn. rewrite orb_false_r. reflexivity.
    + cbn. tauto.
  - cbn [scan_checks case_failed] in *. destruct (mem f uniq) eqn:Em.
    + apply IH in H. destruct H as [H1 H2]. split.
      * intros g. rewrite H1. cbn [mem existsb]. fold (mem g (case_failed cs)).
        destruct (N.eqb g f) eqn:Eg; [|reflexivity].
        apply N.eqb_eq in Eg; subst g. rewrite Em. reflexivity.
      * rewrite H2. unfold fresh_in. cbn [existsb]. rewrite Em. cbn [negb orb]. tauto.
    + apply IH in H. destruct H as [H1 H2]. split.
      * intros g. rewrite H1. rewrite mem_app. cbn [mem existsb]. fold (mem g (case_failed cs)).
        rewrite orb_false_r. rewrite <- orb_assoc. reflexivity.
      * rewrite H2. unfold fresh_in at 2. cbn [existsb]. rewrite Em. cbn [negb orb].
        split; [intros [Hc _]; destruct cur; discriminate | intros [_ Hc]; discriminate].
  - cbn [scan_checks case_failed] in *. apply IH in H. exact H.
Qed.

Definition cases_failed (cases : list case_rec) : list fkey := flat_map (fun c => case_failed (c_checks c)) cases.

Lemma scan_cases_spec cases : forall uniq fl uniq1 fl1,
  scan_cases cases uniq fl = (uniq1, fl1) ->
  (forall f, mem f uniq1 = mem f uniq || mem f (cases_failed cases))
  /\ (fl1 = [] <-> fl = [] /\ fresh_in uniq (cases_failed cases) = false).
Proof.
  induction cases as [|c cs IH]; intros uniq fl uniq1 fl1 H.
  - cbn in H. injection H as <- <-. split.
    + intros f. cbn. rewrite orb_false_r. reflexivity.
    + cbn. tauto.
  - cbn [scan_cases] in H. cbn [cases_failed flat_map]. fold (cases_failed cs).
    destruct (c_checks c) as [|ch chs] eqn:Ec.
    + apply IH in H. cbn [case_failed app]. exact H.
    + rewrite <- Ec in *. clear Ec ch chs.
      destruct (scan_checks (c_checks c) uniq []) as [uniqA cur] eqn:Es.
      apply scan_checks_spec in Es. destruct Es as [Hm Hc].
      assert (Hcur : cur = [] <-> fresh_in uniq (case_failed (c_checks c)) = false) by tauto.
      destruct cur as [|x cur].
      * apply IH in H. destruct H as [H1 H2]. split.
        -- intros f. rewrite H1, Hm, mem_app, orb_assoc. reflexivity.
        -- rewrite H2, fresh_in_app.
           assert (Hf : fresh_in uniq (case_failed (c_checks c)) = false) by (apply Hcur; reflexivity).
           rewrite Hf. cbn [orb].
           (* nothing fresh in this case: uniqA has the same members as uniq *)
           assert (Hext : forall f, mem f uniqA = mem f uniq).
           { intros f. rewrite Hm. destruct (mem f uniq) eqn:E1; [reflexivity|]. cbn [orb].
             destruct (mem f (case_failed (c_checks c))) eqn:E2; [|reflexivity].
             exfalso. unfold fresh_in in Hf. rewrite <- not_true_iff_false in Hf. apply Hf.
             apply existsb_exists. exists f. split; [apply mem_spec; exact E2 | rewrite E1; reflexivity]. }
           rewrite (fresh_in_ext uniqA uniq _ Hext). tauto.
      * apply IH in H. destruct H as [H1 H2]. split.
        -- intros f. rewrite H1, Hm, mem_app, orb_assoc. reflexivity.
        -- rewrite H2, fresh_in_app.
           assert (Hf : fresh_in uniq (case_failed (c_checks c)) = true).
           { destruct (fresh_in uniq (case_failed (c_checks c))); [reflexivity|].
             assert (x :: cur = []) by (apply Hcur; reflexivity). discriminate. }
           rewrite Hf. cbn [orb].
           split; [intros [Hd _]; exfalso; exact (dset_not_nil _ _ _ Hd) | intros [_ Hd]; discriminate].
Qed.

Definition present (l : label) (s : stat) : bool :=
  match dget l (failures s) with Some _ => true | None => false end.

Definition Inv (s : stat) (seen : list fkey) (known : list label) : Prop :=
  (forall f, mem f (unique s) = mem f seen)
  /\ (forall l, present l s = mem l known)
  /\ (forall l g, dget l (failures s) = Some g -> g <> []).

Lemma inv0 : Inv stat0 [] [].
Proof. repeat split; intros; cbn in *; try reflexivity; discriminate. Qed.

Lemma has_fresh_ext seen uniq r : (forall f, mem f uniq = mem f seen) ->
  has_fresh seen r = fresh_in uniq (cases_failed (r_cases r)).
Proof. intros H. unfold has_fresh, failed_keys. symmetry. apply (fresh_in_ext uniq seen _ H). Qed.

Lemma inv_step s seen known r : Inv s seen known ->
  Inv (on_scenario_finished s r) (seen ++ failed_keys r)
      (if has_fresh seen r then r_label r :: known else known).
Proof.
  intros (I1 & I2 & I3). unfold on_scenario_finished.
  destruct (scan_cases (r_cases r) (unique s)
             match dget (r_label r) (failures s) with Some g => g | None => [] end) as [uniq1 fl1] eqn:Es.
  apply scan_cases_spec in Es. destruct Es as [Hm Hfl].
  rewrite (has_fresh_ext seen (unique s) r I1).
  split; [|split].
  - intros f. cbn [unique]. rewrite Hm, mem_app, I1. reflexivity.
  - intros l. unfold present. cbn [failures].
    destruct fl1 as [|g1 fl1].
    + (* nothing stored: the label was absent and nothing was fresh *)
      destruct Hfl as [Hfl _]. destruct (Hfl eq_refl) as [_ Hfr]. rewrite Hfr. apply I2.
    + destruct (N.eq_dec l (r_label r)) as [->|Hne].
      * rewrite dget_dset_same.
        destruct (fresh_in (unique s) (cases_failed (r_cases r))) eqn:Hfr.
        -- cbn [mem existsb]. rewrite N.eqb_refl. reflexivity.
        -- (* not fresh, yet stored: the label was present already *)
           destruct (dget (r_label r) (failures s)) as [g|] eqn:Eg.
           ++ rewrite <- I2. unfold present. rewrite Eg. reflexivity.
           ++ exfalso. destruct Hfl as [_ Hfl]. assert (g1 :: fl1 = []) by (apply Hfl; split; reflexivity). discriminate.
      * rewrite dget_dset_other by exact Hne.
        fold (present l s). rewrite I2.
        destruct (fresh_in (unique s) (cases_failed (r_cases r))); [|reflexivity].
        cbn [mem existsb]. apply N.eqb_neq in Hne. rewrite Hne. reflexivity.
  - intros l g. cbn [failures]. destruct fl1 as [|g1 fl1]; [apply I3|].
    destruct (N.eq_dec l (r_label r)) as [->|Hne].
    + rewrite dget_dset_same. intros [= <-]. discriminate.
    + rewrite dget_dset_other by exact Hne. apply I3.
Qed.

Definition crashes_from (s : stat) (t : tcases) (w : option tcases) (h : list event) : bool :=
  match junit_from true s t w h with Crash _ => true | Running _ _ _ => false end.

Lemma junit_crash_iff h : forall s t w seen known, Inv s seen known ->
  crashes_from s t w h = negb (fresh_or_known_from seen known h).
Proof.
  induction h as [|e h IH]; intros s t w seen known HI; [reflexivity|].
  unfold crashes_from in *. cbn [junit_from fresh_or_known_from].
  destruct e as [r st reason | l | | ].
  - pose proof (inv_step s seen known r HI) as HI'.
    set (known' := if has_fresh seen r then r_label r :: known else known) in *.
    destruct HI' as (J1 & J2 & J3).
    assert (HJ : Inv (on_scenario_finished s r) (seen ++ failed_keys r) known') by (repeat split; assumption).
    cbn [junit_step].
    destruct st; try (cbn [andb]; rewrite (IH _ _ _ _ _ HJ); reflexivity).
    + (* FAILURE *)
      specialize (J2 (r_label r)). unfold present in J2.
      destruct (dget (r_label r) (failures (on_scenario_finished s r))) as [g|] eqn:Eg.
      * rewrite <- J2. cbn [andb]. apply IH. exact HJ.
      * rewrite <- J2. reflexivity.
    + (* SKIP *)
      destruct reason; cbn [andb]; apply IH; exact HJ.
  - cbn [junit_step]. apply IH. exact HI.
  - cbn [junit_step]. apply IH. exact HI.
  - cbn [junit_step]. apply IH. exact HI.
Qed.

Lemma junit_crashes_iff h : junit_crashes_old h = negb (fresh_failure_or_known_label h).
Proof. apply (junit_crash_iff h stat0 [] None [] [] inv0). Qed.

Lemma junit_partial h : fresh_failure_or_known_label h = true ->
  exists s t w, junit_run_old h = Running s t w.
Proof.
  intros H. pose proof (junit_crashes_iff h) as Hc. rewrite H in Hc. unfold junit_crashes_old in Hc.
  destruct (junit_run_old h) as [l|s t w]; [discriminate|]. eauto.
Qed.

(* ---- the handler as it is now ---- *)
Lemma junit_step_runs s t w e : exists s1 t1 w1, junit_step false s t w e = Running s1 t1 w1.
Proof.
  destruct e as [r st reason | l | | ]; cbn [junit_step]; try (eexists; eexists; eexists; reflexivity).
  destruct st; try (eexists; eexists; eexists; reflexivity).
  - destruct (dget (r_label r) (failures (on_scenario_finished s r))); eexists; eexists; eexists; reflexivity.
  - destruct reason; eexists; eexists; eexists; reflexivity.
Qed.

Lemma junit_from_runs h : forall s t w, exists s1 t1 w1, junit_from false s t w h = Running s1 t1 w1.
Proof.
  induction h as [|e h IH]; intros s t w; [eexists; eexists; eexists; reflexivity|].
  cbn [junit_from]. destruct (junit_step_runs s t w e) as (s1 & t1 & w1 & ->). apply IH.
Qed.

Lemma junit_never_crashes h : exists s t w, junit_run h = Running s t w.
Proof. apply junit_from_runs. Qed.

(* every FAILURE-status scenario leaves a failure element in the test case of its label *)
Lemma dget_app_absent {A} k (d : list (N * A)) v : dget k d = None -> dget k (d ++ [(k, v)]) = Some v.
Proof.
  induction d as [|[a x] d IH]; cbn [app dget]; intros H.
  - rewrite N.eqb_refl. reflexivity.
  - destruct (N.eqb k a); [discriminate | apply IH, H].
Qed.
Lemma dget_app_present {A} k (d : list (N * A)) x tl : dget k d = Some x -> dget k (d ++ tl) = Some x.
Proof.
  induction d as [|[a y] d IH]; cbn [app dget]; intros H; [discriminate|].
  destruct (N.eqb k a); [exact H | apply IH, H].
Qed.
Lemma dget_app_other {A} k k' (d : list (N * A)) v : k' <> k -> dget k' (d ++ [(k, v)]) = dget k' d.
Proof.
  intros Hne. induction d as [|[a x] d IH]; cbn [app dget].
  - apply N.eqb_neq in Hne. rewrite Hne. reflexivity.
  - destruct (N.eqb k' a); [reflexivity | exact IH].
Qed.

Lemma dget_tupdate l l' f t : dget l' (tupdate l f t) = if N.eqb l' l then option_map f (dget l' t) else dget l' t.
Proof.
  unfold tupdate. induction t as [|[a c] t IH]; cbn [map dget fst snd].
  - destruct (N.eqb l' l); reflexivity.
  - destruct (N.eqb a l) eqn:Eal; cbn [dget fst snd]; destruct (N.eqb l' a) eqn:El'a.
    + apply N.eqb_eq in Eal, El'a. subst. rewrite N.eqb_refl. reflexivity.
    + exact IH.
    + apply N.eqb_eq in El'a. subst a. rewrite Eal. reflexivity.
    + exact IH.
Qed.

Lemma has_failure_get_or_create l l' t : has_failure l' t = true -> has_failure l' (get_or_create l t) = true.
Proof.
  unfold has_failure, get_or_create. intros H. destruct (dget l t) eqn:E; [exact H|].
  destruct (dget l' t) as [c|] eqn:E'; [|discriminate]. rewrite (dget_app_present l' t c _ E'). exact H.
Qed.

Lemma get_or_create_present l t : exists c, dget l (get_or_create l t) = Some c.
Proof.
  unfold get_or_create. destruct (dget l t) as [c|] eqn:E; [exists c; exact E|].
  exists tcase0. apply dget_app_absent, E.
Qed.

Definition grows (f : tcase -> tcase) : Prop := forall c, t_failures c <> [] -> t_failures (f c) <> [].

Lemma has_failure_tupdate l l' f t : grows f -> has_failure l' t = true -> has_failure l' (tupdate l f t) = true.
Proof.
  unfold has_failure. intros Hg H. rewrite dget_tupdate. destruct (N.eqb l' l); [|exact H].
  destruct (dget l' t) as [c|]; [|discriminate]. cbn [option_map].
  destruct (t_failures c) eqn:Ec; [discriminate|].
  destruct (t_failures (f c)) eqn:Ef; [|reflexivity]. exfalso. apply (Hg c); [rewrite Ec; discriminate | exact Ef].
Qed.

Lemma has_failure_added l g t : has_failure l (tupdate l (add_failure_groups g) (get_or_create l t)) = true.
Proof.
  unfold has_failure. rewrite dget_tupdate, N.eqb_refl. destruct (get_or_create_present l t) as [c ->].
  cbn. destruct (t_failures c); reflexivity.
Qed.

Lemma grows_add g : grows (add_failure_groups g).
Proof. intros c H. cbn. destruct (t_failures c); [congruence | discriminate]. Qed.

Lemma junit_step_keeps l s t w e s1 t1 w1 : junit_step false s t w e = Running s1 t1 w1 ->
  has_failure l t = true -> has_failure l t1 = true.
Proof.
  intros Hs H. destruct e as [r st reason | l0 | | ]; cbn [junit_step] in Hs.
  - destruct st.
    + injection Hs as <- <- <-. apply has_failure_get_or_create, H.
    + destruct (dget (r_label r) (failures (on_scenario_finished s r))); injection Hs as <- <- <-;
        apply has_failure_tupdate; try apply grows_add; apply has_failure_get_or_create, H.
    + injection Hs as <- <- <-. apply has_failure_get_or_create, H.
    + destruct reason; injection Hs as <- <- <-.
      * apply has_failure_tupdate; [intros c Hc; exact Hc | apply has_failure_get_or_create, H].
      * apply has_failure_get_or_create, H.
    + injection Hs as <- <- <-. apply has_failure_get_or_create, H.
  - injection Hs as <- <- <-. apply has_failure_tupdate; [intros c Hc; exact Hc | apply has_failure_get_or_create, H].
  - injection Hs as <- <- <-. exact H.
  - injection Hs as <- <- <-. exact H.
Qed.

Lemma junit_from_keeps l h : forall s t w s1 t1 w1, junit_from false s t w h = Running s1 t1 w1 ->
  has_failure l t = true -> has_failure l t1 = true.
Proof.
  induction h as [|e h IH]; intros s t w s1 t1 w1 Hr H.
  - cbn in Hr. injection Hr as <- <- <-. exact H.
  - cbn [junit_from] in Hr. destruct (junit_step false s t w e) as [?|s' t' w'] eqn:Es; [discriminate|].
    apply (IH _ _ _ _ _ _ Hr). apply (junit_step_keeps l _ _ _ _ _ _ _ Es H).
Qed.

Lemma junit_from_reports h : forall s t w s1 t1 w1 l, junit_from false s t w h = Running s1 t1 w1 ->
  In l (failure_labels h) -> has_failure l t1 = true.
Proof.
  induction h as [|e h IH]; intros s t w s1 t1 w1 l Hr Hin; [destruct Hin|].
  cbn [junit_from] in Hr. destruct (junit_step false s t w e) as [?|s' t' w'] eqn:Es; [discriminate|].
  destruct e as [r st reason | l0 | | ]; try (cbn [failure_labels] in Hin; apply (IH _ _ _ _ _ _ l Hr Hin)).
  destruct st; try (cbn [failure_labels] in Hin; apply (IH _ _ _ _ _ _ l Hr Hin)).
  cbn [failure_labels] in Hin. destruct Hin as [<-|Hin]; [|apply (IH _ _ _ _ _ _ l Hr Hin)].
  apply (junit_from_keeps (r_label r) h _ _ _ _ _ _ Hr).
  cbn [junit_step] in Es. destruct (dget (r_label r) (failures (on_scenario_finished s r))); injection Es as <- <- <-; apply has_failure_added.
Qed.

Lemma junit_failure_reported h s t w l : junit_run h = Running s t w -> In l (failure_labels h) -> has_failure l t = true.
Proof. intros Hr Hin. apply (junit_from_reports h _ _ _ _ _ _ l Hr Hin). Qed.

(* GET /u = label 1, Stateful tests = label 2; failure identity 7 = ServerError for GET /u *)
Definition rec_fuzz : recorder := {| r_label := 1; r_cases := [{| c_id := 10; c_checks := [None; Some 7] |}] |}.
Definition rec_stateful : recorder := {| r_label := 2; r_cases := [{| c_id := 20; c_checks := [Some 7] |}] |}.
Definition h_rediscovered : list event :=
  [ScenarioFinished rec_fuzz StFailure false; ScenarioFinished rec_stateful StFailure false; EngineFinished].
Lemma junit_refuted : junit_run_old h_rediscovered = Crash 2.
Proof. vm_compute; reflexivity. Qed.

(* non-vacuity: two labels with their own failures, a rediscovery under a known label, a skip, an error; the file is written *)
Definition rec_b : recorder := {| r_label := 2; r_cases := [{| c_id := 20; c_checks := [Some 7; Some 8] |}; {| c_id := 21; c_checks := [] |}] |}.
Definition rec_a2 : recorder := {| r_label := 1; r_cases := [{| c_id := 11; c_checks := [Some 7] |}] |}.
Definition h_fine : list event :=
  [ScenarioFinished rec_fuzz StFailure false; ScenarioFinished rec_b StFailure false; ScenarioFinished rec_a2 StFailure false;
   ScenarioFinished {| r_label := 3; r_cases := [] |} StSkip true; NonFatalError 4; EngineFinished].
Example junit_fine : fresh_failure_or_known_label h_fine = true
  /\ match junit_run h_fine with
     | Running _ _ (Some t) => map fst t = [1; 2; 3; 4]
         /\ map (fun kv => length (t_failures (snd kv))) t = [2; 1; 0; 0]%nat
     | _ => False
     end.
Proof. split; [vm_compute; reflexivity | vm_compute; split; reflexivity]. Qed.

(* the rediscovery history under the handler as it is now: both labels carry a failure element, the second one
   with no group of its own (the already-reported message), and the file is written *)
Example junit_rediscovered_now :
  match junit_run h_rediscovered with
  | Running _ _ (Some t) => map fst t = [1; 2] /\ map (fun kv => t_failures (snd kv)) t = [[[(10, [7])]]; [[]]]
  | _ => False
  end.
Proof. vm_compute. split; reflexivity. Qed.

(* ------------------------------------------------------------------ *)
(* the index loop of write_double_quoted computes the functional form  *)
(* ------------------------------------------------------------------ *)
Lemma nth_error_skipn_add {A} (l : list A) : forall s n, nth_error (skipn s l) n = nth_error l (s + n).
Proof.
  induction l as [|x l IH]; intros s n.
  - rewrite skipn_nil. destruct n, s; reflexivity.
  - destruct s; [reflexivity|]. cbn [skipn Nat.add nth_error]. apply IH.
Qed.

Lemma firstn_S_nth {A} (l : list A) : forall n c, nth_error l n = Some c -> firstn (S n) l = firstn n l ++ [c].
Proof.
  induction l as [|x l IH]; intros n c H.
  - destruct n; discriminate.
  - destruct n.
    + cbn in H. injection H as ->. reflexivity.
    + cbn [nth_error] in H. change (x :: firstn (S n) l = (x :: firstn n l) ++ [c]). rewrite (IH n c H). reflexivity.
Qed.

Lemma skipn_nth {A} (l : list A) : forall n c, nth_error l n = Some c -> skipn n l = c :: skipn (S n) l.
Proof.
  induction l as [|x l IH]; intros n c H.
  - destruct n; discriminate.
  - destruct n.
    + cbn in H. injection H as ->. reflexivity.
    + cbn [nth_error] in H. cbn [skipn]. apply IH, H.
Qed.

Lemma slice_snoc text s e c : (s <= e)%nat -> nth_error text e = Some c ->
  slice text s (S e) = slice text s e ++ [c].
Proof.
  intros Hle Hn. unfold slice. replace (S e - s)%nat with (S (e - s)) by lia.
  apply firstn_S_nth. rewrite nth_error_skipn_add. replace (s + (e - s))%nat with e by lia. exact Hn.
Qed.

Lemma slice_empty text s : slice text s s = [].
Proof. unfold slice. rewrite Nat.sub_diag. reflexivity. Qed.

Lemma wdq_loop_spec text : forall fuel start end_ out,
  (start <= end_)%nat -> (end_ <= length text)%nat ->
  forallb (fun c => negb (needs_escape c)) (slice text start end_) = true ->
  (length text - end_ + 2 <= fuel)%nat ->
  wdq_loop text fuel start end_ out = out ++ slice text start end_ ++ flat_map wdq_char (skipn end_ text).
Proof.
  induction fuel as [|fuel IH]; intros start end_ out Hse Hel Hraw Hfuel; [lia|].
  cbn [wdq_loop]. replace (Nat.leb end_ (length text)) with true by (symmetry; apply Nat.leb_le; exact Hel).
  destruct (nth_error text end_) as [c|] eqn:En.
  - assert (Hlt : (end_ < length text)%nat) by (apply nth_error_Some; rewrite En; discriminate).
    rewrite (skipn_nth text end_ c En). cbn [flat_map].
    destruct (needs_escape c) eqn:Ee.
    + assert (Hout : (if Nat.ltb start end_ then out ++ slice text start end_ else out) = out ++ slice text start end_).
      { destruct (Nat.ltb start end_) eqn:El; [reflexivity|].
        apply Nat.ltb_ge in El. replace start with end_ by lia. rewrite slice_empty, app_nil_r. reflexivity. }
      rewrite Hout. rewrite IH; try lia.
      * rewrite slice_empty. unfold wdq_char. rewrite Ee. cbn [app]. rewrite <- !app_assoc. reflexivity.
      * rewrite slice_empty. reflexivity.
    + rewrite IH; try lia.
      * rewrite (slice_snoc text start end_ c Hse En). unfold wdq_char. rewrite Ee. rewrite <- !app_assoc. reflexivity.
      * rewrite (slice_snoc text start end_ c Hse En), forallb_app, Hraw. cbn [forallb]. rewrite Ee. reflexivity.
  - apply nth_error_None in En. assert (end_ = length text) by lia. subst end_.
    rewrite skipn_all. cbn [flat_map]. rewrite app_nil_r.
    assert (Hstop : forall st o, wdq_loop text fuel st (S (length text)) o = o).
    { intros st o. destruct fuel; [reflexivity|]. cbn [wdq_loop].
      replace (Nat.leb (S (length text)) (length text)) with false by (symmetry; apply Nat.leb_gt; lia). reflexivity. }
    destruct (Nat.ltb start (length text)) eqn:El.
    + apply Hstop.
    + rewrite Hstop. apply Nat.ltb_ge in El. replace start with (length text) by lia.
      rewrite slice_empty, app_nil_r. reflexivity.
Qed.

Lemma loop_is_functional s : write_double_quoted_loop s = write_double_quoted s.
Proof.
  unfold write_double_quoted_loop, write_double_quoted.
  rewrite wdq_loop_spec; try lia.
  - rewrite slice_empty. cbn [skipn app]. reflexivity.
  - rewrite slice_empty. reflexivity.
Qed.

(* existential forms used by Properties_C16 *)
Lemma dq_raw_refuted_ex : exists s t, yaml_dq_decode (emit_dq_raw s) = None /\
  yaml_dq_decode (emit_dq_raw t) <> Some t.
Proof. exists [88;45;65;34;120], [92; 110]. destruct dq_raw_refuted as [H1 H2]. split; [exact H1 | rewrite H2; discriminate]. Qed.

Lemma json_refuted_ex : exists s, is_unicode s = true /\ yaml_dq_decode (json_dumps s) <> Some s.
Proof. exists [0x1F600]. split; [reflexivity|]. destruct json_refuted as [H _]. rewrite H. discriminate. Qed.

Lemma once_refuted_ex : exists w h i, In i (delivered h) /\ ~ In i (map fst (fst (written w h))) /\
  snd (written w h) = Died.
Proof.
  exists vcr_default, [CScenario [i_plain 1; i_undefined 2; i_plain 3]], 3.
  destruct once_refuted_vcr as [H1 H2]. rewrite H1, H2. repeat split; [right; right; left; reflexivity|].
  cbn. intros [H|[H|[]]]; discriminate.
Qed.

(* ------------------------------------------------------------------ *)
(* Part 4: entries are pointwise                                       *)
(* ------------------------------------------------------------------ *)
Lemma har_step_entry p v x : snd (har_step p v x) = har_entry p x.
Proof.
  unfold har_step, har_entry. destruct x as [id [m u hs b] r cs]. cbn.
  destruct b as [b|]; destruct r as [r|]; reflexivity.
Qed.

Lemma har_loop_pointwise p xs : forall v, har_loop p v xs = map (har_entry p) xs.
Proof.
  induction xs as [|x xs IH]; intros v; [reflexivity|].
  cbn [har_loop map]. pose proof (har_step_entry p v x) as H.
  destruct (har_step p v x) as [v1 e]. cbn [snd] in H. subst e. rewrite IH. reflexivity.
Qed.

Lemma vcr_step_entry p v x : snd (vcr_step p v x) = vcr_entry p x.
Proof. unfold vcr_entry, vcr_step. destruct (x_resp x); [destruct (x_checks x)|]; reflexivity. Qed.

Lemma vcr_loop_pointwise p xs : forall v, vcr_loop p v xs = map (vcr_entry p) xs.
Proof.
  induction xs as [|x xs IH]; intros v; [reflexivity|].
  cbn [vcr_loop map]. pose proof (vcr_step_entry p v x) as H.
  destruct (vcr_step p v x) as [v1 e]. cbn [snd] in H. subst e. rewrite IH. reflexivity.
Qed.

Lemma entries_pointwise p hv vv xs :
  har_loop p hv xs = map (har_entry p) xs /\ vcr_loop p vv xs = map (vcr_entry p) xs.
Proof. split; [apply har_loop_pointwise | apply vcr_loop_pointwise]. Qed.

Lemma nth_error_map_mid {A B} (f : A -> B) pre x post :
  nth_error (map f (pre ++ x :: post)) (length pre) = Some (f x).
Proof. induction pre as [|a pre IH]; [reflexivity | exact IH]. Qed.

(* entry number i is a function of interaction number i: whatever came before or comes after *)
Lemma entry_independent_of_history p hv vv pre x post :
  nth_error (har_loop p hv (pre ++ x :: post)) (length pre) = Some (har_entry p x)
  /\ nth_error (vcr_loop p vv (pre ++ x :: post)) (length pre) = Some (vcr_entry p x).
Proof.
  rewrite har_loop_pointwise, vcr_loop_pointwise. split; apply nth_error_map_mid.
Qed.

(* a request without a body has no postData / no body key, a network error has no response *)
Lemma bodyless_has_no_post p x : q_body (x_req x) = None ->
  he_post (har_entry p x) = None /\ ve_body (vcr_entry p x) = None.
Proof. intros H. unfold har_entry, vcr_entry, vcr_step, vcr_req_body. cbn. rewrite H. split; reflexivity. Qed.

(* non-vacuity: POST with a body, then GET without: the second entry carries nothing of the first *)
Definition x_post : xchg :=
  {| x_id := 1; x_req := {| q_method := [112;111;115;116]; q_uri := [47;105]; q_headers := [(s_content_type, [[106]])]; q_body := Some [123;125] |};
     x_resp := Some {| p_status := 201; p_message := [79;75]; p_headers := []; p_content := [123;125]; p_encoding := None; p_codec := CodecOk; p_version := [49;46;49] |};
     x_checks := Some [([97], false); ([98], true)] |}.
Definition x_get : xchg :=
  {| x_id := 2; x_req := {| q_method := [71;69;84]; q_uri := [47;105]; q_headers := []; q_body := None |}; x_resp := None; x_checks := None |}.
Example pointwise_nonvacuous :
  map he_post (har_loop false hvars0 [x_post; x_get; x_post]) = [Some ([106], Utf8Replace [123;125]); None; Some ([106], Utf8Replace [123;125])]
  /\ map ve_status (vcr_loop true vvars0 [x_post; x_get]) = [VFailure; VError]
  /\ map he_method (har_loop false hvars0 [x_post]) = [[80;79;83;84]].
Proof. repeat split. Qed.

(* an unknown charset is written as utf8 now; the query string is what lies between ? and # *)
Example unknown_charset_falls_back :
  vcr_resp_body false {| p_status := 200; p_message := []; p_headers := []; p_content := [104]; p_encoding := Some [98;111;103;117;115]; p_codec := CodecUnknown; p_version := [] |}
  = Some (s_utf8, CodecReplace s_utf8 [104])
  /\ query_of [104;58;47;47;91;70;93;64;104;47;112;63;97;61;49;38;98;35;102;63;120] = [97;61;49;38;98].
Proof. split; reflexivity. Qed.

(* ------------------------------------------------------------------ *)
(* Part 5: lifecycle of the writer thread up to process exit            *)
(* ------------------------------------------------------------------ *)
Lemma writer_loop_step w m q out :
  writer_loop_gen entry_raises w (m :: q) out =
  match writer_item w m out with
  | (out1, None) => writer_loop_gen entry_raises w q out1
  | (out1, Some e) => (out1, e)
  end.
Proof.
  destruct m as [|ints|]; cbn [writer_loop_gen writer_item]; try reflexivity.
  destruct (write_entries_gen entry_raises w ints out) as [o ok]. destruct ok; reflexivity.
Qed.

Lemma drain_loop w : forall q out,
  writer_loop_gen entry_raises w q out =
  (fst (drain true w q out), match snd (drain true w q out) with Some e => e | None => Waiting end).
Proof.
  induction q as [|m q IH]; intros out.
  - reflexivity.
  - rewrite writer_loop_step. cbn [drain writer_take].
    destruct (writer_item w m out) as [o [e|]]; [reflexivity | apply IH].
Qed.

Lemma drain_finalize op w : forall q out, exists o e, drain op w (q ++ [QFinalize]) out = (o, Some e).
Proof.
  induction q as [|m q IH]; intros out.
  - cbn [app drain]. destruct op; cbn [writer_take writer_item writer_item_closed].
    + exists out, Closed. reflexivity.
    + destruct (w_fmt w); [exists out, Closed | exists out, Died]; reflexivity.
  - cbn [app drain]. destruct (writer_take op w m out) as [o [e|]].
    + exists o, e. reflexivity.
    + apply IH.
Qed.

Definition linv (w : wconf) (h : list cevent) (st : lstate) : Prop :=
  (l_phase st <> MRun -> l_todo st = []) /\
  (l_open st = true ->
     match l_writer st with
     | LRunning => writer_loop_gen entry_raises w (l_queue st ++ l_todo st) (l_out st) = written w h
     | LEnded e => (l_out st, e) = written w h
     | LKilled => True
     end) /\
  (l_phase st <> MExited -> l_open st = true /\ l_writer st <> LKilled).

Lemma linv_init w h : linv w h (linit h).
Proof.
  unfold linv, linit; cbn. repeat split; try congruence.
Qed.

Ltac lfin := intros; try congruence; try assumption; auto.
Ltac lproj := cbn [l_phase l_todo l_queue l_out l_writer l_open].

Lemma linv_exit c w h st : l_phase st = MTeardown -> linv w h st -> linv w h (exit_step c w st).
Proof.
  intros Hp (Htodo & Hrun & Hlive).
  assert (Ht : l_todo st = []) by (apply Htodo; congruence).
  destruct Hlive as [Hopen Hnk]; [congruence|].
  specialize (Hrun Hopen).
  unfold exit_step. rewrite Hopen. cbn [andb].
  destruct (l_writer st) as [|e|] eqn:Ew.
  - destruct (lc_daemon c).
    + unfold linv; lproj. repeat split; lfin.
    + destruct (drain (negb (lc_click_owned c)) w (l_queue st) (l_out st)) as [o [e|]] eqn:Ed.
      * unfold linv; lproj. repeat split; lfin.
        match goal with Ho : negb _ = true |- _ => rewrite Ho in Ed end.
        rewrite Ht, app_nil_r, drain_loop, Ed in Hrun. exact Hrun.
      * unfold linv. rewrite Ew. repeat split; lfin.
  - unfold linv; lproj. repeat split; lfin.
  - congruence.
Qed.

Lemma linv_step c w h st s : linv w h st -> linv w h (lstep c w st s).
Proof.
  intros Hinv. destruct s; cbn [lstep].
  - (* SMain *)
    destruct (l_phase st) eqn:Hp.
    + destruct (l_todo st) as [|m t] eqn:Ht.
      * destruct (l_writer st) eqn:Ew; [exact Hinv | |].
        -- destruct Hinv as (Htodo & Hrun & Hlive). rewrite Ew in Hrun. destruct Hlive as [Hopen Hnk]; [congruence|].
           unfold linv, set_phase; lproj. rewrite Ew. repeat split; lfin.
        -- destruct Hinv as (_ & _ & Hlive). destruct Hlive as [_ Hnk]; [congruence|]. congruence.
      * destruct Hinv as (Htodo & Hrun & Hlive). destruct Hlive as [Hopen Hnk]; [congruence|].
        specialize (Hrun Hopen). rewrite Ht in Hrun.
        unfold linv; lproj. repeat split; lfin.
        rewrite <- app_assoc. cbn [app]. exact Hrun.
    + apply linv_exit; assumption.
    + try rewrite Hp; try (destruct (l_todo st)); exact Hinv.
  - (* SWriter *)
    destruct (l_writer st) eqn:Ew; try exact Hinv.
    destruct (l_queue st) as [|m q'] eqn:Eq; [try rewrite Ew; exact Hinv|].
    destruct Hinv as (Htodo & Hrun & Hlive). rewrite Ew, Eq in Hrun.
    destruct (writer_take (l_open st) w m (l_out st)) as [o e] eqn:Et.
    unfold linv; lproj. repeat split; lfin.
    + match goal with Ho : l_open st = true |- _ => specialize (Hrun Ho); rewrite Ho in Et end.
      cbn [app] in Hrun. rewrite writer_loop_step in Hrun. cbn [writer_take] in Et. rewrite Et in Hrun.
      destruct e; exact Hrun.
    + apply Hlive. assumption.
    + destruct e; congruence.
  - (* STimeout *)
    destruct (l_phase st) eqn:Hp; try (try rewrite Hp; exact Hinv).
    destruct (l_todo st) eqn:Ht; [|try rewrite Hp; exact Hinv].
    destruct Hinv as (Htodo & Hrun & Hlive). destruct Hlive as [Hopen Hnk]; [congruence|].
    unfold linv, set_phase; lproj. repeat split; lfin. apply Hrun. assumption.
Qed.

Lemma fold_inv (P : lstate -> Prop) c w :
  (forall st s, P st -> P (lstep c w st s)) -> forall sched st, P st -> P (fold_left (lstep c w) sched st).
Proof.
  intros Hstep. induction sched as [|s sched IH]; intros st H; [exact H|]. cbn [fold_left]. apply IH, Hstep, H.
Qed.

(* 1. the code as it is with report files of its own (--report / --report-dir) *)
Definition linv_dir (w : wconf) (h : list cevent) (st : lstate) : Prop :=
  linv w h st /\ l_open st = true /\ (l_phase st = MExited -> exists e, l_writer st = LEnded e).

Lemma linv_dir_step c w h st s : lc_daemon c = false -> lc_click_owned c = false ->
  linv_dir w h st -> linv_dir w h (lstep c w st s).
Proof.
  intros Hd Ho (Hinv & Hopen & Hex). split; [apply linv_step; exact Hinv|].
  destruct s; cbn [lstep].
  - destruct (l_phase st) eqn:Hp.
    + destruct (l_todo st) as [|m t].
      * destruct (l_writer st); unfold set_phase; cbn; split; try assumption; try congruence.
      * cbn. split; [assumption | congruence].
    + unfold exit_step. rewrite Hd, Ho, Hopen. cbn [andb negb].
      destruct Hinv as (_ & _ & Hlive). destruct Hlive as [_ Hnk]; [congruence|].
      destruct (l_writer st) as [|e|] eqn:Ew.
      * destruct (drain true w (l_queue st) (l_out st)) as [o [e|]]; cbn.
        -- split; [reflexivity|]. intros _. exists e. reflexivity.
        -- split; [assumption|]. congruence.
      * cbn. split; [reflexivity|]. intros _. exists e. reflexivity.
      * congruence.
    + try rewrite Hp; try (destruct (l_todo st)); split; assumption.
  - destruct (l_writer st) eqn:Ew; try (rewrite Ew; split; assumption).
    destruct (l_queue st) as [|m q'] eqn:Eq; [rewrite Ew; split; assumption|].
    destruct (writer_take (l_open st) w m (l_out st)) as [o e]. cbn. split; [assumption|].
    intros Hp. destruct (Hex Hp) as [e' He']. congruence.
  - destruct (l_phase st) eqn:Hp; try (try rewrite Hp; split; assumption).
    destruct (l_todo st); [|try rewrite Hp; split; assumption].
    unfold set_phase; cbn. split; [assumption | congruence].
Qed.

Lemma lexited_phase st : lexited st = true -> l_phase st = MExited.
Proof. unfold lexited. destruct (l_phase st); congruence. Qed.

Lemma exit_flushes_backlog c w h sched : lc_daemon c = false -> report_dir_owned c = true ->
  lexited (lrun c w h sched) = true ->
  lresult (lrun c w h sched) = (fst (written w h), LEnded (snd (written w h))).
Proof.
  intros Hd Ho Hex. unfold report_dir_owned in Ho. apply negb_true_iff in Ho.
  assert (H : linv_dir w h (lrun c w h sched)).
  { unfold lrun. apply fold_inv.
    - intros st s. apply linv_dir_step; assumption.
    - split; [apply linv_init|]. cbn. split; [reflexivity | congruence]. }
  destruct H as ((_ & Hrun & _) & Hopen & Hend).
  destruct (Hend (lexited_phase _ Hex)) as [e He]. specialize (Hrun Hopen). rewrite He in Hrun.
  unfold lresult. rewrite He, <- Hrun. reflexivity.
Qed.

Lemma report_complete_at_exit_har san pres h sched :
  lexited (lrun lconf_report_dir {| w_fmt := HAR; w_sanitize := san; w_preserve := pres |} h sched) = true ->
  lresult (lrun lconf_report_dir {| w_fmt := HAR; w_sanitize := san; w_preserve := pres |} h sched) = (complete (delivered h), LEnded Closed).
Proof.
  intros Hex. rewrite exit_flushes_backlog by (reflexivity || exact Hex). rewrite once_har. reflexivity.
Qed.

Lemma report_complete_at_exit_vcr san pres h sched : no_raising_codec h = true ->
  lexited (lrun lconf_report_dir {| w_fmt := VCR; w_sanitize := san; w_preserve := pres |} h sched) = true ->
  lresult (lrun lconf_report_dir {| w_fmt := VCR; w_sanitize := san; w_preserve := pres |} h sched) = (complete (delivered h), LEnded Closed).
Proof.
  intros Hreg Hex. rewrite exit_flushes_backlog by (reflexivity || exact Hex). rewrite once_vcr by exact Hreg. reflexivity.
Qed.

(* 2. every configuration (daemon or not, Click-owned or not): when no join timed out *)
Definition linv_join (w : wconf) (h : list cevent) (st : lstate) : Prop :=
  linv w h st /\ (l_phase st <> MRun -> exists e, l_writer st = LEnded e /\ (l_out st, e) = written w h).

Lemma linv_join_step c w h st s : is_timeout s = false -> linv_join w h st -> linv_join w h (lstep c w st s).
Proof.
  intros Hs (Hinv & Hj). split; [apply linv_step; exact Hinv|].
  destruct s; cbn [lstep]; [| |discriminate Hs].
  - destruct (l_phase st) eqn:Hp.
    + destruct (l_todo st) as [|m t].
      * destruct Hinv as (_ & Hrun & Hlive). destruct Hlive as [Hopen Hnk]; [congruence|].
        destruct (l_writer st) as [|e|] eqn:Ew.
        -- try rewrite Hp. congruence.
        -- unfold set_phase; lproj. intros _. exists e. split; [exact Ew|]. exact (Hrun Hopen).
        -- congruence.
      * lproj. congruence.
    + destruct Hj as (e & Hw & Hres); [congruence|]. unfold exit_step. rewrite Hw. lproj. intros _. exists e. split; [reflexivity | exact Hres].
    + try rewrite Hp; try (destruct (l_todo st)); exact Hj.
  - destruct (l_writer st) eqn:Ew; try (rewrite Ew; exact Hj).
    destruct (l_queue st) as [|m q'] eqn:Eq; [rewrite Ew; exact Hj|].
    destruct (writer_take (l_open st) w m (l_out st)) as [o e]. lproj. intros Hp.
    destruct (Hj Hp) as (e' & He' & _). congruence.
Qed.

Lemma join_returned_then_complete c w h sched : join_never_timed_out sched = true ->
  lexited (lrun c w h sched) = true ->
  lresult (lrun c w h sched) = (fst (written w h), LEnded (snd (written w h))).
Proof.
  intros Hs Hex.
  assert (H : forall sched st, join_never_timed_out sched = true -> linv_join w h st -> linv_join w h (fold_left (lstep c w) sched st)).
  { induction sched0 as [|s sched0 IH]; intros st Hn Hst; [exact Hst|].
    cbn [join_never_timed_out forallb] in Hn. apply andb_true_iff in Hn. destruct Hn as [Hn1 Hn2].
    cbn [fold_left]. apply IH; [exact Hn2|]. apply linv_join_step; [apply negb_true_iff; exact Hn1 | exact Hst]. }
  specialize (H sched (linit h) Hs). destruct H as (_ & Hj).
  - split; [apply linv_init|]. cbn. congruence.
  - fold (lrun c w h sched) in Hj. destruct Hj as (e & Hw & Hres).
    + rewrite (lexited_phase _ Hex). congruence.
    + unfold lresult. rewrite Hw, <- Hres. reflexivity.
Qed.

(* 3. the exit is reachable with the WHOLE backlog unwritten when the join times out *)
Lemma feed_all c w : forall todo q out wr op,
  fold_left (lstep c w) (map (fun _ => SMain) todo)
    {| l_todo := todo; l_phase := MRun; l_queue := q; l_out := out; l_writer := wr; l_open := op |} =
    {| l_todo := []; l_phase := MRun; l_queue := q ++ todo; l_out := out; l_writer := wr; l_open := op |}.
Proof.
  induction todo as [|m t IH]; intros q out wr op.
  - cbn. rewrite app_nil_r. reflexivity.
  - cbn [map fold_left lstep l_phase l_todo l_queue l_out l_writer l_open]. rewrite IH, <- app_assoc. reflexivity.
Qed.

Lemma exit_reachable_with_full_backlog c w h :
  l_queue (lrun c w h (map (fun _ => SMain) (cassette_queue h) ++ [STimeout])) = cassette_queue h
  /\ l_out (lrun c w h (map (fun _ => SMain) (cassette_queue h) ++ [STimeout])) = []
  /\ lexited (lrun c w h (sched_full_backlog h)) = true.
Proof.
  unfold lrun, sched_full_backlog, linit. rewrite !fold_left_app, feed_all. cbn [app fold_left lstep set_phase l_phase l_todo l_queue l_out l_writer l_open].
  repeat split.
  unfold set_phase, exit_step; lproj. unfold lexited. cbn [andb].
  destruct (lc_daemon c); [reflexivity|].
  unfold cassette_queue. rewrite app_comm_cons.
  destruct (drain_finalize (negb (lc_click_owned c)) w (QInit :: flat_map (fun e => match e with CScenario ints => [QProcess ints] | COther => [] end) h) []) as (o & e & Hd).
  rewrite Hd. reflexivity.
Qed.

(* witnesses *)
Definition h_three : list cevent := [CScenario [i_plain 1]; CScenario [i_plain 2]; CScenario [i_plain 3]].
(* everything is put (Initialize, three Process, Finalize), the writer gets as far as the first exchange, the join times out, exit *)
Definition sched_slow_writer : list sstep := [SMain; SMain; SMain; SMain; SMain; SWriter; SWriter; STimeout; SMain].
Definition lconf_daemon : lconf := {| lc_daemon := true; lc_click_owned := false |}.

Lemma click_owned_loses_backlog :
  delivered h_three = [1; 2; 3]
  /\ lexited (lrun lconf_report_path vcr_default h_three sched_slow_writer) = true
  /\ lresult (lrun lconf_report_path vcr_default h_three sched_slow_writer) = ([(1, true)], LEnded Died)
  /\ lresult (lrun lconf_report_path har_sanitized h_three sched_slow_writer) = ([(1, true)], LEnded Died)
  /\ lresult (lrun lconf_report_dir vcr_default h_three sched_slow_writer) = (complete [1; 2; 3], LEnded Closed)
  /\ lresult (lrun lconf_report_dir har_sanitized h_three sched_slow_writer) = (complete [1; 2; 3], LEnded Closed).
Proof. vm_compute. repeat split; reflexivity. Qed.

Lemma exit_flushes_backlog_refuted_ex : exists w h sched i,
  lexited (lrun lconf_report_path w h sched) = true /\ In i (delivered h)
  /\ ~ In i (map fst (fst (lresult (lrun lconf_report_path w h sched))))
  /\ snd (lresult (lrun lconf_report_path w h sched)) = LEnded Died.
Proof.
  exists vcr_default, h_three, sched_slow_writer, 3. vm_compute. repeat split; try reflexivity.
  - right; right; left; reflexivity.
  - intros [H|[]]. discriminate H.
Qed.

Lemma daemon_writer_loses_backlog :
  lexited (lrun lconf_daemon vcr_default h_three sched_slow_writer) = true
  /\ lresult (lrun lconf_daemon vcr_default h_three sched_slow_writer) = ([(1, true)], LKilled)
  /\ lresult (lrun lconf_daemon har_sanitized h_three sched_slow_writer) = ([(1, true)], LKilled)
  /\ lresult (lrun lconf_daemon vcr_default h_three (sched_full_backlog h_three)) = ([], LKilled)
  /\ lresult (lrun lconf_report_dir vcr_default h_three (sched_full_backlog h_three)) = (complete [1; 2; 3], LEnded Closed)
  /\ lc_daemon lconf_report_dir = false /\ lc_daemon lconf_report_path = false.
Proof. vm_compute. repeat split; reflexivity. Qed.

(* non-vacuity of the join region: a schedule without a timeout that exits, on a history with a backlog *)
Example join_region_nonvacuous :
  join_never_timed_out [SMain; SMain; SWriter; SMain; SMain; SWriter; SMain; SWriter; SWriter; SWriter; SMain; SMain] = true
  /\ lexited (lrun lconf_daemon vcr_default h_three [SMain; SMain; SWriter; SMain; SMain; SWriter; SMain; SWriter; SWriter; SWriter; SMain; SMain]) = true
  /\ lresult (lrun lconf_daemon vcr_default h_three [SMain; SMain; SWriter; SMain; SMain; SWriter; SMain; SWriter; SWriter; SWriter; SMain; SMain]) = (complete [1; 2; 3], LEnded Closed).
Proof. vm_compute. repeat split; reflexivity. Qed.

(* ------------------------------------------------------------------ *)
(* Part 6: the handlers over WHOLE ScenarioFinished events              *)
(* (added after seeded regression C16_d_final_scenarios_not_recorded)   *)
(* ------------------------------------------------------------------ *)
Lemma cassette_queue_ev_proj fwd h : cassette_queue_ev fwd h = cassette_queue (map (cevent_of fwd) h).
Proof.
  unfold cassette_queue_ev, cassette_queue. f_equal. f_equal.
  induction h as [|e h IH]; [reflexivity|].
  cbn [map flat_map]. rewrite IH. destruct e as [e| | |]; cbn [cassette_handle cevent_of]; try reflexivity.
  destruct (fwd e); reflexivity.
Qed.

Lemma written_ev_proj fwd w h : written_ev_gen fwd w h = written w (map (cevent_of fwd) h).
Proof. unfold written_ev_gen, written, written_gen. rewrite cassette_queue_ev_proj. reflexivity. Qed.

Lemma delivered_proj fwd h : delivered (map (cevent_of fwd) h) = recorded_by fwd h.
Proof.
  unfold delivered, recorded_by. induction h as [|e h IH]; [reflexivity|].
  cbn [map flat_map]. rewrite IH. destruct e as [e| | |]; cbn [cevent_of]; try reflexivity.
  destruct (fwd e); reflexivity.
Qed.

Lemma recorded_all h : recorded_by forward_all h = delivered_ev h.
Proof. reflexivity. Qed.

Lemma no_raising_codec_proj fwd h : no_raising_codec_ev h = true -> no_raising_codec (map (cevent_of fwd) h) = true.
Proof.
  unfold no_raising_codec_ev, no_raising_codec. induction h as [|e h IH]; [reflexivity|].
  cbn [map forallb]. intros H. apply andb_true_iff in H; destruct H as [He Hh]. rewrite (IH Hh), andb_true_r.
  destruct e as [e| | |]; cbn [cevent_of]; try reflexivity. destruct (fwd e); [exact He | reflexivity].
Qed.

(* whatever the rule: what the handler hands over is written, in order, and the file is closed *)
Lemma written_by_rule_har fwd san pres h :
  written_ev_gen fwd {| w_fmt := HAR; w_sanitize := san; w_preserve := pres |} h = (complete (recorded_by fwd h), Closed).
Proof. rewrite written_ev_proj, once_har, delivered_proj. reflexivity. Qed.

Lemma written_by_rule_vcr fwd san pres h : no_raising_codec_ev h = true ->
  written_ev_gen fwd {| w_fmt := VCR; w_sanitize := san; w_preserve := pres |} h = (complete (recorded_by fwd h), Closed).
Proof. intros H. rewrite written_ev_proj, once_vcr by (apply no_raising_codec_proj, H). rewrite delivered_proj. reflexivity. Qed.

(* the code as it is: every event attribute value *)
Lemma once_all_events_har san pres h :
  written_ev {| w_fmt := HAR; w_sanitize := san; w_preserve := pres |} h = (complete (delivered_ev h), Closed).
Proof. unfold written_ev. rewrite written_by_rule_har. reflexivity. Qed.

Lemma once_all_events_vcr san pres h : no_raising_codec_ev h = true ->
  written_ev {| w_fmt := VCR; w_sanitize := san; w_preserve := pres |} h = (complete (delivered_ev h), Closed).
Proof. intros H. unfold written_ev. rewrite written_by_rule_vcr by exact H. reflexivity. Qed.

Lemma map_fst_complete l : map fst (complete l) = l.
Proof. unfold complete. rewrite map_map. cbn [fst]. apply map_id. Qed.

Lemma in_delivered_ev h e i : In (FScenario e) h -> In i (sf_inters e) -> In (i_id i) (delivered_ev h).
Proof.
  intros He Hi. unfold delivered_ev. apply in_flat_map. exists (FScenario e). split; [exact He|].
  unfold ids_of. apply in_map, Hi.
Qed.

(* exactly once, read as a count: with case ids unique in the run (the assumption the property text makes
   when it says each exchange), the id of every interaction of every delivered recorder occurs ONCE in
   the file, complete - whatever phase, label, status, skip_reason, is_final of its event *)
Lemma each_interaction_counted_once_har san pres h e i :
  NoDup (delivered_ev h) -> In (FScenario e) h -> In i (sf_inters e) ->
  count_occ N.eq_dec (map fst (fst (written_ev {| w_fmt := HAR; w_sanitize := san; w_preserve := pres |} h))) (i_id i) = 1%nat
  /\ In (i_id i, true) (fst (written_ev {| w_fmt := HAR; w_sanitize := san; w_preserve := pres |} h)).
Proof.
  intros Hnd He Hi. rewrite once_all_events_har. cbn [fst]. rewrite map_fst_complete.
  pose proof (in_delivered_ev h e i He Hi) as Hin. split.
  - apply (proj1 (NoDup_count_occ' N.eq_dec (delivered_ev h)) Hnd), Hin.
  - unfold complete. apply (in_map (fun k => (k, true))), Hin.
Qed.

Lemma each_interaction_counted_once_vcr san pres h e i : no_raising_codec_ev h = true ->
  NoDup (delivered_ev h) -> In (FScenario e) h -> In i (sf_inters e) ->
  count_occ N.eq_dec (map fst (fst (written_ev {| w_fmt := VCR; w_sanitize := san; w_preserve := pres |} h))) (i_id i) = 1%nat
  /\ In (i_id i, true) (fst (written_ev {| w_fmt := VCR; w_sanitize := san; w_preserve := pres |} h)).
Proof.
  intros Hreg Hnd He Hi. rewrite once_all_events_vcr by exact Hreg. cbn [fst]. rewrite map_fst_complete.
  pose proof (in_delivered_ev h e i He Hi) as Hin. split.
  - apply (proj1 (NoDup_count_occ' N.eq_dec (delivered_ev h)) Hnd), Hin.
  - unfold complete. apply (in_map (fun k => (k, true))), Hin.
Qed.

(* a rule is right exactly when the events it drops carry no interaction *)
Lemma delivered_split_length fwd h : length (delivered_ev h) = (length (recorded_by fwd h) + length (lost_by fwd h))%nat.
Proof.
  unfold delivered_ev, recorded_by, lost_by. induction h as [|e h IH]; [reflexivity|].
  cbn [flat_map]. rewrite !app_length, IH. destruct e as [e| | |]; cbn [length]; try lia.
  destruct (fwd e); cbn [length]; lia.
Qed.

Lemma recorded_eq_iff fwd h : recorded_by fwd h = delivered_ev h <-> lost_by fwd h = [].
Proof.
  split.
  - intros H. pose proof (delivered_split_length fwd h) as L. rewrite <- H in L.
    destruct (lost_by fwd h); [reflexivity | cbn [length] in L; lia].
  - unfold delivered_ev, recorded_by, lost_by. induction h as [|e h IH]; [reflexivity|].
    cbn [flat_map]. intros H. apply app_eq_nil in H. destruct H as [He Hh]. rewrite (IH Hh).
    destruct e as [e| | |]; try reflexivity. destruct (fwd e); [reflexivity|]. rewrite He. reflexivity.
Qed.

Lemma complete_inj a b : complete a = complete b -> a = b.
Proof. intros H. rewrite <- (map_fst_complete a), <- (map_fst_complete b), H. reflexivity. Qed.

Lemma rule_complete_iff_har fwd san pres h :
  written_ev_gen fwd {| w_fmt := HAR; w_sanitize := san; w_preserve := pres |} h = (complete (delivered_ev h), Closed)
  <-> lost_by fwd h = [].
Proof.
  rewrite written_by_rule_har, <- recorded_eq_iff. split.
  - intros H. injection H as H. apply complete_inj, H.
  - intros ->. reflexivity.
Qed.

Lemma rule_complete_iff_vcr fwd san pres h : no_raising_codec_ev h = true ->
  (written_ev_gen fwd {| w_fmt := VCR; w_sanitize := san; w_preserve := pres |} h = (complete (delivered_ev h), Closed)
   <-> lost_by fwd h = []).
Proof.
  intros Hreg. rewrite written_by_rule_vcr by exact Hreg. rewrite <- recorded_eq_iff. split.
  - intros H. injection H as H. apply complete_inj, H.
  - intros ->. reflexivity.
Qed.

(* the sentinel: a stateful run in which the second, link-derived step meets a transport error.  Hypothesis
   replays the failing sequence once more (is_final = true): fresh case ids 4 and 5, real traffic *)
Definition i_neterr (n : N) : inter := {| i_id := n; i_userinfo := false; i_response := false; i_codec := CodecOk; i_cookie_values := [] |}.
Definition ev_stateful (final : bool) (st : status) (cases : list case_rec) (ints : list inter) : sf_event :=
  {| sf_phase := PhStateful; sf_label := None; sf_status := st; sf_skip_reason := false; sf_is_final := final;
     sf_rlabel := 2; sf_cases := cases; sf_inters := ints |}.
Definition h_final_replay : list fevent :=
  [FScenario (ev_stateful false StError [] [i_plain 1; i_neterr 2]); FScenario (ev_stateful false StSuccess [] [i_plain 3]);
   FScenario (ev_stateful true StError [] [i_plain 4; i_neterr 5]); FNonFatal 2; FEngineFinished].

Lemma skip_final_loses_final_replay :
  delivered_ev h_final_replay = [1; 2; 3; 4; 5] /\ NoDup (delivered_ev h_final_replay)
  /\ lost_by skip_final h_final_replay = [4; 5]
  /\ written_ev_gen skip_final vcr_default h_final_replay = (complete [1; 2; 3], Closed)
  /\ written_ev_gen skip_final har_sanitized h_final_replay = (complete [1; 2; 3], Closed)
  /\ written_ev vcr_default h_final_replay = (complete [1; 2; 3; 4; 5], Closed)
  /\ written_ev har_sanitized h_final_replay = (complete [1; 2; 3; 4; 5], Closed).
Proof.
  repeat split; try (vm_compute; reflexivity).
  vm_compute. repeat constructor; cbn; intros H; repeat (destruct H as [H|H]; [discriminate|]); exact H.
Qed.

(* the loss is silent: the file is closed, well-formed, and an interaction that was delivered is not in it *)
Lemma skip_final_refuted_ex : exists w h e i,
  In (FScenario e) h /\ In i (sf_inters e) /\ NoDup (delivered_ev h)
  /\ ~ In (i_id i) (map fst (fst (written_ev_gen skip_final w h)))
  /\ snd (written_ev_gen skip_final w h) = Closed.
Proof.
  exists vcr_default, h_final_replay, (ev_stateful true StError [] [i_plain 4; i_neterr 5]), (i_plain 4).
  split; [cbn; auto|]. split; [cbn; auto|]. split; [apply skip_final_loses_final_replay|].
  split; [|vm_compute; reflexivity].
  vm_compute. intros H. repeat (destruct H as [H|H]; [discriminate|]). exact H.
Qed.

(* ---- JUnit over full events ---- *)
(* every lemma is about an arbitrary except clause c (catch_rule); the code as it is and the handler before
   22e8a9e1 are two instances *)
Lemma bad_ids_nil c e : forallb (fun i => negb (text_raises_gen c i)) (sf_inters e) = true -> bad_ids_gen c e = [].
Proof.
  unfold bad_ids_gen. induction (sf_inters e) as [|i l IH]; [reflexivity|].
  cbn [forallb filter]. intros H. apply andb_true_iff in H; destruct H as [Hi Hl]. apply negb_true_iff in Hi.
  rewrite Hi. apply IH, Hl.
Qed.

Lemma find_mem_nil (g : groups) : find (fun cg => mem (fst cg) []) g = None.
Proof. induction g as [|cg g IH]; [reflexivity|]. cbn [find mem]. exact IH. Qed.

Definition event_decodable (c : catch_rule) (e : fevent) : bool :=
  match e with FScenario e => forallb (fun i => negb (text_raises_gen c i)) (sf_inters e) | _ => true end.

Lemma junit_step_ev_decodable c s t w e : event_decodable c e = true ->
  junit_step_ev_c c forward_all s t w [] e = lift_ev [] (junit_step false s t w (jevent_of e)).
Proof.
  intros H. destruct e as [e| | |]; try reflexivity.
  cbn [event_decodable] in H. cbn [junit_step_ev_c forward_all]. rewrite (bad_ids_nil c e H). cbn [app].
  destruct (sf_status e); try reflexivity. rewrite find_mem_nil. reflexivity.
Qed.

Lemma junit_from_ev_decodable c h : texts_decodable_c c h = true -> forall s t w,
  junit_from_ev_c c forward_all s t w [] h = lift_ev [] (junit_from false s t w (map jevent_of h)).
Proof.
  unfold texts_decodable_c. induction h as [|e h IH]; intros H s t w; [reflexivity|].
  cbn [forallb] in H. apply andb_true_iff in H; destruct H as [He Hh].
  cbn [junit_from_ev_c junit_from map]. rewrite (junit_step_ev_decodable c s t w e He).
  destruct (junit_step false s t w (jevent_of e)); cbn [lift_ev]; [reflexivity | apply IH, Hh].
Qed.

Lemma junit_run_ev_c_decodable c h : texts_decodable_c c h = true ->
  junit_run_ev_c c forward_all h = lift_ev [] (junit_run (map jevent_of h)).
Proof. intros H. apply junit_from_ev_decodable, H. Qed.

(* for EVERY except clause: inside its region no event attribute makes the handler abort the run *)
Lemma junit_ev_never_crashes_c c h : texts_decodable_c c h = true ->
  exists s t w, junit_run_ev_c c forward_all h = RunningEv s t w [].
Proof.
  intros H. rewrite (junit_run_ev_c_decodable c h H). destruct (junit_never_crashes (map jevent_of h)) as (s & t & w & ->).
  exists s, t, w. reflexivity.
Qed.

(* the code as it is: region = no response whose charset NAME Python refuses (NUL character) *)
Lemma junit_ev_never_crashes h : texts_decodable h = true -> exists s t w, junit_run_ev h = RunningEv s t w [].
Proof. apply junit_ev_never_crashes_c. Qed.

(* the handler before 22e8a9e1: region = every charset decodable *)
Lemma junit_ev_old_never_crashes h : texts_decodable_old h = true -> exists s t w, junit_run_ev_old h = RunningEv s t w [].
Proof. apply junit_ev_never_crashes_c. Qed.

(* an except clause that lets nothing through has the whole space as its region *)
Lemma texts_decodable_catch_all c h : (forall x, c x = true) -> texts_decodable_c c h = true.
Proof.
  intros Hc. unfold texts_decodable_c. apply forallb_forall. intros e _. destruct e as [e| | |]; try reflexivity.
  apply forallb_forall. intros i _. unfold text_raises_gen. destruct (text_exn_of i) as [x|]; [rewrite Hc|]; reflexivity.
Qed.

Lemma junit_ev_catch_all_never_crashes c h : (forall x, c x = true) ->
  exists s t w, junit_run_ev_c c forward_all h = RunningEv s t w [].
Proof. intros Hc. apply junit_ev_never_crashes_c, texts_decodable_catch_all, Hc. Qed.

(* what the region of the code as it is says, read on one interaction *)
Lemma text_raises_meaning i : text_raises i = true <-> (i_response i = true /\ i_codec i = CodecBadName).
Proof.
  unfold text_raises, text_raises_gen, text_exn_of. destruct (i_response i); destruct (i_codec i); cbn; intuition congruence.
Qed.

Lemma text_raises_old_meaning i : text_raises_gen catches_decode_error_only i = true <-> (i_response i = true /\ i_codec i <> CodecOk).
Proof.
  unfold text_raises_gen, text_exn_of. destruct (i_response i); destruct (i_codec i); cbn; intuition congruence.
Qed.

(* the repair only enlarged the region *)
Lemma text_raises_now_old i : text_raises i = true -> text_raises_gen catches_decode_error_only i = true.
Proof.
  intros H. apply text_raises_meaning in H. destruct H as [Hr Hc]. apply text_raises_old_meaning. split; [exact Hr|].
  rewrite Hc. discriminate.
Qed.

Lemma texts_decodable_old_now h : texts_decodable_old h = true -> texts_decodable h = true.
Proof.
  unfold texts_decodable_old, texts_decodable, texts_decodable_c. intros H. rewrite forallb_forall in *. intros e He.
  specialize (H e He). destruct e as [e| | |]; try reflexivity. rewrite forallb_forall in *. intros i Hi. specialize (H i Hi).
  apply negb_true_iff in H. apply negb_true_iff. change (text_raises i = false). destruct (text_raises i) eqn:E; [|reflexivity].
  apply text_raises_now_old in E. congruence.
Qed.

(* whenever the run is not aborted, the handler state is the state of the dictionary-level machine *)
Lemma junit_step_ev_running c s t w bad e s1 t1 w1 bad1 : junit_step_ev_c c forward_all s t w bad e = RunningEv s1 t1 w1 bad1 ->
  junit_step false s t w (jevent_of e) = Running s1 t1 w1.
Proof.
  destruct e as [e| | |]; cbn [junit_step_ev_c forward_all].
  - destruct (sf_status e) eqn:Est.
    2: destruct (find _ _); [discriminate|].
    all: destruct (junit_step false s t w (jevent_of (FScenario e))); cbn [lift_ev]; intros H; [discriminate | injection H as <- <- <- _; reflexivity].
  - destruct (junit_step false s t w (jevent_of (FNonFatal l))); cbn [lift_ev]; intros H; [discriminate | injection H as <- <- <- _; reflexivity].
  - destruct (junit_step false s t w (jevent_of FEngineFinished)); cbn [lift_ev]; intros H; [discriminate | injection H as <- <- <- _; reflexivity].
  - destruct (junit_step false s t w (jevent_of FOther)); cbn [lift_ev]; intros H; [discriminate | injection H as <- <- <- _; reflexivity].
Qed.

Lemma junit_from_ev_running c h : forall s t w bad s1 t1 w1 bad1, junit_from_ev_c c forward_all s t w bad h = RunningEv s1 t1 w1 bad1 ->
  junit_from false s t w (map jevent_of h) = Running s1 t1 w1.
Proof.
  induction h as [|e h IH]; intros s t w bad s1 t1 w1 bad1 H.
  - cbn in H. injection H as <- <- <- _. reflexivity.
  - cbn [junit_from_ev_c] in H. destruct (junit_step_ev_c c forward_all s t w bad e) as [a|s' t' w' bad'] eqn:Es; [discriminate|].
    cbn [map junit_from]. rewrite (junit_step_ev_running _ _ _ _ _ _ _ _ _ _ Es). apply (IH _ _ _ _ _ _ _ _ H).
Qed.

Lemma failure_labels_proj h : failure_labels (map jevent_of h) = failure_labels_ev h.
Proof.
  induction h as [|e h IH]; [reflexivity|].
  cbn [map]. destruct e as [e| | |]; cbn [jevent_of failure_labels failure_labels_ev]; try exact IH.
  destruct (sf_status e); cbn [recorder_of r_label]; rewrite IH; reflexivity.
Qed.

Lemma in_failure_labels_ev h e : In (FScenario e) h -> sf_status e = StFailure -> In (sf_rlabel e) (failure_labels_ev h).
Proof.
  intros Hin Hst. induction h as [|x h IH]; [destruct Hin|].
  destruct Hin as [->|Hin].
  - cbn [failure_labels_ev]. rewrite Hst. left. reflexivity.
  - specialize (IH Hin). destruct x as [x| | |]; cbn [failure_labels_ev]; try exact IH.
    destruct (sf_status x); try exact IH. right. exact IH.
Qed.

(* every history, every except clause, no region: when the run was not aborted, every FAILURE-status event - final or
   not, any phase, with or without an event label - has left a failure element under the label of its recorder *)
Lemma junit_ev_failure_reported_c c h s t w bad e : junit_run_ev_c c forward_all h = RunningEv s t w bad ->
  In (FScenario e) h -> sf_status e = StFailure -> has_failure (sf_rlabel e) t = true.
Proof.
  intros Hr Hin Hst. apply junit_from_ev_running in Hr.
  apply (junit_failure_reported _ _ _ _ _ Hr). rewrite failure_labels_proj. apply in_failure_labels_ev; assumption.
Qed.

Lemma junit_ev_failure_reported h s t w bad e : junit_run_ev h = RunningEv s t w bad ->
  In (FScenario e) h -> sf_status e = StFailure -> has_failure (sf_rlabel e) t = true.
Proof. apply junit_ev_failure_reported_c. Qed.

(* both halves in one statement: inside the region the run goes on AND every FAILURE event is in the report *)
Lemma junit_ev_runs_and_reports h : texts_decodable h = true ->
  exists s t w, junit_run_ev h = RunningEv s t w []
    /\ forall e, In (FScenario e) h -> sf_status e = StFailure -> has_failure (sf_rlabel e) t = true.
Proof.
  intros H. destruct (junit_ev_never_crashes h H) as (s & t & w & Hr). exists s, t, w. split; [exact Hr|].
  intros e Hin Hst. exact (junit_ev_failure_reported h s t w [] e Hr Hin Hst).
Qed.

(* ---- witnesses ---- *)
Definition ev_unit (l : label) (st : status) (cases : list case_rec) (ints : list inter) : sf_event :=
  {| sf_phase := PhFuzzing; sf_label := Some l; sf_status := st; sf_skip_reason := false; sf_is_final := false;
     sf_rlabel := l; sf_cases := cases; sf_inters := ints |}.
(* charset=bogus / charset=undefined: the witnesses of finding C16-F11, repaired by 22e8a9e1 *)
Definition h_bogus_failure : list fevent :=
  [FScenario (ev_unit 1 StFailure [{| c_id := 1; c_checks := [Some 7] |}] [i_bogus 1]); FEngineFinished].
Definition h_bogus_then_failure : list fevent :=
  [FScenario (ev_unit 1 StSuccess [{| c_id := 1; c_checks := [Some 7] |}] [i_undefined 1]);
   FScenario (ev_unit 1 StFailure [{| c_id := 2; c_checks := [Some 8] |}] [i_plain 2]); FEngineFinished].
(* a charset name with a NUL character: what is left (finding C16-F12) *)
Definition i_nul (n : N) : inter := {| i_id := n; i_userinfo := false; i_response := true; i_codec := CodecBadName; i_cookie_values := [] |}.
Definition h_nul_failure : list fevent :=
  [FScenario (ev_unit 1 StFailure [{| c_id := 1; c_checks := [Some 7] |}] [i_nul 1]); FEngineFinished].
Definition h_nul_then_failure : list fevent :=
  [FScenario (ev_unit 1 StSuccess [{| c_id := 1; c_checks := [Some 7] |}] [i_nul 1]);
   FScenario (ev_unit 1 StFailure [{| c_id := 2; c_checks := [Some 8] |}] [i_plain 2]); FEngineFinished].

(* sentinel: the except clause before 22e8a9e1 aborted the run on an unknown charset (at once) and on a raising
   codec (at the next FAILURE event of the label); both histories are inside the region of the code as it is, which
   keeps running and writes the report with the failure element *)
Lemma junit_old_catch_rule_aborts :
  texts_decodable_old h_bogus_failure = false /\ texts_decodable h_bogus_failure = true
  /\ texts_decodable_old h_bogus_then_failure = false /\ texts_decodable h_bogus_then_failure = true
  /\ junit_run_ev_old h_bogus_failure = Aborted (AbortText 1)
  /\ junit_run_ev_old h_bogus_then_failure = Aborted (AbortText 1)
  /\ (exists s t w, junit_run_ev h_bogus_failure = RunningEv s t (Some w) [] /\ has_failure 1 w = true)
  /\ (exists s t w, junit_run_ev h_bogus_then_failure = RunningEv s t (Some w) [] /\ has_failure 1 w = true).
Proof.
  repeat split; try (vm_compute; reflexivity).
  - vm_compute. eexists _, _, _. split; reflexivity.
  - vm_compute. eexists _, _, _. split; reflexivity.
Qed.
Lemma junit_old_catch_rule_refuted_ex : exists h a, texts_decodable h = true /\ junit_run_ev_old h = Aborted a.
Proof. exists h_bogus_failure, (AbortText 1). split; apply junit_old_catch_rule_aborts. Qed.

(* refuted outside the region: a failed check on a response whose charset name carries a NUL character: rendering the
   failure for junit.xml raises ValueError, which (UnicodeError, LookupError) does not catch: the run is aborted.  The
   abort can come later than the response: the group stays under its label and is rendered again by every later
   FAILURE event of that label *)
Lemma junit_ev_aborts_on_undecodable_text :
  texts_decodable h_nul_failure = false /\ junit_run_ev h_nul_failure = Aborted (AbortText 1)
  /\ junit_run_ev h_nul_then_failure = Aborted (AbortText 1)
  /\ (exists s t w, junit_run (map jevent_of h_nul_failure) = Running s t w).
Proof. repeat split; try (vm_compute; reflexivity). apply junit_never_crashes. Qed.
Lemma junit_ev_never_crashes_refuted_ex : exists h a, junit_run_ev h = Aborted a.
Proof. exists h_nul_failure, (AbortText 1). apply junit_ev_aborts_on_undecodable_text. Qed.
Example junit_ev_region_nonvacuous :
  texts_decodable h_final_replay = true
  /\ texts_decodable [FScenario (ev_unit 1 StFailure [{| c_id := 1; c_checks := [Some 7] |}] [i_plain 1]); FScenario (ev_stateful true StFailure [{| c_id := 2; c_checks := [Some 7] |}] [i_neterr 2])] = true
  /\ texts_decodable [FScenario (ev_unit 1 StFailure [{| c_id := 1; c_checks := [Some 7] |}] [i_bogus 1; i_undefined 2]); FEngineFinished] = true
  /\ texts_decodable_old h_final_replay = true.
Proof. repeat split; reflexivity. Qed.

(* sentinel: a JUnit handler that passed over final scenarios *)
Definition h_final_failure : list fevent :=
  [FScenario (ev_stateful false StSuccess [{| c_id := 10; c_checks := [None] |}] [i_plain 10]);
   FScenario (ev_stateful true StFailure [{| c_id := 20; c_checks := [Some 7] |}] [i_plain 20]); FEngineFinished].
Definition reported (l : label) (r : jresult_ev) : bool :=
  match r with RunningEv _ t _ _ => has_failure l t | Aborted _ => false end.
Lemma junit_skip_final_misses_failure :
  failure_labels_ev h_final_failure = [2]
  /\ reported 2 (junit_run_ev h_final_failure) = true
  /\ reported 2 (junit_run_ev_gen skip_final h_final_failure) = false.
Proof. repeat split; vm_compute; reflexivity. Qed.

(* the lifecycle theorems of Part 5 read over full events *)
Lemma report_complete_at_exit_ev_har san pres h sched :
  lexited (lrun lconf_report_dir {| w_fmt := HAR; w_sanitize := san; w_preserve := pres |} (map (cevent_of forward_all) h) sched) = true ->
  lresult (lrun lconf_report_dir {| w_fmt := HAR; w_sanitize := san; w_preserve := pres |} (map (cevent_of forward_all) h) sched)
  = (complete (delivered_ev h), LEnded Closed).
Proof. intros Hex. rewrite report_complete_at_exit_har by exact Hex. rewrite delivered_proj. reflexivity. Qed.

Example all_events_nonvacuous :
  no_raising_codec_ev h_final_replay = true /\ NoDup (delivered_ev h_final_replay)
  /\ In (FScenario (ev_stateful true StError [] [i_plain 4; i_neterr 5])) h_final_replay.
Proof. split; [reflexivity|]. split; [apply skip_final_loses_final_replay|]. cbn; auto. Qed.
