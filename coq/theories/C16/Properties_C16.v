(* C16 property theorems only.  Each is closed by [exact] of a lemma of
   Proofs_C16 and followed by Print Assumptions. *)
From Coq Require Import List NArith Bool.
From Verif Require Import Common.Str C16.Model_C16 C16.Proofs_C16.
Import ListNotations.
Open Scope N_scope.

(* ---- the YAML escaper ------------------------------------------------------------ *)
(* whatever Python string is written by write_double_quoted, PyYAML reads back exactly
   that string (is_unicode = the code points of a Python str, at most x10FFFF) *)
Theorem C16_dq_roundtrip : forall s, is_unicode s = true ->
  yaml_dq_decode (write_double_quoted s) = Some s.
Proof. exact dq_roundtrip. Qed.
Print Assumptions C16_dq_roundtrip.

(* the same through libyaml (CSafeLoader), which refuses escapes of lone surrogates *)
Theorem C16_dq_roundtrip_libyaml_partial : forall s, is_unicode s = true -> no_surrogates s = true ->
  yaml_dq_decode_strict (write_double_quoted s) = Some s.
Proof. exact dq_roundtrip_strict. Qed.
Print Assumptions C16_dq_roundtrip_libyaml_partial.

Theorem C16_dq_roundtrip_libyaml_refuted : exists s, is_unicode s = true /\
  yaml_dq_decode_strict (write_double_quoted s) = None.
Proof. exists [0xD800]. exact dq_roundtrip_strict_refuted. Qed.
Print Assumptions C16_dq_roundtrip_libyaml_refuted.

(* the output is a single line of printable characters: no control character, no line
   break (LF CR NEL LS PS), no DEL, no BOM, for every list of numbers *)
Theorem C16_dq_single_line : forall s, forallb line_safe (write_double_quoted s) = true.
Proof. exact dq_single_line. Qed.
Print Assumptions C16_dq_single_line.

Theorem C16_line_safe_meaning : forall c, line_safe c = true ->
  printable c = true /\ is_break c = false /\ (32 <= c) /\ c <> 0x7F /\ c <> 0xFEFF.
Proof. exact line_safe_meaning. Qed.
Print Assumptions C16_line_safe_meaning.

(* the index loop of the source (start / end / slices) computes the per character form
   the theorems above are about *)
Theorem C16_dq_loop_is_functional : forall s, write_double_quoted_loop s = write_double_quoted s.
Proof. exact loop_is_functional. Qed.
Print Assumptions C16_dq_loop_is_functional.

(* ---- scalars assembled by concatenation ------------------------------------------ *)
(* uri, command and the two encoding sites double the single quote (commit 059139b3): the value is read back
   unchanged exactly when it is one line of printable characters - quotes, doubled quotes, leading and
   trailing quotes included *)
Theorem C16_sq_escaped_valid_iff : forall s, yaml_sq_decode (emit_sq_escaped s) = Some s <-> one_line s = true.
Proof. exact sq_escaped_valid_iff. Qed.
Print Assumptions C16_sq_escaped_valid_iff.

(* what is left of that site: an unprintable character (a charset holding DEL, written with --report-preserve-bytes) *)
Theorem C16_sq_escaped_valid_refuted : exists s, is_unicode s = true /\ yaml_sq_decode (emit_sq_escaped s) = None.
Proof. exists [97; 127; 98]. exact sq_escaped_refuted. Qed.
Print Assumptions C16_sq_escaped_valid_refuted.

(* the sites that still write the value as it is (method, check name, id, status, ...): read back unchanged
   exactly when the value has no single quote (and no unprintable character / line break) *)
Theorem C16_sq_valid_iff_no_quote : forall s, yaml_sq_decode (emit_sq s) = Some s <-> sq_free s = true.
Proof. exact sq_valid_iff. Qed.
Print Assumptions C16_sq_valid_iff_no_quote.

(* regression sentinel: the raw rule on a URL with quotes is not a scalar, a doubled quote reads back as one;
   the escaping rule reads both back verbatim *)
Theorem C16_sq_raw_rule_refuted :
  one_line url_with_quote = true
  /\ yaml_sq_decode (emit_sq url_with_quote) = None
  /\ yaml_sq_decode (emit_sq [97; 39; 39; 98]) = Some [97; 39; 98]
  /\ yaml_sq_decode (emit_sq_escaped url_with_quote) = Some url_with_quote
  /\ yaml_sq_decode (emit_sq_escaped [39; 97; 39; 39; 98; 39]) = Some [39; 97; 39; 39; 98; 39].
Proof. exact sq_raw_rule_refuted. Qed.
Print Assumptions C16_sq_raw_rule_refuted.

(* header names between raw double quotes *)
Theorem C16_dq_raw_valid_partial : forall s, dq_raw_free s = true -> yaml_dq_decode (emit_dq_raw s) = Some s.
Proof. exact dq_raw_valid. Qed.
Print Assumptions C16_dq_raw_valid_partial.

Theorem C16_dq_raw_valid_refuted : exists s t, yaml_dq_decode (emit_dq_raw s) = None /\
  yaml_dq_decode (emit_dq_raw t) <> Some t.
Proof. exact dq_raw_refuted_ex. Qed.
Print Assumptions C16_dq_raw_valid_refuted.

(* json.dumps (header values, reason phrase) read back as YAML: exact for every string of
   the Basic Multilingual Plane, in particular for all latin-1 text *)
Theorem C16_json_site_roundtrip_partial : forall s, is_bmp s = true -> yaml_dq_decode (json_dumps s) = Some s.
Proof. exact json_roundtrip. Qed.
Print Assumptions C16_json_site_roundtrip_partial.

Theorem C16_json_site_roundtrip_refuted : exists s, is_unicode s = true /\ yaml_dq_decode (json_dumps s) <> Some s.
Proof. exact json_refuted_ex. Qed.
Print Assumptions C16_json_site_roundtrip_refuted.

(* a case without metadata glues null to the quoted status *)
Theorem C16_meta_none_refuted : sq_line_ok (status_line_tail MetaNone) = false /\
  sq_line_ok (status_line_tail MetaFuzzing) = true /\ sq_line_ok (status_line_tail MetaCoverage) = true.
Proof. exact meta_tail. Qed.
Print Assumptions C16_meta_none_refuted.

(* ---- JUnit handler over event histories ------------------------------------------ *)
(* the handler as it is now (commit 12c14c85) never raises, for every history *)
Theorem C16_junit_never_crashes : forall h, exists s t w, junit_run h = Running s t w.
Proof. exact junit_never_crashes. Qed.
Print Assumptions C16_junit_never_crashes.

(* ... and every FAILURE-status scenario leaves at least one failure element in the test case of its label *)
Theorem C16_junit_failure_is_reported : forall h s t w l,
  junit_run h = Running s t w -> In l (failure_labels h) -> has_failure l t = true.
Proof. exact junit_failure_reported. Qed.
Print Assumptions C16_junit_failure_is_reported.

Theorem C16_junit_region_satisfiable : exists h, fresh_failure_or_known_label h = true /\
  match junit_run h with
  | Running _ _ (Some t) => map fst t = [1; 2; 3; 4] /\ map (fun kv => length (t_failures (snd kv))) t = [2; 1; 0; 0]%nat
  | _ => False
  end.
Proof. exists h_fine. exact junit_fine. Qed.
Print Assumptions C16_junit_region_satisfiable.

(* regression sentinel: the handler BEFORE the fix (failures[label]) raises KeyError exactly on the
   histories outside the region; the witness is the failure found in fuzzing and again by the stateful phase *)
Theorem C16_junit_old_handler_crashes_iff : forall h, junit_crashes_old h = negb (fresh_failure_or_known_label h).
Proof. exact junit_crashes_iff. Qed.
Print Assumptions C16_junit_old_handler_crashes_iff.

Theorem C16_junit_old_handler_never_crashes_partial : forall h, fresh_failure_or_known_label h = true ->
  exists s t w, junit_run_old h = Running s t w.
Proof. exact junit_partial. Qed.
Print Assumptions C16_junit_old_handler_never_crashes_partial.

Theorem C16_junit_old_handler_never_crashes_refuted : exists h l, junit_run_old h = Crash l.
Proof. exists h_rediscovered, 2. exact junit_refuted. Qed.
Print Assumptions C16_junit_old_handler_never_crashes_refuted.

(* ---- cassette writers ------------------------------------------------------------ *)
(* HAR: every interaction delivered through ScenarioFinished events is written exactly once, in order,
   and the file is closed - for every history, with or without sanitization (commit 8fd7266e) *)
Theorem C16_each_interaction_once_har : forall sanitize preserve h,
  written {| w_fmt := HAR; w_sanitize := sanitize; w_preserve := preserve |} h = (complete (delivered h), Closed).
Proof. exact once_har. Qed.
Print Assumptions C16_each_interaction_once_har.

(* the reason for HAR: _extract_cookies hands SimpleCookie single characters, which never form a key=value pair,
   so no CookieError can escape (and the cookies lists of the HAR file are always empty) *)
Theorem C16_har_cookie_pieces_never_raise : forall values, existsb cookie_error (flat_map pieces_now values) = false.
Proof. exact cookies_never_raise. Qed.
Print Assumptions C16_har_cookie_pieces_never_raise.

Theorem C16_har_cookies_always_empty : forall name d, har_cookies name d = [].
Proof. exact har_cookies_empty. Qed.
Print Assumptions C16_har_cookies_always_empty.

(* sentinel: a comprehension repaired to iterate over header values (seeded C16_b) lets CookieError escape for a
   cookie named tenant/id when sanitization is off; the code as it is does not *)
Theorem C16_whole_value_cookies_would_raise :
  written_whole {| w_fmt := HAR; w_sanitize := false; w_preserve := false |} [CScenario [i_plain 1; i_cookie 2 c_tenant; i_plain 3]] = ([(1, true)], Died)
  /\ written_whole {| w_fmt := HAR; w_sanitize := true; w_preserve := false |} [CScenario [i_plain 1; i_cookie 2 c_tenant; i_plain 3]] = (complete [1; 2; 3], Closed)
  /\ written {| w_fmt := HAR; w_sanitize := false; w_preserve := false |} [CScenario [i_plain 1; i_cookie 2 c_tenant; i_plain 3]] = (complete [1; 2; 3], Closed).
Proof. exact whole_value_cookies_would_raise. Qed.
Print Assumptions C16_whole_value_cookies_would_raise.

(* VCR: the same, unless a response names a codec that exists and raises on decode (commit ad7dc72b made
   unknown charsets harmless) *)
Theorem C16_each_interaction_once_partial : forall sanitize preserve h, no_raising_codec h = true ->
  written {| w_fmt := VCR; w_sanitize := sanitize; w_preserve := preserve |} h = (complete (delivered h), Closed).
Proof. exact once_vcr. Qed.
Print Assumptions C16_each_interaction_once_partial.

(* unconditionally: nothing is invented, duplicated or reordered *)
Theorem C16_written_is_prefix_of_delivered : forall w h, exists rest, delivered h = map fst (fst (written w h)) ++ rest.
Proof. exact written_is_prefix_now. Qed.
Print Assumptions C16_written_is_prefix_of_delivered.

(* VCR with charset=undefined *)
Theorem C16_each_interaction_once_refuted : exists w h i, In i (delivered h) /\ ~ In i (map fst (fst (written w h))) /\
  snd (written w h) = Died.
Proof. exact once_refuted_ex. Qed.
Print Assumptions C16_each_interaction_once_refuted.

(* regression sentinel: the writers before the two fixes lost exchanges where the present ones do not *)
Theorem C16_old_writers_lost_exchanges : 
  written_old har_sanitized [CScenario [i_user 1]; CScenario [i_plain 2]] = ([], Died)
  /\ written har_sanitized [CScenario [i_user 1]; CScenario [i_plain 2]] = (complete [1; 2], Closed)
  /\ written_old vcr_default [CScenario [i_plain 1; i_bogus 2; i_plain 3]] = ([(1, true); (2, false)], Died)
  /\ written vcr_default [CScenario [i_plain 1; i_bogus 2; i_plain 3]] = (complete [1; 2; 3], Closed).
Proof. exact old_writers_lost. Qed.
Print Assumptions C16_old_writers_lost_exchanges.

(* ---- entries are a function of one interaction ------------------------------------ *)
(* the writer loops carry Python locals (post_data, response, headers, checks, status) from one
   iteration to the next; whatever their values, the list of entries is the pointwise image of
   the delivered interactions *)
Theorem C16_entries_are_pointwise : forall preserve hv vv xs,
  har_loop preserve hv xs = map (har_entry preserve) xs /\ vcr_loop preserve vv xs = map (vcr_entry preserve) xs.
Proof. exact entries_pointwise. Qed.
Print Assumptions C16_entries_are_pointwise.

Theorem C16_entry_independent_of_history : forall preserve hv vv pre x post,
  nth_error (har_loop preserve hv (pre ++ x :: post)) (length pre) = Some (har_entry preserve x)
  /\ nth_error (vcr_loop preserve vv (pre ++ x :: post)) (length pre) = Some (vcr_entry preserve x).
Proof. exact entry_independent_of_history. Qed.
Print Assumptions C16_entry_independent_of_history.

Theorem C16_bodyless_request_has_no_body : forall preserve x, q_body (x_req x) = None ->
  he_post (har_entry preserve x) = None /\ ve_body (vcr_entry preserve x) = None.
Proof. exact bodyless_has_no_post. Qed.
Print Assumptions C16_bodyless_request_has_no_body.

(* ---- lifecycle of the writer thread up to process exit (Part 5) -------------------- *)
(* queue of Initialize / Process / Finalize, a writer that takes one item at a time and may be arbitrarily slow,
   shutdown = put Finalize + join with a timeout that may expire at ANY point, then sys.exit: Click closes the
   handles it owns, the interpreter waits for a non-daemon writer and kills a daemon one.
   For every history, every interleaving and every point at which the join times out: once the process has
   exited, the file holds what the writer loop produces on the whole queue and the writer has ended in the
   state the loop ends in - for the non-daemon thread of the code as it is and report files of its own
   (--report / --report-dir) *)
Theorem C16_exit_flushes_backlog_partial : forall c w h sched,
  lc_daemon c = false -> report_dir_owned c = true ->
  lexited (lrun c w h sched) = true ->
  lresult (lrun c w h sched) = (fst (written w h), LEnded (snd (written w h))).
Proof. exact exit_flushes_backlog. Qed.
Print Assumptions C16_exit_flushes_backlog_partial.

(* with the theorems about the loop: every delivered exchange is in the file, the footer is written *)
Theorem C16_report_complete_at_exit_har : forall sanitize preserve h sched,
  lexited (lrun lconf_report_dir {| w_fmt := HAR; w_sanitize := sanitize; w_preserve := preserve |} h sched) = true ->
  lresult (lrun lconf_report_dir {| w_fmt := HAR; w_sanitize := sanitize; w_preserve := preserve |} h sched) = (complete (delivered h), LEnded Closed).
Proof. exact report_complete_at_exit_har. Qed.
Print Assumptions C16_report_complete_at_exit_har.

Theorem C16_report_complete_at_exit_vcr_partial : forall sanitize preserve h sched, no_raising_codec h = true ->
  lexited (lrun lconf_report_dir {| w_fmt := VCR; w_sanitize := sanitize; w_preserve := preserve |} h sched) = true ->
  lresult (lrun lconf_report_dir {| w_fmt := VCR; w_sanitize := sanitize; w_preserve := preserve |} h sched) = (complete (delivered h), LEnded Closed).
Proof. exact report_complete_at_exit_vcr. Qed.
Print Assumptions C16_report_complete_at_exit_vcr_partial.

(* the hypothesis is satisfiable in the worst way: for every configuration and history the process does exit when
   the join times out with the WHOLE backlog still in the queue and nothing in the file *)
Theorem C16_exit_reachable_with_full_backlog : forall c w h,
  l_queue (lrun c w h (map (fun _ => SMain) (cassette_queue h) ++ [STimeout])) = cassette_queue h
  /\ l_out (lrun c w h (map (fun _ => SMain) (cassette_queue h) ++ [STimeout])) = []
  /\ lexited (lrun c w h (sched_full_backlog h)) = true.
Proof. exact exit_reachable_with_full_backlog. Qed.
Print Assumptions C16_exit_reachable_with_full_backlog.

(* the code as it is with --report-vcr-path / --report-har-path (click.File handles): Click closes the handle at
   context teardown, the non-daemon writer dies on its next write: exchange 3 of three is lost, the writer Died *)
Theorem C16_exit_flushes_backlog_refuted : exists w h sched i,
  lexited (lrun lconf_report_path w h sched) = true /\ In i (delivered h)
  /\ ~ In i (map fst (fst (lresult (lrun lconf_report_path w h sched))))
  /\ snd (lresult (lrun lconf_report_path w h sched)) = LEnded Died.
Proof. exact exit_flushes_backlog_refuted_ex. Qed.
Print Assumptions C16_exit_flushes_backlog_refuted.

Theorem C16_click_owned_file_loses_backlog :
  delivered h_three = [1; 2; 3]
  /\ lexited (lrun lconf_report_path vcr_default h_three sched_slow_writer) = true
  /\ lresult (lrun lconf_report_path vcr_default h_three sched_slow_writer) = ([(1, true)], LEnded Died)
  /\ lresult (lrun lconf_report_path har_sanitized h_three sched_slow_writer) = ([(1, true)], LEnded Died)
  /\ lresult (lrun lconf_report_dir vcr_default h_three sched_slow_writer) = (complete [1; 2; 3], LEnded Closed)
  /\ lresult (lrun lconf_report_dir har_sanitized h_three sched_slow_writer) = (complete [1; 2; 3], LEnded Closed).
Proof. exact click_owned_loses_backlog. Qed.
Print Assumptions C16_click_owned_file_loses_backlog.

(* every configuration, daemon or not, Click-owned or not: when no join timed out *)
Theorem C16_join_returned_then_complete_partial : forall c w h sched, join_never_timed_out sched = true ->
  lexited (lrun c w h sched) = true ->
  lresult (lrun c w h sched) = (fst (written w h), LEnded (snd (written w h))).
Proof. exact join_returned_then_complete. Qed.
Print Assumptions C16_join_returned_then_complete_partial.

(* sentinel (seeded C16_c): were the writer a daemon thread, the same schedules would leave one exchange of three
   (or nothing at all) in the file, the thread killed in its backlog; the code as it is creates a non-daemon thread *)
Theorem C16_daemon_writer_would_lose_backlog :
  lexited (lrun lconf_daemon vcr_default h_three sched_slow_writer) = true
  /\ lresult (lrun lconf_daemon vcr_default h_three sched_slow_writer) = ([(1, true)], LKilled)
  /\ lresult (lrun lconf_daemon har_sanitized h_three sched_slow_writer) = ([(1, true)], LKilled)
  /\ lresult (lrun lconf_daemon vcr_default h_three (sched_full_backlog h_three)) = ([], LKilled)
  /\ lresult (lrun lconf_report_dir vcr_default h_three (sched_full_backlog h_three)) = (complete [1; 2; 3], LEnded Closed)
  /\ lc_daemon lconf_report_dir = false /\ lc_daemon lconf_report_path = false.
Proof. exact daemon_writer_loses_backlog. Qed.
Print Assumptions C16_daemon_writer_would_lose_backlog.

(* ---- Part 6: the handlers over WHOLE ScenarioFinished events (after seeded regression C16_d) ---- *)
(* C16_each_interaction_once generalised: for every history of events with ANY phase, event label (or none),
   status, skip_reason, is_final and recorder, the file holds the interactions of every delivered recorder *)
Theorem C16_each_interaction_once_all_events_har : forall sanitize preserve h,
  written_ev {| w_fmt := HAR; w_sanitize := sanitize; w_preserve := preserve |} h = (complete (delivered_ev h), Closed).
Proof. exact once_all_events_har. Qed.
Print Assumptions C16_each_interaction_once_all_events_har.

Theorem C16_each_interaction_once_all_events_partial : forall sanitize preserve h, no_raising_codec_ev h = true ->
  written_ev {| w_fmt := VCR; w_sanitize := sanitize; w_preserve := preserve |} h = (complete (delivered_ev h), Closed).
Proof. exact once_all_events_vcr. Qed.
Print Assumptions C16_each_interaction_once_all_events_partial.

(* the same read as a count: case ids unique in the run, then the id of every interaction of every delivered
   recorder occurs exactly once in the file, as a complete entry *)
Theorem C16_every_delivered_interaction_counted_once_har : forall sanitize preserve h e i,
  NoDup (delivered_ev h) -> In (FScenario e) h -> In i (sf_inters e) ->
  count_occ N.eq_dec (map fst (fst (written_ev {| w_fmt := HAR; w_sanitize := sanitize; w_preserve := preserve |} h))) (i_id i) = 1%nat
  /\ In (i_id i, true) (fst (written_ev {| w_fmt := HAR; w_sanitize := sanitize; w_preserve := preserve |} h)).
Proof. exact each_interaction_counted_once_har. Qed.
Print Assumptions C16_every_delivered_interaction_counted_once_har.

Theorem C16_every_delivered_interaction_counted_once_partial : forall sanitize preserve h e i, no_raising_codec_ev h = true ->
  NoDup (delivered_ev h) -> In (FScenario e) h -> In i (sf_inters e) ->
  count_occ N.eq_dec (map fst (fst (written_ev {| w_fmt := VCR; w_sanitize := sanitize; w_preserve := preserve |} h))) (i_id i) = 1%nat
  /\ In (i_id i, true) (fst (written_ev {| w_fmt := VCR; w_sanitize := sanitize; w_preserve := preserve |} h)).
Proof. exact each_interaction_counted_once_vcr. Qed.
Print Assumptions C16_every_delivered_interaction_counted_once_partial.

(* ANY rule by which handle_event might pass over some ScenarioFinished events is right exactly when the events it
   passes over carry no interaction *)
Theorem C16_forward_rule_complete_iff_har : forall fwd sanitize preserve h,
  written_ev_gen fwd {| w_fmt := HAR; w_sanitize := sanitize; w_preserve := preserve |} h = (complete (delivered_ev h), Closed)
  <-> lost_by fwd h = [].
Proof. exact rule_complete_iff_har. Qed.
Print Assumptions C16_forward_rule_complete_iff_har.

Theorem C16_forward_rule_complete_iff_partial : forall fwd sanitize preserve h, no_raising_codec_ev h = true ->
  (written_ev_gen fwd {| w_fmt := VCR; w_sanitize := sanitize; w_preserve := preserve |} h = (complete (delivered_ev h), Closed)
   <-> lost_by fwd h = []).
Proof. exact rule_complete_iff_vcr. Qed.
Print Assumptions C16_forward_rule_complete_iff_partial.

(* sentinel (seeded C16_d): the rule that skips final scenarios silently loses the final replay of a failing stateful
   sequence; the code as it is (forward_all) writes all five exchanges *)
Theorem C16_skip_final_rule_refuted : exists w h e i,
  In (FScenario e) h /\ In i (sf_inters e) /\ NoDup (delivered_ev h)
  /\ ~ In (i_id i) (map fst (fst (written_ev_gen skip_final w h)))
  /\ snd (written_ev_gen skip_final w h) = Closed.
Proof. exact skip_final_refuted_ex. Qed.
Print Assumptions C16_skip_final_rule_refuted.

Theorem C16_skip_final_rule_loses_final_replay :
  delivered_ev h_final_replay = [1; 2; 3; 4; 5] /\ NoDup (delivered_ev h_final_replay)
  /\ lost_by skip_final h_final_replay = [4; 5]
  /\ written_ev_gen skip_final vcr_default h_final_replay = (complete [1; 2; 3], Closed)
  /\ written_ev_gen skip_final har_sanitized h_final_replay = (complete [1; 2; 3], Closed)
  /\ written_ev vcr_default h_final_replay = (complete [1; 2; 3; 4; 5], Closed)
  /\ written_ev har_sanitized h_final_replay = (complete [1; 2; 3; 4; 5], Closed).
Proof. exact skip_final_loses_final_replay. Qed.
Print Assumptions C16_skip_final_rule_loses_final_replay.

(* JUnit: the handler reads recorder.label, status and skip_reason - and, through format_failures, the TEXT of the
   responses of the failure groups stored under the label.  No event attribute makes it crash or pass over a failure.
   Since 22e8a9e1 format_failures catches (UnicodeError, LookupError) around response.text: unknown charsets and
   raising codecs (finding C16-F11, fixed) are inside the theorem.  What is left outside is a charset NAME Python
   refuses before any lookup (NUL character: ValueError), finding C16-F12 *)
Theorem C16_junit_all_events_never_crashes_partial : forall h, texts_decodable h = true ->
  exists s t w, junit_run_ev h = RunningEv s t w [].
Proof. exact junit_ev_never_crashes. Qed.
Print Assumptions C16_junit_all_events_never_crashes_partial.

(* the region, read on one interaction: only a received response whose charset name is refused *)
Theorem C16_junit_region_meaning : forall i, text_raises i = true <-> (i_response i = true /\ i_codec i = CodecBadName).
Proof. exact text_raises_meaning. Qed.
Print Assumptions C16_junit_region_meaning.

(* inside the region both halves hold together: the run goes on AND every FAILURE event is in the report *)
Theorem C16_junit_all_events_runs_and_reports_partial : forall h, texts_decodable h = true ->
  exists s t w, junit_run_ev h = RunningEv s t w []
    /\ forall e, In (FScenario e) h -> sf_status e = StFailure -> has_failure (sf_rlabel e) t = true.
Proof. exact junit_ev_runs_and_reports. Qed.
Print Assumptions C16_junit_all_events_runs_and_reports_partial.

Theorem C16_junit_all_events_never_crashes_refuted : exists h a, junit_run_ev h = Aborted a.
Proof. exact junit_ev_never_crashes_refuted_ex. Qed.
Print Assumptions C16_junit_all_events_never_crashes_refuted.

(* the witnesses: a failed check on a response whose charset name carries a NUL character aborts the run at once; a
   group stored by a SUCCESS-status event aborts it at the next FAILURE event of the label; the dictionary-level
   machine of Part 2 (C16_junit_never_crashes) does not see the response text and keeps running *)
Theorem C16_junit_aborts_on_undecodable_failure_text :
  texts_decodable h_nul_failure = false /\ junit_run_ev h_nul_failure = Aborted (AbortText 1)
  /\ junit_run_ev h_nul_then_failure = Aborted (AbortText 1)
  /\ (exists s t w, junit_run (map jevent_of h_nul_failure) = Running s t w).
Proof. exact junit_ev_aborts_on_undecodable_text. Qed.
Print Assumptions C16_junit_aborts_on_undecodable_failure_text.

(* for EVERY except clause around response.text: inside its own region the handler never aborts; a clause that lets
   nothing through (the complete repair) has every history in its region *)
Theorem C16_junit_any_catch_rule_never_crashes_partial : forall c h, texts_decodable_c c h = true ->
  exists s t w, junit_run_ev_c c forward_all h = RunningEv s t w [].
Proof. exact junit_ev_never_crashes_c. Qed.
Print Assumptions C16_junit_any_catch_rule_never_crashes_partial.

Theorem C16_junit_catch_all_rule_never_crashes : forall c h, (forall x, c x = true) ->
  exists s t w, junit_run_ev_c c forward_all h = RunningEv s t w [].
Proof. exact junit_ev_catch_all_never_crashes. Qed.
Print Assumptions C16_junit_catch_all_rule_never_crashes.

(* sentinel for the handler before 22e8a9e1 (except UnicodeDecodeError): its region was every charset decodable; the
   repair only enlarged the region; on the two witnesses of C16-F11 (charset=bogus under a FAILURE event;
   charset=undefined under a SUCCESS event, then a FAILURE event of the label) the old clause aborts the run, the
   code as it is keeps running and writes the report with a failure element under the label *)
Theorem C16_junit_old_catch_rule_never_crashes_partial : forall h, texts_decodable_old h = true ->
  exists s t w, junit_run_ev_old h = RunningEv s t w [].
Proof. exact junit_ev_old_never_crashes. Qed.
Print Assumptions C16_junit_old_catch_rule_never_crashes_partial.

Theorem C16_junit_repair_enlarged_the_region : forall h, texts_decodable_old h = true -> texts_decodable h = true.
Proof. exact texts_decodable_old_now. Qed.
Print Assumptions C16_junit_repair_enlarged_the_region.

Theorem C16_junit_old_catch_rule_refuted : exists h a, texts_decodable h = true /\ junit_run_ev_old h = Aborted a.
Proof. exact junit_old_catch_rule_refuted_ex. Qed.
Print Assumptions C16_junit_old_catch_rule_refuted.

Theorem C16_junit_old_catch_rule_aborted_on_unknown_charset :
  texts_decodable_old h_bogus_failure = false /\ texts_decodable h_bogus_failure = true
  /\ texts_decodable_old h_bogus_then_failure = false /\ texts_decodable h_bogus_then_failure = true
  /\ junit_run_ev_old h_bogus_failure = Aborted (AbortText 1)
  /\ junit_run_ev_old h_bogus_then_failure = Aborted (AbortText 1)
  /\ (exists s t w, junit_run_ev h_bogus_failure = RunningEv s t (Some w) [] /\ has_failure 1 w = true)
  /\ (exists s t w, junit_run_ev h_bogus_then_failure = RunningEv s t (Some w) [] /\ has_failure 1 w = true).
Proof. exact junit_old_catch_rule_aborts. Qed.
Print Assumptions C16_junit_old_catch_rule_aborted_on_unknown_charset.

(* every history, no region: a run that was not aborted has a failure element for every FAILURE-status event *)
Theorem C16_junit_all_events_failure_is_reported : forall h s t w bad e, junit_run_ev h = RunningEv s t w bad ->
  In (FScenario e) h -> sf_status e = StFailure -> has_failure (sf_rlabel e) t = true.
Proof. exact junit_ev_failure_reported. Qed.
Print Assumptions C16_junit_all_events_failure_is_reported.

Theorem C16_junit_skip_final_would_miss_failure :
  failure_labels_ev h_final_failure = [2]
  /\ reported 2 (junit_run_ev h_final_failure) = true
  /\ reported 2 (junit_run_ev_gen skip_final h_final_failure) = false.
Proof. exact junit_skip_final_misses_failure. Qed.
Print Assumptions C16_junit_skip_final_would_miss_failure.

(* the report at process exit (Part 5), over full events *)
Theorem C16_report_complete_at_exit_all_events_har : forall sanitize preserve h sched,
  lexited (lrun lconf_report_dir {| w_fmt := HAR; w_sanitize := sanitize; w_preserve := preserve |} (map (cevent_of forward_all) h) sched) = true ->
  lresult (lrun lconf_report_dir {| w_fmt := HAR; w_sanitize := sanitize; w_preserve := preserve |} (map (cevent_of forward_all) h) sched)
  = (complete (delivered_ev h), LEnded Closed).
Proof. exact report_complete_at_exit_ev_har. Qed.
Print Assumptions C16_report_complete_at_exit_all_events_har.
