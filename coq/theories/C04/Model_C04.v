(* C04 model: the four response conformance checks of
   schemathesis/specs/openapi/checks.py as coded (verdict) and as the API
   documentation specifies (spec_verdict).  Executable definitions only.

   Foreign code enters as function arguments:
     valid  sid did : python-jsonschema accepts body did under converted schema sid
     hvalid hid v   : coerce header text v and validate it under header schema hid
   JSON parsing and UTF-8 decoding of the body are foreign too: the body arrives
   classified (BadUtf8 / NotJson / Json did). *)
From Coq Require Import List NArith ZArith Bool.
From Verif Require Import Common.Str Common.Json.
Import ListNotations.
Open Scope N_scope.

(* ---------- literals ---------- *)
Definition s_default : str := [100;101;102;97;117;108;116].
Definition s_content_type : str := [99;111;110;116;101;110;116;45;116;121;112;101].
Definition s_application : str := [97;112;112;108;105;99;97;116;105;111;110].
Definition s_json : str := [106;115;111;110].
Definition s_plus_json : str := [43;106;115;111;110].
Definition s_star : str := [42].
Definition digits : list N := [48;49;50;51;52;53;54;55;56;57].
(* str.isspace: what str.strip() and int() strip *)
Definition ws : list N :=
  [9;10;11;12;13;28;29;30;31;32;133;160;5760;8192;8193;8194;8195;8196;8197;8198;8199;8200;8201;8202;8232;8233;8239;8287;12288].

(* ---------- str(int) and int(str) ---------- *)
Fixpoint dec_aux (fuel : nat) (n : N) (acc : str) : str :=
  match fuel with
  | O => acc
  | S f => let acc' := (48 + n mod 10) :: acc in
           if (n / 10 =? 0) then acc' else dec_aux f (n / 10) acc'
  end.
Definition dec (n : N) : str := dec_aux (S (N.to_nat (N.log2 n))) n [].

(* digits with single underscores between them *)
Fixpoint digits_val (s : str) (acc : N) (prev_digit : bool) : option N :=
  match s with
  | [] => if prev_digit then Some acc else None
  | c :: s' =>
      if is_digit c then digits_val s' (acc * 10 + (c - 48)) true
      else if (c =? 95) && prev_digit then digits_val s' acc false
      else None
  end.

(* int(s) for ASCII input; None = ValueError *)
Definition py_int (s : str) : option Z :=
  match strip ws s with
  | 43 :: r => option_map Z.of_N (digits_val r 0 false)
  | 45 :: r => option_map (fun n => Z.opp (Z.of_N n)) (digits_val r 0 false)
  | t => option_map Z.of_N (digits_val t 0 false)
  end.

(* ---------- utils.expand_status_code (utils.py:8) ---------- *)
Inductive key := KStr (s : str) | KInt (n : N).
Definition key_str (k : key) : str := match k with KStr s => s | KInt n => dec n end.

Fixpoint product (l : list (list N)) : list str :=
  match l with
  | [] => [[]]
  | cs :: r => flat_map (fun c => map (cons c) (product r)) cs
  end.

Definition key_chars (k : key) : list (list N) :=
  map (fun c => if c =? 88 then digits else [c]) (upper_ascii (key_str k)).

Definition expand_key (k : key) : list (option Z) := map py_int (product (key_chars k)).

(* list(_expand_responses(responses)): None = ValueError from int() *)
Fixpoint sequence {A} (l : list (option A)) : option (list A) :=
  match l with
  | [] => Some []
  | None :: _ => None
  | Some x :: r => option_map (cons x) (sequence r)
  end.
Definition all_codes (keys : list key) : option (list Z) := sequence (flat_map expand_key keys).

Definition zmem (z : Z) (l : list Z) : bool := existsb (Z.eqb z) l.
Definition is_default_key (k : key) : bool := match k with KStr s => str_eqb s s_default | KInt _ => false end.
(* checks.py:79 (since e29caab0): isinstance(code, str) and code.lower().startswith(x-) - a specification extension *)
Definition is_extension_key (k : key) : bool :=
  match k with KStr s => starts_with [120;45] (lower_ascii s) | KInt _ => false end.
(* the keys _expand_responses hands to expand_status_code *)
Definition status_keys (keys : list key) : list key := filter (fun k => negb (is_extension_key k)) keys.

(* ---------- documentation ---------- *)
Record sch := { s_id : N; s_truthy : bool }.
Record hdr := { h_name : str; h_required : bool; h_is_ref : bool; h_id : N }.
Record rbody := { r_content : list (str * option sch); r_schema20 : option sch; r_headers : list hdr }.
Inductive rdef := RInline (b : rbody) | RRef (name : str).
Record doc := {
  d_v30 : bool;
  d_responses : list (key * rdef);        (* the pairs the responses dict is built from *)
  d_components : list (str * rdef);       (* components/responses (3.x) or responses (2.0) *)
  d_produces_op : list str;
  d_produces_global : list str }.
Definition empty_body : rbody := {| r_content := []; r_schema20 := None; r_headers := [] |}.

Inductive body := BadUtf8 | NotJson | Json (did : N).
Record response := {
  status : N;
  rheaders : list (str * str);   (* Response.headers: lower-cased name, first value *)
  rbody_ : body }.

(* ---------- failures ---------- *)
Inductive fk :=
| FUndefinedStatus | FMissingCT | FMalformedMT | FUndefinedCT | FMissingHeaders | FHeaderSchema
| FMalformedJson | FBodySchema | FCrash.
Inductive exn := EValueError | EUnicodeDecode | EMalformedMediaType | ERefResolution.
Inductive outcome := Ok (l : list fk) | Crash (e : exn).

Definition fk_eqb (a b : fk) : bool :=
  match a, b with
  | FUndefinedStatus, FUndefinedStatus | FMissingCT, FMissingCT | FMalformedMT, FMalformedMT
  | FUndefinedCT, FUndefinedCT | FMissingHeaders, FMissingHeaders | FHeaderSchema, FHeaderSchema
  | FMalformedJson, FMalformedJson | FBodySchema, FBodySchema | FCrash, FCrash => true
  | _, _ => false
  end.
Definition all_fk : list fk :=
  [FUndefinedStatus; FMissingCT; FMalformedMT; FUndefinedCT; FMissingHeaders; FHeaderSchema; FMalformedJson; FBodySchema; FCrash].
Definition fk_mem (k : fk) (l : list fk) : bool := existsb (fk_eqb k) l.
(* the set of failures as a canonical list (run_checks collects a set) *)
Definition canon (l : list fk) : list fk := filter (fun k => fk_mem k l) all_fk.
Definition kinds (o : outcome) : list fk := match o with Ok l => l | Crash _ => [FCrash] end.

(* ---------- media_types.parse (core/media_types.py:37) ---------- *)
(* first field of _parseparam(; + line): up to the first ; that is at index 0 or
   has an even number of double quotes not preceded by a backslash before it *)
Fixpoint seg_scan (s : str) (first prev_bs odd : bool) (acc : str) : str :=
  match s with
  | [] => rev acc
  | c :: s' =>
      if (c =? 59) && (first || negb odd) then rev acc
      else seg_scan s' false (c =? 92) (if (c =? 34) && negb prev_bs then negb odd else odd) (c :: acc)
  end.
Definition first_segment (s : str) : str := seg_scan s true false false [].

Fixpoint split_once (sep : N) (s : str) (acc : str) : option (str * str) :=
  match s with
  | [] => None
  | c :: s' => if c =? sep then Some (rev acc, s') else split_once sep s' (c :: acc)
  end.

(* None = MalformedMediaType(ValueError) *)
Definition parse (s : str) : option (str * str) :=
  match split_once 47 (strip ws (first_segment s)) [] with
  | None => None
  | Some (m, sub) => Some (lower_ascii m, lower_ascii sub)
  end.

Definition is_json (p : str * str) : bool :=
  str_eqb (fst p) s_application && (str_eqb (snd p) s_json || ends_with s_plus_json (snd p)).

(* checks.py:109-114 *)
Definition media_match (e r : str * str) : bool :=
  (str_eqb (fst e) s_star && str_eqb (snd e) s_star)
  || (str_eqb (fst e) (fst r) && str_eqb (snd e) s_star)
  || (str_eqb (fst e) s_star && str_eqb (snd e) (snd r))
  || (str_eqb (fst e) (fst r) && str_eqb (snd e) (snd r)).

(* the loop of content_type_conformance (checks.py:100-121) *)
Fixpoint ct_loop (documented : list str) (ct : str) : list fk :=
  match documented with
  | [] => [FUndefinedCT]
  | o :: rest =>
      match parse o with
      | None => [FMalformedMT]
      | Some e =>
          match parse ct with
          | None => [FMalformedMT]
          | Some r => if media_match e r then [] else ct_loop rest ct
          end
      end
  end.

(* ---------- looking the response definition up ---------- *)
(* dict semantics: the last pair with an equal key wins *)
Definition lookup_by {A} (p : key -> bool) (l : list (key * A)) : option A :=
  fold_left (fun acc kv => if p (fst kv) then Some (snd kv) else acc) l None.
Definition raw_is (s : str) (k : key) : bool := match k with KStr t => str_eqb t s | KInt _ => false end.
Definition str_is (s : str) (k : key) : bool := str_eqb (key_str k) s.

(* _get_response_definitions (schemas.py:576): raw keys, exact then default *)
Definition lookup_raw (d : doc) (code : N) : option rdef :=
  match lookup_by (raw_is (dec code)) (d_responses d) with
  | Some x => Some x
  | None => lookup_by (raw_is s_default) (d_responses d)
  end.
(* validate_response (schemas.py:669): keys through str(), exact then default *)
Definition lookup_str (d : doc) (code : N) : option rdef :=
  match lookup_by (str_is (dec code)) (d_responses d) with
  | Some x => Some x
  | None => lookup_by (str_is s_default) (d_responses d)
  end.

Definition has_x (k : key) : bool := mem 88 (upper_ascii (key_str k)).
Definition key_matches (k : key) (code : N) : bool :=
  existsb (fun o => match o with Some z => Z.eqb z (Z.of_N code) | None => false end) (expand_key k).
(* as documented: exact, then a matching wildcard key, then default *)
Definition lookup_spec (d : doc) (code : N) : option rdef :=
  match lookup_by (str_is (dec code)) (d_responses d) with
  | Some x => Some x
  | None =>
      match find (fun kv => has_x (fst kv) && negb (is_default_key (fst kv)) && negb (is_extension_key (fst kv)) && key_matches (fst kv) code) (d_responses d) with
      | Some kv => Some (snd kv)
      | None => lookup_by (str_is s_default) (d_responses d)
      end
  end.

Inductive resolved := RBody (b : rbody) | RFail.
(* InliningResolver.resolve_in_scope (references.py:112): ONE step *)
Definition resolve_code (d : doc) (x : rdef) : resolved :=
  match x with
  | RInline b => RBody b
  | RRef n => match assoc_get n (d_components d) with
              | Some (RInline b) => RBody b
              | Some (RRef _) => RBody empty_body      (* a dict holding only $ref: every .get() misses *)
              | None => RFail
              end
  end.
(* as documented: follow the chain *)
Fixpoint resolve_fuel (fuel : nat) (comps : list (str * rdef)) (x : rdef) : resolved :=
  match x with
  | RInline b => RBody b
  | RRef n => match fuel with
              | O => RFail
              | S f => match assoc_get n comps with Some y => resolve_fuel f comps y | None => RFail end
              end
  end.
Definition resolve_spec (d : doc) (x : rdef) : resolved := resolve_fuel (S (length (d_components d))) (d_components d) x.

(* ---------- the checks over an already looked-up definition ---------- *)
Definition get_header (name : str) (r : response) : option str := assoc_get name (rheaders r).

Definition ct_check_on (documented : list str) (r : response) : outcome :=
  match documented with
  | [] => Ok []
  | _ => match get_header s_content_type r with
         | None => Ok [FMissingCT]
         | Some ct => Ok (ct_loop documented ct)
         end
  end.

(* mask = true: required is read from the unresolved header definition (checks.py:152) *)
Definition hdr_missing (mask : bool) (r : response) (h : hdr) : bool :=
  negb (assoc_mem (lower_ascii (h_name h)) (rheaders r)) && (h_required h && negb (mask && h_is_ref h)).
Definition hdr_invalid (hvalid : N -> str -> bool) (r : response) (h : hdr) : bool :=
  match get_header (lower_ascii (h_name h)) r with
  | Some v => negb (hvalid (h_id h) v)
  | None => false
  end.
Definition hdr_check_on (mask : bool) (hvalid : N -> str -> bool) (hs : list hdr) (r : response) : outcome :=
  Ok ((if existsb (hdr_missing mask r) hs then [FMissingHeaders] else [])
      ++ (if existsb (hdr_invalid hvalid r) hs then [FHeaderSchema] else [])).

(* validate_response from the schema on (schemas.py:680-720).
   strict = true is the code: a malformed received media type and an undecodable body escape as exceptions *)
Definition schema_check_on (strict : bool) (valid : N -> N -> bool) (os : option sch) (r : response) : outcome :=
  match os with
  | None => Ok []
  | Some s =>
      if negb (s_truthy s) then Ok [] else
      let finish (pre : list fk) :=
        match rbody_ r with
        | BadUtf8 => if strict then Crash EUnicodeDecode else Ok (pre ++ [FMalformedJson])
        | NotJson => Ok (pre ++ [FMalformedJson])
        | Json did => if valid (s_id s) did then Ok pre else Ok (pre ++ [FBodySchema])
        end in
      match get_header s_content_type r with
      | None => finish [FMissingCT]
      | Some [] => finish []
      | Some ct =>
          match parse ct with
          | None => if strict then Crash EMalformedMediaType else Ok []
          | Some p => if is_json p then finish [] else Ok []
          end
      end
  end.

(* ---------- the checks as coded ---------- *)
(* status_code_conformance (checks.py:54) with _expand_responses (checks.py:77) as of e29caab0 *)
Definition status_check (d : doc) (r : response) : outcome :=
  let keys := map fst (d_responses d) in
  if existsb is_default_key keys then Ok []
  else match all_codes (status_keys keys) with
       | None => Crash EValueError
       | Some codes => if zmem (Z.of_N (status r)) codes then Ok [] else Ok [FUndefinedStatus]
       end.

(* SENTINEL, not the code any more: status_code_conformance before e29caab0 expanded every key,
   specification extensions included (finding C04-F4, fixed) *)
Definition status_check_before_e29caab0 (d : doc) (r : response) : outcome :=
  let keys := map fst (d_responses d) in
  if existsb is_default_key keys then Ok []
  else match all_codes keys with
       | None => Crash EValueError
       | Some codes => if zmem (Z.of_N (status r)) codes then Ok [] else Ok [FUndefinedStatus]
       end.

Definition produces (d : doc) : list str :=
  match d_produces_op d with [] => d_produces_global d | l => l end.

(* content_type_conformance (checks.py:83) + get_content_types (schemas.py:1001, 1166) *)
Definition content_type_check (d : doc) (r : response) : outcome :=
  if d_v30 d then
    match lookup_raw d (status r) with
    | None => Ok []
    | Some x => match resolve_code d x with
                | RFail => Crash ERefResolution
                | RBody b => ct_check_on (map fst (r_content b)) r
                end
    end
  else ct_check_on (produces d) r.

(* response_headers_conformance (checks.py:134) + get_headers (schemas.py:591) *)
Definition headers_check (hvalid : N -> str -> bool) (d : doc) (r : response) : outcome :=
  match lookup_raw d (status r) with
  | None => Ok []
  | Some x => match resolve_code d x with
              | RFail => Crash ERefResolution
              | RBody b => hdr_check_on true hvalid (r_headers b) r
              end
  end.

(* get_response_schema: 2.0 takes schema (schemas.py:990), 3.x the FIRST media type (schemas.py:1149) *)
Definition first_schema (v30 : bool) (b : rbody) : option sch :=
  if v30 then match r_content b with [] => None | (_, s) :: _ => s end else r_schema20 b.

(* response_schema_conformance (checks.py:217) = validate_response (schemas.py:669) *)
Definition schema_check (valid : N -> N -> bool) (d : doc) (r : response) : outcome :=
  match lookup_str d (status r) with
  | None => Ok []
  | Some x => match resolve_code d x with
              | RFail => Crash ERefResolution
              | RBody b => schema_check_on true valid (first_schema (d_v30 d) b) r
              end
  end.

Definition verdict (valid : N -> N -> bool) (hvalid : N -> str -> bool) (d : doc) (r : response) : list fk :=
  canon (kinds (status_check d r) ++ kinds (content_type_check d r)
         ++ kinds (headers_check hvalid d r) ++ kinds (schema_check valid d r)).

(* ---------- the checks as documented ---------- *)
(* specification extensions and keys that do not read as integers are not status codes *)
Definition spec_status_check (d : doc) (r : response) : outcome :=
  let keys := map fst (d_responses d) in
  if existsb is_default_key keys then Ok []
  else if existsb (fun k => key_matches k (status r)) (status_keys keys) then Ok [] else Ok [FUndefinedStatus].

Definition spec_def (d : doc) (r : response) : option rbody :=
  match lookup_spec d (status r) with
  | None => None
  | Some x => match resolve_spec d x with RBody b => Some b | RFail => None end
  end.

Definition spec_content_type_check (d : doc) (r : response) : outcome :=
  if d_v30 d then
    match spec_def d r with None => Ok [] | Some b => ct_check_on (map fst (r_content b)) r end
  else ct_check_on (produces d) r.

Definition spec_headers_check (hvalid : N -> str -> bool) (d : doc) (r : response) : outcome :=
  match spec_def d r with None => Ok [] | Some b => hdr_check_on false hvalid (r_headers b) r end.

(* the schema documented for the received media type; without a Content-Type, the first one *)
Definition matching_schema (v30 : bool) (b : rbody) (r : response) : option sch :=
  if v30 then
    match get_header s_content_type r with
    | None => first_schema true b
    | Some ct =>
        match parse ct with
        | None => None
        | Some p =>
            match find (fun e => match parse (fst e) with Some q => media_match q p | None => false end) (r_content b) with
            | Some e => snd e
            | None => None
            end
        end
    end
  else r_schema20 b.

Definition spec_schema_check (valid : N -> N -> bool) (d : doc) (r : response) : outcome :=
  match spec_def d r with
  | None => Ok []
  | Some b => schema_check_on false valid (matching_schema (d_v30 d) b r) r
  end.

Definition spec_verdict (valid : N -> N -> bool) (hvalid : N -> str -> bool) (d : doc) (r : response) : list fk :=
  canon (kinds (spec_status_check d r) ++ kinds (spec_content_type_check d r)
         ++ kinds (spec_headers_check hvalid d r) ++ kinds (spec_schema_check valid d r)).

(* ---------- regions (executable) ---------- *)
Definition all_defs (d : doc) : list rdef := map snd (d_responses d) ++ map snd (d_components d).
Definition def_ok (p : rbody -> bool) (x : rdef) : bool := match x with RInline b => p b | RRef _ => true end.

(* F1: no key other than default and specification extensions is a wildcard *)
Definition no_wildcard_keys (d : doc) : bool :=
  forallb (fun k => is_default_key k || is_extension_key k || negb (has_x k)) (map fst (d_responses d)).
(* F2: at most one media type per response *)
Definition single_media_type (d : doc) : bool :=
  forallb (def_ok (fun b => (length (r_content b) <=? 1)%nat)) (all_defs d).
(* F3: keys are strings *)
Definition no_int_keys (d : doc) : bool :=
  forallb (fun k => match k with KStr _ => true | KInt _ => false end) (map fst (d_responses d)).
(* F4b: every key is default, a specification extension, or expands to integers *)
Definition keys_parse (d : doc) : bool :=
  forallb (fun k => is_default_key k || forallb (fun o => match o with Some _ => true | None => false end) (expand_key k))
          (status_keys (map fst (d_responses d))).
(* F5: referenced responses are inline and exist *)
Definition flat_refs (d : doc) : bool :=
  forallb (fun kv => match snd kv with RInline _ => true | RRef _ => false end) (d_components d)
  && forallb (fun x => match x with RInline _ => true | RRef n => assoc_mem n (d_components d) end) (map snd (d_responses d)).
(* F6: header definitions are inline *)
Definition no_header_refs (d : doc) : bool :=
  forallb (def_ok (fun b => forallb (fun h => negb (h_is_ref h)) (r_headers b))) (all_defs d).
(* F7: the body decodes as UTF-8 *)
Definition body_decodes (r : response) : bool := match rbody_ r with BadUtf8 => false | _ => true end.
(* F8: the received Content-Type, when present and non-empty, is well formed *)
Definition ct_wellformed (r : response) : bool :=
  match get_header s_content_type r with
  | None => true
  | Some [] => true
  | Some ct => match parse ct with Some _ => true | None => false end
  end.
(* the Content-Type check as documented has nothing to report but a missing header *)
Definition ct_conforms (d : doc) (r : response) : bool :=
  match spec_content_type_check d r with
  | Ok [] => true
  | Ok [FMissingCT] => true
  | _ => false
  end.
Definition nonempty_ct (r : response) : bool :=
  match get_header s_content_type r with Some [] => false | _ => true end.

(* ---------- integer keys, check by check ----------
   status_code_conformance and validate_response read every key through str(), get_content_types and
   get_headers (through _get_response_definitions) compare the RAW keys.  The two checks below are NOT the
   code: they are content_type_conformance / response_headers_conformance with the lookup validate_response
   uses, and only serve to say where the raw lookup changes an outcome. *)
Definition content_type_check_str (d : doc) (r : response) : outcome :=
  if d_v30 d then
    match lookup_str d (status r) with
    | None => Ok []
    | Some x => match resolve_code d x with
                | RFail => Crash ERefResolution
                | RBody b => ct_check_on (map fst (r_content b)) r
                end
    end
  else ct_check_on (produces d) r.
Definition headers_check_str (hvalid : N -> str -> bool) (d : doc) (r : response) : outcome :=
  match lookup_str d (status r) with
  | None => Ok []
  | Some x => match resolve_code d x with
              | RFail => Crash ERefResolution
              | RBody b => hdr_check_on true hvalid (r_headers b) r
              end
  end.
Fixpoint fks_eqb (a b : list fk) : bool :=
  match a, b with
  | [], [] => true
  | x :: a', y :: b' => fk_eqb x y && fks_eqb a' b'
  | _, _ => false
  end.
Definition exn_eqb (a b : exn) : bool :=
  match a, b with
  | EValueError, EValueError | EUnicodeDecode, EUnicodeDecode
  | EMalformedMediaType, EMalformedMediaType | ERefResolution, ERefResolution => true
  | _, _ => false
  end.
Definition outcome_eqb (a b : outcome) : bool :=
  match a, b with
  | Ok x, Ok y => fks_eqb x y
  | Crash x, Crash y => exn_eqb x y
  | _, _ => false
  end.
(* F3, per (document, response): the raw lookup of get_content_types / get_headers changes neither of the two
   outcomes that depend on it.  Holds for every document without integer keys; with integer keys it holds e.g.
   when the received media type and headers are fine either way - the body schema check is then fully specified *)
Definition int_keys_immaterial (hvalid : N -> str -> bool) (d : doc) (r : response) : bool :=
  outcome_eqb (content_type_check d r) (content_type_check_str d r)
  && outcome_eqb (headers_check hvalid d r) (headers_check_str hvalid d r).

(* ---------- writeOnly rewrite, and the loaded API schema as state ----------
   Object schemas at the level the rewrite works on: property names with their
   writeOnly / x-writeOnly flag, and the required list. *)
Record oschema := { o_props : list (str * bool); o_required : list str }.
Record jschema := { j_props : list str; j_required : list str; j_forbidden : list str }.

Fixpoint remove_first (x : str) (l : list str) : list str :=
  match l with
  | [] => []
  | y :: r => if str_eqb x y then r else y :: remove_first x r
  end.
Definition wo_names (s : oschema) : list str := map fst (filter snd (o_props s)).

(* converter.to_json_schema on the object schema of a response (converter.py:11-42) with
   rewrite_properties / forbid_properties (converter.py:57-80): the JSON Schema handed to the
   validator, and the schema object of the caller AFTER the call - the rewrite works on a deepclone,
   so the loaded document is left as it was *)
Definition to_json_schema_obj (s : oschema) : jschema * oschema :=
  ({| j_props := map fst (filter (fun p => negb (snd p)) (o_props s));
      j_required := fold_left (fun req n => remove_first n req) (wo_names s) (o_required s);
      j_forbidden := wo_names s |}, s).

(* Draft 4 on property presence: required, and not {required: forbidden} *)
Definition has (present : list str) (n : str) : bool := existsb (str_eqb n) present.
Definition jvalid (j : jschema) (present : list str) : bool :=
  forallb (has present) (j_required j)
  && match j_forbidden j with [] => true | f => negb (forallb (has present) f) end.

(* as documented: a writeOnly property does not occur in a response and is not required of it *)
Definition is_wo (s : oschema) (n : str) : bool := existsb (str_eqb n) (wo_names s).
Definition ovalid (s : oschema) (present : list str) : bool :=
  forallb (fun n => negb (has present n)) (wo_names s)
  && forallb (fun n => is_wo s n || has present n) (o_required s).

(* F9 *)
Definition single_writeonly (s : oschema) : bool := (length (wo_names s) <=? 1)%nat.
Fixpoint nodupb (l : list str) : bool :=
  match l with [] => true | x :: r => negb (existsb (str_eqb x) r) && nodupb r end.

(* the object schemas held by the loaded API schema, by schema id *)
Definition store := list (N * oschema).
Fixpoint store_get (sid : N) (st : store) : option oschema :=
  match st with
  | [] => None
  | (k, s) :: r => if k =? sid then Some s else store_get sid r
  end.
(* inst did: the object instances of body did that the schema applies to (one for an object,
   the items for an array of objects, ...), each as the list of its property names *)
Definition valid_st (st : store) (inst : N -> list (list str)) (sid did : N) : bool :=
  match store_get sid st with
  | Some s => forallb (jvalid (fst (to_json_schema_obj s))) (inst did)
  | None => true
  end.
(* what a validation leaves behind: every schema it converted *)
Definition touch (st : store) : store := map (fun kv => (fst kv, snd (to_json_schema_obj (snd kv)))) st.
Definition verdict_st (hvalid : N -> str -> bool) (inst : N -> list (list str)) (d : doc) (st : store) (r : response)
  : list fk * store := (verdict (valid_st st inst) hvalid d r, touch st).
(* validations one after another on ONE loaded schema *)
Fixpoint verdict_seq (hvalid : N -> str -> bool) (inst : N -> list (list str)) (d : doc) (st : store) (rs : list response)
  : list (list fk) :=
  match rs with
  | [] => []
  | r :: rs' => let p := verdict_st hvalid inst d st r in fst p :: verdict_seq hvalid inst d (snd p) rs'
  end.

(* ---------- _coerce_header_value (checks.py:197-216) on header TEXT ---------- *)
(* int() strips what Py_ISSPACE / Py_UNICODE_ISSPACE accept AFTER _PyUnicode_TransformDecimalAndSpaceToASCII:
   str.isspace code points except 28..31 (ASCII code points are copied unchanged and Py_ISSPACE rejects them) *)
Definition int_ws : list N :=
  [9;10;11;12;13;32;133;160;5760;8192;8193;8194;8195;8196;8197;8198;8199;8200;8201;8202;8232;8233;8239;8287;12288].
(* the code points with unicodedata.decimal = 0 (Unicode 15.0.0); each starts a run of ten decimal digits.
   Tied to unicodedata of the running interpreter on every run *)
Definition nd_zeros : list N :=
  [48;1632;1776;1984;2406;2534;2662;2790;2918;3046;3174;3302;3430;3558;3664;3792;3872;4160;4240;6112;6160;6470;6608;
   6784;6800;6992;7088;7232;7248;42528;43216;43264;43472;43504;43600;44016;65296;66720;68912;69734;69872;69942;70096;
   70384;70736;70864;71248;71360;71472;71904;72016;72784;73040;73120;73552;92768;92864;93008;120782;120792;120802;
   120812;120822;123200;123632;124144;125264;130032].
Fixpoint decimal_in (zs : list N) (c : N) : option N :=
  match zs with
  | [] => None
  | z :: r => if (z <=? c) && (c <=? z + 9) then Some (c - z) else decimal_in r c
  end.
(* Py_UNICODE_TODECIMAL *)
Definition decimal_of (c : N) : option N := decimal_in nd_zeros c.

(* base 10 digits of PyLong_FromString: decimal digits with single underscores between them *)
Fixpoint udigits_val (s : str) (acc : N) (prev_digit : bool) : option N :=
  match s with
  | [] => if prev_digit then Some acc else None
  | c :: s' =>
      match decimal_of c with
      | Some d => udigits_val s' (acc * 10 + d) true
      | None => if (c =? 95) && prev_digit then udigits_val s' acc false else None
      end
  end.

(* int(text) for any text; None = ValueError.  EXACT: the value is an unbounded Z *)
Definition py_int_u (s : str) : option Z :=
  match strip int_ws s with
  | [] => None
  | c :: r =>
      if c =? 43 then option_map Z.of_N (udigits_val r 0 false)
      else if c =? 45 then option_map (fun n => Z.opp (Z.of_N n)) (udigits_val r 0 false)
      else option_map Z.of_N (udigits_val (c :: r) 0 false)
  end.

Inductive htype := TString | TInteger | TNumber | TBoolean | TNull | TArray | TOther.
(* HFloatOfInt z: the float equal to the integer z; HFloatOpaque: float() is not modelled for this text
   (either a float that the model does not compute, or the unchanged text) *)
Inductive hval := HStr (s : str) | HInt (z : Z) | HBool (b : bool) | HNull | HFloatOfInt (z : Z) | HFloatOpaque.

Definition s_null : str := [110;117;108;108].
Definition bool_true_words : list str :=
  [[121]; [121;101;115]; [116]; [116;114;117;101]; [111;110]; [49]].
Definition bool_false_words : list str :=
  [[110]; [110;111]; [102]; [102;97;108;115;101]; [111;102;102]; [48]].
(* core/__init__.py:59 string_to_boolean *)
Definition string_to_boolean (v : str) : hval :=
  if existsb (str_eqb (lower_ascii v)) bool_true_words then HBool true
  else if existsb (str_eqb (lower_ascii v)) bool_false_words then HBool false
  else HStr v.

Definition two53 : Z := 9007199254740992%Z.
Definition coerce_header (t : htype) (v : str) : hval :=
  match t with
  | TString => HStr v
  | TInteger => match py_int_u v with Some z => HInt z | None => HStr v end
  | TNumber => match py_int_u v with
               | Some z => if (Z.abs z <=? two53)%Z then HFloatOfInt z else HFloatOpaque
               | None => HFloatOpaque
               end
  | TNull => if str_eqb (lower_ascii v) s_null then HNull else HStr v
  | TBoolean => string_to_boolean v
  | TArray | TOther => HStr v
  end.

(* jsonschema on the coerced value of a header documented {type: integer, minimum: lo, maximum: hi}:
   a str / bool / None is not an integer; bounds are compared on exact integers *)
Definition in_bounds (lo hi : option Z) (z : Z) : bool :=
  (match lo with Some l => (l <=? z)%Z | None => true end) && (match hi with Some h => (z <=? h)%Z | None => true end).
Definition int_value_conforms (lo hi : option Z) (v : hval) : bool :=
  match v with HInt z => in_bounds lo hi z | _ => false end.
Definition hdr_int_conforms (lo hi : option Z) (text : str) : bool :=
  int_value_conforms lo hi (coerce_header TInteger text).

(* SENTINEL, not the code: an integer header read through float() (one merged integer / number branch):
   nearest double of an integer, ties to even, and the fragment  int [. zeros] [e nonnegative-int]  of the float() grammar *)
Definition round53 (z : Z) : Z :=
  let a := Z.abs z in
  if (a <? two53)%Z then z else
  let e := (Z.log2 a - 52)%Z in
  let q := (a / 2 ^ e)%Z in
  let r := (a mod 2 ^ e)%Z in
  let half := (2 ^ (e - 1))%Z in
  let q' := if (half <? r)%Z || ((r =? half)%Z && Z.odd q) then (q + 1)%Z else q in
  (Z.sgn z * (q' * 2 ^ e))%Z.
Definition sentinel_float_int (v : str) : option Z :=
  let me := match split_once 101 v [] with Some (a, b) => (a, py_int_u b) | None => (v, Some 0%Z) end in
  let pf := match split_once 46 (fst me) [] with Some (a, b) => (a, b) | None => (fst me, []) end in
  match py_int_u (fst pf), snd me with
  | Some z, Some k => if (0 <=? k)%Z && forallb (N.eqb 48) (snd pf) then Some (round53 (z * 10 ^ k)) else None
  | _, _ => None
  end.
Definition coerce_int_through_float (v : str) : hval :=
  match sentinel_float_int v with Some z => HInt z | None => HStr v end.
Definition hdr_int_conforms_through_float (lo hi : option Z) (text : str) : bool :=
  int_value_conforms lo hi (coerce_int_through_float text).
