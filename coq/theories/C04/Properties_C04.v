(* C04 property theorems only.  Each is closed by [exact] of a lemma of
   Proofs_C04 and followed by Print Assumptions.  valid / hvalid (python-jsonschema
   on the converted schema, header coercion + validation) are universally quantified. *)
From Coq Require Import List NArith ZArith Bool.
From Verif Require Import Common.Str Common.Json C04.Model_C04 C04.Proofs_C04.
Import ListNotations.
Open Scope N_scope.

(* skeys d: the response keys that are not specification extensions (x-...).
   status_code_conformance reports an undocumented status code exactly when there is no
   default key, every such key reads as integers after replacing X/x by digits, and no key has a
   digit instance equal to the code (string or integer keys, any number of wildcards) *)
Theorem C04_status_iff : forall d r,
  status_check d r = Ok [FUndefinedStatus] <->
  (~ In (KStr s_default) (keys_of d)
   /\ (forall k e, In k (skeys d) -> key_expansion k e -> py_int e <> None)
   /\ (forall k, In k (skeys d) -> ~ code_matches k (status r))).
Proof. exact status_iff. Qed.
Print Assumptions C04_status_iff.

(* ... and it raises ValueError exactly when there is no default and some key does not read as integers *)
Theorem C04_status_raises_iff : forall d r,
  status_check d r = Crash EValueError <->
  (~ In (KStr s_default) (keys_of d) /\ exists k e, In k (skeys d) /\ key_expansion k e /\ py_int e = None).
Proof. exact status_crash_iff. Qed.
Print Assumptions C04_status_raises_iff.

(* the loop of content_type_conformance over well-formed media types: UndefinedContentType exactly when
   no documented type matches the received one, a pass exactly when one does; types are compared
   lower-cased and without parameters *)
Theorem C04_content_type_iff : forall docs ct p,
  parse ct = Some p -> forallb (fun o => match parse o with Some _ => true | None => false end) docs = true ->
  (ct_loop docs ct = [FUndefinedCT] <-> forall o q, In o docs -> parse o = Some q -> media_match q p = false)
  /\ (ct_loop docs ct = [] <-> exists o q, In o docs /\ parse o = Some q /\ media_match q p = true).
Proof. exact content_type_iff. Qed.
Print Assumptions C04_content_type_iff.

Theorem C04_parse_ignores_parameters : forall s rest,
  mem 59 s = false -> mem 34 s = false -> parse (s ++ 59 :: rest) = parse s.
Proof. exact parse_ignores_parameters. Qed.
Print Assumptions C04_parse_ignores_parameters.

Theorem C04_parse_lowercase : forall s m sub, parse s = Some (m, sub) -> lower_ascii m = m /\ lower_ascii sub = sub.
Proof. exact parse_lowercase. Qed.
Print Assumptions C04_parse_lowercase.

(* the set of failure kinds the four checks report is the set the documentation calls for *)
Theorem C04_verdict_eq_spec_partial : forall valid hvalid d r,
  no_wildcard_keys d = true -> single_media_type d = true -> no_int_keys d = true -> keys_parse d = true ->
  flat_refs d = true -> no_header_refs d = true -> body_decodes r = true -> ct_wellformed r = true ->
  ct_conforms d r = true ->
  verdict valid hvalid d r = spec_verdict valid hvalid d r.
Proof. exact verdict_eq_spec. Qed.
Print Assumptions C04_verdict_eq_spec_partial.

(* the property as worded: a failure is reported exactly when the response deviates, and no check raises *)
Theorem C04_fails_iff_spec_partial : forall valid hvalid d r,
  no_wildcard_keys d = true -> single_media_type d = true -> no_int_keys d = true -> keys_parse d = true ->
  flat_refs d = true -> no_header_refs d = true -> body_decodes r = true -> ct_wellformed r = true ->
  (verdict valid hvalid d r = [] <-> spec_verdict valid hvalid d r = []).
Proof. exact fails_iff_spec. Qed.
Print Assumptions C04_fails_iff_spec_partial.

(* integer keys (documents handed over as Python dicts), check by check.  The body schema check agrees with the
   documentation whatever the type of the keys (the lookup of validate_response goes through str()) ... *)
Theorem C04_schema_check_any_keys_partial : forall valid d r,
  no_wildcard_keys d = true -> single_media_type d = true -> flat_refs d = true ->
  body_decodes r = true -> ct_wellformed r = true -> ct_conforms d r = true ->
  schema_check valid d r = spec_schema_check valid d r.
Proof. exact schema_agree_any_keys. Qed.
Print Assumptions C04_schema_check_any_keys_partial.

(* ... so the two partial theorems hold with no_int_keys weakened to the per-response predicate: the raw-key lookup
   of get_content_types / get_headers changes neither of their two outcomes *)
Theorem C04_verdict_eq_spec_int_keys_partial : forall valid hvalid d r,
  no_wildcard_keys d = true -> single_media_type d = true -> int_keys_immaterial hvalid d r = true -> keys_parse d = true ->
  flat_refs d = true -> no_header_refs d = true -> body_decodes r = true -> ct_wellformed r = true ->
  ct_conforms d r = true ->
  verdict valid hvalid d r = spec_verdict valid hvalid d r.
Proof. exact verdict_eq_spec_int_keys. Qed.
Print Assumptions C04_verdict_eq_spec_int_keys_partial.

Theorem C04_fails_iff_spec_int_keys_partial : forall valid hvalid d r,
  no_wildcard_keys d = true -> single_media_type d = true -> int_keys_immaterial hvalid d r = true -> keys_parse d = true ->
  flat_refs d = true -> no_header_refs d = true -> body_decodes r = true -> ct_wellformed r = true ->
  (verdict valid hvalid d r = [] <-> spec_verdict valid hvalid d r = []).
Proof. exact fails_iff_spec_int_keys. Qed.
Print Assumptions C04_fails_iff_spec_int_keys_partial.

(* the weakened hypothesis is weaker (every document without integer keys satisfies it) and strictly so: with the key
   200 written as an integer a violating JSON body is reported (3.0 and 2.0), a body conforming to 200 is not judged
   by default; the F3 witness itself is outside *)
Theorem C04_int_keys_immaterial_covers : forall hvalid d r, no_int_keys d = true -> int_keys_immaterial hvalid d r = true.
Proof. exact immaterial_of_no_int_keys. Qed.
Print Assumptions C04_int_keys_immaterial_covers.

Theorem C04_int_key_body_examples :
  int_keys_immaterial hnone d_f3 r_f3 = false
  /\ no_int_keys d_f3 = false /\ int_keys_immaterial hnone d_f3 r_f3_json = true
  /\ verdict none_valid hnone d_f3 r_f3_json = [FBodySchema] /\ spec_verdict none_valid hnone d_f3 r_f3_json = [FBodySchema]
  /\ int_keys_immaterial hnone d_f3_default r_f3_json = true
  /\ verdict (only_valid 0) hnone d_f3_default r_f3_json = [] /\ verdict (only_valid 1) hnone d_f3_default r_f3_json = [FBodySchema]
  /\ int_keys_immaterial hnone d_f3_20 r_f3_json = true
  /\ verdict none_valid hnone d_f3_20 r_f3_json = [FBodySchema] /\ spec_verdict none_valid hnone d_f3_20 r_f3_json = [FBodySchema].
Proof. exact int_key_body_examples. Qed.
Print Assumptions C04_int_key_body_examples.

Theorem C04_no_check_raises_partial : forall valid hvalid d r,
  no_wildcard_keys d = true -> no_int_keys d = true -> keys_parse d = true ->
  flat_refs d = true -> body_decodes r = true -> ct_wellformed r = true ->
  ~ In FCrash (verdict valid hvalid d r).
Proof. exact verdict_no_crash. Qed.
Print Assumptions C04_no_check_raises_partial.

Theorem C04_spec_never_raises : forall valid hvalid d r, ~ In FCrash (spec_verdict valid hvalid d r).
Proof. exact spec_verdict_no_crash. Qed.
Print Assumptions C04_spec_never_raises.

(* the unrestricted statement is false of the code as it is: one witness per region, every other region holding *)
Theorem C04_verdict_eq_spec_refuted_wildcard : exists valid hvalid d r,
  region_flags d r = [false; true; true; true; true; true; true; true]
  /\ verdict valid hvalid d r = [] /\ spec_verdict valid hvalid d r = [FBodySchema].
Proof. exists none_valid, hnone, d_f1, r_f1. exact refuted_wildcard. Qed.
Print Assumptions C04_verdict_eq_spec_refuted_wildcard.

Theorem C04_verdict_eq_spec_refuted_media_type : exists valid hvalid d r,
  region_flags d r = [true; false; true; true; true; true; true; true]
  /\ verdict valid hvalid d r = [FBodySchema] /\ spec_verdict valid hvalid d r = [].
Proof. exists (only_valid 1), hnone, d_f2, r_f2. exact refuted_media_type. Qed.
Print Assumptions C04_verdict_eq_spec_refuted_media_type.

Theorem C04_verdict_eq_spec_refuted_media_type_miss : exists valid hvalid d r,
  verdict valid hvalid d r = [] /\ spec_verdict valid hvalid d r = [FBodySchema].
Proof. exists (only_valid 0), hnone, d_f2, r_f2. exact refuted_media_type_miss. Qed.
Print Assumptions C04_verdict_eq_spec_refuted_media_type_miss.

Theorem C04_verdict_eq_spec_refuted_int_key : exists valid hvalid d r,
  region_flags d r = [true; true; false; true; true; true; true; true]
  /\ verdict valid hvalid d r = [] /\ spec_verdict valid hvalid d r = [FUndefinedCT].
Proof. exists none_valid, hnone, d_f3, r_f3. exact refuted_int_key. Qed.
Print Assumptions C04_verdict_eq_spec_refuted_int_key.

Theorem C04_verdict_eq_spec_refuted_non_numeric_key : exists valid hvalid d r,
  region_flags d r = [true; true; true; false; true; true; true; true]
  /\ status_check d r = Crash EValueError
  /\ verdict valid hvalid d r = [FCrash] /\ spec_verdict valid hvalid d r = [].
Proof. exists none_valid, hnone, d_f4b, r_f4. exact refuted_non_numeric_key. Qed.
Print Assumptions C04_verdict_eq_spec_refuted_non_numeric_key.

(* finding F4, fixed by e29caab0: the code before the fix (sentinel) raised on a specification extension key;
   the code as it is returns a verdict there, and such documents are inside every region of the partial theorems *)
Theorem C04_extension_key_sentinel_refuted : exists d r,
  status_check_before_e29caab0 d r = Crash EValueError
  /\ region_flags d r = [true; true; true; true; true; true; true; true]
  /\ status_check d r = Ok []
  /\ verdict none_valid hnone d r = [] /\ spec_verdict none_valid hnone d r = []
  /\ status_check d (resp 404 None NotJson) = Ok [FUndefinedStatus].
Proof. exists d_f4, r_f4. exact extension_key_fixed. Qed.
Print Assumptions C04_extension_key_sentinel_refuted.

Theorem C04_verdict_eq_spec_refuted_ref_chain : exists valid hvalid d r,
  region_flags d r = [true; true; true; true; false; true; true; true]
  /\ verdict valid hvalid d r = [] /\ spec_verdict valid hvalid d r = [FBodySchema].
Proof. exists none_valid, hnone, d_f5, r_f5. exact refuted_ref_chain. Qed.
Print Assumptions C04_verdict_eq_spec_refuted_ref_chain.

Theorem C04_verdict_eq_spec_refuted_header_ref : exists valid hvalid d r,
  region_flags d r = [true; true; true; true; true; false; true; true]
  /\ verdict valid hvalid d r = [] /\ spec_verdict valid hvalid d r = [FMissingHeaders].
Proof. exists none_valid, hnone, d_f6, r_f6. exact refuted_header_ref. Qed.
Print Assumptions C04_verdict_eq_spec_refuted_header_ref.

Theorem C04_verdict_eq_spec_refuted_bad_utf8 : exists valid hvalid d r,
  region_flags d r = [true; true; true; true; true; true; false; true]
  /\ schema_check valid d r = Crash EUnicodeDecode
  /\ verdict valid hvalid d r = [FCrash] /\ spec_verdict valid hvalid d r = [FMalformedJson].
Proof. exists none_valid, hnone, d_ok, r_f7. exact refuted_bad_utf8. Qed.
Print Assumptions C04_verdict_eq_spec_refuted_bad_utf8.

Theorem C04_verdict_eq_spec_refuted_malformed_ct : exists valid hvalid d r,
  region_flags d r = [true; true; true; true; true; true; true; false]
  /\ schema_check valid d r = Crash EMalformedMediaType
  /\ verdict valid hvalid d r = [FMalformedMT; FCrash] /\ spec_verdict valid hvalid d r = [FMalformedMT].
Proof. exists (only_valid 0), hnone, d_ok, r_f8. exact refuted_malformed_ct. Qed.
Print Assumptions C04_verdict_eq_spec_refuted_malformed_ct.

(* malformed JSON and a missing Content-Type are failures whenever a non-empty schema is documented *)
Theorem C04_malformed_json_is_failure : forall valid s r ct p,
  s_truthy s = true -> get_header s_content_type r = Some ct -> parse ct = Some p -> is_json p = true ->
  rbody_ r = NotJson -> schema_check_on true valid (Some s) r = Ok [FMalformedJson].
Proof. exact malformed_json_is_failure. Qed.
Print Assumptions C04_malformed_json_is_failure.

Theorem C04_missing_content_type : forall valid s r,
  s_truthy s = true -> get_header s_content_type r = None -> rbody_ r <> BadUtf8 ->
  exists rest, schema_check_on true valid (Some s) r = Ok (FMissingCT :: rest).
Proof. exact missing_content_type_is_failure. Qed.
Print Assumptions C04_missing_content_type.

(* the hypotheses of the partial theorems hold of a non-trivial input (referenced response, default,
   required header, upper-case media type with a parameter) on which both verdicts are non-empty *)
Theorem C04_hypotheses_satisfiable : exists d r,
  region_flags d r = [true; true; true; true; true; true; true; true] /\ ct_conforms d r = true
  /\ verdict none_valid hnone d r = [FMissingHeaders; FBodySchema]
  /\ spec_verdict none_valid hnone d r = [FMissingHeaders; FBodySchema]
  /\ verdict (only_valid 0) hnone d (resp 200 None (Json 0)) = [].
Proof. exists d_nv, r_nv. exact hypotheses_satisfiable. Qed.
Print Assumptions C04_hypotheses_satisfiable.

Theorem C04_status_examples :
  code_matches (KStr [50;88;88]) 204 /\ code_matches (KStr [50;120;120]) 299 /\ code_matches (KInt 200) 200
  /\ status_check (doc30 [(KStr [50;88;88], RInline no_body)] []) (resp 404 None NotJson) = Ok [FUndefinedStatus]
  /\ status_check (doc30 [(KStr [50;120;120], RInline no_body)] []) (resp 204 None NotJson) = Ok [].
Proof. exact status_examples. Qed.
Print Assumptions C04_status_examples.

(* ---- the loaded schema as state: verdicts do not depend on what was validated before ---- *)
(* the model of converter.to_json_schema leaves the schema object of the caller as it was
   (checked against the real function, object by object, on every run) *)
Theorem C04_conversion_leaves_document : forall s, snd (to_json_schema_obj s) = s.
Proof. exact conversion_leaves_document. Qed.
Print Assumptions C04_conversion_leaves_document.

(* hence a sequence of validations on ONE loaded schema gives, response by response, the verdict of that
   response alone: for all documents, stores of object schemas, response lists, instance maps *)
Theorem C04_verdict_seq : forall hvalid inst d st rs,
  verdict_seq hvalid inst d st rs = map (fun r => verdict (valid_st st inst) hvalid d r) rs.
Proof. exact verdict_seq_pure. Qed.
Print Assumptions C04_verdict_seq.

(* the converted schema accepts exactly the objects the documentation allows in a response *)
Theorem C04_writeonly_partial : forall s present,
  single_writeonly s = true -> nodupb (o_required s) = true ->
  jvalid (fst (to_json_schema_obj s)) present = ovalid s present.
Proof. exact writeonly_agree. Qed.
Print Assumptions C04_writeonly_partial.

Theorem C04_writeonly_refuted : exists s present,
  single_writeonly s = false /\ nodupb (o_required s) = true
  /\ jvalid (fst (to_json_schema_obj s)) present = true /\ ovalid s present = false.
Proof. exists o_two, [s_id_; s_pw]. exact refuted_two_writeonly. Qed.
Print Assumptions C04_writeonly_refuted.

Theorem C04_history_example :
  verdict_seq hnone inst_hist d_hist [(0, o_one)]
    [resp 200 (Some s_app_json) (Json 0); resp 200 (Some s_app_json) (Json 1); resp 200 (Some s_app_json) (Json 1)]
  = [[]; [FBodySchema]; [FBodySchema]].
Proof. exact history_example. Qed.
Print Assumptions C04_history_example.

(* ---------- header value coercion (checks.py:197 _coerce_header_value) on header TEXT ---------- *)
(* a header documented {type: integer, minimum: lo, maximum: hi} conforms exactly when int() reads its text,
   and the EXACT integer read satisfies the bounds: all texts, all bounds, unbounded Z *)
Theorem C04_integer_header_iff : forall lo hi text,
  hdr_int_conforms lo hi text = true <->
  exists z, py_int_u text = Some z /\ (forall l, lo = Some l -> (l <= z)%Z) /\ (forall h, hi = Some h -> (z <= h)%Z).
Proof. exact integer_header_iff. Qed.
Print Assumptions C04_integer_header_iff.

(* the coercion of an integer-typed header: the exact integer of the literal, else the unchanged text *)
Theorem C04_coerce_integer_cases : forall text,
  (exists z, py_int_u text = Some z /\ coerce_header TInteger text = HInt z)
  \/ (py_int_u text = None /\ coerce_header TInteger text = HStr text).
Proof. exact coerce_integer_cases. Qed.
Print Assumptions C04_coerce_integer_cases.

(* every decimal literal (decimal digits of any script, single underscores between digits), bare or signed,
   is read as exactly its value, whatever its size *)
Theorem C04_int_literal_exact : forall body n, int_body body n ->
  py_int_u body = Some (Z.of_N n) /\ py_int_u (43 :: body) = Some (Z.of_N n)
  /\ py_int_u (45 :: body) = Some (Z.opp (Z.of_N n)).
Proof. exact int_literal_sound. Qed.
Print Assumptions C04_int_literal_exact.

(* a text with any character that is not a decimal digit, underscore, sign or int() whitespace is not an integer *)
Theorem C04_int_rejects_foreign_character : forall text c,
  In c text -> mem c int_ws = false -> decimal_of c = None -> c <> 95 -> c <> 43 -> c <> 45 ->
  py_int_u text = None.
Proof. exact int_rejects_char. Qed.
Print Assumptions C04_int_rejects_foreign_character.

(* in particular exponent and decimal point notation: such a header stays a string and fails type: integer *)
Theorem C04_int_rejects_exponent_and_point : forall a b,
  py_int_u (a ++ 101 :: b) = None /\ py_int_u (a ++ 69 :: b) = None /\ py_int_u (a ++ 46 :: b) = None.
Proof. exact int_rejects_exponent_and_point. Qed.
Print Assumptions C04_int_rejects_exponent_and_point.

Theorem C04_integer_header_not_literal : forall lo hi text,
  py_int_u text = None -> coerce_header TInteger text = HStr text /\ hdr_int_conforms lo hi text = false.
Proof. exact integer_header_not_literal. Qed.
Print Assumptions C04_integer_header_not_literal.

(* SENTINEL: reading the integer through float() is a different function: 1e3 passes type: integer,
   2**53+1 passes maximum 2**53 (misses), 2**53+3 fails maximum 2**53+3 (false alarm) *)
Theorem C04_header_through_float_sentinel_refuted :
  (hdr_int_conforms None None t_1e3 = false /\ hdr_int_conforms_through_float None None t_1e3 = true)
  /\ (hdr_int_conforms None (Some two53) t_two53_plus1 = false
      /\ hdr_int_conforms_through_float None (Some two53) t_two53_plus1 = true)
  /\ (hdr_int_conforms None (Some 9007199254740995%Z) t_two53_plus3 = true
      /\ hdr_int_conforms_through_float None (Some 9007199254740995%Z) t_two53_plus3 = false).
Proof. exact through_float_refuted. Qed.
Print Assumptions C04_header_through_float_sentinel_refuted.

Theorem C04_integer_header_examples :
  coerce_header TInteger [160;43;49;95;48;48;48;32] = HInt 1000
  /\ coerce_header TInteger [1636;1634] = HInt 42
  /\ coerce_header TInteger [45;48;48;55] = HInt (-7)
  /\ coerce_header TInteger [28;52;50] = HStr [28;52;50]
  /\ coerce_header TInteger [49;95;95;48] = HStr [49;95;95;48]
  /\ coerce_header TInteger [49;50;46;48] = HStr [49;50;46;48]
  /\ coerce_header TInteger t_two53_plus1 = HInt 9007199254740993
  /\ hdr_int_conforms (Some 10%Z) (Some 20%Z) [49;53] = true
  /\ hdr_int_conforms (Some 10%Z) (Some 20%Z) [50;49] = false
  /\ int_body [49;95;48;48;48] 1000
  /\ coerce_header TBoolean [79;78] = HBool true
  /\ coerce_header TBoolean [50] = HStr [50]
  /\ coerce_header TNull [78;117;108;108] = HNull
  /\ coerce_header TNumber [52;50] = HFloatOfInt 42.
Proof. exact integer_header_examples. Qed.
Print Assumptions C04_integer_header_examples.
