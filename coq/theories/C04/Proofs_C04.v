(* C04 proofs: status / content type characterisations, agreement of the coded
   checks with the documented ones inside the regions, witnesses outside. *)
From Coq Require Import List NArith ZArith Bool Lia.
From Verif Require Import Common.Str Common.Json C04.Model_C04.
Import ListNotations.
Open Scope N_scope.

(* ---------- canonical failure sets ---------- *)
Lemma fk_eqb_eq a b : fk_eqb a b = true <-> a = b.
Proof. destruct a, b; cbn; split; intros H; try discriminate; reflexivity. Qed.

Lemma fk_mem_in k l : fk_mem k l = true <-> In k l.
Proof.
  unfold fk_mem. rewrite existsb_exists. split.
  - intros [x [Hx He]]. apply fk_eqb_eq in He. subst. exact Hx.
  - intros H. exists k. split; [exact H | apply fk_eqb_eq; reflexivity].
Qed.

Lemma in_all_fk k : In k all_fk.
Proof. destruct k; cbn; tauto. Qed.

Lemma canon_in k l : In k (canon l) <-> In k l.
Proof.
  unfold canon. rewrite filter_In, fk_mem_in. split; [tauto | intros H; split; [apply in_all_fk | exact H]].
Qed.

Lemma canon_nil l : canon l = [] <-> l = [].
Proof.
  split.
  - intros H. destruct l as [|k l]; [reflexivity|].
    assert (Hk : In k (canon (k :: l))) by (apply canon_in; left; reflexivity).
    rewrite H in Hk. destruct Hk.
  - intros ->. reflexivity.
Qed.

Lemma canon_idem l : canon (canon l) = canon l.
Proof.
  unfold canon at 1 3. apply filter_ext. intros k.
  destruct (fk_mem k l) eqn:E.
  - apply (proj2 (fk_mem_in _ _)). apply (proj2 (canon_in _ _)). apply (proj1 (fk_mem_in _ _)). exact E.
  - destruct (fk_mem k (canon l)) eqn:E2; [|reflexivity].
    apply (proj1 (fk_mem_in _ _)) in E2. apply (proj1 (canon_in _ _)) in E2. apply (proj2 (fk_mem_in k l)) in E2. congruence.
Qed.

(* ---------- expand_status_code ---------- *)
(* e is obtained from k by replacing every X by a digit *)
Definition expansion_of (k e : str) : Prop :=
  Forall2 (fun kc ec => if kc =? 88 then In ec digits else ec = kc) k e.

Lemma product_spec (k e : str) :
  In e (product (map (fun c => if c =? 88 then digits else [c]) k)) <-> expansion_of k e.
Proof.
  unfold expansion_of. revert e. induction k as [|c k IH]; intros e; cbn [map product].
  - split.
    + intros [<-|[]]. constructor.
    + intros H. inversion H. left. reflexivity.
  - rewrite in_flat_map. split.
    + intros [x [Hx He]]. apply in_map_iff in He. destruct He as [e' [<- He']].
      constructor; [|apply IH; exact He'].
      destruct (c =? 88); [exact Hx | destruct Hx as [<-|[]]; reflexivity].
    + intros H. inversion H as [|kc ec k' e' Hc Hr]; subst.
      exists ec. split.
      * destruct (c =? 88); [exact Hc | left; symmetry; exact Hc].
      * apply in_map. apply IH. exact Hr.
Qed.

Definition key_expansion (k : key) (e : str) : Prop := expansion_of (upper_ascii (key_str k)) e.
(* the documented meaning of a response key: some digit instance of it reads as the code *)
Definition code_matches (k : key) (code : N) : Prop :=
  exists e, key_expansion k e /\ py_int e = Some (Z.of_N code).

Lemma in_expand_key k o : In o (expand_key k) <-> exists e, key_expansion k e /\ o = py_int e.
Proof.
  unfold expand_key, key_chars, key_expansion. rewrite in_map_iff. split.
  - intros [e [<- He]]. exists e. split; [apply product_spec; exact He | reflexivity].
  - intros [e [He ->]]. exists e. split; [reflexivity | apply product_spec; exact He].
Qed.

Lemma key_matches_spec k code : key_matches k code = true <-> code_matches k code.
Proof.
  unfold key_matches, code_matches. rewrite existsb_exists. split.
  - intros [o [Ho Hz]]. apply in_expand_key in Ho. destruct Ho as [e [He ->]].
    destruct (py_int e) as [z|] eqn:E; [|discriminate]. apply Z.eqb_eq in Hz. subst z.
    exists e. split; [exact He | exact E].
  - intros [e [He Hp]]. exists (py_int e). split.
    + apply in_expand_key. exists e. split; [exact He | reflexivity].
    + rewrite Hp. apply Z.eqb_refl.
Qed.

Lemma sequence_none {A} (l : list (option A)) : sequence l = None <-> In None l.
Proof.
  induction l as [|[x|] l IH]; cbn.
  - split; [discriminate | intros []].
  - destruct (sequence l); cbn; split.
    + discriminate.
    + intros [H|H]; [discriminate | apply IH in H; discriminate].
    + intros _. right. apply IH. reflexivity.
    + reflexivity.
  - split; [intros _; left; reflexivity | reflexivity].
Qed.

Lemma sequence_some {A} (l : list (option A)) cs : sequence l = Some cs -> l = map Some cs.
Proof.
  revert cs. induction l as [|[x|] l IH]; intros cs H; cbn in H.
  - inversion H. reflexivity.
  - destruct (sequence l) as [cs'|]; cbn in H; [|discriminate]. inversion H. subst. cbn. f_equal. apply IH. reflexivity.
  - discriminate.
Qed.

Lemma zmem_in z l : zmem z l = true <-> In z l.
Proof.
  unfold zmem. rewrite existsb_exists. split.
  - intros [x [Hx He]]. apply Z.eqb_eq in He. subst. exact Hx.
  - intros H. exists z. split; [exact H | apply Z.eqb_refl].
Qed.

Lemma is_default_key_spec k : is_default_key k = true <-> k = KStr s_default.
Proof.
  destruct k as [s|n]; cbn.
  - rewrite str_eqb_spec. split; [intros ->; reflexivity | intros H; inversion H; reflexivity].
  - split; discriminate.
Qed.

Lemma has_default_spec keys : existsb is_default_key keys = true <-> In (KStr s_default) keys.
Proof.
  rewrite existsb_exists. split.
  - intros [k [Hk Hd]]. apply is_default_key_spec in Hd. subst. exact Hk.
  - intros H. exists (KStr s_default). split; [exact H | apply is_default_key_spec; reflexivity].
Qed.

Definition keys_of (d : doc) : list key := map fst (d_responses d).
(* the keys that are read as status codes: all but specification extensions *)
Definition skeys (d : doc) : list key := status_keys (keys_of d).

Lemma in_all_opts keys o :
  In o (flat_map expand_key keys) <-> exists k e, In k keys /\ key_expansion k e /\ o = py_int e.
Proof.
  rewrite in_flat_map. split.
  - intros [k [Hk Ho]]. apply in_expand_key in Ho. destruct Ho as [e [He ->]]. exists k, e. auto.
  - intros [k [e [Hk [He ->]]]]. exists k. split; [exact Hk | apply in_expand_key; exists e; auto].
Qed.

(* status_code_conformance reports an undocumented status code exactly when there is no
   default, every key reads as integers, and no key matches the code *)
Lemma status_iff d r :
  status_check d r = Ok [FUndefinedStatus] <->
  (~ In (KStr s_default) (keys_of d)
   /\ (forall k e, In k (skeys d) -> key_expansion k e -> py_int e <> None)
   /\ (forall k, In k (skeys d) -> ~ code_matches k (status r))).
Proof.
  unfold status_check. fold (keys_of d). fold (skeys d).
  destruct (existsb is_default_key (keys_of d)) eqn:Ed.
  - apply has_default_spec in Ed. split; [discriminate | intros [H _]; contradiction].
  - assert (Hnd : ~ In (KStr s_default) (keys_of d)) by (intros H; apply has_default_spec in H; congruence).
    unfold all_codes. destruct (sequence (flat_map expand_key (skeys d))) as [codes|] eqn:Es.
    + apply sequence_some in Es.
      assert (Hwf : forall k e, In k (skeys d) -> key_expansion k e -> py_int e <> None).
      { intros k e Hk He Hn.
        assert (Hin : In (py_int e) (flat_map expand_key (skeys d))) by (apply in_all_opts; exists k, e; auto).
        rewrite Es, Hn in Hin. apply in_map_iff in Hin. destruct Hin as [x [Hx _]]. discriminate. }
      assert (Hmem : In (Z.of_N (status r)) codes <-> exists k, In k (skeys d) /\ code_matches k (status r)).
      { split.
        - intros H. assert (Hin : In (Some (Z.of_N (status r))) (flat_map expand_key (skeys d))) by (rewrite Es; apply in_map; exact H).
          apply in_all_opts in Hin. destruct Hin as [k [e [Hk [He Hp]]]]. exists k. split; [exact Hk|]. exists e. auto.
        - intros [k [Hk [e [He Hp]]]].
          assert (Hin : In (Some (Z.of_N (status r))) (flat_map expand_key (skeys d))) by (apply in_all_opts; exists k, e; auto).
          rewrite Es in Hin. apply in_map_iff in Hin. destruct Hin as [x [Hx Hi]]. inversion Hx. subst. exact Hi. }
      destruct (zmem (Z.of_N (status r)) codes) eqn:Ez.
      * apply zmem_in in Ez. split; [discriminate|]. intros [_ [_ Hno]]. apply Hmem in Ez. destruct Ez as [k [Hk Hm]]. exfalso. exact (Hno k Hk Hm).
      * split; [|reflexivity]. intros _. split; [exact Hnd|]. split; [exact Hwf|].
        intros k Hk Hm. assert (In (Z.of_N (status r)) codes) by (apply Hmem; exists k; auto).
        apply zmem_in in H. congruence.
    + split; [discriminate|]. intros [_ [Hwf _]]. apply sequence_none in Es. apply in_all_opts in Es.
      destruct Es as [k [e [Hk [He Hp]]]]. exfalso. apply (Hwf k e Hk He). symmetry. exact Hp.
Qed.

Lemma status_crash_iff d r :
  status_check d r = Crash EValueError <->
  (~ In (KStr s_default) (keys_of d) /\ exists k e, In k (skeys d) /\ key_expansion k e /\ py_int e = None).
Proof.
  unfold status_check. fold (keys_of d). fold (skeys d).
  destruct (existsb is_default_key (keys_of d)) eqn:Ed.
  - apply has_default_spec in Ed. split; [discriminate | intros [H _]; contradiction].
  - assert (Hnd : ~ In (KStr s_default) (keys_of d)) by (intros H; apply has_default_spec in H; congruence).
    unfold all_codes. destruct (sequence (flat_map expand_key (skeys d))) as [codes|] eqn:Es.
    + split.
      * destruct (zmem _ _); discriminate.
      * intros [_ [k [e [Hk [He Hp]]]]]. apply sequence_some in Es.
        assert (Hin : In (py_int e) (flat_map expand_key (skeys d))) by (apply in_all_opts; exists k, e; auto).
        rewrite Es, Hp in Hin. apply in_map_iff in Hin. destruct Hin as [x [Hx _]]. discriminate.
    + split; [|reflexivity]. intros _. split; [exact Hnd|]. apply sequence_none in Es. apply in_all_opts in Es.
      destruct Es as [k [e [Hk [He Hp]]]]. exists k, e. auto.
Qed.

(* ---------- content type ---------- *)
Lemma ct_loop_cases docs ct : ct_loop docs ct = [] \/ ct_loop docs ct = [FMalformedMT] \/ ct_loop docs ct = [FUndefinedCT].
Proof.
  induction docs as [|o rest IH]; cbn; [tauto|].
  destruct (parse o); [|tauto]. destruct (parse ct); [|tauto]. destruct (media_match p p0); tauto.
Qed.

(* the received type is well formed and so is every documented one: the verdict is
   UndefinedContentType exactly when no documented type matches, and a pass exactly when one does *)
Lemma content_type_iff docs ct p :
  parse ct = Some p -> forallb (fun o => match parse o with Some _ => true | None => false end) docs = true ->
  (ct_loop docs ct = [FUndefinedCT] <-> forall o q, In o docs -> parse o = Some q -> media_match q p = false)
  /\ (ct_loop docs ct = [] <-> exists o q, In o docs /\ parse o = Some q /\ media_match q p = true).
Proof.
  intros Hp. induction docs as [|o rest IH]; intros Hall; cbn [ct_loop].
  - split; split; try discriminate; try reflexivity.
    + intros _ o q [].
    + intros [o [q [[] _]]].
  - cbn in Hall. apply andb_true_iff in Hall. destruct Hall as [Ho Hrest].
    destruct (parse o) as [e|] eqn:Eo; [|discriminate]. rewrite Hp.
    specialize (IH Hrest). destruct IH as [IH1 IH2].
    destruct (media_match e p) eqn:Em.
    + split; split.
      * discriminate.
      * intros H. specialize (H o e (or_introl eq_refl) Eo). congruence.
      * intros _. exists o, e. split; [left; reflexivity | auto].
      * reflexivity.
    + split; split.
      * intros H o' q [<-|Hin] Hq; [congruence | apply (proj1 IH1 H o' q Hin Hq)].
      * intros H. apply IH1. intros o' q Hin Hq. apply (H o' q (or_intror Hin) Hq).
      * intros H. apply IH2 in H. destruct H as [o' [q [Hin Hq]]]. exists o', q. split; [right; exact Hin | exact Hq].
      * intros [o' [q [[<-|Hin] [Hq Hm]]]]; [congruence | apply IH2; exists o', q; auto].
Qed.

Lemma parse_lowercase s m sub : parse s = Some (m, sub) -> lower_ascii m = m /\ lower_ascii sub = sub.
Proof.
  unfold parse. destruct (split_once 47 (strip ws (first_segment s)) []) as [[a b]|]; [|discriminate].
  intros H. inversion H. split; apply lower_ascii_idem.
Qed.

(* parameters after the first semicolon are ignored (no quotes in the type itself) *)
Lemma seg_scan_plain s : forall first pb acc rest,
  mem 59 s = false -> mem 34 s = false ->
  seg_scan (s ++ 59 :: rest) first pb false acc = seg_scan s first pb false acc.
Proof.
  induction s as [|c s IH]; intros first pb acc rest H59 H34.
  - cbn. rewrite orb_true_r. reflexivity.
  - unfold mem in H59, H34. cbn [existsb] in H59, H34.
    apply orb_false_iff in H59. destruct H59 as [E1 H59].
    apply orb_false_iff in H34. destruct H34 as [E2 H34].
    rewrite N.eqb_sym in E1. rewrite N.eqb_sym in E2.
    cbn [app seg_scan]. rewrite E1, E2. cbn [andb].
    apply IH; assumption.
Qed.

Lemma parse_ignores_parameters s rest : mem 59 s = false -> mem 34 s = false -> parse (s ++ 59 :: rest) = parse s.
Proof.
  intros H1 H2. unfold parse, first_segment. rewrite seg_scan_plain by assumption. reflexivity.
Qed.

(* ---------- lookups ---------- *)
Lemma lookup_by_ext {A} (p q : key -> bool) (l : list (key * A)) :
  (forall kv, In kv l -> p (fst kv) = q (fst kv)) -> lookup_by p l = lookup_by q l.
Proof.
  unfold lookup_by. generalize (@None A) as acc. induction l as [|kv l IH]; intros acc H; cbn; [reflexivity|].
  rewrite (H kv (or_introl eq_refl)). apply IH. intros kv' Hin. apply H. right. exact Hin.
Qed.

Lemma fold_lookup_in {A} (p : key -> bool) (l : list (key * A)) acc x :
  fold_left (fun acc kv => if p (fst kv) then Some (snd kv) else acc) l acc = Some x -> acc = Some x \/ In x (map snd l).
Proof.
  revert acc. induction l as [|kv l IH]; intros acc H; cbn in H; [left; exact H|].
  apply IH in H. destruct H as [H|H]; [|right; right; exact H].
  destruct (p (fst kv)); [right; left; inversion H; reflexivity | left; exact H].
Qed.

Lemma lookup_by_in {A} p (l : list (key * A)) x : lookup_by p l = Some x -> In x (map snd l).
Proof. intros H. apply fold_lookup_in in H. destruct H as [H|H]; [discriminate | exact H]. Qed.

Lemma find_none_all {A} (f : A -> bool) l : (forall x, In x l -> f x = false) -> find f l = None.
Proof.
  induction l as [|a l IH]; intros H; cbn; [reflexivity|].
  rewrite (H a (or_introl eq_refl)). apply IH. intros x Hx. apply H. right. exact Hx.
Qed.

Lemma raw_str_agree d s : no_int_keys d = true ->
  lookup_by (raw_is s) (d_responses d) = lookup_by (str_is s) (d_responses d).
Proof.
  intros H. apply lookup_by_ext. intros [k x] Hin. unfold no_int_keys in H. rewrite forallb_forall in H.
  specialize (H k (in_map fst _ _ Hin)). cbn. destruct k; [reflexivity | discriminate].
Qed.

Lemma lookup_raw_str d c : no_int_keys d = true -> lookup_raw d c = lookup_str d c.
Proof. intros H. unfold lookup_raw, lookup_str. rewrite !(raw_str_agree d _ H). reflexivity. Qed.

Lemma lookup_spec_str d c : no_wildcard_keys d = true -> lookup_spec d c = lookup_str d c.
Proof.
  intros H. unfold lookup_spec, lookup_str. destruct (lookup_by (str_is (dec c)) (d_responses d)); [reflexivity|].
  rewrite find_none_all; [reflexivity|]. intros [k x] Hin. cbn [fst].
  unfold no_wildcard_keys in H. rewrite forallb_forall in H. specialize (H k (in_map fst _ _ Hin)).
  destruct (is_default_key k); cbn in *; [rewrite andb_false_r; reflexivity|].
  destruct (is_extension_key k); cbn in *; [rewrite andb_false_r; reflexivity|].
  destruct (has_x k); [discriminate | reflexivity].
Qed.

Lemma lookup_str_in d c x : lookup_str d c = Some x -> In x (map snd (d_responses d)).
Proof.
  unfold lookup_str. destruct (lookup_by (str_is (dec c)) (d_responses d)) eqn:E.
  - intros H. inversion H. subst. apply (lookup_by_in _ _ _ E).
  - intros H. apply (lookup_by_in _ _ _ H).
Qed.

Lemma assoc_get_in {A} k (l : list (str * A)) v : assoc_get k l = Some v -> exists k', In (k', v) l.
Proof.
  induction l as [|[k' v'] l IH]; cbn; [discriminate|].
  destruct (str_eqb k k'); intros H.
  - inversion H. subst. exists k'. left. reflexivity.
  - destruct (IH H) as [k2 Hin]. exists k2. right. exact Hin.
Qed.

Lemma resolve_fuel_inline f comps b : resolve_fuel f comps (RInline b) = RBody b.
Proof. destruct f; reflexivity. Qed.

Lemma resolve_agree d x : flat_refs d = true -> In x (map snd (d_responses d)) ->
  exists b, resolve_code d x = RBody b /\ resolve_spec d x = RBody b /\ In (RInline b) (all_defs d).
Proof.
  intros Hflat Hin. unfold flat_refs in Hflat. apply andb_true_iff in Hflat. destruct Hflat as [Hc Hr].
  rewrite forallb_forall in Hc, Hr. destruct x as [b|n].
  - exists b. split; [reflexivity|]. split; [apply resolve_fuel_inline|]. unfold all_defs. apply in_or_app. left. exact Hin.
  - specialize (Hr _ Hin). cbn in Hr. unfold assoc_mem in Hr.
    destruct (assoc_get n (d_components d)) as [y|] eqn:Ey; [|discriminate].
    destruct (assoc_get_in _ _ _ Ey) as [k' Hk'].
    specialize (Hc _ Hk'). cbn in Hc. destruct y as [b|]; [|discriminate].
    exists b. split; [cbn; rewrite Ey; reflexivity|]. split.
    + unfold resolve_spec. cbn [resolve_fuel]. rewrite Ey. apply resolve_fuel_inline.
    + unfold all_defs. apply in_or_app. right. apply (in_map snd _ _ Hk').
Qed.

(* inside the regions the three ways of finding the response definition coincide *)
Lemma def_agree d r :
  no_wildcard_keys d = true -> no_int_keys d = true -> flat_refs d = true ->
  (lookup_raw d (status r) = None /\ lookup_str d (status r) = None /\ spec_def d r = None)
  \/ (exists x b, lookup_raw d (status r) = Some x /\ lookup_str d (status r) = Some x
                  /\ resolve_code d x = RBody b /\ spec_def d r = Some b /\ In (RInline b) (all_defs d)).
Proof.
  intros Hw Hi Hf. unfold spec_def. rewrite (lookup_spec_str d _ Hw), (lookup_raw_str d _ Hi).
  destruct (lookup_str d (status r)) as [x|] eqn:E; [right | left; auto].
  destruct (resolve_agree d x Hf (lookup_str_in _ _ _ E)) as [b [H1 [H2 H3]]].
  exists x, b. rewrite H2. auto.
Qed.

(* ---------- status: coded = documented when every key reads as integers ---------- *)
Definition is_some {A} (o : option A) : bool := match o with Some _ => true | None => false end.

Lemma forallb_flat_map {A B} (f : B -> bool) (g : A -> list B) l :
  forallb f (flat_map g l) = forallb (fun x => forallb f (g x)) l.
Proof. induction l as [|a l IH]; cbn; [reflexivity|]. rewrite forallb_app, IH. reflexivity. Qed.

Lemma existsb_flat_map {A B} (f : B -> bool) (g : A -> list B) l :
  existsb f (flat_map g l) = existsb (fun x => existsb f (g x)) l.
Proof. induction l as [|a l IH]; cbn; [reflexivity|]. rewrite existsb_app, IH. reflexivity. Qed.

Lemma existsb_ext_in {A} (f g : A -> bool) l : (forall x, In x l -> f x = g x) -> existsb f l = existsb g l.
Proof.
  induction l as [|a l IH]; intros H; cbn; [reflexivity|].
  rewrite (H a (or_introl eq_refl)), IH; [reflexivity|]. intros x Hx. apply H. right. exact Hx.
Qed.

Lemma forallb_ext_in {A} (f g : A -> bool) l : (forall x, In x l -> f x = g x) -> forallb f l = forallb g l.
Proof.
  induction l as [|a l IH]; intros H; cbn; [reflexivity|].
  rewrite (H a (or_introl eq_refl)), IH; [reflexivity|]. intros x Hx. apply H. right. exact Hx.
Qed.

Lemma sequence_total {A} (l : list (option A)) : forallb is_some l = true -> exists cs, sequence l = Some cs.
Proof.
  induction l as [|[x|] l IH]; cbn; intros H.
  - exists []. reflexivity.
  - destruct (IH H) as [cs ->]. exists (x :: cs). reflexivity.
  - discriminate.
Qed.

Lemma sequence_zmem (l : list (option Z)) cs z : sequence l = Some cs ->
  zmem z cs = existsb (fun o => match o with Some z' => Z.eqb z' z | None => false end) l.
Proof.
  intros H. apply sequence_some in H. subst l. unfold zmem. induction cs as [|c cs IH]; cbn; [reflexivity|].
  rewrite IH, Z.eqb_sym. reflexivity.
Qed.

Lemma status_agree d r : keys_parse d = true -> status_check d r = spec_status_check d r.
Proof.
  intros Hk. unfold status_check, spec_status_check. fold (keys_of d). fold (skeys d).
  destruct (existsb is_default_key (keys_of d)) eqn:Ed; [reflexivity|].
  assert (Hall : forallb is_some (flat_map expand_key (skeys d)) = true).
  { rewrite forallb_flat_map. unfold keys_parse in Hk. fold (keys_of d) in Hk. fold (skeys d) in Hk. rewrite <- Hk.
    apply forallb_ext_in. intros k Hin.
    assert (is_default_key k = false).
    { destruct (is_default_key k) eqn:E; [|reflexivity].
      unfold skeys, status_keys in Hin. apply filter_In in Hin. destruct Hin as [Hin _].
      assert (existsb is_default_key (keys_of d) = true) by (apply existsb_exists; exists k; auto). congruence. }
    rewrite H. reflexivity. }
  unfold all_codes. destruct (sequence_total _ Hall) as [cs Hcs]. rewrite Hcs.
  rewrite (sequence_zmem _ _ _ Hcs), existsb_flat_map. reflexivity.
Qed.

(* ---------- content type and headers ---------- *)
Lemma ct_agree d r : no_wildcard_keys d = true -> no_int_keys d = true -> flat_refs d = true ->
  content_type_check d r = spec_content_type_check d r.
Proof.
  intros Hw Hi Hf. unfold content_type_check, spec_content_type_check. destruct (d_v30 d); [|reflexivity].
  destruct (def_agree d r Hw Hi Hf) as [[H1 [_ H3]]|[x [b [H1 [_ [H3 [H4 _]]]]]]].
  - rewrite H1, H3. reflexivity.
  - rewrite H1, H3, H4. reflexivity.
Qed.

Lemma inline_ok (p : rbody -> bool) d b : forallb (def_ok p) (all_defs d) = true -> In (RInline b) (all_defs d) -> p b = true.
Proof. intros H Hin. rewrite forallb_forall in H. apply (H _ Hin). Qed.

Lemma hdr_agree hv d r : no_wildcard_keys d = true -> no_int_keys d = true -> flat_refs d = true -> no_header_refs d = true ->
  headers_check hv d r = spec_headers_check hv d r.
Proof.
  intros Hw Hi Hf Hh. unfold headers_check, spec_headers_check.
  destruct (def_agree d r Hw Hi Hf) as [[H1 [_ H3]]|[x [b [H1 [_ [H3 [H4 H5]]]]]]].
  - rewrite H1, H3. reflexivity.
  - rewrite H1, H3, H4. unfold hdr_check_on. f_equal. f_equal.
    pose proof (inline_ok _ d b Hh H5) as Hb. cbn in Hb. rewrite forallb_forall in Hb.
    rewrite (existsb_ext_in (hdr_missing true r) (hdr_missing false r)); [reflexivity|].
    intros h Hin. unfold hdr_missing. specialize (Hb h Hin). destruct (h_is_ref h); [discriminate | reflexivity].
Qed.

(* ---------- body schema ---------- *)
Lemma strict_irrelevant v os r : body_decodes r = true -> ct_wellformed r = true ->
  schema_check_on true v os r = schema_check_on false v os r.
Proof.
  unfold body_decodes, ct_wellformed, schema_check_on. intros Hb Hc.
  destruct os as [s|]; [|reflexivity]. destruct (s_truthy s); [|reflexivity]. cbn [negb].
  destruct (get_header s_content_type r) as [[|c ct]|].
  - destruct (rbody_ r); [discriminate | reflexivity | reflexivity].
  - destruct (parse (c :: ct)); [|discriminate]. destruct (is_json p); [|reflexivity].
    destruct (rbody_ r); [discriminate | reflexivity | reflexivity].
  - destruct (rbody_ r); [discriminate | reflexivity | reflexivity].
Qed.

Definition conforming (o : outcome) : bool :=
  match o with Ok [] => true | Ok [FMissingCT] => true | _ => false end.

Lemma media_agree v b r : (length (r_content b) <=? 1)%nat = true ->
  conforming (ct_check_on (map fst (r_content b)) r) = true ->
  schema_check_on false v (first_schema true b) r = schema_check_on false v (matching_schema true b r) r.
Proof.
  intros Hlen Hconf. unfold matching_schema, first_schema.
  destruct (r_content b) as [|[mt os] [|e2 rest]]; [| |cbn in Hlen; discriminate].
  - destruct (get_header s_content_type r) as [ct|]; [|reflexivity].
    destruct (parse ct) as [p|] eqn:Ep; cbn [find]; reflexivity.
  - cbn [map fst ct_check_on] in Hconf.
    destruct (get_header s_content_type r) as [ct|] eqn:Eh; [|reflexivity].
    cbn [ct_loop] in Hconf.
    destruct (parse mt) as [e|] eqn:Em; [|discriminate].
    destruct (parse ct) as [p|] eqn:Ep; [|discriminate].
    destruct (media_match e p) eqn:Emm; [|discriminate].
    cbn [find fst snd]. rewrite Em, Emm. reflexivity.
Qed.

Lemma schema_agree v d r :
  no_wildcard_keys d = true -> single_media_type d = true -> no_int_keys d = true -> flat_refs d = true ->
  body_decodes r = true -> ct_wellformed r = true -> ct_conforms d r = true ->
  schema_check v d r = spec_schema_check v d r.
Proof.
  intros Hw Hs Hi Hf Hb Hc Hconf. unfold schema_check, spec_schema_check.
  destruct (def_agree d r Hw Hi Hf) as [[_ [H2 H3]]|[x [b [_ [H2 [H3 [H4 H5]]]]]]].
  - rewrite H2, H3. reflexivity.
  - rewrite H2, H3, H4. rewrite strict_irrelevant by assumption.
    destruct (d_v30 d) eqn:Ev; [|reflexivity].
    apply media_agree.
    + apply (inline_ok _ d b Hs H5).
    + unfold ct_conforms, spec_content_type_check in Hconf. rewrite Ev, H4 in Hconf. exact Hconf.
Qed.

(* ---------- the property inside the regions ---------- *)
Lemma verdict_eq_spec v hv d r :
  no_wildcard_keys d = true -> single_media_type d = true -> no_int_keys d = true -> keys_parse d = true ->
  flat_refs d = true -> no_header_refs d = true -> body_decodes r = true -> ct_wellformed r = true ->
  ct_conforms d r = true ->
  verdict v hv d r = spec_verdict v hv d r.
Proof.
  intros Hw Hs Hi Hk Hf Hh Hb Hc Hconf. unfold verdict, spec_verdict.
  rewrite (status_agree d r Hk), (ct_agree d r Hw Hi Hf), (hdr_agree hv d r Hw Hi Hf Hh),
    (schema_agree v d r Hw Hs Hi Hf Hb Hc Hconf). reflexivity.
Qed.

Lemma ct_check_on_shapes docs r :
  conforming (ct_check_on docs r) = false -> exists k, In k (kinds (ct_check_on docs r)).
Proof.
  unfold ct_check_on. destruct docs as [|o rest]; [discriminate|].
  destruct (get_header s_content_type r) as [ct|]; [|discriminate].
  destruct (ct_loop_cases (o :: rest) ct) as [H|[H|H]]; rewrite H; cbn; [discriminate | eexists; left; reflexivity | eexists; left; reflexivity].
Qed.

Lemma spec_ct_nonconforming d r : ct_conforms d r = false -> exists k, In k (kinds (spec_content_type_check d r)).
Proof.
  unfold ct_conforms. fold (conforming (spec_content_type_check d r)).
  unfold spec_content_type_check. destruct (d_v30 d).
  - destruct (spec_def d r); [apply ct_check_on_shapes | discriminate].
  - apply ct_check_on_shapes.
Qed.

(* a failure is reported exactly when the documentation says the response deviates *)
Lemma fails_iff_spec v hv d r :
  no_wildcard_keys d = true -> single_media_type d = true -> no_int_keys d = true -> keys_parse d = true ->
  flat_refs d = true -> no_header_refs d = true -> body_decodes r = true -> ct_wellformed r = true ->
  (verdict v hv d r = [] <-> spec_verdict v hv d r = []).
Proof.
  intros Hw Hs Hi Hk Hf Hh Hb Hc.
  destruct (ct_conforms d r) eqn:Hconf.
  - rewrite (verdict_eq_spec v hv d r) by assumption. tauto.
  - destruct (spec_ct_nonconforming d r Hconf) as [k Hin].
    unfold verdict, spec_verdict. rewrite (ct_agree d r Hw Hi Hf). rewrite !canon_nil.
    split; intros H; exfalso; apply app_eq_nil in H; destruct H as [_ H]; apply app_eq_nil in H; destruct H as [H _];
      rewrite H in Hin; destruct Hin.
Qed.

(* malformed JSON and a missing Content-Type are failures whenever a non-empty schema is documented *)
Lemma malformed_json_is_failure v s r ct p : s_truthy s = true -> get_header s_content_type r = Some ct ->
  parse ct = Some p -> is_json p = true -> rbody_ r = NotJson ->
  schema_check_on true v (Some s) r = Ok [FMalformedJson].
Proof.
  intros Ht Hh Hp Hj Hb. unfold schema_check_on. rewrite Ht, Hh, Hp, Hj, Hb. cbn.
  destruct ct; [|reflexivity]. reflexivity.
Qed.

Lemma missing_content_type_is_failure v s r : s_truthy s = true -> get_header s_content_type r = None ->
  rbody_ r <> BadUtf8 -> exists rest, schema_check_on true v (Some s) r = Ok (FMissingCT :: rest).
Proof.
  intros Ht Hh Hb. unfold schema_check_on. rewrite Ht, Hh. cbn.
  destruct (rbody_ r) as [| |did]; [contradiction | eexists; reflexivity |].
  destruct (v (s_id s) did); eexists; reflexivity.
Qed.

(* ---------- no check raises inside the regions ---------- *)
Lemma ct_check_on_no_crash docs r : ~ In FCrash (kinds (ct_check_on docs r)).
Proof.
  unfold ct_check_on. destruct docs as [|o rest]; [intros []|].
  destruct (get_header s_content_type r) as [ct|]; [|cbn; intuition discriminate].
  destruct (ct_loop_cases (o :: rest) ct) as [H|[H|H]]; rewrite H; cbn; intuition discriminate.
Qed.

Lemma hdr_check_on_no_crash m hv hs r : ~ In FCrash (kinds (hdr_check_on m hv hs r)).
Proof.
  unfold hdr_check_on. destruct (existsb (hdr_missing m r) hs), (existsb (hdr_invalid hv r) hs); cbn; intuition discriminate.
Qed.

Lemma schema_check_on_no_crash v os r : ~ In FCrash (kinds (schema_check_on false v os r)).
Proof.
  unfold schema_check_on. destruct os as [s|]; [|intros []]. destruct (s_truthy s); cbn [negb]; [|intros []].
  destruct (get_header s_content_type r) as [[|c ct]|].
  - destruct (rbody_ r) as [| |did]; cbn; try (intuition discriminate). destruct (v (s_id s) did); cbn; intuition discriminate.
  - destruct (parse (c :: ct)) as [p|]; [|intros []]. destruct (is_json p); [|intros []].
    destruct (rbody_ r) as [| |did]; cbn; try (intuition discriminate). destruct (v (s_id s) did); cbn; intuition discriminate.
  - destruct (rbody_ r) as [| |did]; cbn; try (intuition discriminate). destruct (v (s_id s) did); cbn; intuition discriminate.
Qed.

Lemma spec_verdict_no_crash v hv d r : ~ In FCrash (spec_verdict v hv d r).
Proof.
  unfold spec_verdict. intros H. apply (proj1 (canon_in _ _)) in H. repeat (apply in_app_or in H; destruct H as [H|H]).
  - unfold spec_status_check in H. destruct (existsb is_default_key _); [destruct H|].
    destruct (existsb _ _); cbn in H; intuition discriminate.
  - unfold spec_content_type_check in H. destruct (d_v30 d); [destruct (spec_def d r); [|destruct H]|]; apply (ct_check_on_no_crash _ _ H).
  - unfold spec_headers_check in H. destruct (spec_def d r); [|destruct H]. apply (hdr_check_on_no_crash _ _ _ _ H).
  - unfold spec_schema_check in H. destruct (spec_def d r); [|destruct H]. apply (schema_check_on_no_crash _ _ _ H).
Qed.

Lemma schema_check_no_crash v d r : flat_refs d = true -> body_decodes r = true -> ct_wellformed r = true ->
  ~ In FCrash (kinds (schema_check v d r)).
Proof.
  intros Hf Hb Hc. unfold schema_check. destruct (lookup_str d (status r)) as [x|] eqn:E; [|intros []].
  destruct (resolve_agree d x Hf (lookup_str_in _ _ _ E)) as [b [H1 _]]. rewrite H1.
  rewrite strict_irrelevant by assumption. apply schema_check_on_no_crash.
Qed.

Lemma verdict_no_crash v hv d r :
  no_wildcard_keys d = true -> no_int_keys d = true -> keys_parse d = true ->
  flat_refs d = true -> body_decodes r = true -> ct_wellformed r = true ->
  ~ In FCrash (verdict v hv d r).
Proof.
  intros Hw Hi Hk Hf Hb Hc H. unfold verdict in H. apply (proj1 (canon_in _ _)) in H.
  repeat (apply in_app_or in H; destruct H as [H|H]).
  - rewrite (status_agree d r Hk) in H. unfold spec_status_check in H. destruct (existsb is_default_key _); [destruct H|].
    destruct (existsb _ _); cbn in H; intuition discriminate.
  - rewrite (ct_agree d r Hw Hi Hf) in H. unfold spec_content_type_check in H.
    destruct (d_v30 d); [destruct (spec_def d r); [|destruct H]|]; apply (ct_check_on_no_crash _ _ H).
  - unfold headers_check in H. destruct (def_agree d r Hw Hi Hf) as [[H1 _]|[x [b [H1 [_ [H3 _]]]]]].
    + rewrite H1 in H. destruct H.
    + rewrite H1, H3 in H. apply (hdr_check_on_no_crash _ _ _ _ H).
  - apply (schema_check_no_crash v d r Hf Hb Hc H).
Qed.

(* ---------- integer keys, check by check ---------- *)
Lemma fks_eqb_eq a : forall b, fks_eqb a b = true -> a = b.
Proof.
  induction a as [|x a IH]; intros [|y b] H; cbn in H; try discriminate; [reflexivity|].
  apply andb_true_iff in H. destruct H as [H1 H2]. apply fk_eqb_eq in H1. rewrite H1, (IH b H2). reflexivity.
Qed.

Lemma fks_eqb_refl a : fks_eqb a a = true.
Proof. induction a as [|x a IH]; cbn; [reflexivity|]. rewrite IH, (proj2 (fk_eqb_eq x x) eq_refl). reflexivity. Qed.

Lemma outcome_eqb_eq a b : outcome_eqb a b = true -> a = b.
Proof.
  destruct a as [x|x], b as [y|y]; cbn; intros H; try discriminate.
  - rewrite (fks_eqb_eq _ _ H). reflexivity.
  - destruct x, y; try discriminate; reflexivity.
Qed.

Lemma outcome_eqb_refl a : outcome_eqb a a = true.
Proof. destruct a as [x|x]; cbn; [apply fks_eqb_refl | destruct x; reflexivity]. Qed.

(* the definition validate_response finds is the documented one, whatever the type of the keys *)
Lemma def_agree_str d r :
  no_wildcard_keys d = true -> flat_refs d = true ->
  (lookup_str d (status r) = None /\ spec_def d r = None)
  \/ (exists x b, lookup_str d (status r) = Some x
                  /\ resolve_code d x = RBody b /\ spec_def d r = Some b /\ In (RInline b) (all_defs d)).
Proof.
  intros Hw Hf. unfold spec_def. rewrite (lookup_spec_str d _ Hw).
  destruct (lookup_str d (status r)) as [x|] eqn:E; [right | left; auto].
  destruct (resolve_agree d x Hf (lookup_str_in _ _ _ E)) as [b [H1 [H2 H3]]].
  exists x, b. rewrite H2. auto.
Qed.

Lemma ct_str_agree d r : no_wildcard_keys d = true -> flat_refs d = true ->
  content_type_check_str d r = spec_content_type_check d r.
Proof.
  intros Hw Hf. unfold content_type_check_str, spec_content_type_check. destruct (d_v30 d); [|reflexivity].
  destruct (def_agree_str d r Hw Hf) as [[H1 H3]|[x [b [H1 [H3 [H4 _]]]]]].
  - rewrite H1, H3. reflexivity.
  - rewrite H1, H3, H4. reflexivity.
Qed.

Lemma hdr_str_agree hv d r : no_wildcard_keys d = true -> flat_refs d = true -> no_header_refs d = true ->
  headers_check_str hv d r = spec_headers_check hv d r.
Proof.
  intros Hw Hf Hh. unfold headers_check_str, spec_headers_check.
  destruct (def_agree_str d r Hw Hf) as [[H1 H3]|[x [b [H1 [H3 [H4 H5]]]]]].
  - rewrite H1, H3. reflexivity.
  - rewrite H1, H3, H4. unfold hdr_check_on. f_equal. f_equal.
    pose proof (inline_ok _ d b Hh H5) as Hb. cbn in Hb. rewrite forallb_forall in Hb.
    rewrite (existsb_ext_in (hdr_missing true r) (hdr_missing false r)); [reflexivity|].
    intros h Hin. unfold hdr_missing. specialize (Hb h Hin). destruct (h_is_ref h); [discriminate | reflexivity].
Qed.

(* the body schema check agrees with the documentation for integer keys too: no hypothesis on the type of the keys *)
Lemma schema_agree_any_keys v d r :
  no_wildcard_keys d = true -> single_media_type d = true -> flat_refs d = true ->
  body_decodes r = true -> ct_wellformed r = true -> ct_conforms d r = true ->
  schema_check v d r = spec_schema_check v d r.
Proof.
  intros Hw Hs Hf Hb Hc Hconf. unfold schema_check, spec_schema_check.
  destruct (def_agree_str d r Hw Hf) as [[H2 H3]|[x [b [H2 [H3 [H4 H5]]]]]].
  - rewrite H2, H3. reflexivity.
  - rewrite H2, H3, H4. rewrite strict_irrelevant by assumption.
    destruct (d_v30 d) eqn:Ev; [|reflexivity].
    apply media_agree.
    + apply (inline_ok _ d b Hs H5).
    + unfold ct_conforms, spec_content_type_check in Hconf. rewrite Ev, H4 in Hconf. exact Hconf.
Qed.

Lemma immaterial_of_no_int_keys hv d r : no_int_keys d = true -> int_keys_immaterial hv d r = true.
Proof.
  intros Hi. unfold int_keys_immaterial, content_type_check, content_type_check_str, headers_check, headers_check_str.
  rewrite (lookup_raw_str d _ Hi), !outcome_eqb_refl. reflexivity.
Qed.

Lemma immaterial_split hv d r : int_keys_immaterial hv d r = true ->
  content_type_check d r = content_type_check_str d r /\ headers_check hv d r = headers_check_str hv d r.
Proof.
  unfold int_keys_immaterial. intros H. apply andb_true_iff in H. destruct H as [H1 H2].
  split; apply outcome_eqb_eq; assumption.
Qed.

(* the property with integer keys allowed: no_int_keys is replaced by the per-response predicate *)
Lemma verdict_eq_spec_int_keys v hv d r :
  no_wildcard_keys d = true -> single_media_type d = true -> int_keys_immaterial hv d r = true -> keys_parse d = true ->
  flat_refs d = true -> no_header_refs d = true -> body_decodes r = true -> ct_wellformed r = true ->
  ct_conforms d r = true ->
  verdict v hv d r = spec_verdict v hv d r.
Proof.
  intros Hw Hs Hi Hk Hf Hh Hb Hc Hconf. unfold verdict, spec_verdict.
  destruct (immaterial_split hv d r Hi) as [E1 E2].
  rewrite (status_agree d r Hk), E1, E2, (ct_str_agree d r Hw Hf), (hdr_str_agree hv d r Hw Hf Hh),
    (schema_agree_any_keys v d r Hw Hs Hf Hb Hc Hconf). reflexivity.
Qed.

Lemma fails_iff_spec_int_keys v hv d r :
  no_wildcard_keys d = true -> single_media_type d = true -> int_keys_immaterial hv d r = true -> keys_parse d = true ->
  flat_refs d = true -> no_header_refs d = true -> body_decodes r = true -> ct_wellformed r = true ->
  (verdict v hv d r = [] <-> spec_verdict v hv d r = []).
Proof.
  intros Hw Hs Hi Hk Hf Hh Hb Hc.
  destruct (ct_conforms d r) eqn:Hconf.
  - rewrite (verdict_eq_spec_int_keys v hv d r) by assumption. tauto.
  - destruct (spec_ct_nonconforming d r Hconf) as [k Hin].
    destruct (immaterial_split hv d r Hi) as [E1 _].
    unfold verdict, spec_verdict. rewrite E1, (ct_str_agree d r Hw Hf). rewrite !canon_nil.
    split; intros H; exfalso; apply app_eq_nil in H; destruct H as [_ H]; apply app_eq_nil in H; destruct H as [H _];
      rewrite H in Hin; destruct Hin.
Qed.

(* ---------- witnesses outside the regions ---------- *)
Definition region_flags (d : doc) (r : response) : list bool :=
  [no_wildcard_keys d; single_media_type d; no_int_keys d; keys_parse d; flat_refs d; no_header_refs d; body_decodes r; ct_wellformed r].

Definition s_app_json : str := [97;112;112;108;105;99;97;116;105;111;110;47;106;115;111;110].
Definition s_problem_json : str := [97;112;112;108;105;99;97;116;105;111;110;47;112;114;111;98;108;101;109;43;106;115;111;110].
Definition s_text_plain : str := [116;101;120;116;47;112;108;97;105;110].
Definition sch0 : sch := {| s_id := 0; s_truthy := true |}.
Definition sch1 : sch := {| s_id := 1; s_truthy := true |}.
Definition json_body : rbody := {| r_content := [(s_app_json, Some sch0)]; r_schema20 := None; r_headers := [] |}.
Definition no_body : rbody := {| r_content := []; r_schema20 := None; r_headers := [] |}.
Definition doc30 (rs : list (key * rdef)) (cs : list (str * rdef)) : doc :=
  {| d_v30 := true; d_responses := rs; d_components := cs; d_produces_op := []; d_produces_global := [] |}.
Definition resp (code : N) (ct : option str) (b : body) : response :=
  {| status := code; rheaders := match ct with Some c => [(s_content_type, c)] | None => [] end; rbody_ := b |}.
Definition none_valid : N -> N -> bool := fun _ _ => false.
Definition only_valid (n : N) : N -> N -> bool := fun sid _ => N.eqb sid n.
Definition hnone : N -> str -> bool := fun _ _ => false.

(* F1: responses = {4XX: json object schema}; 404 with a violating body is passed *)
Definition d_f1 := doc30 [(KStr [52;88;88], RInline json_body)] [].
Definition r_f1 := resp 404 (Some s_app_json) (Json 0).
Lemma refuted_wildcard :
  region_flags d_f1 r_f1 = [false; true; true; true; true; true; true; true]
  /\ verdict none_valid hnone d_f1 r_f1 = [] /\ spec_verdict none_valid hnone d_f1 r_f1 = [FBodySchema].
Proof. vm_compute. repeat split. Qed.

(* F2: two media types with different schemas, the second one received and conforming: validated against the first *)
Definition d_f2 := doc30 [(KStr [50;48;48], RInline {| r_content := [(s_app_json, Some sch0); (s_problem_json, Some sch1)]; r_schema20 := None; r_headers := [] |})] [].
Definition r_f2 := resp 200 (Some s_problem_json) (Json 0).
Lemma refuted_media_type :
  region_flags d_f2 r_f2 = [true; false; true; true; true; true; true; true]
  /\ verdict (only_valid 1) hnone d_f2 r_f2 = [FBodySchema] /\ spec_verdict (only_valid 1) hnone d_f2 r_f2 = [].
Proof. vm_compute. repeat split. Qed.
(* ... and the other direction: violating the second, conforming to the first: passed *)
Lemma refuted_media_type_miss :
  verdict (only_valid 0) hnone d_f2 r_f2 = [] /\ spec_verdict (only_valid 0) hnone d_f2 r_f2 = [FBodySchema].
Proof. vm_compute. repeat split. Qed.

(* F3: integer key 200: undocumented text/plain passes *)
Definition d_f3 := doc30 [(KInt 200, RInline json_body)] [].
Definition r_f3 := resp 200 (Some s_text_plain) (Json 0).
Lemma refuted_int_key :
  region_flags d_f3 r_f3 = [true; true; false; true; true; true; true; true]
  /\ verdict none_valid hnone d_f3 r_f3 = [] /\ spec_verdict none_valid hnone d_f3 r_f3 = [FUndefinedCT].
Proof. vm_compute. repeat split. Qed.

(* the same integer-keyed document: the per-response predicate is false on the F3 witness, and true for a JSON
   response, where the violating body IS reported (and conforming to 200 is not judged by default) *)
Definition r_f3_json := resp 200 (Some s_app_json) (Json 0).
Definition d_f3_default := doc30 [(KInt 200, RInline json_body);
  (KStr s_default, RInline {| r_content := [(s_app_json, Some sch1)]; r_schema20 := None; r_headers := [] |})] [].
Definition d_f3_20 : doc :=
  {| d_v30 := false; d_responses := [(KInt 200, RInline {| r_content := []; r_schema20 := Some sch0; r_headers := [] |})];
     d_components := []; d_produces_op := []; d_produces_global := [s_app_json] |}.
Lemma int_key_body_examples :
  int_keys_immaterial hnone d_f3 r_f3 = false
  /\ no_int_keys d_f3 = false /\ int_keys_immaterial hnone d_f3 r_f3_json = true
  /\ verdict none_valid hnone d_f3 r_f3_json = [FBodySchema] /\ spec_verdict none_valid hnone d_f3 r_f3_json = [FBodySchema]
  /\ int_keys_immaterial hnone d_f3_default r_f3_json = true
  /\ verdict (only_valid 0) hnone d_f3_default r_f3_json = [] /\ verdict (only_valid 1) hnone d_f3_default r_f3_json = [FBodySchema]
  /\ int_keys_immaterial hnone d_f3_20 r_f3_json = true
  /\ verdict none_valid hnone d_f3_20 r_f3_json = [FBodySchema] /\ spec_verdict none_valid hnone d_f3_20 r_f3_json = [FBodySchema].
Proof. vm_compute. repeat split. Qed.

(* F4 (fixed by e29caab0): a specification extension next to 200.  The sentinel (the code before the fix) raises,
   the code as it is passes, and the input now lies inside every region *)
Definition d_f4 := doc30 [(KStr [50;48;48], RInline no_body); (KStr [120;45;101;120;116], RInline no_body)] [].
Definition r_f4 := resp 200 None NotJson.
Lemma extension_key_fixed :
  status_check_before_e29caab0 d_f4 r_f4 = Crash EValueError
  /\ region_flags d_f4 r_f4 = [true; true; true; true; true; true; true; true]
  /\ status_check d_f4 r_f4 = Ok []
  /\ verdict none_valid hnone d_f4 r_f4 = [] /\ spec_verdict none_valid hnone d_f4 r_f4 = []
  /\ status_check d_f4 (resp 404 None NotJson) = Ok [FUndefinedStatus].
Proof. vm_compute. repeat split. Qed.
(* F4b (still there): a key that is neither a status code pattern nor an extension *)
Definition d_f4b := doc30 [(KStr [50;48;48], RInline no_body); (KStr [97;98;99], RInline no_body)] [].
Lemma refuted_non_numeric_key :
  region_flags d_f4b r_f4 = [true; true; true; false; true; true; true; true]
  /\ status_check d_f4b r_f4 = Crash EValueError
  /\ verdict none_valid hnone d_f4b r_f4 = [FCrash] /\ spec_verdict none_valid hnone d_f4b r_f4 = [].
Proof. vm_compute. repeat split. Qed.

(* F5: 200 -> $ref A -> $ref B -> json object schema *)
Definition d_f5 := doc30 [(KStr [50;48;48], RRef [65])] [([65], RRef [66]); ([66], RInline json_body)].
Definition r_f5 := resp 200 (Some s_app_json) (Json 0).
Lemma refuted_ref_chain :
  region_flags d_f5 r_f5 = [true; true; true; true; false; true; true; true]
  /\ verdict none_valid hnone d_f5 r_f5 = [] /\ spec_verdict none_valid hnone d_f5 r_f5 = [FBodySchema].
Proof. vm_compute. repeat split. Qed.

(* F6: a required header documented through $ref is missing *)
Definition d_f6 := doc30 [(KStr [50;48;48], RInline {| r_content := []; r_schema20 := None;
                          r_headers := [{| h_name := [88;45;65]; h_required := true; h_is_ref := true; h_id := 0 |}] |})] [].
Definition r_f6 := resp 200 None NotJson.
Lemma refuted_header_ref :
  region_flags d_f6 r_f6 = [true; true; true; true; true; false; true; true]
  /\ verdict none_valid hnone d_f6 r_f6 = [] /\ spec_verdict none_valid hnone d_f6 r_f6 = [FMissingHeaders].
Proof. vm_compute. repeat split. Qed.

(* F7: application/json body that is not UTF-8 *)
Definition d_ok := doc30 [(KStr [50;48;48], RInline json_body)] [].
Definition r_f7 := resp 200 (Some s_app_json) BadUtf8.
Lemma refuted_bad_utf8 :
  region_flags d_ok r_f7 = [true; true; true; true; true; true; false; true]
  /\ schema_check none_valid d_ok r_f7 = Crash EUnicodeDecode
  /\ verdict none_valid hnone d_ok r_f7 = [FCrash] /\ spec_verdict none_valid hnone d_ok r_f7 = [FMalformedJson].
Proof. vm_compute. repeat split. Qed.

(* F8: Content-Type: json *)
Definition r_f8 := resp 200 (Some s_json) (Json 0).
Lemma refuted_malformed_ct :
  region_flags d_ok r_f8 = [true; true; true; true; true; true; true; false]
  /\ schema_check (only_valid 0) d_ok r_f8 = Crash EMalformedMediaType
  /\ verdict (only_valid 0) hnone d_ok r_f8 = [FMalformedMT; FCrash] /\ spec_verdict (only_valid 0) hnone d_ok r_f8 = [FMalformedMT].
Proof. vm_compute. repeat split. Qed.

(* ---------- non-vacuity ---------- *)
Definition d_nv := {| d_v30 := true;
  d_responses := [(KStr [52;48;52], RRef [65]); (KStr s_default, RInline no_body)];
  d_components := [([65], RInline {| r_content := [(s_app_json, Some sch0)]; r_schema20 := None;
                     r_headers := [{| h_name := [88;45;65]; h_required := true; h_is_ref := false; h_id := 0 |}] |})];
  d_produces_op := []; d_produces_global := [] |}.
Definition r_nv := resp 404 (Some ([65;112;112;108;105;99;97;116;105;111;110;47;74;83;79;78;59;32;99;104;97;114;115;101;116;61;117;116;102;45;56])) (Json 0).
Lemma hypotheses_satisfiable :
  region_flags d_nv r_nv = [true; true; true; true; true; true; true; true] /\ ct_conforms d_nv r_nv = true
  /\ verdict none_valid hnone d_nv r_nv = [FMissingHeaders; FBodySchema]
  /\ spec_verdict none_valid hnone d_nv r_nv = [FMissingHeaders; FBodySchema]
  /\ verdict (only_valid 0) hnone d_nv (resp 200 None (Json 0)) = [].
Proof. vm_compute. repeat split. Qed.

(* status: 2XX matches 204, lower-case x too, 404 does not; an integer key matches its code *)
Lemma status_examples :
  code_matches (KStr [50;88;88]) 204 /\ code_matches (KStr [50;120;120]) 299 /\ code_matches (KInt 200) 200
  /\ status_check (doc30 [(KStr [50;88;88], RInline no_body)] []) (resp 404 None NotJson) = Ok [FUndefinedStatus]
  /\ status_check (doc30 [(KStr [50;120;120], RInline no_body)] []) (resp 204 None NotJson) = Ok [].
Proof.
  repeat split; try (apply key_matches_spec; vm_compute; reflexivity); vm_compute; reflexivity.
Qed.

Lemma content_type_examples :
  parse [65;112;112;108;105;99;97;116;105;111;110;47;74;83;79;78;59;32;99;104;97;114;115;101;116;61;117;116;102;45;56]
    = Some (s_application, s_json)
  /\ ct_loop [s_text_plain; [42;47;42]] s_app_json = []
  /\ ct_loop [s_text_plain] s_app_json = [FUndefinedCT]
  /\ parse s_json = None.
Proof. vm_compute. repeat split. Qed.

(* ---------- writeOnly and history independence ---------- *)
Lemma conversion_leaves_document s : snd (to_json_schema_obj s) = s.
Proof. reflexivity. Qed.

Lemma touch_id st : touch st = st.
Proof.
  unfold touch. rewrite <- (map_id st) at 2. apply map_ext. intros [k s]. reflexivity.
Qed.

(* the verdicts of a sequence of validations on one loaded schema are the verdicts of each response alone *)
Lemma verdict_seq_pure hv inst d st rs :
  verdict_seq hv inst d st rs = map (fun r => verdict (valid_st st inst) hv d r) rs.
Proof.
  induction rs as [|r rs IH]; cbn [verdict_seq map]; [reflexivity|].
  unfold verdict_st. cbn [fst snd]. rewrite touch_id, IH. reflexivity.
Qed.

Lemma str_eqb_sym a b : str_eqb a b = str_eqb b a.
Proof.
  destruct (str_eqb a b) eqn:E1, (str_eqb b a) eqn:E2; try reflexivity.
  - apply str_eqb_spec in E1. subst. rewrite str_eqb_refl in E2. discriminate.
  - apply str_eqb_spec in E2. subst. rewrite str_eqb_refl in E1. discriminate.
Qed.

Lemma forallb_remove_first (f : str -> bool) w req : nodupb req = true ->
  forallb f (remove_first w req) = forallb (fun n => str_eqb n w || f n) req.
Proof.
  induction req as [|y r IH]; intros Hn; cbn [remove_first forallb]; [reflexivity|].
  cbn [nodupb] in Hn. apply andb_true_iff in Hn. destruct Hn as [Hy Hr].
  destruct (str_eqb w y) eqn:E.
  - rewrite (str_eqb_sym y w), E. cbn [orb andb].
    apply str_eqb_spec in E. subst y.
    apply forallb_ext_in. intros n Hin.
    destruct (str_eqb n w) eqn:En; [|reflexivity].
    apply str_eqb_spec in En. subst n. apply negb_true_iff in Hy.
    assert (existsb (str_eqb w) r = true) by (apply existsb_exists; exists w; split; [exact Hin | apply str_eqb_refl]).
    congruence.
  - rewrite (str_eqb_sym y w), E. cbn [orb forallb]. rewrite (IH Hr). reflexivity.
Qed.

Lemma writeonly_agree s present : single_writeonly s = true -> nodupb (o_required s) = true ->
  jvalid (fst (to_json_schema_obj s)) present = ovalid s present.
Proof.
  unfold single_writeonly, jvalid, ovalid, is_wo. cbn [fst to_json_schema_obj j_required j_forbidden].
  intros Hs Hn. destruct (wo_names s) as [|w [|w2 rest]]; [| |cbn in Hs; discriminate].
  - cbn. rewrite andb_true_r. reflexivity.
  - cbn [fold_left forallb existsb]. rewrite (forallb_remove_first _ w _ Hn).
    rewrite !andb_true_r. rewrite andb_comm. f_equal.
    apply forallb_ext_in. intros n _. rewrite orb_false_r. reflexivity.
Qed.

(* F9: two writeOnly properties, one of them returned: accepted *)
Definition s_pw : str := [112;119].
Definition s_tok : str := [116;111;107].
Definition s_id_ : str := [105;100].
Definition o_two := {| o_props := [(s_id_, false); (s_pw, true); (s_tok, true)]; o_required := [s_id_] |}.
Lemma refuted_two_writeonly :
  single_writeonly o_two = false /\ nodupb (o_required o_two) = true
  /\ jvalid (fst (to_json_schema_obj o_two)) [s_id_; s_pw] = true /\ ovalid o_two [s_id_; s_pw] = false.
Proof. vm_compute. repeat split. Qed.

Definition o_one := {| o_props := [(s_id_, false); (s_pw, true)]; o_required := [s_id_; s_pw] |}.
Lemma writeonly_examples :
  single_writeonly o_one = true /\ nodupb (o_required o_one) = true
  /\ jvalid (fst (to_json_schema_obj o_one)) [s_id_] = true /\ jvalid (fst (to_json_schema_obj o_one)) [s_id_; s_pw] = false
  /\ jvalid (fst (to_json_schema_obj o_one)) [] = false.
Proof. vm_compute. repeat split. Qed.

(* a history on which the second validation rejects what the documentation forbids *)
Definition d_hist := doc30 [(KStr [50;48;48], RInline json_body)] [].
Definition inst_hist (did : N) : list (list str) := if did =? 0 then [[s_id_]] else [[s_id_]; [s_id_; s_pw]].
Lemma history_example :
  verdict_seq hnone inst_hist d_hist [(0, o_one)]
    [resp 200 (Some s_app_json) (Json 0); resp 200 (Some s_app_json) (Json 1); resp 200 (Some s_app_json) (Json 1)]
  = [[]; [FBodySchema]; [FBodySchema]].
Proof. vm_compute. reflexivity. Qed.

(* ---------- header coercion: _coerce_header_value on header text ---------- *)
Lemma in_bounds_iff lo hi z :
  in_bounds lo hi z = true <-> (forall l, lo = Some l -> (l <= z)%Z) /\ (forall h, hi = Some h -> (z <= h)%Z).
Proof.
  unfold in_bounds. rewrite andb_true_iff. split.
  - intros [Hl Hh]. split.
    + intros l E. subst lo. apply Z.leb_le. exact Hl.
    + intros h E. subst hi. apply Z.leb_le. exact Hh.
  - intros [Hl Hh]. split.
    + destruct lo as [l|]; [apply Z.leb_le; apply Hl; reflexivity | reflexivity].
    + destruct hi as [h|]; [apply Z.leb_le; apply Hh; reflexivity | reflexivity].
Qed.

Lemma integer_header_iff lo hi text :
  hdr_int_conforms lo hi text = true <->
  exists z, py_int_u text = Some z /\ (forall l, lo = Some l -> (l <= z)%Z) /\ (forall h, hi = Some h -> (z <= h)%Z).
Proof.
  unfold hdr_int_conforms, coerce_header. destruct (py_int_u text) as [z|]; cbn [int_value_conforms].
  - rewrite in_bounds_iff. split.
    + intros H. exists z. split; [reflexivity | exact H].
    + intros [z' [E H]]. inversion E. subst. exact H.
  - split; [discriminate | intros [z [E _]]; discriminate].
Qed.

Lemma coerce_integer_cases text :
  (exists z, py_int_u text = Some z /\ coerce_header TInteger text = HInt z)
  \/ (py_int_u text = None /\ coerce_header TInteger text = HStr text).
Proof.
  unfold coerce_header. destruct (py_int_u text) as [z|].
  - left. exists z. split; reflexivity.
  - right. split; reflexivity.
Qed.

(* the decimal integer literals: digit groups joined by single underscores, with their exact value *)
Inductive int_body : str -> N -> Prop :=
| IB_one c d : decimal_of c = Some d -> int_body [c] d
| IB_digit s n c d : int_body s n -> decimal_of c = Some d -> int_body (s ++ [c]) (n * 10 + d)
| IB_us s n c d : int_body s n -> decimal_of c = Some d -> int_body (s ++ [95; c]) (n * 10 + d).

Lemma decimal_of_us : decimal_of 95 = None.
Proof. vm_compute. reflexivity. Qed.

Lemma udigits_snoc s : forall acc pd n, udigits_val s acc pd = Some n ->
  forall c d, decimal_of c = Some d ->
  udigits_val (s ++ [c]) acc pd = Some (n * 10 + d) /\ udigits_val (s ++ [95; c]) acc pd = Some (n * 10 + d).
Proof.
  induction s as [|a s IH]; intros acc pd n H c d Hd.
  - cbn [udigits_val] in H. destruct pd; [|discriminate]. inversion H; subst.
    cbn [app udigits_val]. rewrite Hd, decimal_of_us. rewrite N.eqb_refl. cbn [andb udigits_val]. rewrite ?Hd.
    split; reflexivity.
  - cbn [app udigits_val] in *. destruct (decimal_of a); [apply IH; assumption|].
    destruct ((a =? 95) && pd); [apply IH; assumption | discriminate].
Qed.

Lemma int_body_val s n : int_body s n -> udigits_val s 0 false = Some n.
Proof.
  induction 1 as [c d Hd | s n c d _ IH Hd | s n c d _ IH Hd].
  - cbn [udigits_val]. rewrite Hd. reflexivity.
  - exact (proj1 (udigits_snoc _ _ _ _ IH c d Hd)).
  - exact (proj2 (udigits_snoc _ _ _ _ IH c d Hd)).
Qed.

Lemma int_body_head s n : int_body s n -> exists c r d, s = c :: r /\ decimal_of c = Some d.
Proof.
  induction 1 as [c d Hd | s n c d _ [c0 [r [d0 [E H0]]]] Hd | s n c d _ [c0 [r [d0 [E H0]]]] Hd].
  - exists c, [], d. split; [reflexivity | exact Hd].
  - subst s. exists c0, (r ++ [c]), d0. split; [reflexivity | exact H0].
  - subst s. exists c0, (r ++ [95; c]), d0. split; [reflexivity | exact H0].
Qed.

Lemma int_body_last s n : int_body s n -> exists s' c d, s = s' ++ [c] /\ decimal_of c = Some d.
Proof.
  destruct 1 as [c d Hd | s n c d _ Hd | s n c d _ Hd].
  - exists [], c, d. split; [reflexivity | exact Hd].
  - exists s, c, d. split; [reflexivity | exact Hd].
  - exists (s ++ [95]), c, d. split; [rewrite <- app_assoc; reflexivity | exact Hd].
Qed.

Lemma mem_in c l : mem c l = true -> In c l.
Proof.
  unfold mem. rewrite existsb_exists. intros [x [Hx E]]. apply N.eqb_eq in E. subst. exact Hx.
Qed.

Lemma ws_not_decimal : forallb (fun c => match decimal_of c with None => true | Some _ => false end) int_ws = true.
Proof. vm_compute. reflexivity. Qed.

Lemma decimal_not_ws c d : decimal_of c = Some d -> mem c int_ws = false.
Proof.
  intros Hd. destruct (mem c int_ws) eqn:E; [|reflexivity].
  apply mem_in in E. pose proof (proj1 (forallb_forall _ _) ws_not_decimal c E) as H.
  cbv beta in H. rewrite Hd in H. discriminate.
Qed.

Lemma strip_id wsl s h t s' c :
  s = h :: t -> s = s' ++ [c] -> mem h wsl = false -> mem c wsl = false -> strip wsl s = s.
Proof.
  intros E1 E2 Hh Hc. unfold strip.
  assert (A : strip_left wsl s = s) by (rewrite E1; cbn [strip_left]; rewrite Hh; reflexivity).
  rewrite A.
  assert (B : strip_left wsl (rev s) = rev s)
    by (rewrite E2, rev_app_distr; cbn [rev app strip_left]; rewrite Hc; reflexivity).
  rewrite B. apply rev_involutive.
Qed.

(* every literal is read, with or without a sign, as EXACTLY its value *)
Lemma int_literal_sound body n : int_body body n ->
  py_int_u body = Some (Z.of_N n) /\ py_int_u (43 :: body) = Some (Z.of_N n)
  /\ py_int_u (45 :: body) = Some (Z.opp (Z.of_N n)).
Proof.
  intros Hb. pose proof (int_body_val _ _ Hb) as Hv.
  destruct (int_body_head _ _ Hb) as [c [r [d [E Hd]]]].
  destruct (int_body_last _ _ Hb) as [s' [c' [d' [E' Hd']]]].
  pose proof (decimal_not_ws _ _ Hd) as Hc. pose proof (decimal_not_ws _ _ Hd') as Hc'.
  repeat split.
  - unfold py_int_u. rewrite (strip_id int_ws body c r s' c' E E' Hc Hc'). rewrite E in *.
    destruct (c =? 43) eqn:E43; [apply N.eqb_eq in E43; subst c; vm_compute in Hd; discriminate|].
    destruct (c =? 45) eqn:E45; [apply N.eqb_eq in E45; subst c; vm_compute in Hd; discriminate|].
    rewrite Hv. reflexivity.
  - unfold py_int_u.
    rewrite (strip_id int_ws (43 :: body) 43 body (43 :: s') c' eq_refl); [| rewrite E'; reflexivity | reflexivity | exact Hc'].
    rewrite N.eqb_refl. rewrite Hv. reflexivity.
  - unfold py_int_u.
    rewrite (strip_id int_ws (45 :: body) 45 body (45 :: s') c' eq_refl); [| rewrite E'; reflexivity | reflexivity | exact Hc'].
    change (45 =? 43) with false. rewrite N.eqb_refl. rewrite Hv. reflexivity.
Qed.

Lemma udigits_charset s : forall acc pd n, udigits_val s acc pd = Some n ->
  forall c, In c s -> decimal_of c <> None \/ c = 95.
Proof.
  induction s as [|a s IH]; intros acc pd n H c Hin; [destruct Hin|].
  cbn [udigits_val] in H. destruct Hin as [->|Hin].
  - destruct (decimal_of c) eqn:E; [left; discriminate|]. right.
    destruct (c =? 95) eqn:E2; [apply N.eqb_eq; exact E2 | cbn in H; discriminate].
  - destruct (decimal_of a); [eapply IH; eauto|].
    destruct ((a =? 95) && pd); [eapply IH; eauto | discriminate].
Qed.

Lemma in_strip_left wsl s c : In c s -> mem c wsl = false -> In c (strip_left wsl s).
Proof.
  induction s as [|a s IH]; intros Hin Hm; [exact Hin|]. cbn [strip_left].
  destruct (mem a wsl) eqn:E; [|exact Hin].
  destruct Hin as [->|Hin]; [congruence | apply IH; assumption].
Qed.

Lemma in_strip wsl s c : In c s -> mem c wsl = false -> In c (strip wsl s).
Proof.
  intros Hin Hm. unfold strip. apply (proj1 (in_rev _ _)). apply in_strip_left; [|exact Hm].
  apply (proj1 (in_rev _ _)). apply in_strip_left; assumption.
Qed.

(* a text containing any character that is not a decimal digit, an underscore, a sign or int() whitespace
   is not an integer: it stays a string and fails type: integer *)
Lemma int_rejects_char text c :
  In c text -> mem c int_ws = false -> decimal_of c = None -> c <> 95 -> c <> 43 -> c <> 45 ->
  py_int_u text = None.
Proof.
  intros Hin Hws Hd H95 H43 H45. unfold py_int_u.
  pose proof (in_strip int_ws text c Hin Hws) as Hs.
  destruct (strip int_ws text) as [|h r]; [reflexivity|].
  assert (U : forall s acc pd, In c s -> udigits_val s acc pd = None).
  { intros s acc pd Hc. destruct (udigits_val s acc pd) eqn:E; [|reflexivity].
    destruct (udigits_charset _ _ _ _ E c Hc) as [X|X]; contradiction. }
  destruct (h =? 43) eqn:E43.
  - apply N.eqb_eq in E43. subst h. destruct Hs as [X|Hs]; [symmetry in X; contradiction|].
    rewrite (U r 0 false Hs). reflexivity.
  - destruct (h =? 45) eqn:E45.
    + apply N.eqb_eq in E45. subst h. destruct Hs as [X|Hs]; [symmetry in X; contradiction|].
      rewrite (U r 0 false Hs). reflexivity.
    + rewrite (U (h :: r) 0 false Hs). reflexivity.
Qed.

Lemma int_rejects_exponent_and_point a b :
  py_int_u (a ++ 101 :: b) = None /\ py_int_u (a ++ 69 :: b) = None /\ py_int_u (a ++ 46 :: b) = None.
Proof.
  repeat split; eapply int_rejects_char; try (apply in_elt); try (vm_compute; reflexivity); discriminate.
Qed.

Lemma integer_header_not_literal lo hi text :
  py_int_u text = None -> coerce_header TInteger text = HStr text /\ hdr_int_conforms lo hi text = false.
Proof. intros H. unfold hdr_int_conforms, coerce_header. rewrite H. split; reflexivity. Qed.

(* witnesses for the through-float sentinel *)
Definition t_1e3 : str := [49;101;51].
Definition t_two53_plus1 : str := dec 9007199254740993.
Definition t_two53_plus3 : str := dec 9007199254740995.
Lemma through_float_refuted :
  (hdr_int_conforms None None t_1e3 = false /\ hdr_int_conforms_through_float None None t_1e3 = true)
  /\ (hdr_int_conforms None (Some two53) t_two53_plus1 = false
      /\ hdr_int_conforms_through_float None (Some two53) t_two53_plus1 = true)
  /\ (hdr_int_conforms None (Some 9007199254740995%Z) t_two53_plus3 = true
      /\ hdr_int_conforms_through_float None (Some 9007199254740995%Z) t_two53_plus3 = false).
Proof. vm_compute. repeat split; reflexivity. Qed.

(* non-vacuity: sign, int() whitespace, underscores, leading zeros, non-ASCII decimal digits, and what is not a literal *)
Lemma integer_header_examples :
  coerce_header TInteger [160;43;49;95;48;48;48;32] = HInt 1000
  /\ coerce_header TInteger [1636;1634] = HInt 42
  /\ coerce_header TInteger [45;48;48;55] = HInt (-7)
  /\ coerce_header TInteger [28;52;50] = HStr [28;52;50]
  /\ coerce_header TInteger [49;95;95;48] = HStr [49;95;95;48]
  /\ coerce_header TInteger [49;50;46;48] = HStr [49;50;46;48]
  /\ coerce_header TInteger t_two53_plus1 = HInt 9007199254740993
  /\ hdr_int_conforms (Some 10%Z) (Some 20%Z) [49;53] = true
  /\ hdr_int_conforms (Some 10%Z) (Some 20%Z) [50;49] = false
  /\ int_body [49;95;48;48;48] 1000
  /\ coerce_header TBoolean [79;78] = HBool true
  /\ coerce_header TBoolean [50] = HStr [50]
  /\ coerce_header TNull [78;117;108;108] = HNull
  /\ coerce_header TNumber [52;50] = HFloatOfInt 42.
Proof.
  repeat split; try (vm_compute; reflexivity).
  change 1000 with (((1 * 10 + 0) * 10 + 0) * 10 + 0).
  apply IB_digit with (s := [49;95;48;48]); [|vm_compute; reflexivity].
  apply IB_digit with (s := [49;95;48]); [|vm_compute; reflexivity].
  apply IB_us with (s := [49]); [|vm_compute; reflexivity].
  apply IB_one. vm_compute. reflexivity.
Qed.
