(* GENERATED on every run by harness/props/c01_gen.py from the Python source - do not edit.
   specs/openapi/patterns.py sha256 34b9c6c9b71a9daf *)
From Coq Require Import ZArith Bool.
From Verif Require Import C01.Model_C01.
Local Open Scope Z_scope.

Definition gen_build_size (min_repeat : Z) (max_repeat : Z) (min_length : option Z) (max_length : option Z) :=
  let min_repeat := (match min_length with
  | Some min_length_v => let min_repeat := (Z.max min_repeat min_length_v) in
  min_repeat
  | None => min_repeat
  end) in
  let max_repeat := (match max_length with
  | Some max_length_v => let max_repeat := (if (Z.eqb max_repeat MAXREPEAT) then let max_repeat := max_length_v in
  max_repeat else let max_repeat := (Z.min max_repeat max_length_v) in
  max_repeat) in
  max_repeat
  | None => max_repeat
  end) in
  (min_repeat, max_repeat).
