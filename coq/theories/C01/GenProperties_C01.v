(* C01: the kernel regenerated from today's specs/openapi/patterns.py is the one the model and its theorems use. *)
From Coq Require Import ZArith.
From Verif Require Import C01.Model_C01 C01.Gen_C01 C01.GenProofs_C01.

Theorem C01_gen_build_size_eq : forall lo hi mn mx, gen_build_size lo hi mn mx = build_size lo hi mn mx.
Proof. exact gen_build_size_eq. Qed.
Print Assumptions C01_gen_build_size_eq.
