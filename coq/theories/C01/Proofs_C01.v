(* C01 proofs: matcher soundness, arithmetic of the distribution, soundness of the
   pattern / length rewriter inside the stated regions, refutation witnesses outside. *)
From Coq Require Import List NArith ZArith Bool Lia.
From Verif Require Import Common.Str Common.Json C01.Model_C01.
Import ListNotations.
Open Scope Z_scope.

(* ------------------------------------------------------------------------------------ *)
(* 0. Small list facts                                                                    *)
(* ------------------------------------------------------------------------------------ *)
Lemma split_last_app (l : list node) b : split_last (l ++ [b]) = Some (l, b).
Proof.
  induction l as [|x l IH]; [reflexivity|].
  cbn [app split_last]. rewrite IH. destruct (l ++ [b]) eqn:E; [destruct l; discriminate|reflexivity].
Qed.

Lemma split_last_some l m b : split_last l = Some (m, b) -> l = m ++ [b].
Proof.
  revert m b; induction l as [|x l IH]; intros m b H; [discriminate|].
  cbn [split_last] in H. destruct l as [|y l'].
  - inversion H; reflexivity.
  - destruct (split_last (y :: l')) as [[m' b']|] eqn:E; [|discriminate].
    inversion H; subst. rewrite (IH m' b eq_refl). reflexivity.
Qed.

Lemma length_app_Z {A} (a b : list A) : Z.of_nat (length (a ++ b)) = Z.of_nat (length a) + Z.of_nat (length b).
Proof. rewrite app_length; lia. Qed.

Section Sem.
Variable catp : N -> N -> bool.
Notation M := (M catp).
Notation MSeq := (MSeq catp).
Notation MPow := (MPow catp).
Notation search := (search catp).
Notation at_okb := (at_okb catp).

(* ------------------------------------------------------------------------------------ *)
(* 1. Structure of sequence matches                                                       *)
(* ------------------------------------------------------------------------------------ *)
Lemma MSeq_cons_inv x xs pre s post : MSeq (x :: xs) pre s post ->
  exists s1 s2, s = s1 ++ s2 /\ M x pre s1 (s2 ++ post) /\ MSeq xs (pre ++ s1) s2 post.
Proof. intros H; inversion H; subst; eauto. Qed.

Lemma MSeq_nil_inv pre s post : MSeq [] pre s post -> s = [].
Proof. intros H; inversion H; reflexivity. Qed.

Lemma MSeq_app xs ys : forall pre s post, MSeq (xs ++ ys) pre s post <->
  exists s1 s2, s = s1 ++ s2 /\ MSeq xs pre s1 (s2 ++ post) /\ MSeq ys (pre ++ s1) s2 post.
Proof.
  induction xs as [|x xs IH]; intros pre s post; cbn [app].
  - split.
    + intros H. exists [], s. rewrite app_nil_r. repeat split; [constructor | exact H].
    + intros (s1 & s2 & -> & H1 & H2). apply MSeq_nil_inv in H1; subst s1.
      rewrite app_nil_r in H2. exact H2.
  - split.
    + intros H. apply MSeq_cons_inv in H. destruct H as (a1 & s' & -> & Hx & Hr).
      apply IH in Hr. destruct Hr as (b1 & b2 & -> & Hb1 & Hb2).
      exists (a1 ++ b1), b2. rewrite app_assoc. repeat split.
      * constructor; [rewrite app_assoc; exact Hx | exact Hb1].
      * rewrite app_assoc. exact Hb2.
    + intros (s1 & s2 & -> & H1 & H2). apply MSeq_cons_inv in H1.
      destruct H1 as (a1 & b1 & -> & Hx & Hr).
      rewrite <- app_assoc. constructor.
      * rewrite <- app_assoc. exact Hx.
      * apply IH. exists b1, s2. rewrite app_assoc in H2. repeat split; assumption.
Qed.

Lemma MSeq_single x pre s post : MSeq [x] pre s post <-> M x pre s post.
Proof.
  split.
  - intros H. apply MSeq_cons_inv in H. destruct H as (s1 & s2 & -> & Hx & Hn).
    apply MSeq_nil_inv in Hn; subst. cbn [app] in Hx. rewrite app_nil_r. exact Hx.
  - intros H. rewrite <- (app_nil_r s). constructor; [exact H | constructor].
Qed.

(* a node in its context *)
Lemma MSeq_ctx A x B pre s post : MSeq (A ++ x :: B) pre s post <->
  exists sa sx sb, s = sa ++ sx ++ sb /\ MSeq A pre sa ((sx ++ sb) ++ post) /\
                   M x (pre ++ sa) sx (sb ++ post) /\ MSeq B ((pre ++ sa) ++ sx) sb post.
Proof.
  rewrite MSeq_app. split.
  - intros (s1 & s2 & -> & HA & HB). apply MSeq_cons_inv in HB.
    destruct HB as (sx & sb & -> & Hx & HB). exists s1, sx, sb. repeat split; assumption.
  - intros (sa & sx & sb & -> & HA & Hx & HB). exists sa, (sx ++ sb). repeat split; [exact HA|].
    constructor; assumption.
Qed.

Lemma M_at_inv k pre s post : M (NAt k) pre s post -> s = [] /\ at_okb k pre post = true.
Proof. intros H; inversion H; subst; auto. Qed.

Lemma ats_empty A : forallb is_at A = true -> forall pre s post, MSeq A pre s post -> s = [].
Proof.
  induction A as [|a A IH]; intros HA pre s post H.
  - eapply MSeq_nil_inv; eauto.
  - cbn [forallb] in HA. apply andb_true_iff in HA. destruct HA as [Ha HA].
    apply MSeq_cons_inv in H. destruct H as (s1 & s2 & -> & Hx & Hr).
    destruct a; try discriminate. apply M_at_inv in Hx. destruct Hx as [-> _].
    cbn [app]. eapply IH; eauto.
Qed.

(* replacing one node by a weaker one *)
Lemma MSeq_weaken A x y B :
  (forall pre s post, M y pre s post -> M x pre s post) ->
  forall pre s post, MSeq (A ++ y :: B) pre s post -> MSeq (A ++ x :: B) pre s post.
Proof.
  intros Hw pre s post H. apply MSeq_ctx in H. apply MSeq_ctx.
  destruct H as (sa & sx & sb & -> & HA & Hy & HB). exists sa, sx, sb. repeat split; auto.
Qed.

Lemma M_rep_inv lo hi body pre s post : M (NRep lo hi body) pre s post ->
  exists n, rep_ok lo hi n /\ MPow body n pre s post.
Proof. intros H; inversion H; subst; eauto. Qed.

Lemma rep_narrow lo hi l h body pre s post :
  lo <= l -> (h <= hi \/ MAXREPEAT <= hi) ->
  M (NRep l h body) pre s post -> M (NRep lo hi body) pre s post.
Proof.
  intros Hl Hh H. apply M_rep_inv in H. destruct H as (n & [H1 H2] & HP). econstructor; [|exact HP].
  split; [lia|]. destruct Hh as [Hh|Hh]; [|left; exact Hh].
  destruct H2 as [H2|H2]; [left; lia | right; lia].
Qed.

(* ------------------------------------------------------------------------------------ *)
(* 2. Unit width                                                                          *)
(* ------------------------------------------------------------------------------------ *)
Scheme M_mut := Minimality for Model_C01.M Sort Prop
  with MSeq_mut := Minimality for Model_C01.MSeq Sort Prop
  with MPow_mut := Minimality for Model_C01.MPow Sort Prop.
Combined Scheme M_comb from M_mut, MSeq_mut, MPow_mut.

Lemma unit_branch_in alts a : unit_node (NBranch alts) = true -> In a alts -> unit_seq a = true.
Proof.
  cbn [unit_node]. induction alts as [|b alts IH]; intros H Hin; [destruct Hin|].
  apply andb_true_iff in H. destruct H as [H1 H2].
  destruct Hin as [->|Hin]; [exact H1 | exact (IH H2 Hin)].
Qed.

Lemma unit_width_all :
  (forall x pre s post, M x pre s post -> unit_node x = true -> length s = 1%nat) /\
  (forall xs pre s post, MSeq xs pre s post -> unit_seq xs = true -> length s = 1%nat) /\
  (forall b n pre s post, MPow b n pre s post -> unit_seq b = true -> length s = n).
Proof.
  apply (M_comb catp
    (fun x pre s post => unit_node x = true -> length s = 1%nat)
    (fun xs pre s post => unit_seq xs = true -> length s = 1%nat)
    (fun b n pre s post => unit_seq b = true -> length s = n)); intros; try reflexivity; try discriminate.
  - (* Sub *) apply H0. exact H1.
  - (* Branch *) apply H1. eapply unit_branch_in; eauto.
  - (* seq cons *)
    destruct xs as [|z zs]; [|cbn in H3; discriminate].
    inversion H1; subst. rewrite app_nil_r. apply H0. exact H3.
  - (* pow S *) rewrite app_length. rewrite (H0 H3), (H2 H3). reflexivity.
Qed.

Lemma rep_unit_len lo hi body pre s post :
  unit_seq body = true -> M (NRep lo hi body) pre s post ->
  lo <= Z.of_nat (length s) /\ (MAXREPEAT <= hi \/ Z.of_nat (length s) <= hi).
Proof.
  intros Hu H. apply M_rep_inv in H. destruct H as (n & Hn & HPow).
  destruct unit_width_all as (_ & _ & HP). rewrite (HP _ _ _ _ _ HPow Hu). exact Hn.
Qed.

(* character nodes do not look at their context *)
Definition char_ok (x : node) (c : N) : bool :=
  match x with
  | NLit d => N.eqb c d
  | NNotLit d => negb (N.eqb c d)
  | NIn neg items => cls_match catp neg items c
  | NAny => negb (N.eqb c NL)
  | _ => false
  end.

Lemma char_node_spec x pre s post : is_char_node x = true ->
  (M x pre s post <-> exists c, s = [c] /\ char_ok x c = true).
Proof.
  intros Hx. destruct x; try discriminate; cbn [char_ok]; split.
  - intros H; inversion H; subst. eexists; split; [reflexivity | apply N.eqb_refl].
  - intros (d & -> & E). apply N.eqb_eq in E; subst. constructor.
  - intros H; inversion H; subst. eexists; split; [reflexivity|].
    match goal with E : N.eqb _ _ = false |- _ => rewrite E end; reflexivity.
  - intros (d & -> & E). constructor. destruct (N.eqb d c); [discriminate | reflexivity].
  - intros H; inversion H; subst. eexists; split; [reflexivity | assumption].
  - intros (d & -> & E). constructor; assumption.
  - intros H; inversion H; subst. eexists; split; [reflexivity|].
    match goal with E : N.eqb _ _ = false |- _ => rewrite E end; reflexivity.
  - intros (d & -> & E). constructor. destruct (N.eqb d NL); [discriminate | reflexivity].
Qed.

Lemma MPow_S_inv b n pre s post : MPow b (S n) pre s post ->
  exists s1 s2, s = s1 ++ s2 /\ MSeq b pre s1 (s2 ++ post) /\ MPow b n (pre ++ s1) s2 post.
Proof. intros H; inversion H; subst; eauto. Qed.
Lemma MPow_0_inv b pre s post : MPow b 0 pre s post -> s = [].
Proof. intros H; inversion H; reflexivity. Qed.

Lemma pow_chars x : is_char_node x = true -> forall n pre s post, MPow [x] n pre s post ->
  length s = n /\ Forall (fun c => char_ok x c = true) s.
Proof.
  intros Hx n; induction n as [|n IH]; intros pre s post H.
  - apply MPow_0_inv in H; subst. split; [reflexivity | constructor].
  - apply MPow_S_inv in H. destruct H as (s1 & s2 & -> & H1 & H2). apply MSeq_single in H1. apply (char_node_spec x _ _ _ Hx) in H1. destruct H1 as (c & -> & Hc).
    destruct (IH _ _ _ H2) as [Hl Hf]. split; [cbn; rewrite Hl; reflexivity | constructor; assumption].
Qed.

(* ------------------------------------------------------------------------------------ *)
(* 3. Soundness of the executable matcher                                                 *)
(* ------------------------------------------------------------------------------------ *)
Definition st_ok (P : str -> str -> str -> Prop) (pre rest : str) (x : st) : Prop :=
  exists s, fst x = pre ++ s /\ rest = s ++ snd x /\ P pre s (snd x).

Lemma one_char_sound ok pre rest x : In x (one_char ok pre rest) ->
  exists d, ok d = true /\ fst x = pre ++ [d] /\ rest = d :: snd x.
Proof.
  unfold one_char. destruct rest as [|d rest]; [intros []|].
  destruct (ok d) eqn:E; [|intros []]. intros [<-|[]]. exists d. auto.
Qed.

Lemma dedup_incl l x : In x (dedup l) -> In x l.
Proof.
  induction l as [|y l IH]; [intros []|]. cbn [dedup].
  destruct (has_len (length (snd y)) l); [right; auto|]. intros [->|H]; [left; reflexivity | right; auto].
Qed.

Lemma rep_ends_sound (step : str -> str -> list st) body :
  (forall pre rest x, In x (step pre rest) -> st_ok (MSeq body) pre rest x) ->
  forall fuel j lo hi cur pre0 rest0,
  (forall x, In x cur -> st_ok (MPow body j) pre0 rest0 x) ->
  forall x, In x (rep_ends step fuel j lo hi cur) ->
  exists n, rep_ok lo hi n /\ st_ok (MPow body n) pre0 rest0 x.
Proof.
  intros Hstep. induction fuel as [|f IH]; intros j lo hi cur pre0 rest0 Hcur x Hin; cbn [rep_ends] in Hin.
  - destruct (rep_okb lo hi j) eqn:E; [|destruct Hin].
    exists j. split; [|auto]. unfold rep_okb in E. apply andb_true_iff in E. destruct E as [E1 E2].
    apply orb_true_iff in E2. unfold rep_ok. split; [lia|]. destruct E2; [left|right]; lia.
  - destruct cur as [|c0 cur']; [destruct Hin|]. apply in_app_or in Hin. destruct Hin as [Hin|Hin].
    + destruct (rep_okb lo hi j) eqn:E; [|destruct Hin].
      exists j. split; [|auto]. unfold rep_okb in E. apply andb_true_iff in E. destruct E as [E1 E2].
      apply orb_true_iff in E2. unfold rep_ok. split; [lia|]. destruct E2; [left|right]; lia.
    + eapply IH; [|exact Hin]. intros y Hy. apply dedup_incl in Hy. apply in_flat_map in Hy.
      destruct Hy as (z & Hz & Hy). destruct (Hcur z Hz) as (s1 & Hf1 & Hr1 & HP1).
      destruct (Hstep _ _ _ Hy) as (s2 & Hf2 & Hr2 & HP2).
      exists (s1 ++ s2). repeat split.
      * rewrite Hf2, Hf1, app_assoc. reflexivity.
      * rewrite Hr1, Hr2, app_assoc. reflexivity.
      * clear - HP1 HP2 Hf1 Hr1 Hr2.
        (* append one iteration at the end of a power *)
        assert (Hsnoc : forall n pre a b post, MPow body n pre a (b ++ post) -> MSeq body (pre ++ a) b post ->
                                              MPow body (S n) pre (a ++ b) post).
        { induction n as [|n IHn]; intros pre a b post Hp Hs;
            [apply MPow_0_inv in Hp; subst | apply MPow_S_inv in Hp; destruct Hp as (s1' & s2' & -> & H1 & H2)].
          - rewrite app_nil_r in Hs. cbn [app]. rewrite <- (app_nil_r b). constructor; [cbn [app]; exact Hs | constructor].
          - rewrite <- app_assoc. constructor; [rewrite <- app_assoc; exact H1|].
            apply IHn; [exact H2 | rewrite <- app_assoc; exact Hs]. }
        apply Hsnoc; [rewrite <- Hr2; exact HP1 | rewrite <- Hf1; exact HP2].
Qed.

Lemma ends_seq_sound_gen (xs : list node) :
  Forall (fun y => forall pre rest x, In x (ends catp y pre rest) -> st_ok (M y) pre rest x) xs ->
  forall pre rest x, In x (ends_seq catp xs pre rest) -> st_ok (MSeq xs) pre rest x.
Proof.
  induction xs as [|y ys IH]; intros HF pre rest x Hin; cbn [ends_seq] in Hin.
  - destruct Hin as [<-|[]]. exists []. cbn. rewrite app_nil_r. repeat split. constructor.
  - inversion HF; subst. apply in_flat_map in Hin. destruct Hin as (z & Hz & Hin).
    destruct (H1 _ _ _ Hz) as (s1 & Hf1 & Hr1 & HP1).
    destruct (IH H2 _ _ _ Hin) as (s2 & Hf2 & Hr2 & HP2).
    exists (s1 ++ s2). repeat split.
    + rewrite Hf2, Hf1, app_assoc; reflexivity.
    + rewrite Hr1, Hr2, app_assoc; reflexivity.
    + constructor; [rewrite <- Hr2; exact HP1 | rewrite <- Hf1; exact HP2].
Qed.

(* the local sequence function inside [ends] is [ends_seq] *)
Lemma ends_sub body pre rest : ends catp (NSub body) pre rest = ends_seq catp body pre rest.
Proof. cbn [ends]. revert pre rest. induction body as [|y ys IH]; intros; [reflexivity|]. cbn [ends_seq]. f_equal. Qed.

Fixpoint node_rect' (P : node -> Prop)
  (HLit : forall c, P (NLit c)) (HNot : forall c, P (NNotLit c)) (HIn : forall n i, P (NIn n i)) (HAny : P NAny)
  (HAt : forall k, P (NAt k))
  (HSub : forall b, Forall P b -> P (NSub b))
  (HBr : forall alts, Forall (Forall P) alts -> P (NBranch alts))
  (HRep : forall lo hi b, Forall P b -> P (NRep lo hi b)) (x : node) : P x :=
  let rec := node_rect' P HLit HNot HIn HAny HAt HSub HBr HRep in
  let fix seq (l : list node) : Forall P l :=
    match l with [] => Forall_nil P | y :: l' => Forall_cons y (rec y) (seq l') end in
  match x with
  | NLit c => HLit c | NNotLit c => HNot c | NIn n i => HIn n i | NAny => HAny | NAt k => HAt k
  | NSub b => HSub b (seq b)
  | NBranch alts =>
      HBr alts ((fix alt (l : list (list node)) : Forall (Forall P) l :=
                   match l with [] => Forall_nil _ | a :: l' => Forall_cons a (seq a) (alt l') end) alts)
  | NRep lo hi b => HRep lo hi b (seq b)
  end.

Lemma ends_sound : forall x pre rest y, In y (ends catp x pre rest) -> st_ok (M x) pre rest y.
Proof.
  induction x using node_rect'; intros pre rest y Hin.
  - apply one_char_sound in Hin. destruct Hin as (d & E & Hf & Hr). apply N.eqb_eq in E; subst d.
    exists [c]. repeat split; auto. constructor.
  - apply one_char_sound in Hin. destruct Hin as (d & E & Hf & Hr).
    exists [d]. repeat split; auto. constructor. destruct (N.eqb d c); [discriminate|reflexivity].
  - apply one_char_sound in Hin. destruct Hin as (d & E & Hf & Hr).
    exists [d]. repeat split; auto. constructor. exact E.
  - apply one_char_sound in Hin. destruct Hin as (d & E & Hf & Hr).
    exists [d]. repeat split; auto. constructor. destruct (N.eqb d NL); [discriminate|reflexivity].
  - cbn [ends] in Hin. destruct (at_okb k pre rest) eqn:E; [|destruct Hin]. destruct Hin as [<-|[]].
    exists []. cbn. rewrite app_nil_r. repeat split. constructor. exact E.
  - rewrite ends_sub in Hin. destruct (ends_seq_sound_gen b H _ _ _ Hin) as (s & Hf & Hr & HP).
    exists s. repeat split; auto. constructor. exact HP.
  - cbn [ends] in Hin.
    assert (Hgo : forall l, Forall (Forall (fun y => forall pre rest x, In x (ends catp y pre rest) -> st_ok (M y) pre rest x)) l ->
              In y ((fix go (l : list (list node)) : list st :=
                 match l with [] => [] | a :: l' =>
                   (fix ends_seq (xs : list node) (pre rest : str) {struct xs} : list st :=
                      match xs with
                      | [] => [(pre, rest)]
                      | y :: ys => flat_map (fun x => ends_seq ys (fst x) (snd x)) (ends catp y pre rest)
                      end) a pre rest ++ go l' end) l) ->
              exists a, In a l /\ st_ok (MSeq a) pre rest y).
    { induction l as [|a l IHl]; intros HF Hy; [destruct Hy|]. inversion HF; subst.
      apply in_app_or in Hy. destruct Hy as [Hy|Hy].
      - exists a. split; [left; reflexivity|]. apply ends_seq_sound_gen; [assumption|].
        rewrite <- ends_sub. exact Hy.
      - destruct (IHl H3 Hy) as (a' & Ha' & Hok). exists a'. split; [right; assumption | assumption]. }
    destruct (Hgo alts H Hin) as (a & Ha & (s & Hf & Hr & HP)).
    exists s. repeat split; auto. econstructor; eauto.
  - cbn [ends] in Hin.
    match type of Hin with In _ (rep_ends ?step _ _ _ _ _) =>
      assert (Hstep : forall pre rest x, In x (step pre rest) -> st_ok (MSeq b) pre rest x) end.
    { intros pre' rest' z Hz. apply ends_seq_sound_gen; [assumption|]. rewrite <- ends_sub. exact Hz. }
    eapply (rep_ends_sound _ b Hstep _ _ _ _ _ pre rest) in Hin.
    + destruct Hin as (n & Hn & (s & Hf & Hr & HP)). exists s. repeat split; auto. econstructor; eauto.
    + intros z [<-|[]]. exists []. cbn. rewrite app_nil_r. repeat split. constructor.
Qed.

Lemma ends_seq_sound xs pre rest y : In y (ends_seq catp xs pre rest) -> st_ok (MSeq xs) pre rest y.
Proof.
  apply ends_seq_sound_gen. apply Forall_forall. intros x _. apply ends_sound.
Qed.

Lemma search_from_sound p : forall rest pre, search_from catp p pre rest = true -> search p (pre ++ rest).
Proof.
  induction rest as [|c rest IH]; intros pre H; cbn [search_from] in H; apply orb_true_iff in H.
  - destruct H as [H|H]; [|discriminate].
    destruct (ends_seq catp p pre []) as [|y l] eqn:E; [discriminate|].
    destruct (ends_seq_sound p pre [] y) as (s & Hf & Hr & HP); [rewrite E; left; reflexivity|].
    exists pre, s, (snd y). split; [rewrite <- Hr; reflexivity | exact HP].
  - destruct H as [H|H].
    + destruct (ends_seq catp p pre (c :: rest)) as [|y l] eqn:E; [discriminate|].
      destruct (ends_seq_sound p pre (c :: rest) y) as (s & Hf & Hr & HP); [rewrite E; left; reflexivity|].
      exists pre, s, (snd y). split; [rewrite <- Hr; reflexivity | exact HP].
    + apply IH in H. rewrite <- app_assoc in H. exact H.
Qed.

Lemma search_b_sound p s : search_b catp p s = true -> search p s.
Proof. unfold search_b. intros H. apply search_from_sound in H. exact H. Qed.

End Sem.

(* ------------------------------------------------------------------------------------ *)
(* 4. Arithmetic of _build_size / _build_quantifier / _distribute_length_constraints      *)
(* ------------------------------------------------------------------------------------ *)
Require Import ZifyBool.

Lemma build_quantifier_some l h r : build_quantifier l (Some h) = Some r -> r = (l, h).
Proof.
  unfold build_quantifier. destruct (h =? MAXREPEAT) eqn:E1.
  - apply Z.eqb_eq in E1; subst. intros H; inversion H; reflexivity.
  - destruct (l =? h) eqn:E2.
    + apply Z.eqb_eq in E2; subst; intros H; inversion H; reflexivity.
    + destruct (l <=? h); intros H; inversion H; reflexivity.
Qed.

Lemma build_quantifier_le l h : l <= h -> build_quantifier l (Some h) = Some (l, h).
Proof.
  intros Hle. unfold build_quantifier. destruct (h =? MAXREPEAT) eqn:E1.
  - apply Z.eqb_eq in E1; subst; reflexivity.
  - destruct (l =? h) eqn:E2; [apply Z.eqb_eq in E2; subst; reflexivity|].
    destruct (l <=? h) eqn:E3; [reflexivity | lia].
Qed.

(* the numeric kernel: what _build_size guarantees *)
Lemma build_size_spec lo hi mn mx l h : build_size lo hi mn mx = (l, h) ->
  l = match mn with Some m => Z.max lo m | None => lo end /\
  h = match mx with Some m => if hi =? MAXREPEAT then m else Z.min hi m | None => hi end.
Proof. unfold build_size. intros H; inversion H; split; reflexivity. Qed.

Definition mn_ok (mn : option Z) (n : Z) : Prop := match mn with Some m => m <= n | None => True end.
Definition mx_ok (mx : option Z) (h : Z) : Prop := match mx with Some m => h <= m /\ m < MAXREPEAT | None => True end.

Lemma handle_repeat_new lo hi body mn mx y : max_small mx = true ->
  handle_repeat lo hi body mn mx = UNew y ->
  exists l h, y = NRep l h body /\ lo <= l /\ (h <= hi \/ MAXREPEAT <= hi) /\ mn_ok mn l /\ mx_ok mx h.
Proof.
  intros Hs H. unfold handle_repeat in H.
  destruct (build_size lo hi mn mx) as [l h] eqn:Eb.
  destruct (l >? h) eqn:Eg; [discriminate|].
  destruct (build_quantifier l (Some h)) as [[l' h']|] eqn:Eq; [|discriminate].
  apply build_quantifier_some in Eq. inversion Eq; subst l' h'. inversion H; subst y.
  exists l, h. split; [reflexivity|].
  apply build_size_spec in Eb. destruct Eb as [-> ->]. clear H Eq Eg.
  unfold mn_ok, mx_ok, max_small in *.
  destruct mn as [m1|], mx as [m2|]; destruct (hi =? MAXREPEAT) eqn:Eh; repeat split; lia.
Qed.

Lemma handle_literal_new x mn mx y : max_small mx = true ->
  handle_literal x mn mx = UNew y ->
  exists l h, y = NRep l h [x] /\ 1 <= l /\ mn_ok mn l /\ mx_ok mx h /\ (mx = Some 1 -> l = 1 /\ h = 1).
Proof.
  intros Hs H. unfold handle_literal in H.
  destruct (build_quantifier _ mx) as [[l h]|] eqn:Eq; [|discriminate]. inversion H; subst y.
  exists l, h. split; [reflexivity|]. unfold build_quantifier in Eq. unfold mn_ok, mx_ok, max_small in *.
  destruct mx as [m2|].
  - destruct (m2 =? MAXREPEAT) eqn:E1; [lia|].
    destruct (_ =? m2) eqn:E2; [|destruct (_ <=? m2) eqn:E3; [|discriminate]]; inversion Eq; subst l h;
      destruct mn as [m1|]; repeat split; try lia; try (match goal with Hm : Some _ = Some 1 |- _ => inversion Hm; subst; lia end).
  - inversion Eq; subst l h. destruct mn as [m1|]; repeat split; try lia; try discriminate.
Qed.

Fixpoint sum_lo (d : list (Z * Z)) : Z := match d with [] => 0 | x :: d' => fst x + sum_lo d' end.
Fixpoint sum_hi (d : list (Z * Z)) : Z := match d with [] => 0 | x :: d' => snd x + sum_hi d' end.
Fixpoint sum_z (d : list Z) : Z := match d with [] => 0 | x :: d' => x + sum_z d' end.

Definition bound_rel (b d : Z * Z) : Prop :=
  fst b <= fst d /\ fst d <= snd d /\ (snd d <= snd b \/ MAXREPEAT <= snd b).
Definition wf_b (b : Z * Z) : Prop := 0 <= fst b <= snd b.

Lemma dist_range_spec : forall bounds rmin rmax r,
  Forall wf_b bounds -> dist_range bounds rmin rmax = Some r ->
  Forall2 bound_rel bounds r /\ rmin <= sum_lo r /\ (rmax < MAXREPEAT -> sum_hi r <= rmax).
Proof.
  induction bounds as [|[lo hi] bs IH]; intros rmin rmax r Hwf H; cbn [dist_range] in H.
  - destruct ((rmin >? 0) || (rmax <? 0)) eqn:E; [discriminate|]. inversion H; subst.
    split; [constructor|]. cbn [sum_lo sum_hi]. lia.
  - inversion Hwf as [|? ? [Hw1 Hw2] Hwf']; subst. cbn [fst snd] in *.
    remember (if rmin >? 0 then Z.min hi (Z.max lo rmin) else lo) as pmin eqn:Epmin.
    remember (if rmax <? MAXREPEAT then Z.min hi rmax else hi) as pmax eqn:Epmax.
    destruct (pmin >? pmax) eqn:E3; [discriminate|].
    remember (rmax - (if pmax =? MAXREPEAT then 0 else pmax)) as rmax' eqn:Ermax.
    destruct (dist_range bs (Z.max 0 (rmin - pmin)) rmax') as [r'|] eqn:E4; [|discriminate].
    inversion H; subst r. apply IH in E4; [|assumption]. destruct E4 as (F2 & Hlo & Hhi).
    assert (Hpmin : lo <= pmin) by (subst pmin; destruct (rmin >? 0); lia).
    assert (Hpmax : pmax <= hi) by (subst pmax; destruct (rmax <? MAXREPEAT); lia).
    split; [constructor; [unfold bound_rel; cbn [fst snd]; lia | exact F2] |].
    cbn [sum_lo sum_hi fst snd]. split; [lia|]. intros Hsm.
    assert (pmax <= rmax) by (subst pmax; destruct (rmax <? MAXREPEAT) eqn:E2; lia).
    assert (pmax =? MAXREPEAT = false) by lia. rewrite H1 in Ermax. lia.
Qed.

Lemma try_range_some f : forall n l r, try_range f l n = Some r ->
  exists l0 r0, r = l0 :: r0 /\ l <= l0 < l + Z.of_nat n /\ f l0 = Some r0.
Proof.
  induction n as [|n IH]; intros l r H; cbn [try_range] in H; [discriminate|].
  destruct (f l) as [r0|] eqn:E.
  - inversion H; subst. exists l, r0. repeat split; [lia | lia | exact E].
  - apply IH in H. destruct H as (l0 & r0 & -> & Hr & Hf). exists l0, r0. repeat split; [lia | lia | exact Hf].
Qed.

Lemma find_comb_spec : forall bounds t ls, find_comb bounds t = Some ls ->
  Forall2 (fun b l => fst b <= l /\ (l <= snd b \/ snd b = MAXREPEAT)) bounds ls /\ sum_z ls = t.
Proof.
  induction bounds as [|[lo hi] bs IH]; intros t ls H; cbn [find_comb] in H.
  - destruct (t =? 0) eqn:E; [|discriminate]. inversion H; subst. split; [constructor | cbn; lia].
  - apply try_range_some in H. destruct H as (l0 & r0 & -> & Hr & Hf). apply IH in Hf.
    destruct Hf as [F2 Hs]. split.
    + constructor; [|exact F2]. cbn [fst snd]. destruct (hi =? MAXREPEAT) eqn:E; lia.
    + cbn [sum_z]. lia.
Qed.

Lemma sum_map_diag ls : sum_lo (map (fun l => (l, l)) ls) = sum_z ls /\ sum_hi (map (fun l => (l, l)) ls) = sum_z ls.
Proof. induction ls as [|l ls [IH1 IH2]]; [split; reflexivity|]. cbn [map sum_lo sum_hi sum_z fst snd]. lia. Qed.

Lemma distribute_spec bounds mn mx dist :
  Forall wf_b bounds -> is_neg mn = false -> is_neg mx = false ->
  distribute bounds mn mx = Some dist ->
  Forall2 bound_rel bounds dist /\
  (forall m, mn = Some m -> m <= sum_lo dist) /\
  (forall m, mx = Some m -> m < MAXREPEAT -> (m <> 0 \/ opt_eqb mn mx = true) -> sum_hi dist <= m).
Proof.
  intros Hwf Hn1 Hn2 H. unfold distribute in H. destruct (opt_eqb mn mx) eqn:Eo.
  - destruct mn as [t|]; [|discriminate]. destruct mx as [t'|]; [|discriminate].
    cbn [opt_eqb] in Eo. apply Z.eqb_eq in Eo; subst t'.
    destruct (find_comb bounds t) as [ls|] eqn:Ef; [|discriminate]. cbn [option_map] in H. inversion H; subst dist.
    apply find_comb_spec in Ef. destruct Ef as [F2 Hs]. destruct (sum_map_diag ls) as [S1 S2].
    split; [|split].
    + clear - F2. induction F2 as [|b l bs ls Hb F2 IH]; cbn [map]; constructor; [|exact IH].
      unfold bound_rel; cbn [fst snd]. lia.
    + intros m Hm; inversion Hm; subst. lia.
    + intros m Hm _ _; inversion Hm; subst. lia.
  - apply dist_range_spec in H; [|exact Hwf]. destruct H as (F2 & Hlo & Hhi). split; [exact F2|]. split.
    + intros m Hm; subst mn. cbn [is_neg] in Hn1. unfold py_or in Hlo. destruct m; lia.
    + intros m Hm Hsmall [Hnz|Hf]; [|discriminate]. subst mx. unfold py_or in Hhi. destruct m; try lia; apply Hhi; lia.
Qed.

Lemma sum_hi_each K dist : Forall (fun d => 0 <= snd d) dist -> sum_hi dist < K -> Forall (fun d => snd d < K) dist.
Proof.
  induction dist as [|d dist IH]; intros HF Hs; [constructor|]. inversion HF; subst. cbn [sum_hi] in Hs.
  assert (0 <= sum_hi dist) by (clear - H2; induction dist as [|e dist IHd]; cbn [sum_hi]; [lia | inversion H2; subst; specialize (IHd H3); lia]).
  constructor; [lia | apply IH; [assumption | lia]].
Qed.

(* ------------------------------------------------------------------------------------ *)
(* 5. Soundness of the rewriter inside the regions                                        *)
(* ------------------------------------------------------------------------------------ *)
Section Sound.
Variable catp : N -> N -> bool.
Notation M := (M catp).
Notation MSeq := (MSeq catp).
Notation MPow := (MPow catp).
Notation search := (search catp).

Definition lit_or_rep (x : node) : bool := is_lit x || is_rep x.

Lemma unit_bodies_cons x l : unit_bodies (x :: l) = (match x with NRep _ _ b => unit_seq b | _ => true end) && unit_bodies l.
Proof. reflexivity. Qed.
Lemma unit_bodies_app l1 l2 : unit_bodies (l1 ++ l2) = unit_bodies l1 && unit_bodies l2.
Proof. unfold unit_bodies. apply forallb_app. Qed.
Lemma wf_pattern_cons x l : wf_pattern (x :: l) = (match x with NRep lo hi _ => (0 <=? lo) && (lo <=? hi) | _ => true end) && wf_pattern l.
Proof. reflexivity. Qed.
Lemma wf_pattern_app l1 l2 : wf_pattern (l1 ++ l2) = wf_pattern l1 && wf_pattern l2.
Proof. unfold wf_pattern. apply forallb_app. Qed.

Lemma handle_repeat_self l h b : l <= h -> handle_repeat l h b (Some l) (Some h) = UNew (NRep l h b).
Proof.
  intros Hle. unfold handle_repeat, build_size.
  replace (Z.max l l) with l by lia.
  assert (E : (if h =? MAXREPEAT then h else Z.min h h) = h) by (destruct (h =? MAXREPEAT); lia). rewrite E.
  destruct (l >? h) eqn:Eg; [lia|]. rewrite build_quantifier_le by exact Hle. reflexivity.
Qed.

Lemma rebuild_sound : forall mid dist mid',
  forallb lit_or_rep mid = true ->
  rebuild mid dist = Some mid' ->
  Forall2 bound_rel (rep_bounds mid) dist ->
  forall pre s post, MSeq mid' pre s post ->
    MSeq mid pre s post /\
    (unit_bodies mid = true -> count_lit mid + sum_lo dist <= Z.of_nat (length s) /\
       (Forall (fun d => snd d < MAXREPEAT) dist -> Z.of_nat (length s) <= count_lit mid + sum_hi dist)).
Proof.
  induction mid as [|x mid IH]; intros dist mid' Hk Hr HF pre s post HM.
  - cbn in Hr. inversion Hr; subst. cbn [rep_bounds] in HF. inversion HF; subst.
    apply MSeq_nil_inv in HM; subst. split; [constructor|]. intros _. cbn. split; [lia | intros _; lia].
  - cbn [forallb] in Hk. apply andb_true_iff in Hk. destruct Hk as [Hx Hk].
    destruct x; try discriminate.
    + (* literal *)
      cbn [rebuild] in Hr. destruct (rebuild mid dist) as [r|] eqn:Er; [|discriminate]. inversion Hr; subst mid'.
      cbn [rep_bounds] in HF. apply MSeq_cons_inv in HM. destruct HM as (s1 & s2 & -> & Hx1 & Hr2).
      destruct (IH _ _ Hk Er HF _ _ _ Hr2) as [HS HL].
      split; [constructor; assumption|]. intros Hu. rewrite unit_bodies_cons in Hu. cbn [andb] in Hu.
      specialize (HL Hu). destruct HL as [HL1 HL2]. inversion Hx1; subst.
      cbn [count_lit is_lit]. rewrite length_app_Z. cbn [length]. split; [lia | intros HF3; specialize (HL2 HF3); lia].
    + (* repeat *)
      cbn [rep_bounds] in HF. inversion HF as [|? d0 ? ds Hbd HF']; subst. destruct d0 as [l h].
      unfold bound_rel in Hbd; cbn [fst snd] in Hbd. destruct Hbd as (Hb1 & Hb2 & Hb3).
      cbn [rebuild update_node] in Hr. rewrite (handle_repeat_self l h body Hb2) in Hr.
      destruct (rebuild mid ds) as [r|] eqn:Er; [|discriminate]. inversion Hr; subst mid'.
      apply MSeq_cons_inv in HM. destruct HM as (s1 & s2 & -> & Hx1 & Hr2).
      destruct (IH _ _ Hk Er HF' _ _ _ Hr2) as [HS HL].
      split; [constructor; [eapply rep_narrow; eauto | assumption]|].
      intros Hu. rewrite unit_bodies_cons in Hu. apply andb_true_iff in Hu. destruct Hu as [Hub Hu].
      specialize (HL Hu). destruct HL as [HL1 HL2].
      destruct (rep_unit_len catp _ _ _ _ _ _ Hub Hx1) as [R1 R2].
      cbn [count_lit is_lit sum_lo sum_hi fst snd]. rewrite length_app_Z. split; [lia|].
      intros HF3. inversion HF3 as [|? ? Hh3 HF4]; subst. cbn [snd] in Hh3. specialize (HL2 HF4). lia.
Qed.

Lemma lead_pre a rest pre sa post : lead_strict (a :: rest) = true -> M a pre sa post -> pre = [] /\ sa = [].
Proof.
  intros H HM. cbn [lead_strict] in H. destruct a; try discriminate.
  destruct k; try discriminate; apply M_at_inv in HM; destruct HM as [-> E]; cbn [at_okb] in E;
    destruct pre; try discriminate; auto.
Qed.

Lemma no_trailing_newline_snoc front : no_trailing_newline (front ++ [NL]) = false.
Proof. unfold no_trailing_newline. rewrite rev_app_distr. cbn. reflexivity. Qed.

Lemma trail_post l b m s pre' sb post :
  anchored_for_max (l ++ [b]) (Some m) = true -> dollar_newline_ok (l ++ [b]) (Some m) s = true ->
  (exists front, s = front ++ post) ->
  M b pre' sb post -> post = [] /\ sb = [].
Proof.
  unfold anchored_for_max, dollar_newline_ok, trail_strict, trail_dollar, last_node. rewrite split_last_app.
  intros Ha Hd [front ->] HM. apply andb_true_iff in Ha. destruct Ha as [_ Ha].
  destruct b; try discriminate. destruct k; try discriminate; apply M_at_inv in HM; destruct HM as [-> E]; cbn [at_okb] in E.
  - cbn [orb] in Hd. destruct post as [|c [|c' post]]; try discriminate; [auto|].
    apply N.eqb_eq in E; subst c. rewrite no_trailing_newline_snoc in Hd. discriminate.
  - destruct post; try discriminate; auto.
Qed.

Lemma count_lit_nonneg l : 0 <= count_lit l.
Proof. induction l as [|x l IH]; cbn [count_lit]; [lia | destruct (is_lit x); lia]. Qed.

Lemma wf_bounds mid : wf_pattern mid = true -> Forall wf_b (rep_bounds mid).
Proof.
  induction mid as [|x mid IH]; intros H; [constructor|]. rewrite wf_pattern_cons in H.
  apply andb_true_iff in H. destruct H as [Hx H]. destruct x; cbn [rep_bounds]; auto.
  constructor; [unfold wf_b; cbn [fst snd]; lia | auto].
Qed.

Lemma bound_rel_nonneg bs ds : Forall wf_b bs -> Forall2 bound_rel bs ds -> Forall (fun d => 0 <= snd d) ds.
Proof.
  intros Hw HF. induction HF as [|b d bs ds Hbd HF IH]; [constructor|]. inversion Hw; subst.
  constructor; [unfold wf_b, bound_rel in *; lia | auto].
Qed.

Lemma len_in_intro mn mx (s : str) :
  mn_ok mn (Z.of_nat (length s)) -> (forall m, mx = Some m -> Z.of_nat (length s) <= m) -> len_in mn mx s = true.
Proof.
  intros H1 H2. unfold len_in, mn_ok in *. apply andb_true_iff. split.
  - destruct mn; [lia | reflexivity].
  - destruct mx as [m|]; [specialize (H2 m eq_refl); lia | reflexivity].
Qed.

(* ---- the multi-quantifier path ---- *)
Lemma multi_sound a mid b mn mx s p' :
  is_at a = true -> is_at b = true -> forallb lit_or_rep mid = true ->
  handle_anchored a mid b mn mx = Rewritten p' ->
  wf_pattern mid = true -> max_small mx = true ->
  anchored_for_max (a :: mid ++ [b]) mx = true -> dollar_newline_ok (a :: mid ++ [b]) mx s = true ->
  unit_bodies mid = true ->
  negb (is_some_zero (sub_fixed mx (count_lit mid))) || opt_eqb (sub_fixed mn (count_lit mid)) (sub_fixed mx (count_lit mid)) = true ->
  search p' s -> search (a :: mid ++ [b]) s /\ len_in mn mx s = true.
Proof.
  intros Ha Hb Hk H Hwf Hsmall Hanch Hdoll Hunit Hzero Hs.
  unfold handle_anchored in H.
  set (fixed := count_lit mid) in *.
  destruct (is_neg (sub_fixed mn fixed)) eqn:En1; [discriminate|].
  destruct (is_neg (sub_fixed mx fixed)) eqn:En2; [discriminate|].
  destruct (rep_bounds mid) as [|b0 bs] eqn:Eb; [discriminate|]. rewrite <- Eb in H.
  destruct (distribute (rep_bounds mid) (sub_fixed mn fixed) (sub_fixed mx fixed)) as [dist|] eqn:Ed; [|discriminate].
  assert (Hreb : exists mid', rebuild mid dist = Some mid' /\ p' = a :: mid' ++ [b]).
  { destruct dist; [discriminate|]. destruct (rebuild mid (p :: dist)) as [mid'|]; [|discriminate].
    inversion H; subst. eauto. }
  destruct Hreb as (mid' & Hreb & ->). clear H.
  pose proof (wf_bounds mid Hwf) as Hwb.
  destruct (distribute_spec _ _ _ _ Hwb En1 En2 Ed) as (F2 & Dlo & Dhi).
  destruct Hs as (pre & ms & post & -> & HM).
  apply MSeq_cons_inv in HM. destruct HM as (sa & rest & -> & HMa & HM).
  apply MSeq_app in HM. destruct HM as (sm & sb & -> & HMm & HMb).
  apply MSeq_single in HMb.
  assert (sa = []) by (destruct a; try discriminate; apply M_at_inv in HMa; tauto). subst sa.
  assert (sb = []) by (destruct b; try discriminate; apply M_at_inv in HMb; tauto). subst sb.
  destruct (rebuild_sound _ _ _ Hk Hreb F2 _ _ _ HMm) as [HMo HL].
  split.
  - exists pre, ([] ++ sm ++ []), post. split; [reflexivity|].
    constructor; [exact HMa|]. apply MSeq_app. exists sm, []. repeat split; [exact HMo | apply MSeq_single; exact HMb].
  - specialize (HL Hunit). destruct HL as [HL1 HL2].
    pose proof (count_lit_nonneg mid) as Hfix. fold fixed in Hfix, HL1, HL2.
    apply len_in_intro.
    + unfold mn_ok. destruct mn as [m|]; [|exact I]. specialize (Dlo (m - fixed) eq_refl).
      cbn [app]. repeat rewrite length_app_Z. cbn [length]. clear - Dlo HL1 Hfix. lia.
    + intros m ->. cbn [sub_fixed] in *. cbn [max_small] in Hsmall.
      pose proof Hanch as Hanch'. unfold anchored_for_max in Hanch'. apply andb_true_iff in Hanch'. destruct Hanch' as [Hlead _].
      destruct (lead_pre _ _ _ _ _ Hlead HMa) as [-> _].
      change (a :: mid ++ [b]) with ((a :: mid) ++ [b]) in Hanch, Hdoll.
      destruct (trail_post _ _ _ _ _ _ _ Hanch Hdoll (ex_intro _ ([] ++ [] ++ sm ++ []) eq_refl) HMb) as [-> _].
      assert (Hsum : sum_hi dist <= m - fixed).
      { apply Dhi; [reflexivity | clear - Hsmall Hfix; lia |]. apply orb_true_iff in Hzero. destruct Hzero as [Hz|Hz]; [left | right; exact Hz].
        cbn [is_some_zero] in Hz. clear - Hz. destruct (m - fixed); [discriminate | lia | lia]. }
      assert (HF3 : Forall (fun d => snd d < MAXREPEAT) dist).
      { apply sum_hi_each; [eapply bound_rel_nonneg; eauto | clear - Hsum Hsmall Hfix; lia]. }
      specialize (HL2 HF3). cbn [app]. repeat rewrite length_app_Z. cbn [length]. clear - HL2 Hsum. lia.
Qed.
End Sound.

Section Sound2.
Variable catp : N -> N -> bool.
Notation M := (M catp).
Notation MSeq := (MSeq catp).
Notation MPow := (MPow catp).
Notation search := (search catp).

(* ---- the single-node paths ---- *)
Lemma len_part A x B l h body' mn mx pre sy post :
  is_at x = false -> forallb is_at A = true -> forallb is_at B = true -> (length A <= 1)%nat -> (length B <= 1)%nat ->
  unit_seq body' = true -> mn_ok mn l -> mx_ok mx h ->
  anchored_for_max (A ++ x :: B) mx = true -> dollar_newline_ok (A ++ x :: B) mx (pre ++ sy ++ post) = true ->
  MSeq A pre [] (sy ++ post) -> M (NRep l h body') pre sy post -> MSeq B (pre ++ sy) [] post ->
  len_in mn mx (pre ++ sy ++ post) = true.
Proof.
  intros Hx HA HB LA LB Hu Hmn Hmx Hanch Hdoll HMA HMy HMB.
  destruct (rep_unit_len catp _ _ _ _ _ _ Hu HMy) as [R1 R2].
  apply len_in_intro.
  - unfold mn_ok in *. destruct mn; [|exact I]. repeat rewrite length_app_Z. lia.
  - intros m ->. cbn [mx_ok] in Hmx.
    destruct A as [|a [|a' A]]; [ | | cbn in LA; lia].
    + exfalso. unfold anchored_for_max in Hanch. cbn [app] in Hanch. destruct x; cbn in Hx, Hanch; discriminate.
    + destruct B as [|b [|b' B]]; [ | | cbn in LB; lia].
      * exfalso. unfold anchored_for_max, trail_strict, trail_dollar, last_node in Hanch. cbn in Hanch.
        destruct x; cbn in Hx, Hanch; try discriminate; rewrite andb_false_r in Hanch; discriminate.
      * apply MSeq_single in HMA. apply MSeq_single in HMB.
        pose proof Hanch as Hanch'. unfold anchored_for_max in Hanch'. apply andb_true_iff in Hanch'. destruct Hanch' as [Hlead _].
        cbn [app] in Hlead. destruct (lead_pre catp _ _ _ _ _ Hlead HMA) as [-> _].
        change ([a] ++ x :: [b]) with ([a; x] ++ [b]) in Hanch, Hdoll.
        destruct (trail_post catp _ _ _ _ _ _ _ Hanch Hdoll (ex_intro _ ([] ++ sy) eq_refl) HMB) as [-> _].
        cbn [app]. rewrite app_nil_r. lia.
Qed.

Lemma lit_search A x B l h pre sy post :
  is_char_node x = true -> forallb is_at A = true -> forallb is_at B = true -> (length A <= 1)%nat -> (length B <= 1)%nat ->
  1 <= l -> (A <> [] -> B <> [] -> l = 1 /\ h = 1) ->
  MSeq A pre [] (sy ++ post) -> M (NRep l h [x]) pre sy post -> MSeq B (pre ++ sy) [] post ->
  search (A ++ x :: B) (pre ++ sy ++ post).
Proof.
  intros Hx HA HB LA LB Hl Hboth HMA HMy HMB.
  apply M_rep_inv in HMy. destruct HMy as (n & [Hn1 Hn2] & HP).
  destruct (pow_chars catp x Hx _ _ _ _ HP) as [Hlen Hchars].
  assert (Hc : forall c pre' post', char_ok catp x c = true -> M x pre' [c] post').
  { intros c pre' post' E. apply (char_node_spec catp x _ _ _ Hx). eauto. }
  destruct A as [|a [|a' A]]; [ | | cbn in LA; lia].
  - (* no lead anchor: take the last character *)
    destruct sy as [|c0 sy0] eqn:Esy; [cbn in Hlen; lia|].
    destruct (@exists_last _ (c0 :: sy0)) as (s0 & c & Es); [discriminate|]. rewrite Es in *.
    apply Forall_app in Hchars. destruct Hchars as [_ Hc1]. pose proof (Forall_inv Hc1) as Hcc. cbn beta in Hcc.
    exists (pre ++ s0), [c], post. split; [repeat rewrite <- app_assoc; reflexivity|].
    cbn [app]. apply (MS_cons catp x B (pre ++ s0) [c] [] post); [apply Hc; exact Hcc|].
    rewrite <- app_assoc. exact HMB.
  - destruct B as [|b [|b' B]]; [ | | cbn in LB; lia].
    + (* no trail anchor: take the first character *)
      destruct sy as [|c s1]; [cbn in Hlen; lia|]. pose proof (Forall_inv Hchars) as Hcc. cbn beta in Hcc.
      apply MSeq_single in HMA.
      exists pre, [c], (s1 ++ post). split; [reflexivity|].
      cbn [app]. apply (MS_cons catp a [x] pre [] [c] (s1 ++ post)); [exact HMA|].
      apply MSeq_single. apply Hc; exact Hcc.
    + (* both anchors: the repeat is {1} *)
      destruct Hboth as [-> ->]; try discriminate.
      assert (Hn : n = 1%nat) by (unfold MAXREPEAT in Hn2; lia). rewrite Hn in Hlen.
      destruct sy as [|c [|c' s1]]; try (cbn in Hlen; lia). pose proof (Forall_inv Hchars) as Hcc. cbn beta in Hcc.
      apply MSeq_single in HMA.
      exists pre, [c], post. split; [reflexivity|].
      cbn [app]. apply (MS_cons catp a [x; b] pre [] [c] post); [exact HMA|].
      apply (MS_cons catp x [b] (pre ++ []) [c] [] post); [apply Hc; exact Hcc|].
      rewrite app_nil_r. exact HMB.
Qed.

Lemma single_sound A x B y mn mx s :
  forallb is_at A = true -> forallb is_at B = true -> (length A <= 1)%nat -> (length B <= 1)%nat ->
  update_node x mn mx = UNew y ->
  max_small mx = true ->
  anchored_for_max (A ++ x :: B) mx = true -> dollar_newline_ok (A ++ x :: B) mx s = true ->
  unit_bodies (A ++ x :: B) = true ->
  (A <> [] -> B <> [] -> is_char_node x = true -> mx = Some 1 \/ mx = Some 0) ->
  search (A ++ y :: B) s -> search (A ++ x :: B) s /\ len_in mn mx s = true.
Proof.
  intros HA HB LA LB Hup Hsm Hanch Hdoll Hunit Hsingle (pre & ms & post & -> & HM).
  apply MSeq_ctx in HM. destruct HM as (sa & sy & sb & -> & HMA & HMy & HMB).
  assert (sa = []) by (exact (ats_empty catp A HA _ _ _ HMA)). subst sa.
  assert (sb = []) by (exact (ats_empty catp B HB _ _ _ HMB)). subst sb.
  rewrite ?app_nil_r in *. cbn [app] in *.
  assert (Hlit : forall x0, x0 = x -> is_char_node x0 = true -> is_some_zero mx = false -> handle_literal x0 mn mx = UNew y ->
            search (A ++ x0 :: B) (pre ++ sy ++ post) /\ len_in mn mx (pre ++ sy ++ post) = true).
  { intros x0 -> Hch Hz Hh. destruct (handle_literal_new _ _ _ _ Hsm Hh) as (l & h & -> & Hl1 & Hmn & Hmx & H1).
    split.
    - eapply lit_search; eauto. intros HAn HBn.
      destruct (Hsingle HAn HBn Hch) as [E|E]; [apply H1; exact E | subst mx; discriminate].
    - eapply (len_part A x B l h [x]); eauto; destruct x; try discriminate; reflexivity. }
  destruct x; cbn [update_node] in Hup; try discriminate.
  - destruct (is_some_zero mx) eqn:Ez; [discriminate|]. apply (Hlit (NLit c)); auto.
  - destruct (is_some_zero mx) eqn:Ez; [discriminate|]. apply (Hlit (NIn neg items)); auto.
  - destruct (handle_repeat_new _ _ _ _ _ _ Hsm Hup) as (l & h & -> & Hl1 & Hh1 & Hmn & Hmx).
    split.
    + exists pre, sy, post. split; [reflexivity|]. apply MSeq_ctx. exists [], sy, [].
      rewrite ?app_nil_r. cbn [app]. repeat split; auto. eapply rep_narrow; eauto.
    + rewrite unit_bodies_app, unit_bodies_cons in Hunit. apply andb_true_iff in Hunit. destruct Hunit as [_ Hunit].
      apply andb_true_iff in Hunit. destruct Hunit as [Hub _].
      eapply (len_part A (NRep lo hi body) B l h body); eauto.
Qed.

Lemma count_lit_frame a mid b : is_at a = true -> is_at b = true -> count_lit (a :: mid ++ [b]) = count_lit mid.
Proof.
  intros Ha Hb. cbn [count_lit]. destruct a; try discriminate. cbn [is_lit].
  induction mid as [|x mid IH]; cbn [app count_lit]; [destruct b; try discriminate; reflexivity | lia].
Qed.

(* ---- the theorem ---- *)
Theorem rewrite_sound p mn mx s p' :
  update_quantifier p mn mx = Rewritten p' ->
  wf_pattern p = true -> max_small mx = true ->
  anchored_for_max p mx = true -> dollar_newline_ok p mx s = true ->
  unit_bodies p = true -> not_max_zero_multi p mn mx = true -> not_single_char_anchored p mx = true ->
  search p' s -> search p s /\ len_in mn mx s = true.
Proof.
  intros H Hwf Hsm Hanch Hdoll Hunit Hzero Hsingle Hs.
  unfold update_quantifier in H. destruct p as [|n0 p0]; [discriminate|].
  destruct (none_or_zero mn && is_none mx); [discriminate|].
  destruct p0 as [|n1 [|n2 [|n3 rest]]].
  - cbn [handle_parsed] in H. destruct (update_node n0 mn mx) as [|y|] eqn:E; try discriminate. inversion H; subst p'.
    apply (single_sound [] n0 [] y); auto. intros Hn; contradiction.
  - cbn [handle_parsed] in H. destruct (is_at n0) eqn:Ea.
    + destruct (update_node n1 mn mx) as [|y|] eqn:E; try discriminate. inversion H; subst p'.
      apply (single_sound [n0] n1 [] y); auto; [cbn; rewrite Ea; reflexivity | intros _ Hn; contradiction].
    + destruct (is_at n1) eqn:Eb; [|discriminate].
      destruct (update_node n0 mn mx) as [|y|] eqn:E; try discriminate. inversion H; subst p'.
      apply (single_sound [] n0 [n1] y); auto; [cbn; rewrite Eb; reflexivity | intros Hn; contradiction].
  - cbn [handle_parsed] in H. destruct (is_at n0 && is_at n2) eqn:Eab; [|discriminate].
    apply andb_true_iff in Eab. destruct Eab as [Ea Eb].
    destruct (update_node n1 mn mx) as [|y|] eqn:E; try discriminate. inversion H; subst p'.
    apply (single_sound [n0] n1 [n2] y); auto; try (cbn; rewrite ?Ea, ?Eb; reflexivity).
    intros _ _ Hch. cbn [not_single_char_anchored] in Hsingle. rewrite Ea, Eb in Hsingle. cbn [andb] in Hsingle.
    destruct n1; try discriminate; cbn [negb orb] in Hsingle;
      (destruct mx as [[|q|q]|]; try discriminate; try (right; reflexivity); destruct q; try discriminate; left; reflexivity).
  - cbn [not_max_zero_multi] in Hzero.
    cbn [handle_parsed] in H.
    destruct (split_last (n1 :: n2 :: n3 :: rest)) as [[mid b]|] eqn:Esl; [|discriminate].
    apply split_last_some in Esl. rewrite Esl in *.
    destruct (is_at n0 && is_at b && forallb (fun x => is_lit x || is_rep x) mid) eqn:Ec; [|discriminate].
    apply andb_true_iff in Ec. destruct Ec as [Ec Hk]. apply andb_true_iff in Ec. destruct Ec as [Ea Eb].
    rewrite (count_lit_frame n0 mid b Ea Eb) in Hzero.
    rewrite wf_pattern_cons, wf_pattern_app in Hwf. apply andb_true_iff in Hwf. destruct Hwf as [_ Hwf].
    apply andb_true_iff in Hwf. destruct Hwf as [Hwf _].
    rewrite unit_bodies_cons, unit_bodies_app in Hunit. apply andb_true_iff in Hunit. destruct Hunit as [_ Hunit].
    apply andb_true_iff in Hunit. destruct Hunit as [Hunit _].
    eapply multi_sound; eauto.
Qed.

End Sound2.

(* ------------------------------------------------------------------------------------ *)
(* 6. Schema level corollary, distribution facts, witnesses                               *)
(* ------------------------------------------------------------------------------------ *)
Lemma schema_sound catp p mn mx s p' mn' mx' :
  update_pattern_in_schema p mn mx = Some (p', mn', mx') ->
  wf_pattern p = true -> max_small mx = true ->
  anchored_for_max p mx = true -> dollar_newline_ok p mx s = true ->
  unit_bodies p = true -> not_max_zero_multi p mn mx = true -> not_single_char_anchored p mx = true ->
  search catp p' s -> len_in mn' mx' s = true -> search catp p s /\ len_in mn mx s = true.
Proof.
  intros H Hwf Hsm Hanch Hdoll Hunit Hzero Hsingle Hs Hl. unfold update_pattern_in_schema in H.
  destruct p as [|x p0]; [inversion H; subst; auto|].
  destruct (py_truthy mn || py_truthy mx); [|inversion H; subst; auto].
  destruct (update_quantifier (x :: p0) mn mx) as [|q|] eqn:E; [inversion H; subst; auto | | discriminate].
  inversion H; subst. eapply rewrite_sound; eauto.
Qed.

Lemma distribute_sound bounds mn mx dist :
  Forall wf_b bounds -> is_neg mn = false -> is_neg mx = false ->
  distribute bounds mn mx = Some dist ->
  Forall2 bound_rel bounds dist /\
  (forall m, mn = Some m -> m <= sum_lo dist) /\
  (forall m, mx = Some m -> m < MAXREPEAT -> (m <> 0 \/ opt_eqb mn mx = true) -> sum_hi dist <= m).
Proof. apply distribute_spec. Qed.

Lemma build_size_narrows lo hi mn mx l h : build_size lo hi mn mx = (l, h) ->
  lo <= l /\ (h <= hi \/ hi = MAXREPEAT) /\ (forall m, mn = Some m -> m <= l) /\ (forall m, mx = Some m -> h <= m).
Proof.
  intros H. apply build_size_spec in H. destruct H as [-> ->].
  destruct mn as [m1|], mx as [m2|]; destruct (hi =? MAXREPEAT) eqn:E; repeat split; try lia;
    intros m Hm; inversion Hm; subst; lia.
Qed.

Definition s_a6 : str := [97; 97; 97; 97; 97; 97]%N.                  (* aaaaaa *)
Definition s_abcde_nl : str := [97; 98; 99; 100; 101; 10]%N.          (* abcde + newline *)
Definition s_ababab : str := [97; 98; 97; 98; 97; 98]%N.
Definition s_abb : str := [97; 98; 98]%N.
Definition s_abc : str := [97; 98; 99]%N.

Definition other_regions (p : pattern) (mn mx : option Z) (s : str) : list bool :=
  [wf_pattern p; max_small mx; anchored_for_max p mx; dollar_newline_ok p mx s; unit_bodies p;
   not_max_zero_multi p mn mx; not_single_char_anchored p mx].

Definition refutes catp (p : pattern) (mn mx : option Z) (s : str) (regions : list bool) : Prop :=
  exists p', update_quantifier p mn mx = Rewritten p' /\ other_regions p mn mx s = regions /\
             search catp p' s /\ ~ (search catp p s /\ len_in mn mx s = true).

Ltac by_length := split; [apply search_b_sound; vm_compute; reflexivity | intros [_ H]; vm_compute in H; discriminate].

Lemma refuted_unanchored catp :
  refutes catp w_unanchored None (Some 5) s_a6 [true; true; false; true; true; true; true].
Proof. eexists. split; [vm_compute; reflexivity|]. split; [vm_compute; reflexivity|]. by_length. Qed.

Lemma refuted_dollar_newline catp :
  refutes catp w_dollar None (Some 5) s_abcde_nl [true; true; true; false; true; true; true].
Proof. eexists. split; [vm_compute; reflexivity|]. split; [vm_compute; reflexivity|]. by_length. Qed.

Lemma refuted_multichar catp :
  refutes catp w_multichar None (Some 5) s_ababab [true; true; true; true; false; true; true].
Proof. eexists. split; [vm_compute; reflexivity|]. split; [vm_compute; reflexivity|]. by_length. Qed.

Lemma refuted_max_zero catp :
  refutes catp w_maxzero None (Some 1) s_abb [true; true; true; true; true; false; true].
Proof. eexists. split; [vm_compute; reflexivity|]. split; [vm_compute; reflexivity|]. by_length. Qed.

(* here the lengths are fine: the ORIGINAL pattern does not match the generated value *)
Lemma refuted_single_char catp :
  refutes catp w_single None (Some 5) s_abc [true; true; true; true; true; true; false].
Proof.
  eexists. split; [vm_compute; reflexivity|]. split; [vm_compute; reflexivity|].
  split; [apply search_b_sound; vm_compute; reflexivity|].
  intros [(pre & mid & post & Hs & HM) _]. unfold w_single in HM.
  apply MSeq_cons_inv in HM. destruct HM as (s1 & s2 & -> & H1 & HM).
  apply M_at_inv in H1. destruct H1 as [-> E1]. cbn [at_okb] in E1. destruct pre; [|discriminate].
  apply MSeq_cons_inv in HM. destruct HM as (s3 & s4 & -> & H2 & HM).
  apply MSeq_cons_inv in HM. destruct HM as (s5 & s6 & -> & H3 & HM).
  apply M_at_inv in H3. destruct H3 as [-> E3]. apply MSeq_nil_inv in HM. subst s6.
  assert (exists d, s3 = [d]) as [d ->] by (inversion H2; subst; eauto).
  cbn [at_okb app] in E3. cbn [app] in Hs.
  destruct post as [|c [|c' post]]; try discriminate.
Qed.

(* non-vacuity: the hypotheses of the partial theorem hold for ordinary anchored patterns, on both paths *)
Lemma satisfiable_single :
  exists p', update_quantifier w_ok (Some 2) (Some 5) = Rewritten p' /\
  other_regions w_ok (Some 2) (Some 5) s_abc = [true; true; true; true; true; true; true] /\
  search ascii_cat p' s_abc /\ p' <> w_ok.
Proof.
  eexists. split; [vm_compute; reflexivity|]. split; [vm_compute; reflexivity|].
  split; [apply search_b_sound; vm_compute; reflexivity | discriminate].
Qed.

Definition s_plus12 : str := [43; 49; 50]%N.
Lemma satisfiable_multi :
  exists p', update_quantifier w_ok_multi (Some 3) (Some 6) = Rewritten p' /\
  other_regions w_ok_multi (Some 3) (Some 6) s_plus12 = [true; true; true; true; true; true; true] /\
  search ascii_cat p' s_plus12 /\ p' <> w_ok_multi.
Proof.
  eexists. split; [vm_compute; reflexivity|]. split; [vm_compute; reflexivity|].
  split; [apply search_b_sound; vm_compute; reflexivity | discriminate].
Qed.

(* ------------------------------------------------------------------------------------ *)
(* 7. forbid_properties                                                                   *)
(* ------------------------------------------------------------------------------------ *)
Lemma forbid_one names keys : readonly_le1 names = true -> forbid_valid names keys = sends_no_readonly names keys.
Proof.
  destruct names as [|n [|n' names]]; try discriminate. intros _.
  unfold forbid_valid, sends_no_readonly. cbn [forallb existsb]. rewrite andb_true_r, orb_false_r. reflexivity.
Qed.

Definition ro_names : list str := [[97]; [98]]%N.
Definition ro_keys : list str := [[99]; [97]]%N.
Lemma forbid_two_refuted : forbid_valid ro_names ro_keys = true /\ sends_no_readonly ro_names ro_keys = false.
Proof. split; vm_compute; reflexivity. Qed.

Lemma converted_one props required ro closed keys : readonly_le1' ro = true ->
  converted_accepts props required ro closed keys = request_view_accepts props required ro closed keys.
Proof.
  intros H. unfold converted_accepts, request_view_accepts. destruct ro as [|n [|n' ro]]; try discriminate.
  - reflexivity.
  - rewrite (forbid_one [n] keys eq_refl). reflexivity.
Qed.

(* closed objects cannot leak: the extra key would have to be a remaining property name *)
Lemma converted_closed_clean props required ro keys :
  converted_accepts props required ro true keys = true -> sends_no_readonly ro keys = true.
Proof.
  unfold converted_accepts, sends_no_readonly. intros H. apply andb_true_iff in H. destruct H as [_ H].
  cbn [negb orb] in H. apply negb_true_iff. apply not_true_iff_false. intros E.
  apply existsb_exists in E. destruct E as (n & Hn & Hk).
  unfold has_key in Hk. apply existsb_exists in Hk. destruct Hk as (k & Hk & Ek). apply str_eqb_spec in Ek. subst k.
  unfold subset_keys in H. rewrite forallb_forall in H. specialize (H n Hk).
  unfold has_key in H. apply existsb_exists in H. destruct H as (r & Hr & Er). apply str_eqb_spec in Er. subst r.
  unfold remove_names in Hr. apply filter_In in Hr. destruct Hr as [_ Hr].
  apply negb_true_iff in Hr. unfold has_key in Hr.
  assert (existsb (str_eqb n) ro = true) by (apply existsb_exists; exists n; split; [exact Hn | apply str_eqb_refl]).
  congruence.
Qed.

(* ------------------------------------------------------------------------------------ *)
(* 8. nullable                                                                            *)
(* ------------------------------------------------------------------------------------ *)
Fixpoint oas_ind' (P : oas -> Prop)
  (HP : forall n xn t, P (OPrim n xn t))
  (HA : forall n xn it, P it -> P (OArr n xn it))
  (HO : forall n xn props req, Forall (fun kp => P (snd kp)) props -> P (OObj n xn props req))
  (s : oas) : P s :=
  match s with
  | OPrim n xn t => HP n xn t
  | OArr n xn it => HA n xn it (oas_ind' P HP HA HO it)
  | OObj n xn props req =>
      HO n xn props req
        ((fix go (l : list (str * oas)) : Forall (fun kp => P (snd kp)) l :=
            match l with
            | [] => Forall_nil _
            | kp :: l' => Forall_cons kp (oas_ind' P HP HA HO (snd kp)) (go l')
            end) props)
  end.

Lemma wrap_nonnull st j v : v <> VNull -> jvalid (wrap st j) v = jvalid j v.
Proof.
  intros Hv. unfold wrap. destruct (wraps st); [|reflexivity]. cbn [jvalid].
  destruct v; try contradiction; rewrite orb_false_r; reflexivity.
Qed.

Lemma wrap_null st j : jvalid j VNull = false -> jvalid (wrap st j) VNull = wraps st.
Proof. intros Hj. unfold wrap. destruct (wraps st); [cbn [jvalid]; rewrite Hj; reflexivity | exact Hj]. Qed.

Lemma conv_unfold d s : conv d s = wrap (eff d s)
  match s with
  | OPrim _ _ t => JsPrim t
  | OArr _ _ it => JsArr (conv d it)
  | OObj _ _ props req => JsObj (map (fun kp => (fst kp, conv d (snd kp))) props) req
  end.
Proof.
  destruct s; cbn [conv]; try reflexivity. f_equal. f_equal.
  induction props as [|[k p] l IH]; [reflexivity|]. cbn [map fst snd]. rewrite <- IH. reflexivity.
Qed.

(* the converted schema accepts null exactly when the effective keyword is true *)
Lemma null_iff d s : jvalid (conv d s) VNull = true <-> eff d s = NTrue.
Proof.
  rewrite conv_unfold. rewrite wrap_null.
  - destruct (eff d s); cbn; split; congruence.
  - destruct s as [? ? t| |]; [destruct t|..]; reflexivity.
Qed.

Lemma conv_preserves d : forall s v, jvalid (conv d s) v = oas_valid d s v.
Proof.
  induction s as [n xn t | n xn it IH | n xn props req IH] using oas_ind'; intros v; rewrite conv_unfold.
  - destruct v; try (rewrite wrap_nonnull by discriminate; reflexivity).
    rewrite wrap_null by (destruct t; reflexivity). reflexivity.
  - destruct v; try (rewrite wrap_nonnull by discriminate; reflexivity).
    + rewrite wrap_null by reflexivity. reflexivity.
    + rewrite wrap_nonnull by discriminate. cbn [jvalid oas_valid].
      induction l as [|x l IHl]; [reflexivity|]. cbn [forallb]. rewrite IH, IHl. reflexivity.
  - destruct v; try (rewrite wrap_nonnull by discriminate; reflexivity).
    + rewrite wrap_null by reflexivity. reflexivity.
    + rewrite wrap_nonnull by discriminate. cbn [jvalid oas_valid]. f_equal.
      induction IH as [|[k p] ps Hp _ IHps]; [reflexivity|]. cbn [map fst snd] in *.
      rewrite IHps. destruct (vget k l); [rewrite Hp|]; reflexivity.
Qed.

Definition o_example : oas :=
  OObj NFalse NAbsent [([97]%N, OPrim NTrue NFalse PString); ([98]%N, OArr NAbsent NTrue (OPrim NFalse NAbsent PInteger))] [[97]%N].
Lemma nullable_examples :
  jvalid (conv false o_example) (VObj [([97]%N, VNull); ([98]%N, VArr [VInt])]) = true /\
  jvalid (conv false o_example) (VObj [([97]%N, VStr); ([98]%N, VArr [VNull])]) = false /\
  jvalid (conv false o_example) VNull = false /\
  jvalid (conv true o_example) (VObj [([97]%N, VNull)]) = false /\
  jvalid (conv true o_example) (VObj [([97]%N, VStr); ([98]%N, VNull)]) = true.
Proof. repeat split; vm_compute; reflexivity. Qed.

(* ------------------------------------------------------------------------------------ *)
(* 9. Generation settings                                                                 *)
(* ------------------------------------------------------------------------------------ *)
Lemma header_codec_partial a cd c : cd <> CodecAscii -> header_char_ok a c = true -> codec_ok cd c = true.
Proof.
  intros Hcd H. unfold header_char_ok in H.
  apply andb_true_iff in H. destruct H as [H _]. apply andb_true_iff in H. destruct H as [H _].
  apply andb_true_iff in H. destruct H as [H _].
  destruct cd; [contradiction | exact H | reflexivity].
Qed.

Lemma header_codec_refuted : header_char_ok false 200%N = true /\ codec_ok CodecAscii 200%N = false.
Proof. split; vm_compute; reflexivity. Qed.

Lemma gs_eqb_eq a b : gs_eqb a b = true -> a = b.
Proof.
  destruct a as [a1 a2], b as [b1 b2]. unfold gs_eqb. cbn [fst snd]. intros H. apply andb_true_iff in H. destruct H as [H1 H2].
  apply Bool.eqb_prop in H1. subst. destruct a2, b2; try discriminate; reflexivity.
Qed.

Lemma cache_consistent : forall calls c, consistent_calls c calls = true -> run_calls c calls = map snd calls.
Proof.
  induction calls as [|[k g] rest IH]; intros c H; [reflexivity|].
  cbn [run_calls consistent_calls map snd] in *. unfold get_strategy.
  destruct (cache_find k c) as [old|] eqn:E.
  - apply andb_true_iff in H. destruct H as [H1 H2]. apply gs_eqb_eq in H1. subst old. rewrite (IH c H2). reflexivity.
  - rewrite (IH _ H). reflexivity.
Qed.

Definition calls_two : list (N * gsettings) := [(0%N, (true, CodecUtf8)); (0%N, (false, CodecAscii))].
Lemma cache_refuted : run_calls [] calls_two <> map snd calls_two /\ nth 1 (run_calls [] calls_two) (false, CodecAscii) = (true, CodecUtf8).
Proof. split; [vm_compute; discriminate | vm_compute; reflexivity]. Qed.

(* ------------------------------------------------------------------------------------ *)
(* 9. Aliasing: a conversion with copy = true leaves every live object unchanged          *)
(* ------------------------------------------------------------------------------------ *)
Section PvInd.
  Variable P : pv -> Prop.
  Hypothesis Ha : forall a, P (PA a).
  Hypothesis Hd : forall i kv, Forall (fun e => P (snd e)) kv -> P (PD i kv).
  Hypothesis Hl : forall i xs, Forall P xs -> P (PL i xs).
  Fixpoint pv_ind' (t : pv) : P t :=
    match t with
    | PA a => Ha a
    | PD i kv => Hd i kv ((fix go (l : list (str * pv)) : Forall (fun e => P (snd e)) l :=
                             match l with [] => Forall_nil _ | x :: r => Forall_cons _ (pv_ind' (snd x)) (go r) end) kv)
    | PL i xs => Hl i xs ((fix go (l : list pv) : Forall P l :=
                             match l with [] => Forall_nil _ | x :: r => Forall_cons _ (pv_ind' x) (go r) end) xs)
    end.
End PvInd.

(* the nested fixpoints of the model as maps / forallb *)
Lemma all_ids_PD P i kv : all_ids P (PD i kv) = P i && forallb (fun e => all_ids P (snd e)) kv.
Proof.
  cbn [all_ids]. apply f_equal. induction kv as [|[k v] r IH]; [reflexivity|]. cbn [forallb snd]. rewrite <- IH. reflexivity.
Qed.
Lemma all_ids_PL P i xs : all_ids P (PL i xs) = P i && forallb (all_ids P) xs.
Proof.
  cbn [all_ids]. apply f_equal. induction xs as [|v r IH]; [reflexivity|]. cbn [forallb]. rewrite <- IH. reflexivity.
Qed.
Definition upd_kv (i : N) (m : mutn) (kv : list (str * pv)) := map (fun e => (fst e, upd i m (snd e))) kv.
Lemma upd_PD i m j kv : upd i m (PD j kv) = if N.eqb j i then do_mut m (PD j (upd_kv i m kv)) else PD j (upd_kv i m kv).
Proof.
  cbn [upd]. assert (E : (fix go (l : list (str * pv)) : list (str * pv) :=
            match l with [] => [] | (k, v) :: r => (k, upd i m v) :: go r end) kv = upd_kv i m kv).
  { induction kv as [|[k v] r IH]; [reflexivity|]. cbn [upd_kv map fst snd]. rewrite IH. reflexivity. }
  rewrite E. reflexivity.
Qed.
Lemma upd_PL i m j xs : upd i m (PL j xs) = if N.eqb j i then do_mut m (PL j (map (upd i m) xs)) else PL j (map (upd i m) xs).
Proof.
  cbn [upd]. assert (E : (fix go (l : list pv) : list pv :=
            match l with [] => [] | v :: r => upd i m v :: go r end) xs = map (upd i m) xs).
  { induction xs as [|v r IH]; [reflexivity|]. cbn [map]. rewrite IH. reflexivity. }
  rewrite E. reflexivity.
Qed.
Lemma shift_PD n i kv : shift n (PD i kv) = PD (i + n)%N (map (fun e => (fst e, shift n (snd e))) kv).
Proof.
  cbn [shift]. apply f_equal. induction kv as [|[k v] r IH]; [reflexivity|]. cbn [map fst snd]. rewrite IH. reflexivity.
Qed.
Lemma shift_PL n i xs : shift n (PL i xs) = PL (i + n)%N (map (shift n) xs).
Proof.
  cbn [shift]. apply f_equal. induction xs as [|v r IH]; [reflexivity|]. cbn [map]. rewrite IH. reflexivity.
Qed.
Lemma bound_PD i kv : bound (PD i kv) = N.max (i + 1)%N (fold_right (fun e acc => N.max (bound (snd e)) acc) 0%N kv).
Proof.
  cbn [bound]. apply f_equal. induction kv as [|[k v] r IH]; [reflexivity|]. cbn [fold_right snd]. rewrite IH. reflexivity.
Qed.
Lemma bound_PL i xs : bound (PL i xs) = N.max (i + 1)%N (fold_right (fun v acc => N.max (bound v) acc) 0%N xs).
Proof.
  cbn [bound]. apply f_equal. induction xs as [|v r IH]; [reflexivity|]. cbn [fold_right]. rewrite IH. reflexivity.
Qed.

Lemma all_ids_impl (P Q : N -> bool) t : (forall j, P j = true -> Q j = true) -> all_ids P t = true -> all_ids Q t = true.
Proof.
  intros HPQ. induction t as [a|i kv IH|i xs IH] using pv_ind'; [reflexivity| |].
  - rewrite !all_ids_PD. intros H. apply andb_true_iff in H. destruct H as [H1 H2].
    apply andb_true_iff. split; [apply HPQ; exact H1|].
    rewrite forallb_forall in *. intros e He. rewrite Forall_forall in IH. apply (IH e He). apply H2. exact He.
  - rewrite !all_ids_PL. intros H. apply andb_true_iff in H. destruct H as [H1 H2].
    apply andb_true_iff. split; [apply HPQ; exact H1|].
    rewrite forallb_forall in *. intros e He. rewrite Forall_forall in IH. apply (IH e He). apply H2. exact He.
Qed.
Lemma lt_ids_mono a b t : (a <= b)%N -> lt_ids a t = true -> lt_ids b t = true.
Proof.
  intros Hab. apply all_ids_impl. intros j Hj. apply N.ltb_lt in Hj. apply N.ltb_lt. lia.
Qed.
Lemma ge_ids_mono a b t : (b <= a)%N -> ge_ids a t = true -> ge_ids b t = true.
Proof.
  intros Hab. apply all_ids_impl. intros j Hj. apply N.leb_le in Hj. apply N.leb_le. lia.
Qed.

(* frame: a mutation of a container that does not occur in t is not seen from t *)
Lemma upd_frame i m t : all_ids (fun j => negb (N.eqb j i)) t = true -> upd i m t = t.
Proof.
  induction t as [a|j kv IH|j xs IH] using pv_ind'; [reflexivity| |].
  - rewrite all_ids_PD, upd_PD. intros H. apply andb_true_iff in H. destruct H as [H1 H2].
    apply negb_true_iff in H1. rewrite H1.
    f_equal. unfold upd_kv. rewrite forallb_forall in H2. rewrite Forall_forall in IH.
    rewrite <- (map_id kv) at 2. apply map_ext_in. intros [k v] He. cbn [fst snd]. f_equal. apply (IH _ He). apply (H2 _ He).
  - rewrite all_ids_PL, upd_PL. intros H. apply andb_true_iff in H. destruct H as [H1 H2].
    apply negb_true_iff in H1. rewrite H1.
    f_equal. rewrite forallb_forall in H2. rewrite Forall_forall in IH.
    rewrite <- (map_id xs) at 2. apply map_ext_in. intros v He. apply (IH _ He). apply (H2 _ He).
Qed.
Lemma upd_frame_lt n i m t : lt_ids n t = true -> (n <= i)%N -> upd i m t = t.
Proof.
  intros H Hi. apply upd_frame. revert H. apply all_ids_impl. intros j Hj. apply N.ltb_lt in Hj.
  apply negb_true_iff. apply N.eqb_neq. lia.
Qed.
Lemma apply_log_frame n lg : forall t, lt_ids n t = true -> targets_ge n lg = true -> apply_log lg t = t.
Proof.
  unfold apply_log, targets_ge. induction lg as [|[i m] lg IH]; intros t Ht Hl; [reflexivity|].
  cbn [fold_left forallb fst snd] in *. apply andb_true_iff in Hl. destruct Hl as [H1 H2]. apply N.leb_le in H1.
  rewrite (upd_frame_lt n i m t Ht H1). apply IH; assumption.
Qed.

Lemma lt_bound t : lt_ids (bound t) t = true.
Proof.
  unfold lt_ids. induction t as [a|i kv IH|i xs IH] using pv_ind'; [reflexivity| |].
  - rewrite all_ids_PD, bound_PD. apply andb_true_iff. split; [apply N.ltb_lt; lia|].
    apply forallb_forall. intros e He. rewrite Forall_forall in IH.
    apply (lt_ids_mono (bound (snd e))); [|apply (IH e He)].
    clear IH. induction kv as [|e' r IHr]; [destruct He|]. cbn [fold_right]. destruct He as [->|He]; [lia|].
    specialize (IHr He). lia.
  - rewrite all_ids_PL, bound_PL. apply andb_true_iff. split; [apply N.ltb_lt; lia|].
    apply forallb_forall. intros e He. rewrite Forall_forall in IH.
    apply (lt_ids_mono (bound e)); [|apply (IH e He)].
    clear IH. induction xs as [|e' r IHr]; [destruct He|]. cbn [fold_right]. destruct He as [->|He]; [lia|].
    specialize (IHr He). lia.
Qed.

(* deepclone only makes new containers *)
Lemma ge_shift n t : ge_ids n (shift n t) = true.
Proof.
  unfold ge_ids. induction t as [a|i kv IH|i xs IH] using pv_ind'; [reflexivity| |].
  - rewrite shift_PD, all_ids_PD. apply andb_true_iff. split; [apply N.leb_le; lia|].
    rewrite forallb_forall. intros e He. apply in_map_iff in He. destruct He as [e0 [<- He0]]. cbn [snd].
    rewrite Forall_forall in IH. apply (IH e0 He0).
  - rewrite shift_PL, all_ids_PL. apply andb_true_iff. split; [apply N.leb_le; lia|].
    rewrite forallb_forall. intros e He. apply in_map_iff in He. destruct He as [e0 [<- He0]].
    rewrite Forall_forall in IH. apply (IH e0 He0).
Qed.

(* every container a mutation brings in is new *)
Definition mut_ge (n : N) (m : mutn) : bool :=
  match m with MSet _ v => ge_ids n v | MExtend ys => forallb (ge_ids n) ys | _ => true end.
Definition log_ok (n : N) (lg : wlog) : bool := forallb (fun e => N.leb n (fst e) && mut_ge n (snd e)) lg.

Lemma forallb_assoc_remove {A} (f : str * A -> bool) k l : forallb f l = true -> forallb f (assoc_remove k l) = true.
Proof.
  induction l as [|[k' v] r IH]; [reflexivity|]. cbn [forallb assoc_remove]. intros H. apply andb_true_iff in H. destruct H as [H1 H2].
  destruct (str_eqb k k'); [apply IH; exact H2|]. cbn [forallb]. rewrite H1. apply IH. exact H2.
Qed.
Lemma forallb_assoc_set {A} (f : str * A -> bool) k v l : (forall k', f (k', v) = true) -> forallb f l = true -> forallb f (assoc_set k v l) = true.
Proof.
  intros Hv. induction l as [|[k' v'] r IH]; [intros _; cbn [assoc_set forallb]; rewrite Hv; reflexivity|].
  cbn [forallb assoc_set]. intros H. apply andb_true_iff in H. destruct H as [H1 H2].
  destruct (str_eqb k k'); cbn [forallb]; [rewrite Hv, H2; reflexivity | rewrite H1; apply IH; exact H2].
Qed.
Lemma forallb_remove_first (f : pv -> bool) x l : forallb f l = true -> forallb f (remove_first x l) = true.
Proof.
  induction l as [|v r IH]; [reflexivity|]. cbn [forallb remove_first]. intros H. apply andb_true_iff in H. destruct H as [H1 H2].
  destruct (atom_is_str x v); [exact H2|]. cbn [forallb]. rewrite H1. apply IH. exact H2.
Qed.

Lemma ge_do_mut n m t : ge_ids n t = true -> mut_ge n m = true -> ge_ids n (do_mut m t) = true.
Proof.
  unfold ge_ids. intros Ht Hm. destruct m as [k|k v|x|ys], t as [a|i kv|i xs]; cbn [do_mut]; try exact Ht.
  - rewrite all_ids_PD in *. apply andb_true_iff in Ht. destruct Ht as [H1 H2]. rewrite H1. apply forallb_assoc_remove. exact H2.
  - rewrite all_ids_PD in *. apply andb_true_iff in Ht. destruct Ht as [H1 H2]. rewrite H1. apply forallb_assoc_set; [intros; exact Hm | exact H2].
  - rewrite all_ids_PL in *. apply andb_true_iff in Ht. destruct Ht as [H1 H2]. rewrite H1. apply forallb_remove_first. exact H2.
  - rewrite all_ids_PL in *. apply andb_true_iff in Ht. destruct Ht as [H1 H2]. rewrite H1. rewrite forallb_app, H2. exact Hm.
Qed.

Lemma ge_upd n i m t : ge_ids n t = true -> mut_ge n m = true -> ge_ids n (upd i m t) = true.
Proof.
  intros Ht Hm. revert Ht. induction t as [a|j kv IH|j xs IH] using pv_ind'; [intros; reflexivity| |].
  - intros Ht. rewrite upd_PD.
    assert (H' : ge_ids n (PD j (upd_kv i m kv)) = true).
    { unfold ge_ids in *. rewrite all_ids_PD in *. apply andb_true_iff in Ht. destruct Ht as [H1 H2]. rewrite H1. cbn [andb].
      rewrite forallb_forall in *. intros e He. unfold upd_kv in He. apply in_map_iff in He. destruct He as [e0 [<- He0]]. cbn [snd].
      rewrite Forall_forall in IH. apply (IH e0 He0). apply (H2 e0 He0). }
    destruct (N.eqb j i); [apply ge_do_mut; assumption | exact H'].
  - intros Ht. rewrite upd_PL.
    assert (H' : ge_ids n (PL j (map (upd i m) xs)) = true).
    { unfold ge_ids in *. rewrite all_ids_PL in *. apply andb_true_iff in Ht. destruct Ht as [H1 H2]. rewrite H1. cbn [andb].
      rewrite forallb_forall in *. intros e He. apply in_map_iff in He. destruct He as [e0 [<- He0]].
      rewrite Forall_forall in IH. apply (IH e0 He0). apply (H2 e0 He0). }
    destruct (N.eqb j i); [apply ge_do_mut; assumption | exact H'].
Qed.

Lemma ge_assoc_get n k kv v : forallb (fun e : str * pv => ge_ids n (snd e)) kv = true -> assoc_get k kv = Some v -> ge_ids n v = true.
Proof.
  induction kv as [|[k' v'] r IH]; [discriminate|]. cbn [forallb assoc_get snd]. intros H. apply andb_true_iff in H. destruct H as [H1 H2].
  destruct (str_eqb k k'); [intros E; inversion E; subst; exact H1 | apply IH; exact H2].
Qed.
Lemma ge_d_get n k t v : ge_ids n t = true -> d_get k t = Some v -> ge_ids n v = true.
Proof.
  destruct t as [a|i kv|i xs]; cbn [d_get]; try discriminate. unfold ge_ids at 1. rewrite all_ids_PD. intros H. apply andb_true_iff in H.
  destruct H as [_ H]. apply ge_assoc_get. exact H.
Qed.
Lemma ge_root n t i : ge_ids n t = true -> root_id t = Some i -> (n <= i)%N.
Proof.
  destruct t as [a|j kv|j xs]; cbn [root_id]; try discriminate; unfold ge_ids; [rewrite all_ids_PD | rewrite all_ids_PL];
    intros H E; inversion E; subst; apply andb_true_iff in H; destruct H as [H _]; apply N.leb_le in H; exact H.
Qed.
Lemma ge_d_get_id n k t i : ge_ids n t = true -> d_get_id k t = Some i -> (n <= i)%N.
Proof.
  unfold d_get_id. destruct (d_get k t) as [v|] eqn:E; [|discriminate]. intros H. apply (ge_root n v). apply (ge_d_get n k t v H E).
Qed.

Lemma ge_apply_log n lg : forall t, ge_ids n t = true -> log_ok n lg = true -> ge_ids n (apply_log lg t) = true.
Proof.
  unfold apply_log, log_ok. induction lg as [|[i m] lg IH]; intros t Ht Hl; [exact Ht|].
  cbn [fold_left forallb fst snd] in *. apply andb_true_iff in Hl. destruct Hl as [H1 H2]. apply andb_true_iff in H1. destruct H1 as [_ H1].
  apply IH; [apply ge_upd; assumption | exact H2].
Qed.
Lemma log_ok_targets n lg : log_ok n lg = true -> targets_ge n lg = true.
Proof.
  unfold log_ok, targets_ge. rewrite !forallb_forall. intros H e He. specialize (H e He). apply andb_true_iff in H. destruct H as [H _]. exact H.
Qed.
Lemma log_ok_app n a b : log_ok n a = true -> log_ok n b = true -> log_ok n (a ++ b) = true.
Proof. unfold log_ok. intros Ha Hb. rewrite forallb_app, Ha, Hb. reflexivity. Qed.
Lemma mut_ge_mono a b m : (b <= a)%N -> mut_ge a m = true -> mut_ge b m = true.
Proof.
  intros Hab. destruct m as [k|k v|x|ys]; cbn [mut_ge]; try (intros; reflexivity).
  - apply ge_ids_mono. exact Hab.
  - rewrite !forallb_forall. intros H e He. apply (ge_ids_mono a b); [exact Hab | apply H; exact He].
Qed.
Lemma log_ok_mono a b lg : (b <= a)%N -> log_ok a lg = true -> log_ok b lg = true.
Proof.
  intros Hab. unfold log_ok. rewrite !forallb_forall. intros H e He. specialize (H e He). apply andb_true_iff in H. destruct H as [H1 H2].
  apply andb_true_iff. split; [apply N.leb_le in H1; apply N.leb_le; lia | apply (mut_ge_mono a b); assumption].
Qed.

(* the invariant of a conversion whose working value was allocated at or after n: it only touches such containers *)
Definition inv (n : N) (s : cst) : Prop :=
  ge_ids n (cst_w s) = true /\ log_ok n (snd (fst s)) = true /\ (n <= snd s)%N.

Lemma emit_inv n i m s : inv n s -> (n <= i)%N -> mut_ge n m = true -> inv n (emit i m s).
Proof.
  destruct s as [[w lg] c]. unfold inv, emit, cst_w. cbn [fst snd]. intros [H1 [H2 H3]] Hi Hm. repeat split.
  - apply ge_upd; assumption.
  - apply log_ok_app; [exact H2|]. unfold log_ok. cbn [forallb fst snd]. rewrite Hm. apply N.leb_le in Hi. rewrite Hi. reflexivity.
  - exact H3.
Qed.
Lemma emit_opt_inv n i m s : inv n s -> (forall j, i = Some j -> (n <= j)%N) -> mut_ge n m = true -> inv n (emit_opt i m s).
Proof.
  intros Hs Hi Hm. destruct i as [j|]; cbn [emit_opt]; [apply emit_inv; auto | exact Hs].
Qed.

Lemma rw_step_inv n pred rid pid s forb item :
  inv n s -> (forall j, rid = Some j -> (n <= j)%N) -> (forall j, pid = Some j -> (n <= j)%N) ->
  inv n (fst (rw_step pred rid pid (s, forb) item)).
Proof.
  intros Hs Hr Hp. unfold rw_step. destruct item as [name sub]. destruct (pred sub); cbn [fst]; [|exact Hs].
  apply emit_opt_inv; [|exact Hp|reflexivity].
  destruct (list_has name (d_get s_required (cst_w s))); [apply emit_opt_inv; [exact Hs|exact Hr|reflexivity] | exact Hs].
Qed.
Lemma rw_fold_inv n pred rid pid items : forall acc,
  inv n (fst acc) -> (forall j, rid = Some j -> (n <= j)%N) -> (forall j, pid = Some j -> (n <= j)%N) ->
  inv n (fst (fold_left (rw_step pred rid pid) items acc)).
Proof.
  induction items as [|it r IH]; intros [s forb] Hs Hr Hp; [exact Hs|]. cbn [fold_left]. apply IH; [|exact Hr|exact Hp].
  apply rw_step_inv; assumption.
Qed.

Lemma inv_w n s : inv n s -> ge_ids n (cst_w s) = true.
Proof. intros [H _]. exact H. Qed.
Lemma inv_counter n s : inv n s -> (n <= snd s)%N.
Proof. intros [_ [_ H]]. exact H. Qed.
Lemma inv_bump n w lg c : inv n (w, lg, c) -> inv n (w, lg, (c + 1)%N).
Proof. unfold inv, cst_w. cbn [fst snd]. intros [H1 [H2 H3]]. repeat split; [exact H1|exact H2|lia]. Qed.
Lemma ge_fresh_dict n c : (n <= c)%N -> ge_ids n (PD c []) = true.
Proof. intros H. unfold ge_ids. cbn [all_ids]. apply N.leb_le in H. rewrite H. reflexivity. Qed.
Lemma ge_fresh_list n c xs : (n <= c)%N -> forallb (ge_ids n) xs = true -> ge_ids n (PL c xs) = true.
Proof. intros H Hx. unfold ge_ids in *. rewrite all_ids_PL. apply N.leb_le in H. rewrite H. exact Hx. Qed.
Lemma ge_strs n (l : list str) : forallb (ge_ids n) (map (fun x => PA (AStr x)) l) = true.
Proof. induction l as [|x r IH]; [reflexivity|]. cbn [map forallb]. exact IH. Qed.
Lemma ge_dedup n l : forall seen, forallb (ge_ids n) l = true -> forallb (ge_ids n) (dedup_strs seen l) = true.
Proof.
  induction l as [|v r IH]; intros seen H; [reflexivity|]. cbn [forallb] in H. apply andb_true_iff in H. destruct H as [H1 H2].
  cbn [dedup_strs]. destruct v as [[| | |s]|i kv|i xs]; try (cbn [forallb]; rewrite H1; apply IH; exact H2).
  destruct (has_key s seen); [apply IH; exact H2 | cbn [forallb]; rewrite H1; apply IH; exact H2].
Qed.

Definition cur_not (x : cst) : pv := match d_get s_not (cst_w x) with Some d => d | None => PA ANull end.
Lemma forbid_inv n wid forb s : inv n s -> (n <= wid)%N -> inv n (forbid wid forb s).
Proof.
  intros Hs Hw. unfold forbid.
  (* not_schema *)
  assert (H1 : exists s1 nid, (match d_get_id s_not (cst_w s) with
                               | Some i => (s, i)
                               | None => let '(w, lg, n0) := s in (emit wid (MSet s_not (PD n0 [])) (w, lg, (n0 + 1)%N), n0)
                               end) = (s1, nid) /\ inv n s1 /\ (n <= nid)%N).
  { destruct (d_get_id s_not (cst_w s)) as [i|] eqn:E.
    - exists s, i. split; [reflexivity|]. split; [exact Hs|]. apply (ge_d_get_id n s_not (cst_w s)); [apply inv_w; exact Hs | exact E].
    - destruct s as [[w lg] c]. eexists. exists c. split; [reflexivity|]. pose proof (inv_counter _ _ Hs) as Hc. cbn [snd] in Hc. split; [|exact Hc].
      apply emit_inv; [apply inv_bump; exact Hs | exact Hw | cbn [mut_ge]; apply ge_fresh_dict; exact Hc]. }
  destruct H1 as [s1 [nid [E1 [Hs1 Hnid]]]]. rewrite E1. clear E1.
  (* already_forbidden *)
  assert (Hcur : forall x, inv n x -> ge_ids n (cur_not x) = true).
  { intros x Hx. unfold cur_not. destruct (d_get s_not (cst_w x)) as [d|] eqn:E; [|reflexivity]. apply (ge_d_get n s_not (cst_w x)); [apply inv_w; exact Hx | exact E]. }
  assert (H2 : exists s2 lid, (match d_get_id s_required (cur_not s1) with
                               | Some i => (s1, i)
                               | None => let '(w, lg, n0) := s1 in (emit nid (MSet s_required (PL n0 [])) (w, lg, (n0 + 1)%N), n0)
                               end) = (s2, lid) /\ inv n s2 /\ (n <= lid)%N).
  { destruct (d_get_id s_required (cur_not s1)) as [i|] eqn:E.
    - exists s1, i. split; [reflexivity|]. split; [exact Hs1|]. apply (ge_d_get_id n s_required (cur_not s1)); [apply Hcur; exact Hs1 | exact E].
    - destruct s1 as [[w lg] c]. eexists. exists c. split; [reflexivity|]. pose proof (inv_counter _ _ Hs1) as Hc. cbn [snd] in Hc. split; [|exact Hc].
      apply emit_inv; [apply inv_bump; exact Hs1 | exact Hnid | cbn [mut_ge]; apply ge_fresh_list; [exact Hc | reflexivity]]. }
  destruct H2 as [s2 [lid [E2 [Hs2 Hlid]]]]. unfold cur_not in E2. rewrite E2. clear E2.
  (* extend *)
  assert (Hs3 : inv n (emit lid (MExtend (map (fun x => PA (AStr x)) forb)) s2)).
  { apply emit_inv; [exact Hs2 | exact Hlid | cbn [mut_ge]; apply ge_strs]. }
  set (s3 := emit lid (MExtend (map (fun x => PA (AStr x)) forb)) s2) in *.
  assert (Hal : forallb (ge_ids n) (match d_get s_required (cur_not s3) with Some (PL _ xs) => xs | _ => [] end) = true).
  { destruct (d_get s_required (cur_not s3)) as [v|] eqn:E; [|reflexivity]. destruct v as [a|i kv|i xs]; try reflexivity.
    pose proof (ge_d_get n s_required (cur_not s3) _ (Hcur s3 Hs3) E) as H. unfold ge_ids in H. rewrite all_ids_PL in H. apply andb_true_iff in H. destruct H as [_ H]. exact H. }
  unfold cur_not in Hal. destruct s3 as [[w lg] c] eqn:E3. pose proof (inv_counter _ _ Hs3) as Hc. cbn [snd] in Hc.
  apply emit_inv; [apply inv_bump; exact Hs3 | exact Hnid |]. cbn [mut_ge]. apply ge_fresh_list; [exact Hc|]. apply ge_dedup. exact Hal.
Qed.

Lemma rewrite_properties_inv n pred wid s : inv n s -> (n <= wid)%N -> inv n (rewrite_properties pred wid s).
Proof.
  intros Hs Hw. unfold rewrite_properties.
  pose proof (rw_fold_inv n pred (d_get_id s_required (cst_w s)) (d_get_id s_properties (cst_w s))
                (match d_get s_properties (cst_w s) with Some (PD _ kv) => kv | _ => [] end) (s, []) Hs
                (fun j E => ge_d_get_id n _ _ j (inv_w _ _ Hs) E) (fun j E => ge_d_get_id n _ _ j (inv_w _ _ Hs) E)) as H1.
  destruct (fold_left _ _ (s, [])) as [s1 forb]. cbn [fst] in H1.
  assert (H2 : inv n (match forb with [] => s1 | _ => forbid wid forb s1 end)).
  { destruct forb; [exact H1 | apply forbid_inv; assumption]. }
  set (s2 := match forb with [] => s1 | _ => forbid wid forb s1 end) in *.
  assert (H3 : inv n (if get_truthy s_required (cst_w s2) then s2 else emit wid (MDel s_required) s2)).
  { destruct (get_truthy s_required (cst_w s2)); [exact H2 | apply emit_inv; [exact H2|exact Hw|reflexivity]]. }
  set (s3 := if get_truthy s_required (cst_w s2) then s2 else emit wid (MDel s_required) s2) in *.
  destruct (get_truthy s_properties (cst_w s3)); [exact H3 | apply emit_inv; [exact H3|exact Hw|reflexivity]].
Qed.

Lemma to_json_schema_inv m copy resp n t :
  (copy = true \/ ge_ids m t = true) -> (m <= n)%N -> inv m (to_json_schema copy resp n t).
Proof.
  intros Hc Hmn. unfold to_json_schema.
  assert (H0 : exists w n1, (if copy then deepclone n t else (t, n)) = (w, n1) /\ ge_ids m w = true /\ (m <= n1)%N).
  { destruct copy.
    - eexists. eexists. split; [reflexivity|]. split; [apply (ge_ids_mono n m); [exact Hmn | apply ge_shift] | lia].
    - exists t, n. split; [reflexivity|]. destruct Hc as [Hc|Hc]; [discriminate|]. split; assumption. }
  destruct H0 as [w [n1 [E [Hw Hn1]]]]. rewrite E.
  assert (Hbase : inv m (w, [], n1)). { unfold inv, cst_w. cbn [fst snd]. repeat split; [exact Hw | exact Hn1]. }
  destruct w as [a|wid kv|i xs]; try exact Hbase.
  destruct (match d_get s_type (PD wid kv) with Some v => atom_is_str s_object v | None => false end); [|exact Hbase].
  apply rewrite_properties_inv; [exact Hbase|]. apply (ge_root m (PD wid kv)); [exact Hw | reflexivity].
Qed.

(* the two inner loops of transform, named *)
Definition tr_list (tr : N -> pv -> option cst) : N -> list pv -> option (list pv * wlog * N) :=
  fix go (n : N) (l : list pv) : option (list pv * wlog * N) :=
  match l with
  | [] => Some ([], [], n)
  | x :: r =>
      match tr n x with
      | None => None
      | Some (x', lx, n1) =>
          match go n1 r with
          | None => None
          | Some (r', lr, n2) => Some (x' :: r', lx ++ lr, n2)
          end
      end
  end.
Definition tr_items (tr : N -> pv -> option cst) (wid : N) : pv -> wlog -> N -> list (str * pv) -> option cst :=
  fix go (w : pv) (lg : wlog) (n : N) (items : list (str * pv)) : option cst :=
  match items with
  | [] => Some (w, lg, n)
  | (k, _) :: r =>
      match d_get k w with
      | None => go w lg n r
      | Some sub =>
          match tr n sub with
          | None => None
          | Some (c, lgc, n1) => go (upd wid (MSet k c) (apply_log lgc w)) (lg ++ lgc ++ [(wid, MSet k c)]) n1 r
          end
      end
  end.
Lemma tr_list_nil tr n : tr_list tr n [] = Some ([], [], n).
Proof. reflexivity. Qed.
Lemma tr_list_cons tr n x r : tr_list tr n (x :: r) =
  match tr n x with
  | None => None
  | Some (x', lx, n1) => match tr_list tr n1 r with None => None | Some (r', lr, n2) => Some (x' :: r', lx ++ lr, n2) end
  end.
Proof. reflexivity. Qed.
Lemma tr_items_nil tr wid w lg n : tr_items tr wid w lg n [] = Some (w, lg, n).
Proof. reflexivity. Qed.
Lemma tr_items_cons tr wid w lg n k v r : tr_items tr wid w lg n ((k, v) :: r) =
  match d_get k w with
  | None => tr_items tr wid w lg n r
  | Some sub =>
      match tr n sub with
      | None => None
      | Some (c, lgc, n1) => tr_items tr wid (upd wid (MSet k c) (apply_log lgc w)) (lg ++ lgc ++ [(wid, MSet k c)]) n1 r
      end
  end.
Proof. reflexivity. Qed.
Lemma transform_S f copy resp n t :
  transform (S f) copy resp n t =
  match t with
  | PA _ => Some (t, [], n)
  | PL _ xs => match tr_list (transform f copy resp) (n + 1)%N xs with
               | None => None
               | Some (xs', lg, n') => Some (PL n xs', lg, n')
               end
  | PD _ _ => let '(w, lg0, n1) := to_json_schema copy resp n t in
              match w with
              | PD wid kv => tr_items (transform f copy resp) wid w lg0 n1 kv
              | _ => Some (w, lg0, n1)
              end
  end.
Proof. destruct t; reflexivity. Qed.

Section TransformInv.
  Variables (m : N) (copy : bool) (tr : N -> pv -> option cst).
  Hypothesis Htr : forall n t r, (copy = true \/ ge_ids m t = true) -> (m <= n)%N -> tr n t = Some r -> inv m r.

  Lemma tr_list_inv : forall l n0 xs' lg n2,
    (m <= n0)%N -> (copy = true \/ forallb (ge_ids m) l = true) -> tr_list tr n0 l = Some (xs', lg, n2) ->
    forallb (ge_ids m) xs' = true /\ log_ok m lg = true /\ (m <= n2)%N.
  Proof.
    induction l as [|x r IH]; intros n0 xs' lg n2 Hn Hc E.
    - rewrite tr_list_nil in E. inversion E; subst. repeat split; try reflexivity; exact Hn.
    - rewrite tr_list_cons in E. destruct (tr n0 x) as [[[x' lx] n1]|] eqn:Ex; [|discriminate].
      destruct (tr_list tr n1 r) as [[[r' lr] n2']|] eqn:Er; [|discriminate]. inversion E; subst. clear E.
      assert (Hx : inv m (x', lx, n1)).
      { apply (Htr n0 x); [|exact Hn|exact Ex]. destruct Hc as [Hc|Hc]; [left; exact Hc|right]. cbn [forallb] in Hc. apply andb_true_iff in Hc. apply Hc. }
      destruct Hx as [Hx1 [Hx2 Hx3]]. unfold cst_w in Hx1. cbn [fst snd] in *.
      destruct (IH n1 r' lr n2 Hx3) as [Hr1 [Hr2 Hr3]]; [|exact Er|].
      { destruct Hc as [Hc|Hc]; [left; exact Hc|right]. cbn [forallb] in Hc. apply andb_true_iff in Hc. apply Hc. }
      repeat split; [cbn [forallb]; rewrite Hx1; exact Hr1 | apply log_ok_app; assumption | exact Hr3].
  Qed.

  Lemma tr_items_inv wid : forall items w lg n0 r,
    inv m (w, lg, n0) -> (m <= wid)%N -> tr_items tr wid w lg n0 items = Some r -> inv m r.
  Proof.
    induction items as [|[k v0] items IH]; intros w lg n0 r Hs Hw E.
    - rewrite tr_items_nil in E. inversion E; subst. exact Hs.
    - rewrite tr_items_cons in E. destruct (d_get k w) as [sub|] eqn:Eg; [|apply (IH w lg n0 r Hs Hw E)].
      destruct (tr n0 sub) as [[[c lgc] n1]|] eqn:Et; [|discriminate].
      destruct Hs as [Hs1 [Hs2 Hs3]]. unfold cst_w in Hs1. cbn [fst snd] in *.
      assert (Hc : inv m (c, lgc, n1)).
      { apply (Htr n0 sub); [right; apply (ge_d_get m k w); assumption | exact Hs3 | exact Et]. }
      destruct Hc as [Hc1 [Hc2 Hc3]]. unfold cst_w in Hc1. cbn [fst snd] in *.
      apply (IH (upd wid (MSet k c) (apply_log lgc w)) (lg ++ lgc ++ [(wid, MSet k c)]) n1 r); [|exact Hw|exact E]. unfold inv, cst_w. cbn [fst snd]. repeat split.
      + apply ge_upd; [apply ge_apply_log; assumption | exact Hc1].
      + apply log_ok_app; [exact Hs2|]. apply log_ok_app; [exact Hc2|]. unfold log_ok. cbn [forallb fst snd mut_ge].
        rewrite Hc1. apply N.leb_le in Hw. rewrite Hw. reflexivity.
      + exact Hc3.
  Qed.
End TransformInv.

Lemma transform_inv m copy resp : forall fuel n t r,
  (copy = true \/ ge_ids m t = true) -> (m <= n)%N -> transform fuel copy resp n t = Some r -> inv m r.
Proof.
  induction fuel as [|f IH]; intros n t r Hc Hn E; [discriminate|].
  rewrite transform_S in E. destruct t as [a|i kv|i xs].
  - inversion E; subst. unfold inv, cst_w. cbn [fst snd]. repeat split; try reflexivity; exact Hn.
  - pose proof (to_json_schema_inv m copy resp n (PD i kv) Hc Hn) as Hl.
    destruct (to_json_schema copy resp n (PD i kv)) as [[w lg0] n1].
    destruct w as [a|wid kv'|j xs]; try (inversion E; subst; exact Hl).
    apply (tr_items_inv m copy (transform f copy resp) IH wid kv' (PD wid kv') lg0 n1 r Hl); [|exact E].
    apply (ge_root m (PD wid kv')); [apply (inv_w _ _ Hl) | reflexivity].
  - destruct (tr_list (transform f copy resp) (n + 1)%N xs) as [[[xs' lg] n']|] eqn:El; [|discriminate]. inversion E; subst. clear E.
    destruct (tr_list_inv m copy (transform f copy resp) IH xs (n + 1)%N xs' lg n') as [H1 [H2 H3]]; [lia| |exact El|].
    { destruct Hc as [Hc|Hc]; [left; exact Hc|right]. unfold ge_ids in Hc. rewrite all_ids_PL in Hc. apply andb_true_iff in Hc. apply Hc. }
    unfold inv, cst_w. cbn [fst snd]. repeat split; [apply ge_fresh_list; assumption | exact H2 | exact H3].
Qed.

(* T1: a conversion with copy = true does not change any object that was alive when it started *)
Lemma conversion_pure fuel resp n t r lg n' o :
  transform fuel true resp n t = Some (r, lg, n') -> lt_ids n o = true -> apply_log lg o = o.
Proof.
  intros E Ho. pose proof (transform_inv n true resp fuel n t _ (or_introl eq_refl) (N.le_refl n) E) as [_ [H _]]. cbn [fst snd] in H.
  apply (apply_log_frame n); [exact Ho | apply log_ok_targets; exact H].
Qed.
Lemma level_pure resp n t o : lt_ids n o = true -> apply_log (snd (fst (to_json_schema true resp n t))) o = o.
Proof.
  intros Ho. pose proof (to_json_schema_inv n true resp n t (or_introl eq_refl) (N.le_refl n)) as [_ [H _]].
  apply (apply_log_frame n); [exact Ho | apply log_ok_targets; exact H].
Qed.
(* ... and an in-place conversion of a clone (rewritten_components: transform(deepclone(schema), callback with copy = False)) does not either *)
Lemma inplace_on_clone_pure fuel resp n t r lg n' o :
  transform fuel false resp (snd (deepclone n t)) (fst (deepclone n t)) = Some (r, lg, n') -> lt_ids n o = true -> apply_log lg o = o.
Proof.
  intros E Ho. unfold deepclone in E. cbn [fst snd] in E.
  pose proof (transform_inv n false resp fuel _ _ _ (or_intror (ge_shift n t)) (N.le_add_r n (bound t)) E) as [_ [H _]]. cbn [fst snd] in H.
  apply (apply_log_frame n); [exact Ho | apply log_ok_targets; exact H].
Qed.

(* T2: no history changes the raw document *)
Lemma step_pure fuel store ev s' : step fuel true store ev = Some s' -> s' = store.
Proof.
  destruct ev as [loc resp|body|loc]; cbn [step].
  - destruct (d_get loc store) as [doc|]; [|intros E; inversion E; reflexivity].
    destruct (transform fuel true resp (bound store) doc) as [[[r lg] n']|] eqn:Et; [|discriminate].
    intros E. inversion E; subst. apply (conversion_pure _ _ _ _ _ _ _ _ Et). apply lt_bound.
  - unfold gen_schema. destruct (label (bound store) body) as [b n1]. destruct (inline fuel store n1 b) as [[b' n2]|]; [|intros E; inversion E; reflexivity].
    destruct (transform fuel true false (N.max (N.max n2 (bound b')) (bound store)) b') as [[[r lg] n']|] eqn:Et; [|intros E; inversion E; reflexivity].
    intros E. inversion E; subst. apply (conversion_pure _ _ _ _ _ _ _ _ Et). apply (lt_ids_mono (bound store)); [lia | apply lt_bound].
  - destruct (d_get loc store) as [doc|]; [|intros E; inversion E; reflexivity]. unfold deepclone.
    destruct (transform fuel false false (bound store + bound doc)%N (shift (bound store) doc)) as [[[r lg] n']|] eqn:Et; [|discriminate].
    intros E. inversion E; subst. apply (inplace_on_clone_pure fuel false (bound store) doc r lg n'); [exact Et | apply lt_bound].
Qed.
Lemma run_pure fuel : forall h store s', run fuel true store h = Some s' -> s' = store.
Proof.
  induction h as [|ev h IH]; intros store s' E; cbn [run] in E; [inversion E; reflexivity|].
  destruct (step fuel true store ev) as [s1|] eqn:Es; [|discriminate]. apply step_pure in Es. subst s1. apply IH. exact E.
Qed.
(* T3: the generation schema an operation gets does not depend on what was converted / validated before it was initialised *)
Lemma gen_schema_history_independent fuel h store s' body :
  run fuel true store h = Some s' -> gen_schema fuel true s' body = gen_schema fuel true store body.
Proof. intros E. rewrite (run_pure fuel h store s' E). reflexivity. Qed.

(* non-vacuity and sensitivity: a User component with a readOnly id, a name and a REQUIRED writeOnly password, referenced by
   a response and by the request body of another operation *)
Definition k_u : str := [35; 117]%N.
Definition ex_user : json :=
  JObj [(s_type, JStr s_object);
        (s_properties, JObj [([105]%N, JObj [(s_readOnly, JBool true)]); ([110]%N, JObj []); ([112]%N, JObj [(s_writeOnly, JBool true)])]);
        (s_required, JArr [JStr [110]%N; JStr [112]%N])].
Definition ex_store : pv := fst (label 1%N (JObj [(k_u, ex_user)])).
Definition ex_body : json := JObj [(s_ref, JStr k_u)].
Definition gen_erased (fuel : nat) (copy : bool) (store : pv) (body : json) : option json :=
  match gen_schema fuel copy store body with Some (r, _, _) => Some (erase r) | None => None end.
Definition j_required_has (k : str) (j : option json) : bool :=
  match j with
  | Some (JObj kvs) =>
      match assoc_get s_required kvs with
      | Some (JArr l) => existsb (fun x => match x with JStr s => str_eqb k s | _ => false end) l
      | _ => false
      end
  | _ => false
  end.
Lemma history_examples :
  (* the code (copy = true): the response-side conversion of User really rewrites it, the document stays as it was, and the
     operation initialised afterwards still requires password *)
  (exists r lg n', transform 20 true true (bound ex_store) (match d_get k_u ex_store with Some d => d | None => PA ANull end) = Some (r, lg, n')
                   /\ lg <> [] /\ j_required_has [112]%N (Some (erase r)) = false) /\
  run 20 true ex_store [EvConvert k_u true; EvInit ex_body] = Some ex_store /\
  j_required_has [112]%N (gen_erased 20 true ex_store ex_body) = true /\
  (* the same history with an in-place conversion: the document loses password and so does the generation schema *)
  (exists s', run 20 false ex_store [EvConvert k_u true] = Some s' /\ erase s' <> erase ex_store /\
              j_required_has [112]%N (gen_erased 20 true s' ex_body) = false).
Proof.
  split; [|split; [|split]].
  - eexists. eexists. eexists. split; [vm_compute; reflexivity|]. split; [discriminate | vm_compute; reflexivity].
  - vm_compute. reflexivity.
  - vm_compute. reflexivity.
  - eexists. split; [vm_compute; reflexivity|]. split; [vm_compute; discriminate | vm_compute; reflexivity].
Qed.

(* ------------------------------------------------------------------------------------ *)
(* 10. Where the rewriter runs (Model_C01 section 10)                                     *)
(* ------------------------------------------------------------------------------------ *)
Definition kw_accepts catp (k : kw) (s : str) : Prop :=
  (match k_pattern k with Some p => search catp p s | None => True end) /\ len_in (k_min k) (k_max k) s = true.
Definition decl_accepts catp (d : decl) (s : str) : Prop :=
  (match d_pattern d with Some p => search catp p s | None => True end) /\ len_in (d_min d) (d_max d) s = true.
Definition no_rewrite_step (steps : list pstep) : bool := negb (existsb is_rewrite_step steps).

(* rewrite_kw is update_pattern_in_schema of section 3 on the three keywords of the dict *)
Lemma rewrite_kw_spec k k' p : rewrite_kw k = Some k' -> k_pattern k = Some p ->
  exists p', k_pattern k' = Some p' /\ update_pattern_in_schema p (k_min k) (k_max k) = Some (p', k_min k', k_max k').
Proof.
  intros H Hp. unfold rewrite_kw in H. rewrite Hp in H. unfold update_pattern_in_schema.
  destruct p as [|x p0]; [inversion H; subst; eauto|].
  destruct (py_truthy (k_min k) || py_truthy (k_max k)); [|inversion H; subst; eauto].
  destruct (update_quantifier (x :: p0) (k_min k) (k_max k)) as [|q|]; [inversion H; subst; eauto | | discriminate].
  inversion H; subst. cbn. eauto.
Qed.

Lemma rewrite_kw_idle k : py_truthy (k_min k) || py_truthy (k_max k) = false -> rewrite_kw k = Some k.
Proof.
  intros H. unfold rewrite_kw. destruct (k_pattern k) as [[|x p]|]; try reflexivity. rewrite H. reflexivity.
Qed.

Lemma rewrite_kw_changed k k' : rewrite_kw k = Some k' ->
  k' = k \/ (k_rewritten k' = true /\ py_truthy (k_min k) || py_truthy (k_max k) = true).
Proof.
  intros H. unfold rewrite_kw in H. destruct (k_pattern k) as [[|x p]|]; try (inversion H; auto; fail).
  destruct (py_truthy (k_min k) || py_truthy (k_max k)) eqn:E; [|inversion H; auto].
  destruct (update_quantifier (x :: p) (k_min k) (k_max k)); [inversion H; auto | | discriminate].
  inversion H; subst. right. split; reflexivity.
Qed.

(* a step that is not the rewriter never touches pattern / rewritten, and only narrows the accepted strings *)
Lemma apply_step_keeps l s g g' : is_rewrite_step s = false -> apply_step l s g = Some g' ->
  g_pattern g' = g_pattern g /\ g_rewritten g' = g_rewritten g /\
  k_max (g_kw g') = k_max (g_kw g) /\ (k_min (g_kw g') = k_min (g_kw g) \/ (k_min (g_kw g) = None /\ k_min (g_kw g') = Some 1)).
Proof.
  intros Hs H. destruct s; try discriminate; cbn [apply_step] in H.
  - destruct g as [k|t m k]; destruct (is_header_loc l); inversion H; subst g'; cbn; auto.
  - destruct g as [k|t m k]; destruct (is_path_loc l); inversion H; subst g'; cbn; auto.
    + destruct (is_string (k_type k)); cbn; [|auto]. destruct (k_min k); cbn; repeat split; auto.
    + destruct (is_string t); cbn; auto.
  - destruct g as [k|t m k]; destruct (is_header_loc l); inversion H; subst g'; cbn; auto.
    destruct (only_type_string k); cbn; auto.
Qed.

Lemma run_steps_keeps l steps : forall g g', no_rewrite_step steps = true -> run_steps l steps g = Some g' ->
  g_pattern g' = g_pattern g /\ g_rewritten g' = g_rewritten g /\
  k_max (g_kw g') = k_max (g_kw g) /\ (k_min (g_kw g') = k_min (g_kw g) \/ (k_min (g_kw g) = None /\ k_min (g_kw g') = Some 1)).
Proof.
  induction steps as [|s steps IH]; intros g g' Hn H.
  - inversion H; subst. auto.
  - cbn [run_steps] in H. destruct (apply_step l s g) as [g1|] eqn:E; [|discriminate].
    unfold no_rewrite_step in Hn. cbn [existsb] in Hn. apply negb_true_iff in Hn. apply orb_false_iff in Hn. destruct Hn as [Hs Hr].
    destruct (apply_step_keeps l s g g1 Hs E) as (P1 & R1 & X1 & M1).
    assert (Hn' : no_rewrite_step steps = true) by (unfold no_rewrite_step; rewrite Hr; reflexivity).
    destruct (IH g1 g' Hn' H) as (P2 & R2 & X2 & M2).
    rewrite P2, R2, X2, P1, R1, X1. repeat split; auto.
    destruct M2 as [M2|[M2a M2b]]; destruct M1 as [M1|[M1a M1b]].
    + left. congruence.
    + right. split; congruence.
    + right. split; congruence.
    + congruence.
Qed.

Lemma as_json_schema_inv l d g : as_json_schema l d = Some g ->
  exists k', rewrite_kw (mkKw (d_type d) (d_pattern d) false (d_min d) (d_max d) (d_other d || is_nfalse (d_nullable d)) false) = Some k' /\
             g_pattern g = k_pattern k' /\ g_rewritten g = k_rewritten k' /\ k_min (g_kw g) = k_min k' /\ k_max (g_kw g) = k_max k'.
Proof.
  unfold as_json_schema, convert. intros H.
  destruct (rewrite_kw _) as [k'|] eqn:E; [|discriminate]. exists k'. split; [reflexivity|].
  cbn [apply_step] in H. destruct (is_header_loc l); inversion H; subst; destruct (is_ntrue (d_nullable d)); cbn; auto.
Qed.

(* (1) the pattern of a parameter schema is rewritten only if the DECLARED schema carries a (truthy) minLength or maxLength:
   all locations, all declared schemas, every list of later steps that does not call the rewriter *)
Lemma rewritten_only_under_declared_length steps l d g :
  no_rewrite_step steps = true -> gen_prop_with steps l d = Some g ->
  (g_rewritten g = true \/ g_pattern g <> d_pattern d) -> declared_length d = true.
Proof.
  intros Hn H Hch. unfold gen_prop_with in H. destruct (as_json_schema l d) as [g0|] eqn:E; [|discriminate].
  destruct (run_steps_keeps l steps g0 g Hn H) as (P & R & _ & _).
  destruct (as_json_schema_inv l d g0 E) as (k' & Hk & P0 & R0 & _ & _).
  destruct (rewrite_kw_changed _ _ Hk) as [->|[_ Ht]]; [|exact Ht].
  rewrite P, R, P0, R0 in Hch. cbn in Hch. destruct Hch as [Hc|Hc]; [discriminate|contradiction].
Qed.

Lemma undeclared_length_pattern_is_declared steps l d :
  no_rewrite_step steps = true -> declared_length d = false ->
  (forall g, gen_prop_with steps l d = Some g -> g_pattern g = d_pattern d /\ g_rewritten g = false) /\
  (exists g, gen_prop_with steps l d = Some g).
Proof.
  intros Hn Hd. split.
  - intros g H. unfold gen_prop_with in H. destruct (as_json_schema l d) as [g0|] eqn:E; [|discriminate].
    destruct (run_steps_keeps l steps g0 g Hn H) as (P & R & _ & _).
    destruct (as_json_schema_inv l d g0 E) as (k' & Hk & P0 & R0 & _ & _).
    rewrite rewrite_kw_idle in Hk by exact Hd. inversion Hk; subst k'. rewrite P, R, P0, R0. cbn. auto.
  - unfold gen_prop_with, as_json_schema, convert. rewrite rewrite_kw_idle by exact Hd.
    assert (Hrun : forall st g, no_rewrite_step st = true -> exists g', run_steps l st g = Some g').
    { induction st as [|s st IH]; intros g Hs; [eexists; reflexivity|].
      unfold no_rewrite_step in Hs. cbn [existsb] in Hs. apply negb_true_iff in Hs. apply orb_false_iff in Hs. destruct Hs as [Hs Hr].
      cbn [run_steps]. assert (exists g1, apply_step l s g = Some g1) as [g1 ->].
      { destruct s; try discriminate; cbn [apply_step]; [destruct (is_header_loc l)|destruct (is_path_loc l)|destruct (is_header_loc l)]; eauto. }
      apply IH. unfold no_rewrite_step. rewrite Hr. reflexivity. }
    cbn [apply_step]. destruct (is_header_loc l); apply Hrun; exact Hn.
Qed.

(* (2) path parameters that declare no length keyword: the code as it is never raises, generates from the DECLARED pattern,
   and a plain string parameter gets the implied minLength 1 next to it *)
Lemma path_pattern_is_declared d : d_min d = None -> d_max d = None ->
  exists g, gen_prop LPath d = Some g /\ g_pattern g = d_pattern d /\ g_rewritten g = false /\ k_max (g_kw g) = None /\
            k_min (g_kw g) = (if is_string (d_type d) && negb (is_ntrue (d_nullable d)) then Some 1 else None).
Proof.
  intros Hmn Hmx. unfold gen_prop, gen_prop_with, as_json_schema, convert.
  rewrite rewrite_kw_idle by (cbn; rewrite Hmn, Hmx; reflexivity).
  destruct (is_ntrue (d_nullable d)) eqn:En; cbn [apply_step is_header_loc dict_steps run_steps is_path_loc].
  - eexists. split; [reflexivity|]. cbn. rewrite andb_false_r. auto.
  - cbn [k_type]. destruct (is_string (d_type d)) eqn:Es; cbn [k_type apply_step is_header_loc].
    + eexists. split; [reflexivity|]. cbn. rewrite Hmn. cbn. auto.
    + eexists. split; [reflexivity|]. cbn. auto.
Qed.

(* (3) the generated values: a string accepted by the dict the implementation generates from is accepted by the DECLARED
   keywords - unconditionally when no length is declared, inside the regions of the rewriter otherwise *)
Lemma generation_value_conforms catp steps l d g s :
  no_rewrite_step steps = true -> gen_prop_with steps l d = Some g -> pipeline_region d s = true ->
  kw_accepts catp (g_kw g) s -> decl_accepts catp d s.
Proof.
  intros Hn H Hreg [Hp Hl]. unfold gen_prop_with in H. destruct (as_json_schema l d) as [g0|] eqn:E; [|discriminate].
  destruct (run_steps_keeps l steps g0 g Hn H) as (P & _ & X & Mi).
  destruct (as_json_schema_inv l d g0 E) as (k' & Hk & P0 & _ & Mi0 & X0).
  unfold g_pattern in P, P0. rewrite P, P0 in Hp. rewrite X, X0 in Hl.
  assert (Hl' : len_in (k_min k') (k_max k') s = true).
  { destruct Mi as [Mi|[Mia Mib]]; [rewrite Mi, Mi0 in Hl; exact Hl|].
    rewrite Mib in Hl. rewrite Mi0 in Mia. rewrite Mia. unfold len_in in *. apply andb_true_iff in Hl. destruct Hl as [_ Hl]. exact Hl. }
  clear Hl Mi Mi0 X X0 P P0 H E g g0.
  unfold decl_accepts. destruct (d_pattern d) as [p|] eqn:Edp.
  - destruct (rewrite_kw_spec _ _ p Hk eq_refl) as (p' & Hp' & Hup). cbn [k_min k_max] in Hup. rewrite Hp' in Hp.
    unfold pipeline_region in Hreg. rewrite Edp in Hreg. destruct (declared_length d) eqn:Ed; cbn [negb orb] in Hreg.
    + repeat (apply andb_true_iff in Hreg; destruct Hreg as [Hreg ?]).
      eapply schema_sound; eauto.
    + rewrite rewrite_kw_idle in Hk by exact Ed. inversion Hk; subst k'. cbn in *. inversion Hp'; subst. auto.
  - unfold rewrite_kw in Hk. cbn in Hk. inversion Hk; subst k'. cbn in *. auto.
Qed.

(* ---- the whole location ---- *)
Lemma assoc_get_map_steps l steps : forall props props' name g', map_steps l steps props = Some props' ->
  assoc_get name props' = Some g' -> exists g, assoc_get name props = Some g /\ run_steps l steps g = Some g'.
Proof.
  induction props as [|[n g] props IH]; intros props' name g' H Hg.
  - inversion H; subst. discriminate.
  - cbn [map_steps] in H. destruct (run_steps l steps g) as [g1|] eqn:E1; [|discriminate].
    destruct (map_steps l steps props) as [r|] eqn:E2; [|discriminate]. inversion H; subst.
    cbn [assoc_get] in *. destruct (str_eqb name n); [inversion Hg; subst; eauto|]. eapply IH; eauto.
Qed.

Lemma map_steps_keys l steps : forall props props', map_steps l steps props = Some props' -> map fst props' = map fst props.
Proof.
  induction props as [|[n g] props IH]; intros props' H; [inversion H; reflexivity|].
  cbn [map_steps] in H. destruct (run_steps l steps g); [|discriminate]. destruct (map_steps l steps props) eqn:E; [|discriminate].
  inversion H; subst. cbn. f_equal. apply IH; reflexivity.
Qed.

Lemma params_to_schema_get l : forall ps props req props' req' name g,
  params_to_schema l ps props req = Some (props', req') -> assoc_get name props' = Some g ->
  assoc_get name props = Some g \/ exists p, In p ps /\ p_name p = name /\ as_json_schema l (p_decl p) = Some g.
Proof.
  induction ps as [|p ps IH]; intros props req props' req' name g H Hg.
  - inversion H; subst. auto.
  - cbn [params_to_schema] in H. destruct (as_json_schema l (p_decl p)) as [g0|] eqn:E; [|discriminate].
    destruct (IH _ _ _ _ _ _ H Hg) as [Hin|(q & Hq & Hn & Hs)].
    + destruct (str_eqb name (p_name p)) eqn:En.
      * apply str_eqb_spec in En. subst name. rewrite assoc_get_set_same in Hin. inversion Hin; subst.
        right. exists p. split; [left; reflexivity|auto].
      * rewrite assoc_get_set_other in Hin by exact En. auto.
    + right. exists q. split; [right; exact Hq|auto].
Qed.

Lemma assoc_set_has {A} k (v : A) l k' : has_key k' (map fst (assoc_set k v l)) = has_key k' (map fst l) || str_eqb k' k.
Proof.
  induction l as [|[k0 v0] l IH]; cbn [assoc_set map fst has_key existsb].
  - rewrite orb_false_r. reflexivity.
  - destruct (str_eqb k k0) eqn:E; cbn [map fst existsb].
    + apply str_eqb_spec in E. subst k0. destruct (str_eqb k' k); cbn; [reflexivity|]. rewrite orb_false_r. reflexivity.
    + unfold has_key in IH. rewrite IH. rewrite orb_assoc. reflexivity.
Qed.

Lemma params_to_schema_keys l : forall ps props req props' req',
  params_to_schema l ps props req = Some (props', req') ->
  forall name, has_key name (map fst props') = has_key name (map fst props) || existsb (fun p => str_eqb name (p_name p)) ps.
Proof.
  induction ps as [|p ps IH]; intros props req props' req' H name.
  - inversion H; subst. cbn. rewrite orb_false_r. reflexivity.
  - cbn [params_to_schema] in H. destruct (as_json_schema l (p_decl p)) as [g0|]; [|discriminate].
    rewrite (IH _ _ _ _ H name). rewrite assoc_set_has. cbn [existsb]. rewrite orb_assoc. reflexivity.
Qed.

(* every property of the object handed to from_schema is the generation schema of one of the parameters *)
Lemma location_schema_props l ps props req name g :
  location_schema l ps = Some (props, req) -> assoc_get name props = Some g ->
  exists p, In p ps /\ p_name p = name /\ gen_prop l (p_decl p) = Some g.
Proof.
  unfold location_schema, location_schema_with. intros H Hg.
  destruct (params_to_schema l ps [] []) as [[props0 req0]|] eqn:E; [|discriminate].
  destruct (map_steps l dict_steps props0) as [props1|] eqn:E1; [|discriminate]. inversion H; subst.
  destruct (assoc_get_map_steps _ _ _ _ _ _ E1 Hg) as (g0 & Hg0 & Hrun).
  destruct (params_to_schema_get _ _ _ _ _ _ _ _ E Hg0) as [Hnil|(p & Hin & Hn & Hs)]; [discriminate|].
  exists p. repeat split; auto. unfold gen_prop, gen_prop_with. rewrite Hs. exact Hrun.
Qed.

(* all path parameters are required: required is the list of property names, and every parameter has a property *)
Lemma path_all_required ps props req :
  location_schema LPath ps = Some (props, req) ->
  req = map fst props /\ forall p, In p ps -> has_key (p_name p) req = true.
Proof.
  unfold location_schema, location_schema_with. intros H.
  destruct (params_to_schema LPath ps [] []) as [[props0 req0]|] eqn:E; [|discriminate].
  destruct (map_steps LPath dict_steps props0) as [props1|] eqn:E1; [|discriminate]. inversion H; subst. cbn [is_path_loc].
  rewrite (map_steps_keys _ _ _ _ E1). split; [reflexivity|].
  intros p Hin. rewrite (params_to_schema_keys _ _ _ _ _ _ E). cbn [map has_key existsb orb].
  apply existsb_exists. exists p. split; [exact Hin|apply str_eqb_refl].
Qed.

(* the end-to-end statement for a whole location, all parameter lists *)
Lemma location_values_conform catp l ps props req name g s :
  location_schema l ps = Some (props, req) -> assoc_get name props = Some g ->
  exists p, In p ps /\ p_name p = name /\
    ((g_rewritten g = true \/ g_pattern g <> d_pattern (p_decl p)) -> declared_length (p_decl p) = true) /\
    (pipeline_region (p_decl p) s = true -> kw_accepts catp (g_kw g) s -> decl_accepts catp (p_decl p) s).
Proof.
  intros H Hg. destruct (location_schema_props _ _ _ _ _ _ H Hg) as (p & Hin & Hn & Hgp).
  exists p. split; [exact Hin|]. split; [exact Hn|]. split.
  - apply (rewritten_only_under_declared_length dict_steps l); [reflexivity|exact Hgp].
  - apply (generation_value_conforms catp dict_steps l); [reflexivity|exact Hgp].
Qed.

(* ---- the seeded order is refuted: the rewriter called after the path default ---- *)
Lemma seeded_order_refuted catp :
  exists g, gen_prop_with seeded_dict_steps LPath d_single = Some g /\
            declared_length d_single = false /\ pipeline_region d_single s_abc = true /\
            g_rewritten g = true /\ g_pattern g <> d_pattern d_single /\
            kw_accepts catp (g_kw g) s_abc /\ ~ decl_accepts catp d_single s_abc.
Proof.
  eexists. split; [vm_compute; reflexivity|]. split; [reflexivity|]. split; [reflexivity|]. split; [reflexivity|].
  split; [cbn; intros H; inversion H|].
  split; [split; [apply search_b_sound; vm_compute; reflexivity | reflexivity]|].
  intros [Hs _]. destruct (refuted_single_char catp) as (p' & _ & _ & _ & Hno). apply Hno. split; [exact Hs|reflexivity].
Qed.

(* non-vacuity / sensitivity: the same parameter under the code as it is; a parameter WITH declared lengths is rewritten
   in every location (so the first theorem is not about a function that never rewrites) *)
Definition d_ok : decl := mkDecl (Some TyString) NFalse false (Some w_ok) (Some 2) (Some 5).
Lemma pipeline_examples :
  (exists g, gen_prop LPath d_single = Some g /\ g_pattern g = Some w_single /\ g_rewritten g = false /\ k_min (g_kw g) = Some 1) /\
  (forall l, exists g, gen_prop l d_ok = Some g /\ g_rewritten g = true /\ g_pattern g <> d_pattern d_ok /\
                       k_min (g_kw g) = (if is_path_loc l then Some 1 else None) /\ pipeline_region d_ok s_abc = true) /\
  (exists props, location_schema LHeader [mkParam [120%N] false (mkDecl (Some TyString) NAbsent false None None None);
                                          mkParam [121%N] true d_single; mkParam [120%N] true (mkDecl None NTrue false None None None)]
                 = Some (props, [121%N] :: [[120%N]]) /\ map fst props = [[120%N]; [121%N]]).
Proof.
  split; [eexists; split; [vm_compute; reflexivity|repeat split; reflexivity]|].
  split.
  - intros l. destruct l; (eexists; split; [vm_compute; reflexivity|]; repeat split; try reflexivity; cbn; intros H; inversion H).
  - eexists. split; vm_compute; reflexivity.
Qed.

(* ------------------------------------------------------------------------------------ *)
(* 11. The value chain of get_parameters_strategy                                        *)
(* ------------------------------------------------------------------------------------ *)
Lemma hex_roundtrip n : (n < 16)%N -> hex_val (hex_digit n) = n.
Proof.
  intros H.
  assert (E : (n = 0 \/ n = 1 \/ n = 2 \/ n = 3 \/ n = 4 \/ n = 5 \/ n = 6 \/ n = 7 \/ n = 8 \/ n = 9 \/ n = 10 \/ n = 11 \/
               n = 12 \/ n = 13 \/ n = 14 \/ n = 15)%N) by lia.
  repeat (destruct E as [E|E]; [subst; reflexivity|]). subst; reflexivity.
Qed.

Lemma unquote_quote_byte b rest : (b < 256)%N ->
  unquote_plus_bytes (quote_byte b ++ rest) = b :: unquote_plus_bytes rest.
Proof.
  intros Hb. unfold quote_byte.
  destruct (quote_safe b) eqn:Hs.
  - cbn [app unquote_plus_bytes].
    destruct (b =? 43)%N eqn:E1; [apply N.eqb_eq in E1; subst; discriminate Hs|].
    destruct (b =? 37)%N eqn:E2; [apply N.eqb_eq in E2; subst; discriminate Hs|]. reflexivity.
  - destruct (b =? 32)%N eqn:E3.
    + apply N.eqb_eq in E3; subst. reflexivity.
    + cbn [app unquote_plus_bytes]. change (37 =? 43)%N with false. change (37 =? 37)%N with true. cbv iota.
      rewrite !hex_roundtrip.
      * f_equal. pose proof (N.div_mod' b 16). lia.
      * apply N.mod_lt; lia.
      * apply N.div_lt_upper_bound; lia.
Qed.

Lemma unquote_quote_bytes bs : Forall (fun b => (b < 256)%N) bs ->
  unquote_plus_bytes (flat_map quote_byte bs) = bs.
Proof.
  induction 1 as [|b bs Hb _ IH]; [reflexivity|].
  cbn [flat_map]. rewrite unquote_quote_byte by exact Hb. rewrite IH. reflexivity.
Qed.

Lemma utf8_c_bytes c : Forall (fun b => (b < 256)%N) (utf8_c c).
Proof.
  unfold utf8_c.
  pose proof (N.mod_lt c 128 ltac:(lia)). pose proof (N.mod_lt c 64 ltac:(lia)).
  pose proof (N.mod_lt (c / 64) 32 ltac:(lia)). pose proof (N.mod_lt (c / 64) 64 ltac:(lia)).
  pose proof (N.mod_lt (c / 4096) 16 ltac:(lia)). pose proof (N.mod_lt (c / 4096) 64 ltac:(lia)).
  pose proof (N.mod_lt (c / 262144) 8 ltac:(lia)).
  destruct (c <? 128)%N; [|destruct (c <? 2048)%N; [|destruct (c <? 65536)%N]]; repeat constructor; lia.
Qed.

Lemma utf8_bytes s : Forall (fun b => (b < 256)%N) (utf8 s).
Proof.
  induction s as [|c s IH]; [constructor|]. unfold utf8 in *. cbn [flat_map].
  apply Forall_app. split; [apply utf8_c_bytes|exact IH].
Qed.

(* what a reader of the path value gets back: the UTF-8 bytes of the generated string *)
Lemma unquote_quote_plus s : unquote_plus_bytes (quote_plus s) = utf8 s.
Proof. unfold quote_plus. apply unquote_quote_bytes, utf8_bytes. Qed.

Lemma coerced_path_str s : coerced LPath (GStr s) (jsonify_val (quote_val (GStr s))) = true.
Proof.
  cbn [quote_val].
  destruct (str_eqb s [46%N]) eqn:E1; [apply str_eqb_spec in E1; subst; reflexivity|].
  destruct (str_eqb s [46; 46]%N) eqn:E2; [apply str_eqb_spec in E2; subst; reflexivity|].
  cbn [jsonify_val coerced]. rewrite unquote_quote_plus. apply str_eqb_refl.
Qed.

Lemma coerced_path g : coerced LPath g (jsonify_val (quote_val g)) = true.
Proof.
  destruct g as [s|[|]| |z]; [apply coerced_path_str|reflexivity|reflexivity|reflexivity|cbn; apply Z.eqb_refl].
Qed.
Lemma coerced_query g : coerced LQuery g (jsonify_val g) = true.
Proof. destruct g as [s|[|]| |z]; [cbn; apply str_eqb_refl|reflexivity|reflexivity|reflexivity|cbn; apply Z.eqb_refl]. Qed.
Lemma coerced_header l g : is_header_loc l = true -> coerced l g (GStr (py_str g)) = true.
Proof. destruct l; try discriminate; intros _; cbn [coerced]; apply str_eqb_refl. Qed.

Lemma all_coerced_map l f c : (forall g, coerced l g (f g) = true) -> all_coerced l c (map_vals f c) = true.
Proof.
  intros Hf. induction c as [|[n g] c IH]; [reflexivity|].
  cbn [map_vals map all_coerced fst snd]. rewrite str_eqb_refl, Hf. exact IH.
Qed.

Lemma map_vals_comp f g c : map_vals f (map_vals g c) = map_vals (fun x => f (g x)) c.
Proof. unfold map_vals. rewrite map_map. reflexivity. Qed.

(* a filter only removes draws: what passes is what came in *)
Lemma filter_only_removes l c c' : apply_vstep (VFilter l) c = Some c' -> c' = c /\ forallb (entry_valid l) c = true.
Proof. cbn [apply_vstep]. destruct (forallb (entry_valid l) c); intros H; inversion H; auto. Qed.

(* the chain of the code, location by location, as one map over the generated container *)
Definition chain_fun (l : ploc) (g : gval) : gval :=
  match l with
  | LHeader | LCookie => GStr (py_str g)
  | LPath => jsonify_val (quote_val g)
  | LQuery => jsonify_val g
  end.
Lemma value_chain_is_map l skip c c' :
  run_vsteps (value_chain l skip) c = Some c' -> c' = map_vals (chain_fun l) c.
Proof.
  destruct l; cbn [value_chain run_vsteps].
  - destruct (apply_vstep (VFilter LPath) c) as [c1|] eqn:E; [|discriminate].
    apply filter_only_removes in E. destruct E as [-> _]. cbn [apply_vstep]. intros H; inversion H.
    rewrite map_vals_comp. reflexivity.
  - destruct (apply_vstep (VFilter LQuery) c) as [c1|] eqn:E; [|discriminate].
    apply filter_only_removes in E. destruct E as [-> _]. cbn [apply_vstep]. intros H; inversion H. reflexivity.
  - cbn [apply_vstep]. destruct skip; cbn [run_vsteps].
    + intros H; inversion H; reflexivity.
    + destruct (apply_vstep (VFilter LHeader) _) as [c1|] eqn:E; [|discriminate].
      apply filter_only_removes in E. destruct E as [-> _]. intros H; inversion H; reflexivity.
  - cbn [apply_vstep]. destruct skip; cbn [run_vsteps].
    + intros H; inversion H; reflexivity.
    + destruct (apply_vstep (VFilter LCookie) _) as [c1|] eqn:E; [|discriminate].
      apply filter_only_removes in E. destruct E as [-> _]. intros H; inversion H; reflexivity.
Qed.

Lemma chain_fun_coerced l g : coerced l g (chain_fun l g) = true.
Proof. destruct l; cbn [chain_fun]; [apply coerced_path|apply coerced_query|apply coerced_header; reflexivity|apply coerced_header; reflexivity]. Qed.

(* every container that leaves the chain is the generated container up to the coercion of the location *)
Lemma value_chain_preserves l skip c c' :
  run_vsteps (value_chain l skip) c = Some c' -> all_coerced l c c' = true.
Proof. intros H. apply value_chain_is_map in H. subst. apply all_coerced_map, chain_fun_coerced. Qed.

(* header / cookie / query: a string value in the case is a generated value, character for character, so it is valid for
   whatever the generated value was valid for; a non-string source is its str() / JSON text *)
Lemma value_chain_strings_identical catp l skip c c' n s' :
  l <> LPath -> run_vsteps (value_chain l skip) c = Some c' -> In (n, GStr s') c' ->
  exists g, In (n, g) c /\ coerced l g (GStr s') = true /\
            (forall s, g = GStr s -> s' = s /\ forall d, decl_accepts catp d s -> decl_accepts catp d s').
Proof.
  intros Hl H Hin. apply value_chain_is_map in H. subst c'.
  unfold map_vals in Hin. apply in_map_iff in Hin. destruct Hin as [[n0 g] [Heq Hin]].
  cbn [fst snd] in Heq. injection Heq as Hn Hg. subst n0.
  exists g. split; [exact Hin|]. split; [rewrite <- Hg; apply chain_fun_coerced|].
  intros s ->. assert (s' = s) as ->.
  { destruct l; cbn [chain_fun jsonify_val py_str] in Hg; try congruence. }
  split; [reflexivity|auto].
Qed.

(* the filters never let through a header value with a leading whitespace-class character *)
Lemma header_entry_no_leading_space l n c s :
  is_header_loc l = true -> entry_valid l (n, GStr (c :: s)) = true -> py_space c = false.
Proof.
  intros Hl H. destruct (py_space c) eqn:E; [|reflexivity].
  destruct l; try discriminate Hl; unfold entry_valid, header_value_ok in H; cbn [fst snd] in H; rewrite E in H;
    cbn [negb andb] in H; rewrite andb_false_r in H; cbn [andb] in H; discriminate H.
Qed.

(* regression sentinel: str.lstrip() between the serializer and the filter (seed C01_f) *)
Lemma seeded_strip_refuted catp :
  exists c', run_vsteps (seeded_value_chain LHeader false) c_vt7 = Some c' /\
             run_vsteps (value_chain LHeader false) c_vt7 = None /\
             all_coerced LHeader c_vt7 c' = false /\
             decl_accepts catp d_min8 s_vt7 /\
             forall n s', In (n, GStr s') c' -> ~ decl_accepts catp d_min8 s'.
Proof.
  eexists. split; [vm_compute; reflexivity|]. split; [vm_compute; reflexivity|]. split; [vm_compute; reflexivity|].
  split; [split; [exact I|reflexivity]|].
  intros n s' [H|[]]. inversion H; subst. intros [_ Hl]. vm_compute in Hl. discriminate.
Qed.

(* non-vacuity: values that do go through, in every location *)
Lemma value_chain_examples :
  run_vsteps (value_chain LHeader false) [([88; 45; 65]%N, GStr [97; 32; 98]%N); ([88; 45; 66]%N, GInt (-12)); ([88; 45; 67]%N, GBool true)]
    = Some [([88; 45; 65]%N, GStr [97; 32; 98]%N); ([88; 45; 66]%N, GStr [45; 49; 50]%N); ([88; 45; 67]%N, GStr [84; 114; 117; 101]%N)] /\
  run_vsteps (value_chain LPath false) [([105]%N, GStr [97; 32; 233; 46]%N); ([107]%N, GNull)]
    = Some [([105]%N, GStr [97; 43; 37; 67; 51; 37; 65; 57; 46]%N); ([107]%N, GStr [110; 117; 108; 108]%N)] /\
  run_vsteps (value_chain LPath false) [([105]%N, GStr [97; 47]%N)] = None /\
  run_vsteps (value_chain LQuery false) [([113]%N, GStr [11; 97]%N); ([114]%N, GBool false)]
    = Some [([113]%N, GStr [11; 97]%N); ([114]%N, GStr [102; 97; 108; 115; 101]%N)] /\
  run_vsteps (value_chain LHeader true) c_vt7 = Some c_vt7.
Proof. repeat split; vm_compute; reflexivity. Qed.
