(* Ties the hand-written model to the kernel regenerated from the Python source (Gen_C01.v is rewritten on every run by
   harness/props/c01_gen.py): a semantic edit of patterns._build_size makes this lemma fail to check. *)
From Coq Require Import ZArith Bool.
From Verif Require Import C01.Model_C01 C01.Gen_C01.
Local Open Scope Z_scope.

Lemma gen_build_size_eq : forall lo hi mn mx, gen_build_size lo hi mn mx = build_size lo hi mn mx.
Proof. intros lo hi [mn|] [mx|]; unfold gen_build_size, build_size; try reflexivity; destruct (hi =? MAXREPEAT); reflexivity. Qed.
