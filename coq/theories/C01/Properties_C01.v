(* C01 property theorems only.  Each is closed by [exact] of a lemma of Proofs_C01
   and followed by Print Assumptions.  catp (the Unicode tables behind \d \s \w) is
   universally quantified: the statements hold for every category table. *)
From Coq Require Import List NArith ZArith Bool.
From Verif Require Import Common.Str Common.Json C01.Model_C01 C01.Proofs_C01.
Import ListNotations.
Open Scope Z_scope.

(* Pattern / length merging is sound inside the regions: whenever update_quantifier rewrites the
   pattern (so that update_pattern_in_schema drops minLength / maxLength), every string the new
   pattern accepts under re.search semantics is accepted by the original pattern AND respects both
   length bounds.  All strings, all ASTs, all bounds. *)
Theorem C01_rewrite_sound_partial : forall catp p mn mx s p',
  update_quantifier p mn mx = Rewritten p' ->
  wf_pattern p = true -> max_small mx = true ->
  anchored_for_max p mx = true -> dollar_newline_ok p mx s = true ->
  unit_bodies p = true -> not_max_zero_multi p mn mx = true -> not_single_char_anchored p mx = true ->
  search catp p' s -> search catp p s /\ len_in mn mx s = true.
Proof. exact rewrite_sound. Qed.
Print Assumptions C01_rewrite_sound_partial.

(* the same at the level of the schema keywords (converter.update_pattern_in_schema) *)
Theorem C01_schema_keywords_sound_partial : forall catp p mn mx s p' mn' mx',
  update_pattern_in_schema p mn mx = Some (p', mn', mx') ->
  wf_pattern p = true -> max_small mx = true ->
  anchored_for_max p mx = true -> dollar_newline_ok p mx s = true ->
  unit_bodies p = true -> not_max_zero_multi p mn mx = true -> not_single_char_anchored p mx = true ->
  search catp p' s -> len_in mn' mx' s = true -> search catp p s /\ len_in mn mx s = true.
Proof. exact schema_sound. Qed.
Print Assumptions C01_schema_keywords_sound_partial.

(* ... and the unrestricted statement is false of the code as it is: one witness per region, every
   OTHER region predicate true (the list is wf, max_small, anchored, dollar, unit, max_zero, single) *)
Theorem C01_rewrite_sound_refuted_unanchored : forall catp,
  refutes catp w_unanchored None (Some 5) s_a6 [true; true; false; true; true; true; true].
Proof. exact refuted_unanchored. Qed.
Print Assumptions C01_rewrite_sound_refuted_unanchored.

Theorem C01_rewrite_sound_refuted_dollar_newline : forall catp,
  refutes catp w_dollar None (Some 5) s_abcde_nl [true; true; true; false; true; true; true].
Proof. exact refuted_dollar_newline. Qed.
Print Assumptions C01_rewrite_sound_refuted_dollar_newline.

Theorem C01_rewrite_sound_refuted_multichar_body : forall catp,
  refutes catp w_multichar None (Some 5) s_ababab [true; true; true; true; false; true; true].
Proof. exact refuted_multichar. Qed.
Print Assumptions C01_rewrite_sound_refuted_multichar_body.

Theorem C01_rewrite_sound_refuted_max_zero : forall catp,
  refutes catp w_maxzero None (Some 1) s_abb [true; true; true; true; true; false; true].
Proof. exact refuted_max_zero. Qed.
Print Assumptions C01_rewrite_sound_refuted_max_zero.

Theorem C01_rewrite_sound_refuted_single_char : forall catp,
  refutes catp w_single None (Some 5) s_abc [true; true; true; true; true; true; false].
Proof. exact refuted_single_char. Qed.
Print Assumptions C01_rewrite_sound_refuted_single_char.

(* _distribute_length_constraints: the pairs it returns stay inside the original quantifier bounds,
   their minima add up to at least minLength and their maxima to at most maxLength (unless the
   remaining maxLength is 0, which the code reads as absent) *)
Theorem C01_distribute_sound : forall bounds mn mx dist,
  Forall wf_b bounds -> is_neg mn = false -> is_neg mx = false ->
  distribute bounds mn mx = Some dist ->
  Forall2 bound_rel bounds dist /\
  (forall m, mn = Some m -> m <= sum_lo dist) /\
  (forall m, mx = Some m -> m < MAXREPEAT -> (m <> 0 \/ opt_eqb mn mx = true) -> sum_hi dist <= m).
Proof. exact distribute_sound. Qed.
Print Assumptions C01_distribute_sound.

(* _build_size only narrows *)
Theorem C01_build_size_narrows : forall lo hi mn mx l h, build_size lo hi mn mx = (l, h) ->
  lo <= l /\ (h <= hi \/ hi = MAXREPEAT) /\ (forall m, mn = Some m -> m <= l) /\ (forall m, mx = Some m -> h <= m).
Proof. exact build_size_narrows. Qed.
Print Assumptions C01_build_size_narrows.

(* the executable matcher used for the witnesses and compared with re.search on every run is sound *)
Theorem C01_matcher_sound : forall catp p s, search_b catp p s = true -> search catp p s.
Proof. exact search_b_sound. Qed.
Print Assumptions C01_matcher_sound.

(* non-vacuity of the partial theorem on both rewriting paths *)
Theorem C01_hypotheses_satisfiable_single :
  exists p', update_quantifier w_ok (Some 2) (Some 5) = Rewritten p' /\
  other_regions w_ok (Some 2) (Some 5) s_abc = [true; true; true; true; true; true; true] /\
  search ascii_cat p' s_abc /\ p' <> w_ok.
Proof. exact satisfiable_single. Qed.
Print Assumptions C01_hypotheses_satisfiable_single.

Theorem C01_hypotheses_satisfiable_multi :
  exists p', update_quantifier w_ok_multi (Some 3) (Some 6) = Rewritten p' /\
  other_regions w_ok_multi (Some 3) (Some 6) s_plus12 = [true; true; true; true; true; true; true] /\
  search ascii_cat p' s_plus12 /\ p' <> w_ok_multi.
Proof. exact satisfiable_multi. Qed.
Print Assumptions C01_hypotheses_satisfiable_multi.

(* converter.forbid_properties: not: {required: [names]} keeps read-only properties out of the
   request only when there is exactly one of them *)
Theorem C01_forbid_readonly_partial : forall names keys,
  readonly_le1 names = true -> forbid_valid names keys = sends_no_readonly names keys.
Proof. exact forbid_one. Qed.
Print Assumptions C01_forbid_readonly_partial.

Theorem C01_forbid_readonly_refuted : exists names keys,
  forbid_valid names keys = true /\ sends_no_readonly names keys = false.
Proof. exists ro_names, ro_keys. exact forbid_two_refuted. Qed.
Print Assumptions C01_forbid_readonly_refuted.

(* converter.rewrite_properties as a whole (properties / required / not.required / additionalProperties) on key sets:
   with at most one read-only property the converted request schema accepts exactly what a client may send;
   and a closed object (additionalProperties: false) never lets a read-only property through, whatever their number *)
Theorem C01_rewrite_properties_partial : forall props required ro closed keys,
  readonly_le1' ro = true ->
  converted_accepts props required ro closed keys = request_view_accepts props required ro closed keys.
Proof. exact converted_one. Qed.
Print Assumptions C01_rewrite_properties_partial.

Theorem C01_rewrite_properties_closed_clean : forall props required ro keys,
  converted_accepts props required ro true keys = true -> sends_no_readonly ro keys = true.
Proof. exact converted_closed_clean. Qed.
Print Assumptions C01_rewrite_properties_closed_clean.

(* converter.to_json_schema, nullable (3.x) / x-nullable (2.0), tri-state absent / true / false, applied to every nested schema:
   the converted JSON Schema accepts null exactly when the effective keyword is true ... *)
Theorem C01_nullable_null_iff : forall use_x s, jvalid (conv use_x s) VNull = true <-> eff use_x s = NTrue.
Proof. exact null_iff. Qed.
Print Assumptions C01_nullable_null_iff.

(* ... and at every depth: Draft 4 validity of the converted schema is the Open API meaning, for all values *)
Theorem C01_nullable_conversion_preserves : forall use_x s v, jvalid (conv use_x s) v = oas_valid use_x s v.
Proof. exact conv_preserves. Qed.
Print Assumptions C01_nullable_conversion_preserves.

Theorem C01_nullable_examples :
  jvalid (conv false o_example) (VObj [([97]%N, VNull); ([98]%N, VArr [VInt])]) = true /\
  jvalid (conv false o_example) (VObj [([97]%N, VStr); ([98]%N, VArr [VNull])]) = false /\
  jvalid (conv false o_example) VNull = false /\
  jvalid (conv true o_example) (VObj [([97]%N, VNull)]) = false /\
  jvalid (conv true o_example) (VObj [([97]%N, VStr); ([98]%N, VNull)]) = true.
Proof. exact nullable_examples. Qed.
Print Assumptions C01_nullable_examples.

(* generation settings.  The alphabet of generated header / cookie values respects every codec except ascii ... *)
Theorem C01_header_alphabet_codec_partial : forall allow_x00 cd c,
  cd <> CodecAscii -> header_char_ok allow_x00 c = true -> codec_ok cd c = true.
Proof. exact header_codec_partial. Qed.
Print Assumptions C01_header_alphabet_codec_partial.

Theorem C01_header_alphabet_codec_refuted : exists c, header_char_ok false c = true /\ codec_ok CodecAscii c = false.
Proof. exists 200%N. exact header_codec_refuted. Qed.
Print Assumptions C01_header_alphabet_codec_refuted.

(* ... and the strategy caches hand out the strategy that was requested only while every parameter is always asked for with the
   same settings (the settings are not part of the cache key) *)
Theorem C01_strategy_cache_partial : forall calls c, consistent_calls c calls = true -> run_calls c calls = map snd calls.
Proof. exact cache_consistent. Qed.
Print Assumptions C01_strategy_cache_partial.

Theorem C01_strategy_cache_refuted : exists calls,
  run_calls [] calls <> map snd calls /\ nth 1 (run_calls [] calls) (false, CodecAscii) = (true, CodecUtf8).
Proof. exists calls_two. exact cache_refuted. Qed.
Print Assumptions C01_strategy_cache_refuted.

(* Aliasing (Model_C01 section 9: Python containers with identities, every modelled function returns the log of the mutations it
   performed; apply_log log o is what a live object o looks like after the call).
   to_json_schema_recursive as the code calls it (copy = true: deepclone first) does not change ANY object that was alive when the
   call started (identities below the allocation counter n) - in particular not the schema it was given, nor the raw document that
   contains it.  All schemas (any nesting, any keywords), both directions (readOnly / writeOnly rewriting), every fuel. *)
Theorem C01_conversion_leaves_live_objects_unchanged : forall fuel resp n t r lg n' o,
  transform fuel true resp n t = Some (r, lg, n') -> lt_ids n o = true -> apply_log lg o = o.
Proof. exact conversion_pure. Qed.
Print Assumptions C01_conversion_leaves_live_objects_unchanged.

(* the same for one level (converter.to_json_schema itself) *)
Theorem C01_to_json_schema_leaves_live_objects_unchanged : forall resp n t o,
  lt_ids n o = true -> apply_log (snd (fst (to_json_schema true resp n t))) o = o.
Proof. exact level_pure. Qed.
Print Assumptions C01_to_json_schema_leaves_live_objects_unchanged.

(* the one call site with copy = False (rewritten_components) converts a deepclone in place: the raw document is not touched either *)
Theorem C01_inplace_conversion_of_a_clone_leaves_live_objects_unchanged : forall fuel resp n t r lg n' o,
  transform fuel false resp (snd (deepclone n t)) (fst (deepclone n t)) = Some (r, lg, n') -> lt_ids n o = true -> apply_log lg o = o.
Proof. exact inplace_on_clone_pure. Qed.
Print Assumptions C01_inplace_conversion_of_a_clone_leaves_live_objects_unchanged.

(* A history on ONE loaded schema: response-side conversions of objects of the raw document (ConvertingResolver.resolve while a
   response is validated, get_response_schema), lazy initialisation of operations (resolve_all + request-side conversion) and the
   lazy construction of rewritten_components (in-place conversion of a deepclone), in any order and number.  The raw document after the history is the raw document before it ... *)
Theorem C01_raw_document_unchanged_by_history : forall fuel h store store',
  run fuel true store h = Some store' -> store' = store.
Proof. exact run_pure. Qed.
Print Assumptions C01_raw_document_unchanged_by_history.

(* ... hence the schema an operation generates its positive bodies from does not depend on what was converted or validated
   before the operation was initialised *)
Theorem C01_generation_schema_history_independent : forall fuel h store store' body,
  run fuel true store h = Some store' -> gen_schema fuel true store' body = gen_schema fuel true store body.
Proof. exact gen_schema_history_independent. Qed.
Print Assumptions C01_generation_schema_history_independent.

(* non-vacuity / sensitivity: on a User component with a required writeOnly password the response-side conversion does rewrite
   (non-empty mutation log, password dropped from the RESULT), the document is unchanged and an operation initialised afterwards
   still requires password; with an in-place conversion instead (copy = false) the same one-step history changes the document and
   the generation schema loses the required property *)
Theorem C01_history_examples :
  (exists r lg n', transform 20 true true (bound ex_store) (match d_get k_u ex_store with Some d => d | None => PA ANull end) = Some (r, lg, n')
                   /\ lg <> [] /\ j_required_has [112]%N (Some (erase r)) = false) /\
  run 20 true ex_store [EvConvert k_u true; EvInit ex_body] = Some ex_store /\
  j_required_has [112]%N (gen_erased 20 true ex_store ex_body) = true /\
  (exists s', run 20 false ex_store [EvConvert k_u true] = Some s' /\ erase s' <> erase ex_store /\
              j_required_has [112]%N (gen_erased 20 true s' ex_body) = false).
Proof. exact history_examples. Qed.
Print Assumptions C01_history_examples.
