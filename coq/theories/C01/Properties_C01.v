(* C01 property theorems only.  Each is closed by [exact] of a lemma of Proofs_C01
   and followed by Print Assumptions.  catp (the Unicode tables behind \d \s \w) is
   universally quantified: the statements hold for every category table. *)
From Coq Require Import List NArith ZArith Bool.
From Verif Require Import Common.Str Common.Json C01.Model_C01 C01.Proofs_C01.
Import ListNotations.
Open Scope Z_scope.

(* Pattern / length merging is sound inside the regions: whenever update_quantifier rewrites the
   pattern (so that update_pattern_in_schema drops minLength / maxLength), every string the new
   pattern accepts under re.search semantics is accepted by the original pattern AND respects both
   length bounds.  All strings, all ASTs, all bounds. *)
Theorem C01_rewrite_sound_partial : forall catp p mn mx s p',
  update_quantifier p mn mx = Rewritten p' ->
  wf_pattern p = true -> max_small mx = true ->
  anchored_for_max p mx = true -> dollar_newline_ok p mx s = true ->
  unit_bodies p = true -> not_max_zero_multi p mn mx = true -> not_single_char_anchored p mx = true ->
  search catp p' s -> search catp p s /\ len_in mn mx s = true.
Proof. exact rewrite_sound. Qed.
Print Assumptions C01_rewrite_sound_partial.

(* the same at the level of the schema keywords (converter.update_pattern_in_schema) *)
Theorem C01_schema_keywords_sound_partial : forall catp p mn mx s p' mn' mx',
  update_pattern_in_schema p mn mx = Some (p', mn', mx') ->
  wf_pattern p = true -> max_small mx = true ->
  anchored_for_max p mx = true -> dollar_newline_ok p mx s = true ->
  unit_bodies p = true -> not_max_zero_multi p mn mx = true -> not_single_char_anchored p mx = true ->
  search catp p' s -> len_in mn' mx' s = true -> search catp p s /\ len_in mn mx s = true.
Proof. exact schema_sound. Qed.
Print Assumptions C01_schema_keywords_sound_partial.

(* ... and the unrestricted statement is false of the code as it is: one witness per region, every
   OTHER region predicate true (the list is wf, max_small, anchored, dollar, unit, max_zero, single) *)
Theorem C01_rewrite_sound_refuted_unanchored : forall catp,
  refutes catp w_unanchored None (Some 5) s_a6 [true; true; false; true; true; true; true].
Proof. exact refuted_unanchored. Qed.
Print Assumptions C01_rewrite_sound_refuted_unanchored.

Theorem C01_rewrite_sound_refuted_dollar_newline : forall catp,
  refutes catp w_dollar None (Some 5) s_abcde_nl [true; true; true; false; true; true; true].
Proof. exact refuted_dollar_newline. Qed.
Print Assumptions C01_rewrite_sound_refuted_dollar_newline.

Theorem C01_rewrite_sound_refuted_multichar_body : forall catp,
  refutes catp w_multichar None (Some 5) s_ababab [true; true; true; true; false; true; true].
Proof. exact refuted_multichar. Qed.
Print Assumptions C01_rewrite_sound_refuted_multichar_body.

Theorem C01_rewrite_sound_refuted_max_zero : forall catp,
  refutes catp w_maxzero None (Some 1) s_abb [true; true; true; true; true; false; true].
Proof. exact refuted_max_zero. Qed.
Print Assumptions C01_rewrite_sound_refuted_max_zero.

Theorem C01_rewrite_sound_refuted_single_char : forall catp,
  refutes catp w_single None (Some 5) s_abc [true; true; true; true; true; true; false].
Proof. exact refuted_single_char. Qed.
Print Assumptions C01_rewrite_sound_refuted_single_char.

(* _distribute_length_constraints: the pairs it returns stay inside the original quantifier bounds,
   their minima add up to at least minLength and their maxima to at most maxLength (unless the
   remaining maxLength is 0, which the code reads as absent) *)
Theorem C01_distribute_sound : forall bounds mn mx dist,
  Forall wf_b bounds -> is_neg mn = false -> is_neg mx = false ->
  distribute bounds mn mx = Some dist ->
  Forall2 bound_rel bounds dist /\
  (forall m, mn = Some m -> m <= sum_lo dist) /\
  (forall m, mx = Some m -> m < MAXREPEAT -> (m <> 0 \/ opt_eqb mn mx = true) -> sum_hi dist <= m).
Proof. exact distribute_sound. Qed.
Print Assumptions C01_distribute_sound.

(* _build_size only narrows *)
Theorem C01_build_size_narrows : forall lo hi mn mx l h, build_size lo hi mn mx = (l, h) ->
  lo <= l /\ (h <= hi \/ hi = MAXREPEAT) /\ (forall m, mn = Some m -> m <= l) /\ (forall m, mx = Some m -> h <= m).
Proof. exact build_size_narrows. Qed.
Print Assumptions C01_build_size_narrows.

(* the executable matcher used for the witnesses and compared with re.search on every run is sound *)
Theorem C01_matcher_sound : forall catp p s, search_b catp p s = true -> search catp p s.
Proof. exact search_b_sound. Qed.
Print Assumptions C01_matcher_sound.

(* non-vacuity of the partial theorem on both rewriting paths *)
Theorem C01_hypotheses_satisfiable_single :
  exists p', update_quantifier w_ok (Some 2) (Some 5) = Rewritten p' /\
  other_regions w_ok (Some 2) (Some 5) s_abc = [true; true; true; true; true; true; true] /\
  search ascii_cat p' s_abc /\ p' <> w_ok.
Proof. exact satisfiable_single. Qed.
Print Assumptions C01_hypotheses_satisfiable_single.

Theorem C01_hypotheses_satisfiable_multi :
  exists p', update_quantifier w_ok_multi (Some 3) (Some 6) = Rewritten p' /\
  other_regions w_ok_multi (Some 3) (Some 6) s_plus12 = [true; true; true; true; true; true; true] /\
  search ascii_cat p' s_plus12 /\ p' <> w_ok_multi.
Proof. exact satisfiable_multi. Qed.
Print Assumptions C01_hypotheses_satisfiable_multi.

(* converter.forbid_properties: not: {required: [names]} keeps read-only properties out of the
   request only when there is exactly one of them *)
Theorem C01_forbid_readonly_partial : forall names keys,
  readonly_le1 names = true -> forbid_valid names keys = sends_no_readonly names keys.
Proof. exact forbid_one. Qed.
Print Assumptions C01_forbid_readonly_partial.

Theorem C01_forbid_readonly_refuted : exists names keys,
  forbid_valid names keys = true /\ sends_no_readonly names keys = false.
Proof. exists ro_names, ro_keys. exact forbid_two_refuted. Qed.
Print Assumptions C01_forbid_readonly_refuted.

(* converter.rewrite_properties as a whole (properties / required / not.required / additionalProperties) on key sets:
   with at most one read-only property the converted request schema accepts exactly what a client may send;
   and a closed object (additionalProperties: false) never lets a read-only property through, whatever their number *)
Theorem C01_rewrite_properties_partial : forall props required ro closed keys,
  readonly_le1' ro = true ->
  converted_accepts props required ro closed keys = request_view_accepts props required ro closed keys.
Proof. exact converted_one. Qed.
Print Assumptions C01_rewrite_properties_partial.

Theorem C01_rewrite_properties_closed_clean : forall props required ro keys,
  converted_accepts props required ro true keys = true -> sends_no_readonly ro keys = true.
Proof. exact converted_closed_clean. Qed.
Print Assumptions C01_rewrite_properties_closed_clean.

(* converter.to_json_schema, nullable (3.x) / x-nullable (2.0), tri-state absent / true / false, applied to every nested schema:
   the converted JSON Schema accepts null exactly when the effective keyword is true ... *)
Theorem C01_nullable_null_iff : forall use_x s, jvalid (conv use_x s) VNull = true <-> eff use_x s = NTrue.
Proof. exact null_iff. Qed.
Print Assumptions C01_nullable_null_iff.

(* ... and at every depth: Draft 4 validity of the converted schema is the Open API meaning, for all values *)
Theorem C01_nullable_conversion_preserves : forall use_x s v, jvalid (conv use_x s) v = oas_valid use_x s v.
Proof. exact conv_preserves. Qed.
Print Assumptions C01_nullable_conversion_preserves.

Theorem C01_nullable_examples :
  jvalid (conv false o_example) (VObj [([97]%N, VNull); ([98]%N, VArr [VInt])]) = true /\
  jvalid (conv false o_example) (VObj [([97]%N, VStr); ([98]%N, VArr [VNull])]) = false /\
  jvalid (conv false o_example) VNull = false /\
  jvalid (conv true o_example) (VObj [([97]%N, VNull)]) = false /\
  jvalid (conv true o_example) (VObj [([97]%N, VStr); ([98]%N, VNull)]) = true.
Proof. exact nullable_examples. Qed.
Print Assumptions C01_nullable_examples.

(* generation settings.  The alphabet of generated header / cookie values respects every codec except ascii ... *)
Theorem C01_header_alphabet_codec_partial : forall allow_x00 cd c,
  cd <> CodecAscii -> header_char_ok allow_x00 c = true -> codec_ok cd c = true.
Proof. exact header_codec_partial. Qed.
Print Assumptions C01_header_alphabet_codec_partial.

Theorem C01_header_alphabet_codec_refuted : exists c, header_char_ok false c = true /\ codec_ok CodecAscii c = false.
Proof. exists 200%N. exact header_codec_refuted. Qed.
Print Assumptions C01_header_alphabet_codec_refuted.

(* ... and the strategy caches hand out the strategy that was requested only while every parameter is always asked for with the
   same settings (the settings are not part of the cache key) *)
Theorem C01_strategy_cache_partial : forall calls c, consistent_calls c calls = true -> run_calls c calls = map snd calls.
Proof. exact cache_consistent. Qed.
Print Assumptions C01_strategy_cache_partial.

Theorem C01_strategy_cache_refuted : exists calls,
  run_calls [] calls <> map snd calls /\ nth 1 (run_calls [] calls) (false, CodecAscii) = (true, CodecUtf8).
Proof. exists calls_two. exact cache_refuted. Qed.
Print Assumptions C01_strategy_cache_refuted.

(* Aliasing (Model_C01 section 9: Python containers with identities, every modelled function returns the log of the mutations it
   performed; apply_log log o is what a live object o looks like after the call).
   to_json_schema_recursive as the code calls it (copy = true: deepclone first) does not change ANY object that was alive when the
   call started (identities below the allocation counter n) - in particular not the schema it was given, nor the raw document that
   contains it.  All schemas (any nesting, any keywords), both directions (readOnly / writeOnly rewriting), every fuel. *)
Theorem C01_conversion_leaves_live_objects_unchanged : forall fuel resp n t r lg n' o,
  transform fuel true resp n t = Some (r, lg, n') -> lt_ids n o = true -> apply_log lg o = o.
Proof. exact conversion_pure. Qed.
Print Assumptions C01_conversion_leaves_live_objects_unchanged.

(* the same for one level (converter.to_json_schema itself) *)
Theorem C01_to_json_schema_leaves_live_objects_unchanged : forall resp n t o,
  lt_ids n o = true -> apply_log (snd (fst (to_json_schema true resp n t))) o = o.
Proof. exact level_pure. Qed.
Print Assumptions C01_to_json_schema_leaves_live_objects_unchanged.

(* the one call site with copy = False (rewritten_components) converts a deepclone in place: the raw document is not touched either *)
Theorem C01_inplace_conversion_of_a_clone_leaves_live_objects_unchanged : forall fuel resp n t r lg n' o,
  transform fuel false resp (snd (deepclone n t)) (fst (deepclone n t)) = Some (r, lg, n') -> lt_ids n o = true -> apply_log lg o = o.
Proof. exact inplace_on_clone_pure. Qed.
Print Assumptions C01_inplace_conversion_of_a_clone_leaves_live_objects_unchanged.

(* A history on ONE loaded schema: response-side conversions of objects of the raw document (ConvertingResolver.resolve while a
   response is validated, get_response_schema), lazy initialisation of operations (resolve_all + request-side conversion) and the
   lazy construction of rewritten_components (in-place conversion of a deepclone), in any order and number.  The raw document after the history is the raw document before it ... *)
Theorem C01_raw_document_unchanged_by_history : forall fuel h store store',
  run fuel true store h = Some store' -> store' = store.
Proof. exact run_pure. Qed.
Print Assumptions C01_raw_document_unchanged_by_history.

(* ... hence the schema an operation generates its positive bodies from does not depend on what was converted or validated
   before the operation was initialised *)
Theorem C01_generation_schema_history_independent : forall fuel h store store' body,
  run fuel true store h = Some store' -> gen_schema fuel true store' body = gen_schema fuel true store body.
Proof. exact gen_schema_history_independent. Qed.
Print Assumptions C01_generation_schema_history_independent.

(* non-vacuity / sensitivity: on a User component with a required writeOnly password the response-side conversion does rewrite
   (non-empty mutation log, password dropped from the RESULT), the document is unchanged and an operation initialised afterwards
   still requires password; with an in-place conversion instead (copy = false) the same one-step history changes the document and
   the generation schema loses the required property *)
Theorem C01_history_examples :
  (exists r lg n', transform 20 true true (bound ex_store) (match d_get k_u ex_store with Some d => d | None => PA ANull end) = Some (r, lg, n')
                   /\ lg <> [] /\ j_required_has [112]%N (Some (erase r)) = false) /\
  run 20 true ex_store [EvConvert k_u true; EvInit ex_body] = Some ex_store /\
  j_required_has [112]%N (gen_erased 20 true ex_store ex_body) = true /\
  (exists s', run 20 false ex_store [EvConvert k_u true] = Some s' /\ erase s' <> erase ex_store /\
              j_required_has [112]%N (gen_erased 20 true s' ex_body) = false).
Proof. exact history_examples. Qed.
Print Assumptions C01_history_examples.

(* ---- WHERE the pattern rewriter runs (Model_C01 section 10; added after seed C01_d) ----
   The conversion pipeline of one parameter location: as_json_schema (keyword filter, nullable wrapping,
   update_pattern_in_schema on the keywords the author wrote, type: string for headers), parameters_to_json_schema,
   the path defaults of get_schema_for_location (all path parameters required, minLength 1), the header format of
   make_positive_strategy.  The theorems quantify over EVERY list of later steps that does not call the rewriter. *)

(* The pattern of a parameter schema is rewritten only if the DECLARED schema carries a truthy minLength or maxLength:
   all locations, all declared schemas *)
Theorem C01_pattern_rewritten_only_under_declared_length : forall steps l d g,
  no_rewrite_step steps = true -> gen_prop_with steps l d = Some g ->
  (g_rewritten g = true \/ g_pattern g <> d_pattern d) -> declared_length d = true.
Proof. exact rewritten_only_under_declared_length. Qed.
Print Assumptions C01_pattern_rewritten_only_under_declared_length.

(* ... and without one the conversion never raises and the generation schema carries the declared pattern *)
Theorem C01_undeclared_length_pattern_is_declared : forall steps l d,
  no_rewrite_step steps = true -> declared_length d = false ->
  (forall g, gen_prop_with steps l d = Some g -> g_pattern g = d_pattern d /\ g_rewritten g = false) /\
  (exists g, gen_prop_with steps l d = Some g).
Proof. exact undeclared_length_pattern_is_declared. Qed.
Print Assumptions C01_undeclared_length_pattern_is_declared.

(* Path parameters without declared length keywords: the generation schema's pattern is the declared pattern; the implied
   minLength 1 sits NEXT to it (plain string parameters), nothing is folded into the pattern *)
Theorem C01_path_parameter_pattern_is_declared : forall d, d_min d = None -> d_max d = None ->
  exists g, gen_prop LPath d = Some g /\ g_pattern g = d_pattern d /\ g_rewritten g = false /\ k_max (g_kw g) = None /\
            k_min (g_kw g) = (if is_string (d_type d) && negb (is_ntrue (d_nullable d)) then Some 1 else None).
Proof. exact path_pattern_is_declared. Qed.
Print Assumptions C01_path_parameter_pattern_is_declared.

(* Composition with C01_schema_keywords_sound_partial: a string the generation dict accepts is accepted by the DECLARED
   pattern / minLength / maxLength - unconditionally when no length is declared (pipeline_region is then true), inside the
   regions of the rewriter evaluated on the DECLARED bounds otherwise (refuted outside: the five rewriter witnesses above) *)
Theorem C01_generation_value_conforms_partial : forall catp steps l d g s,
  no_rewrite_step steps = true -> gen_prop_with steps l d = Some g -> pipeline_region d s = true ->
  kw_accepts catp (g_kw g) s -> decl_accepts catp d s.
Proof. exact generation_value_conforms. Qed.
Print Assumptions C01_generation_value_conforms_partial.

(* The whole location, all parameter lists (duplicate names included): every property of the object handed to from_schema is
   the generation schema of one of the parameters ... *)
Theorem C01_location_schema_properties : forall l ps props req name g,
  location_schema l ps = Some (props, req) -> assoc_get name props = Some g ->
  exists p, In p ps /\ p_name p = name /\ gen_prop l (p_decl p) = Some g.
Proof. exact location_schema_props. Qed.
Print Assumptions C01_location_schema_properties.

(* ... every path parameter is required and has a property ... *)
Theorem C01_path_parameters_all_required : forall ps props req,
  location_schema LPath ps = Some (props, req) ->
  req = map fst props /\ forall p, In p ps -> has_key (p_name p) req = true.
Proof. exact path_all_required. Qed.
Print Assumptions C01_path_parameters_all_required.

(* ... and both statements above hold for each property of the location object *)
Theorem C01_location_values_conform_partial : forall catp l ps props req name g s,
  location_schema l ps = Some (props, req) -> assoc_get name props = Some g ->
  exists p, In p ps /\ p_name p = name /\
    ((g_rewritten g = true \/ g_pattern g <> d_pattern (p_decl p)) -> declared_length (p_decl p) = true) /\
    (pipeline_region (p_decl p) s = true -> kw_accepts catp (g_kw g) s -> decl_accepts catp (p_decl p) s).
Proof. exact location_values_conform. Qed.
Print Assumptions C01_location_values_conform_partial.

(* regression sentinel (what the seeded change C01_d does): with update_pattern_in_schema called on the property AFTER the
   path default minLength 1, a path parameter ^[a-z]$ that declares NO length gets its pattern rewritten and the value abc is
   generated although the declared pattern rejects it - outside every region of the recorded rewriter findings, whose
   witnesses all carry declared bounds *)
Theorem C01_rewriter_after_path_default_sentinel_refuted : forall catp,
  exists g, gen_prop_with seeded_dict_steps LPath d_single = Some g /\
            declared_length d_single = false /\ pipeline_region d_single s_abc = true /\
            g_rewritten g = true /\ g_pattern g <> d_pattern d_single /\
            kw_accepts catp (g_kw g) s_abc /\ ~ decl_accepts catp d_single s_abc.
Proof. exact seeded_order_refuted. Qed.
Print Assumptions C01_rewriter_after_path_default_sentinel_refuted.

(* non-vacuity / sensitivity: the same parameter under the code as it is keeps ^[a-z]$ with minLength 1 next to it; a parameter
   WITH declared lengths (\A[a-z]+\Z, 2..5) is rewritten in every location (the path one gets minLength 1 in addition) inside
   all regions; a header location with a duplicate name: the later parameter wins, required lists each name once *)
Theorem C01_pipeline_examples :
  (exists g, gen_prop LPath d_single = Some g /\ g_pattern g = Some w_single /\ g_rewritten g = false /\ k_min (g_kw g) = Some 1) /\
  (forall l, exists g, gen_prop l d_ok = Some g /\ g_rewritten g = true /\ g_pattern g <> d_pattern d_ok /\
                       k_min (g_kw g) = (if is_path_loc l then Some 1 else None) /\ pipeline_region d_ok s_abc = true) /\
  (exists props, location_schema LHeader [mkParam [120%N] false (mkDecl (Some TyString) NAbsent false None None None);
                                          mkParam [121%N] true d_single; mkParam [120%N] true (mkDecl None NTrue false None None None)]
                 = Some (props, [121%N] :: [[120%N]]) /\ map fst props = [[120%N]; [121%N]]).
Proof. exact pipeline_examples. Qed.
Print Assumptions C01_pipeline_examples.

(* ---- the value side: the chain a generated container runs through between the strategy and the case
   (get_parameters_strategy: map(serialize), filter(is_valid_path etc), map(quote_all), map(jsonify)), all locations ---- *)

(* every container that LEAVES the chain is the generated container, entry by entry, up to the string coercion of the
   location: header / cookie str(value); query the same string (true / false / null for bool / None); path a text whose
   percent-decoding (unquote_plus) is the UTF-8 encoding of the generated string *)
Theorem C01_value_chain_preserves : forall l skip c c',
  run_vsteps (value_chain l skip) c = Some c' -> all_coerced l c c' = true.
Proof. exact value_chain_preserves. Qed.
Print Assumptions C01_value_chain_preserves.

(* the chain is a per-value map (no value depends on another one, none is dropped or added) and a filter only removes draws *)
Theorem C01_value_chain_is_map_and_filters_only_remove :
  (forall l skip c c', run_vsteps (value_chain l skip) c = Some c' -> c' = map_vals (chain_fun l) c) /\
  (forall l c c', apply_vstep (VFilter l) c = Some c' -> c' = c /\ forallb (entry_valid l) c = true).
Proof. split; [exact value_chain_is_map|exact filter_only_removes]. Qed.
Print Assumptions C01_value_chain_is_map_and_filters_only_remove.

(* header / cookie / query: a string in the case whose source is a generated string IS that string, so it is accepted by
   every declared schema that accepts the generated value (all schemas d, all category tables) *)
Theorem C01_value_chain_strings_identical : forall catp l skip c c' n s',
  l <> LPath -> run_vsteps (value_chain l skip) c = Some c' -> In (n, GStr s') c' ->
  exists g, In (n, g) c /\ coerced l g (GStr s') = true /\
            (forall s, g = GStr s -> s' = s /\ forall d, decl_accepts catp d s -> decl_accepts catp d s').
Proof. exact value_chain_strings_identical. Qed.
Print Assumptions C01_value_chain_strings_identical.

(* the percent-quoting of the path location loses nothing: for ALL strings *)
Theorem C01_path_quoting_roundtrip : forall s, unquote_plus_bytes (quote_plus s) = utf8 s.
Proof. exact unquote_quote_plus. Qed.
Print Assumptions C01_path_quoting_roundtrip.

(* what the header filter guarantees about the first character - by REJECTING the draw, never by changing the value *)
Theorem C01_header_filter_no_leading_space : forall l n c s,
  is_header_loc l = true -> entry_valid l (n, GStr (c :: s)) = true -> py_space c = false.
Proof. exact header_entry_no_leading_space. Qed.
Print Assumptions C01_header_filter_no_leading_space.

(* regression sentinel (what the seeded change C01_f does): str.lstrip() between the serializer and the filter.  The header
   value VT + abcdefg is valid for minLength 8; the chain of the code discards the draw; the seeded chain lets a container
   through that is NOT the generated one up to coercion, and its value violates the declared minLength *)
Theorem C01_strip_before_filter_sentinel_refuted : forall catp,
  exists c', run_vsteps (seeded_value_chain LHeader false) c_vt7 = Some c' /\
             run_vsteps (value_chain LHeader false) c_vt7 = None /\
             all_coerced LHeader c_vt7 c' = false /\
             decl_accepts catp d_min8 s_vt7 /\
             forall n s', In (n, GStr s') c' -> ~ decl_accepts catp d_min8 s'.
Proof. exact seeded_strip_refuted. Qed.
Print Assumptions C01_strip_before_filter_sentinel_refuted.

(* non-vacuity: containers that go through (str() of an integer and a bool in a header, quoting of a space / e-acute and
   null in a path, a leading vertical tab kept as it is in a query), one that is discarded (slash in a path), and the
   skip-filter branch of plain string headers *)
Theorem C01_value_chain_examples :
  run_vsteps (value_chain LHeader false) [([88; 45; 65]%N, GStr [97; 32; 98]%N); ([88; 45; 66]%N, GInt (-12)); ([88; 45; 67]%N, GBool true)]
    = Some [([88; 45; 65]%N, GStr [97; 32; 98]%N); ([88; 45; 66]%N, GStr [45; 49; 50]%N); ([88; 45; 67]%N, GStr [84; 114; 117; 101]%N)] /\
  run_vsteps (value_chain LPath false) [([105]%N, GStr [97; 32; 233; 46]%N); ([107]%N, GNull)]
    = Some [([105]%N, GStr [97; 43; 37; 67; 51; 37; 65; 57; 46]%N); ([107]%N, GStr [110; 117; 108; 108]%N)] /\
  run_vsteps (value_chain LPath false) [([105]%N, GStr [97; 47]%N)] = None /\
  run_vsteps (value_chain LQuery false) [([113]%N, GStr [11; 97]%N); ([114]%N, GBool false)]
    = Some [([113]%N, GStr [11; 97]%N); ([114]%N, GStr [102; 97; 108; 115; 101]%N)] /\
  run_vsteps (value_chain LHeader true) c_vt7 = Some c_vt7.
Proof. exact value_chain_examples. Qed.
Print Assumptions C01_value_chain_examples.
