(* C01 model, part 1: the pattern / length rewriter of
   /repo/src/schemathesis/specs/openapi/patterns.py on regex ASTs (what sre_parse
   returns), a denotational matching relation with Python search semantics,
   an executable matcher, and the executable region predicates used by the
   _partial theorems.  Part 2: the OpenAPI to JSON Schema converter fragment
   (converter.py: nullable, readOnly properties).
   Definitions only; the proofs are in Proofs_C01.v. *)
From Coq Require Import List NArith ZArith Bool.
From Verif Require Import Common.Str Common.Json.
Import ListNotations.
Open Scope Z_scope.

(* sre_parse.MAXREPEAT on CPython 3.12: a repeat whose upper bound is this value is unbounded *)
Definition MAXREPEAT : Z := 4294967295.

(* ------------------------------------------------------------------------------------ *)
(* 1. Regex ASTs: the list of (op, value) pairs returned by sre_parse.parse              *)
(* ------------------------------------------------------------------------------------ *)
Inductive at_kind := AtBeg | AtBegStr | AtEnd | AtEndStr | AtBound | AtNonBound.

(* items of a character class; categories: 0 = digit, 1 = space, 2 = word *)
Inductive citem :=
| CLit (c : N)
| CRange (lo hi : N)
| CCat (neg : bool) (k : N).

Inductive node :=
| NLit (c : N)                        (* LITERAL *)
| NNotLit (c : N)                     (* NOT_LITERAL *)
| NIn (neg : bool) (items : list citem)  (* IN, with the NEGATE marker as a flag *)
| NAny                                (* ANY (no DOTALL): every code point except newline *)
| NAt (k : at_kind)                   (* AT *)
| NSub (body : list node)             (* SUBPATTERN without flags: transparent for matching *)
| NBranch (alts : list (list node))   (* BRANCH *)
| NRep (lo hi : Z) (body : list node).   (* MIN_REPEAT / MAX_REPEAT: greediness does not affect the existence of a match *)

Definition pattern := list node.

(* ------------------------------------------------------------------------------------ *)
(* 2. Matching.  The Unicode tables behind \d \s \w are foreign: a parameter catp.        *)
(*    M x pre s post: node x matches s when pre stands to the left and post to the right. *)
(* ------------------------------------------------------------------------------------ *)
Definition NL : N := 10%N.

Section Sem.
Variable catp : N -> N -> bool.

Definition item_match (it : citem) (c : N) : bool :=
  match it with
  | CLit d => N.eqb c d
  | CRange lo hi => (N.leb lo c && N.leb c hi)%bool
  | CCat neg k => xorb neg (catp k c)
  end.
Definition cls_match (neg : bool) (items : list citem) (c : N) : bool :=
  xorb neg (existsb (fun it => item_match it c) items).

Definition is_word (c : N) : bool := catp 2%N c.
Definition word_before (pre : str) : bool :=
  match rev pre with c :: _ => is_word c | [] => false end.
Definition word_after (post : str) : bool :=
  match post with c :: _ => is_word c | [] => false end.
Definition is_nil (s : str) : bool := match s with [] => true | _ => false end.

(* Python: $ also matches just before a final newline; \b and \B never match in an empty string (3.12) *)
Definition at_okb (k : at_kind) (pre post : str) : bool :=
  match k with
  | AtBeg | AtBegStr => is_nil pre
  | AtEndStr => is_nil post
  | AtEnd => match post with [] => true | [c] => N.eqb c NL | _ => false end
  | AtBound => xorb (word_before pre) (word_after post) && negb (is_nil pre && is_nil post)
  | AtNonBound => negb (xorb (word_before pre) (word_after post)) && negb (is_nil pre && is_nil post)
  end.

Definition rep_ok (lo hi : Z) (n : nat) : Prop :=
  lo <= Z.of_nat n /\ (MAXREPEAT <= hi \/ Z.of_nat n <= hi).

Inductive M : node -> str -> str -> str -> Prop :=
| M_Lit c pre post : M (NLit c) pre [c] post
| M_NotLit c d pre post : N.eqb d c = false -> M (NNotLit c) pre [d] post
| M_In neg items d pre post : cls_match neg items d = true -> M (NIn neg items) pre [d] post
| M_Any d pre post : N.eqb d NL = false -> M NAny pre [d] post
| M_At k pre post : at_okb k pre post = true -> M (NAt k) pre [] post
| M_Sub body pre s post : MSeq body pre s post -> M (NSub body) pre s post
| M_Branch alts a pre s post : In a alts -> MSeq a pre s post -> M (NBranch alts) pre s post
| M_Rep lo hi body n pre s post : rep_ok lo hi n -> MPow body n pre s post -> M (NRep lo hi body) pre s post
with MSeq : list node -> str -> str -> str -> Prop :=
| MS_nil pre post : MSeq [] pre [] post
| MS_cons x xs pre s1 s2 post :
    M x pre s1 (s2 ++ post) -> MSeq xs (pre ++ s1) s2 post -> MSeq (x :: xs) pre (s1 ++ s2) post
with MPow : list node -> nat -> str -> str -> str -> Prop :=
| MP_0 body pre post : MPow body 0 pre [] post
| MP_S body n pre s1 s2 post :
    MSeq body pre s1 (s2 ++ post) -> MPow body n (pre ++ s1) s2 post -> MPow body (S n) pre (s1 ++ s2) post.

(* re.search: some substring matches (jsonschema evaluates the pattern keyword with re.search) *)
Definition search (p : pattern) (s : str) : Prop :=
  exists pre mid post, s = pre ++ mid ++ post /\ MSeq p pre mid post.

(* ---- executable matcher: all (pre ++ consumed, remainder) splits ---- *)
Definition st := (str * str)%type.

Fixpoint has_len (n : nat) (l : list st) : bool :=
  match l with [] => false | x :: l' => Nat.eqb (length (snd x)) n || has_len n l' end.
Fixpoint dedup (l : list st) : list st :=
  match l with
  | [] => []
  | x :: l' => if has_len (length (snd x)) l' then dedup l' else x :: dedup l'
  end.

Definition rep_okb (lo hi : Z) (n : nat) : bool :=
  (lo <=? Z.of_nat n) && ((MAXREPEAT <=? hi) || (Z.of_nat n <=? hi)).

(* cur = the states reachable with exactly j iterations of the body *)
Fixpoint rep_ends (step : str -> str -> list st) (fuel : nat) (j : nat) (lo hi : Z) (cur : list st) : list st :=
  let here := if rep_okb lo hi j then cur else [] in
  match fuel with
  | O => here
  | S f =>
    match cur with
    | [] => []
    | _ => here ++ rep_ends step f (S j) lo hi (dedup (flat_map (fun x => step (fst x) (snd x)) cur))
    end
  end.

Definition one_char (ok : N -> bool) (pre rest : str) : list st :=
  match rest with
  | d :: rest' => if ok d then [(pre ++ [d], rest')] else []
  | [] => []
  end.

Fixpoint ends (x : node) (pre rest : str) {struct x} : list st :=
  let ends_seq :=
    fix ends_seq (xs : list node) (pre rest : str) {struct xs} : list st :=
      match xs with
      | [] => [(pre, rest)]
      | y :: ys => flat_map (fun x => ends_seq ys (fst x) (snd x)) (ends y pre rest)
      end in
  match x with
  | NLit c => one_char (fun d => N.eqb d c) pre rest
  | NNotLit c => one_char (fun d => negb (N.eqb d c)) pre rest
  | NIn neg items => one_char (cls_match neg items) pre rest
  | NAny => one_char (fun d => negb (N.eqb d NL)) pre rest
  | NAt k => if at_okb k pre rest then [(pre, rest)] else []
  | NSub body => ends_seq body pre rest
  | NBranch alts =>
      (fix go (l : list (list node)) : list st :=
         match l with [] => [] | a :: l' => ends_seq a pre rest ++ go l' end) alts
  | NRep lo hi body =>
      rep_ends (ends_seq body) (Z.to_nat lo + length rest + 1) 0 lo hi [(pre, rest)]
  end.

Fixpoint ends_seq (xs : list node) (pre rest : str) : list st :=
  match xs with
  | [] => [(pre, rest)]
  | y :: ys => flat_map (fun x => ends_seq ys (fst x) (snd x)) (ends y pre rest)
  end.

Definition nonempty (l : list st) : bool := match l with [] => false | _ => true end.

(* try every start position *)
Fixpoint search_from (p : pattern) (pre rest : str) : bool :=
  nonempty (ends_seq p pre rest) ||
  match rest with
  | [] => false
  | c :: rest' => search_from p (pre ++ [c]) rest'
  end.
Definition search_b (p : pattern) (s : str) : bool := search_from p [] s.

End Sem.

(* A concrete table for evaluation: exact on ASCII, plus the handful of other code points the
   harness alphabet contains (checked against re on every run by the matcher correspondence). *)
Definition ascii_cat (k c : N) : bool :=
  match k with
  | 0%N => is_digit c || N.eqb c 1635                          (* ARABIC-INDIC DIGIT THREE *)
  | 1%N => mem c [9; 10; 11; 12; 13; 28; 29; 30; 31; 32; 133; 160; 8232]%N
  | _ => is_digit c || is_upper c || is_lower c || N.eqb c 95
         || mem c [233; 20013; 1635; 223]%N                     (* e-acute, a CJK ideograph, the digit above, sharp s *)
  end.

(* ------------------------------------------------------------------------------------ *)
(* 3. The rewriter (patterns.py)                                                          *)
(* ------------------------------------------------------------------------------------ *)
Inductive result :=
| Unchanged                       (* the function returns its pattern argument *)
| Rewritten (p : pattern)         (* a rewriting branch built a new pattern text *)
| RaisesInternal.                 (* re.compile rejects the new text: InternalError *)

Inductive uq_res := UKeep | UNew (x : node) | URaise.

(* patterns.py:312 _build_size *)
Definition build_size (min_repeat max_repeat : Z) (mn mx : option Z) : Z * Z :=
  let min_repeat := match mn with Some m => Z.max min_repeat m | None => min_repeat end in
  let max_repeat :=
    match mx with
    | Some m => if max_repeat =? MAXREPEAT then m else Z.min max_repeat m
    | None => max_repeat
    end in
  (min_repeat, max_repeat).

(* patterns.py:303 _build_quantifier followed by sre_parse of the text it builds:
   {m,} / {m} / {m,n}; None when the text is {m,n} with m > n, which re.compile rejects *)
Definition build_quantifier (minimum : Z) (maximum : option Z) : option (Z * Z) :=
  match maximum with
  | None => Some (minimum, MAXREPEAT)
  | Some m =>
    if m =? MAXREPEAT then Some (minimum, MAXREPEAT)
    else if minimum =? m then Some (minimum, minimum)
    else if minimum <=? m then Some (minimum, m) else None
  end.

(* patterns.py:281 _handle_repeat_quantifier; the new text is (inner){..}: same body, new bounds *)
Definition handle_repeat (lo hi : Z) (body : list node) (mn mx : option Z) : uq_res :=
  let '(l, h) := build_size lo hi mn mx in
  if l >? h then UKeep
  else match build_quantifier l (Some h) with
       | Some (l', h') => UNew (NRep l' h' body)
       | None => URaise
       end.

(* patterns.py:295 _handle_literal_or_in_quantifier *)
Definition handle_literal (x : node) (mn mx : option Z) : uq_res :=
  let m := match mn with None => 1 | Some v => Z.max v 1 end in
  match build_quantifier m mx with
  | Some (l, h) => UNew (NRep l h [x])
  | None => URaise
  end.

Definition is_some_zero (o : option Z) : bool := match o with Some 0 => true | _ => false end.

(* patterns.py:272 _update_quantifier *)
Definition update_node (x : node) (mn mx : option Z) : uq_res :=
  match x with
  | NRep lo hi body => handle_repeat lo hi body mn mx
  | NLit _ | NIn _ _ => if is_some_zero mx then UKeep else handle_literal x mn mx
  | _ => UKeep
  end.

Definition is_at (x : node) : bool := match x with NAt _ => true | _ => false end.
Definition is_lit (x : node) : bool := match x with NLit _ => true | _ => false end.
Definition is_rep (x : node) : bool := match x with NRep _ _ _ => true | _ => false end.

(* ---- patterns.py:196 _distribute_length_constraints ---- *)
Fixpoint try_range (f : Z -> option (list Z)) (l : Z) (n : nat) : option (list Z) :=
  match n with
  | O => None
  | S n' => match f l with Some r => Some (l :: r) | None => try_range f (l + 1) n' end
  end.

(* find_valid_combination without the memo table: first solution in the same order *)
Fixpoint find_comb (bounds : list (Z * Z)) (remaining : Z) : option (list Z) :=
  match bounds with
  | [] => if remaining =? 0 then Some [] else None
  | (lo, hi) :: bs =>
    let top := if hi =? MAXREPEAT then remaining + 1 else hi + 1 in
    try_range (fun l => find_comb bs (remaining - l)) lo (Z.to_nat (top - lo))
  end.

Fixpoint dist_range (bounds : list (Z * Z)) (rmin rmax : Z) : option (list (Z * Z)) :=
  match bounds with
  | [] => if (rmin >? 0) || (rmax <? 0) then None else Some []
  | (lo, hi) :: bs =>
    let pmin := if rmin >? 0 then Z.min hi (Z.max lo rmin) else lo in
    let pmax := if rmax <? MAXREPEAT then Z.min hi rmax else hi in
    if pmin >? pmax then None
    else match dist_range bs (Z.max 0 (rmin - pmin)) (rmax - (if pmax =? MAXREPEAT then 0 else pmax)) with
         | Some r => Some ((pmin, pmax) :: r)
         | None => None
         end
  end.

Definition opt_eqb (a b : option Z) : bool :=
  match a, b with
  | None, None => true
  | Some x, Some y => x =? y
  | _, _ => false
  end.

(* Python [x or d] for an optional int: None and 0 both give d *)
Definition py_or (o : option Z) (d : Z) : Z :=
  match o with None => d | Some 0 => d | Some v => v end.

Definition distribute (bounds : list (Z * Z)) (mn mx : option Z) : option (list (Z * Z)) :=
  if opt_eqb mn mx then
    match mn with
    | Some t => option_map (map (fun l => (l, l))) (find_comb bounds t)
    | None => None      (* assert min_length is not None: unreachable, update_quantifier returns early *)
    end
  else dist_range bounds (py_or mn 0) (py_or mx MAXREPEAT).

(* ---- patterns.py:89 _handle_anchored_pattern ---- *)
Fixpoint count_lit (l : list node) : Z :=
  match l with [] => 0 | x :: l' => (if is_lit x then 1 else 0) + count_lit l' end.
Fixpoint rep_bounds (l : list node) : list (Z * Z) :=
  match l with
  | [] => []
  | NRep lo hi _ :: l' => (lo, hi) :: rep_bounds l'
  | _ :: l' => rep_bounds l'
  end.

(* the rebuilding loop: literals are copied, every repeat takes the next pair *)
Fixpoint rebuild (parts : list node) (dist : list (Z * Z)) : option (list node) :=
  match parts with
  | [] => Some []
  | NRep lo hi body :: parts' =>
    match dist with
    | (nmin, nmax) :: dist' =>
      match update_node (NRep nmin nmax body) (Some nmin) (Some nmax), rebuild parts' dist' with
      | UNew y, Some r => Some (y :: r)
      | UKeep, Some r => Some (NRep lo hi body :: r)      (* the segment text with its old quantifier *)
      | _, _ => None
      end
    | [] => None          (* IndexError: unreachable, one pair per repeat *)
    end
  | x :: parts' => match rebuild parts' dist with Some r => Some (x :: r) | None => None end
  end.

Definition sub_fixed (o : option Z) (fixed : Z) : option Z :=
  match o with Some v => Some (v - fixed) | None => None end.
Definition is_neg (o : option Z) : bool := match o with Some v => v <? 0 | None => false end.

Definition handle_anchored (a : node) (mid : list node) (b : node) (mn mx : option Z) : result :=
  let fixed := count_lit mid in
  let mn' := sub_fixed mn fixed in
  let mx' := sub_fixed mx fixed in
  if is_neg mn' then Unchanged else
  if is_neg mx' then Unchanged else
  match rep_bounds mid with
  | [] => Unchanged
  | bounds =>
    match distribute bounds mn' mx' with
    | None | Some [] => Unchanged
    | Some dist =>
      match rebuild mid dist with
      | Some mid' => Rewritten (a :: mid' ++ [b])
      | None => RaisesInternal
      end
    end
  end.

Definition lift (f : node -> pattern) (r : uq_res) : result :=
  match r with UKeep => Unchanged | UNew y => Rewritten (f y) | URaise => RaisesInternal end.

Fixpoint split_last (l : list node) : option (list node * node) :=
  match l with
  | [] => None
  | [x] => Some ([], x)
  | x :: l' => match split_last l' with Some (m, b) => Some (x :: m, b) | None => None end
  end.

(* patterns.py:48 _handle_parsed_pattern *)
Definition handle_parsed (p : pattern) (mn mx : option Z) : result :=
  match p with
  | [x] => lift (fun y => [y]) (update_node x mn mx)
  | [a; x] =>
    if is_at a then lift (fun y => [a; y]) (update_node x mn mx)
    else if is_at x then lift (fun y => [y; x]) (update_node a mn mx)
    else Unchanged
  | [a; x; b] =>
    if is_at a && is_at b then lift (fun y => [a; y; b]) (update_node x mn mx) else Unchanged
  | a :: rest =>
    match split_last rest with
    | Some (mid, b) =>
      if is_at a && is_at b && forallb (fun x => is_lit x || is_rep x) mid
      then handle_anchored a mid b mn mx else Unchanged
    | None => Unchanged
    end
  | [] => Unchanged
  end.

Definition none_or_zero (o : option Z) : bool := match o with None => true | Some 0 => true | _ => false end.
Definition is_none (o : option Z) : bool := match o with None => true | _ => false end.

(* patterns.py:27 update_quantifier (the pattern is assumed to parse; an invalid one is returned as is) *)
Definition update_quantifier (p : pattern) (mn mx : option Z) : result :=
  match p with
  | [] => Unchanged
  | _ => if none_or_zero mn && is_none mx then Unchanged else handle_parsed p mn mx
  end.

(* converter.py:45 update_pattern_in_schema: the keywords minLength / maxLength are dropped iff the text changed.
   Returned: the effective (pattern, minLength, maxLength); None = InternalError escapes. *)
Definition py_truthy (o : option Z) : bool := match o with None => false | Some 0 => false | _ => true end.
Definition update_pattern_in_schema (p : pattern) (mn mx : option Z) : option (pattern * option Z * option Z) :=
  match p with
  | [] => Some (p, mn, mx)
  | _ =>
    if py_truthy mn || py_truthy mx then
      match update_quantifier p mn mx with
      | Unchanged => Some (p, mn, mx)
      | Rewritten p' => Some (p', None, None)
      | RaisesInternal => None
      end
    else Some (p, mn, mx)
  end.

(* ------------------------------------------------------------------------------------ *)
(* 4. Length bounds and the executable region predicates of the partial theorem           *)
(* ------------------------------------------------------------------------------------ *)
Definition len_in (mn mx : option Z) (s : str) : bool :=
  let n := Z.of_nat (length s) in
  (match mn with Some m => m <=? n | None => true end) &&
  (match mx with Some m => n <=? m | None => true end).

Definition is_char_node (x : node) : bool :=
  match x with NLit _ | NNotLit _ | NIn _ _ | NAny => true | _ => false end.

(* every match of the node consumes exactly one code point *)
Fixpoint unit_node (x : node) : bool :=
  let unit_seq := fun (b : list node) => match b with [y] => unit_node y | _ => false end in
  match x with
  | NLit _ | NNotLit _ | NIn _ _ | NAny => true
  | NSub b => unit_seq b
  | NBranch alts =>
      (fix all (l : list (list node)) : bool :=
         match l with [] => true | a :: l' => unit_seq a && all l' end) alts
  | _ => false
  end.
Definition unit_seq (b : list node) : bool := match b with [y] => unit_node y | _ => false end.

(* the bodies of all top level repeats consume one code point per iteration *)
Definition unit_bodies (p : pattern) : bool :=
  forallb (fun x => match x with NRep _ _ b => unit_seq b | _ => true end) p.

(* what sre_parse guarantees about top level repeats *)
Definition wf_pattern (p : pattern) : bool :=
  forallb (fun x => match x with NRep lo hi _ => (0 <=? lo) && (lo <=? hi) | _ => true end) p.

Definition lead_strict (p : pattern) : bool :=
  match p with NAt AtBeg :: _ | NAt AtBegStr :: _ => true | _ => false end.
Definition last_node (p : pattern) : option node :=
  match split_last p with Some (_, b) => Some b | None => None end.
Definition trail_strict (p : pattern) : bool :=
  match last_node p with Some (NAt AtEndStr) => true | _ => false end.
Definition trail_dollar (p : pattern) : bool :=
  match last_node p with Some (NAt AtEnd) => true | _ => false end.
Definition no_trailing_newline (s : str) : bool :=
  match rev s with c :: _ => negb (N.eqb c NL) | [] => true end.

(* F1 unanchored: an upper bound needs \A or ^ in front and \Z or $ at the end *)
Definition anchored_for_max (p : pattern) (mx : option Z) : bool :=
  match mx with
  | None => true
  | Some _ => lead_strict p && (trail_strict p || trail_dollar p)
  end.
(* F2 dollar + trailing newline *)
Definition dollar_newline_ok (p : pattern) (mx : option Z) (s : str) : bool :=
  match mx with
  | None => true
  | Some _ => trail_strict p || no_trailing_newline s
  end.
(* F4 maxLength equal to the number of fixed literals in the multi-quantifier path *)
Definition not_max_zero_multi (p : pattern) (mn mx : option Z) : bool :=
  match p with
  | _ :: _ :: _ :: _ :: _ =>
    let fixed := count_lit p in
    negb (is_some_zero (sub_fixed mx fixed)) || opt_eqb (sub_fixed mn fixed) (sub_fixed mx fixed)
  | _ => true
  end.
(* F5 a single character node between two anchors is turned into a repeat *)
Definition not_single_char_anchored (p : pattern) (mx : option Z) : bool :=
  match p with
  | [a; x; b] =>
    negb (is_at a && is_at b && (match x with NLit _ | NIn _ _ => true | _ => false end))
    || match mx with Some 1 => true | Some 0 => true | _ => false end
  | _ => true
  end.
(* model boundary, not a finding: lengths below MAXREPEAT *)
Definition max_small (mx : option Z) : bool :=
  match mx with Some m => m <? MAXREPEAT | None => true end.

(* ------------------------------------------------------------------------------------ *)
(* 5. Refutation witnesses                                                                *)
(* ------------------------------------------------------------------------------------ *)
Definition cls_az : node := NIn false [CRange 97 122].
Definition w_unanchored : pattern := [cls_az].                                              (* [a-z] *)
Definition w_dollar : pattern := [NAt AtBeg; NRep 1 MAXREPEAT [cls_az]; NAt AtEnd].         (* ^[a-z]+$ *)
Definition w_multichar : pattern := [NAt AtBeg; NRep 1 MAXREPEAT [NSub [NLit 97; NLit 98]]; NAt AtEnd].  (* ^(ab)+$ *)
Definition w_maxzero : pattern :=
  [NAt AtBeg; NLit 97; NRep 0 MAXREPEAT [NLit 98]; NRep 0 MAXREPEAT [NLit 99]; NAt AtEnd].  (* ^ab*c*$ *)
Definition w_single : pattern := [NAt AtBeg; cls_az; NAt AtEnd].                            (* ^[a-z]$ *)
Definition w_ok : pattern := [NAt AtBegStr; NRep 1 MAXREPEAT [cls_az]; NAt AtEndStr].       (* \A[a-z]+\Z *)
Definition w_ok_multi : pattern :=
  [NAt AtBeg; NLit 43; NRep 1 MAXREPEAT [NIn false [CCat false 0]]; NRep 0 3 [NLit 120]; NAt AtEnd].  (* ^\+\d+x{0,3}$ *)

(* ------------------------------------------------------------------------------------ *)
(* 6. converter.py:57-79 rewrite_properties / forbid_properties (request schemas)         *)
(*    The readOnly property names are removed from properties / required and the schema   *)
(*    gets  not: {required: [all of them]}.  Below: the Draft 4 meaning of that keyword   *)
(*    on an object with the given keys, and what OpenAPI asks for.                        *)
(* ------------------------------------------------------------------------------------ *)
Definition has_key (k : str) (keys : list str) : bool := existsb (str_eqb k) keys.
(* names = the list forbid_properties writes (non-empty: it is only called when something is forbidden) *)
Definition forbid_valid (names keys : list str) : bool := negb (forallb (fun n => has_key n keys) names).
Definition sends_no_readonly (names keys : list str) : bool := negb (existsb (fun n => has_key n keys) names).
Definition readonly_le1 (names : list str) : bool := match names with [_] => true | _ => false end.

(* converter.py:57-71 rewrite_properties as a whole, read through Draft 4 on the KEY SET of an object
   (property values assumed valid): the read-only names ro are deleted from properties, each one is removed from
   required (list.remove; required has no duplicates), not: {required: ro} is added when ro is non-empty;
   additionalProperties: false (closed) then only admits the remaining property names. *)
Definition remove_names (ro l : list str) : list str := filter (fun r => negb (has_key r ro)) l.
Definition subset_keys (l keys : list str) : bool := forallb (fun r => has_key r keys) l.
Definition converted_accepts (props required ro : list str) (closed : bool) (keys : list str) : bool :=
  subset_keys (remove_names ro required) keys
  && (match ro with [] => true | _ => forbid_valid ro keys end)
  && (negb closed || subset_keys keys (remove_names ro props)).
(* what OpenAPI asks of a request: required writable properties present, no read-only property sent *)
Definition request_view_accepts (props required ro : list str) (closed : bool) (keys : list str) : bool :=
  subset_keys (remove_names ro required) keys
  && sends_no_readonly ro keys
  && (negb closed || subset_keys keys (remove_names ro props)).
Definition readonly_le1' (ro : list str) : bool := match ro with [] | [_] => true | _ => false end.

(* ------------------------------------------------------------------------------------ *)
(* 7. converter.py:26-28 nullable, applied to every nested schema by to_json_schema_recursive *)
(*    (core/transforms.transform).  The keyword is tri-state and has two spellings:        *)
(*    nullable (3.x) and x-nullable (2.0); the converter only looks at the one it is told. *)
(*    Fragment: string / integer / boolean, arrays, objects (properties + required; no     *)
(*    property is named like a schema keyword).                                            *)
(* ------------------------------------------------------------------------------------ *)
Inductive nstate := NAbsent | NTrue | NFalse.
Inductive prim := PString | PInteger | PBoolean.
Inductive oas :=
| OPrim (n xn : nstate) (t : prim)
| OArr (n xn : nstate) (items : oas)
| OObj (n xn : nstate) (props : list (str * oas)) (required : list str).
(* the JSON Schema side *)
Inductive js :=
| JsPrim (t : prim)
| JsNull
| JsArr (items : js)
| JsObj (props : list (str * js)) (required : list str)
| JsAnyOf (alts : list js).
Inductive val := VNull | VStr | VInt | VBool | VArr (l : list val) | VObj (l : list (str * val)).

(* use_x = the converter was called with nullable_name = x-nullable (Open API 2.0) *)
Definition eff (use_x : bool) (s : oas) : nstate :=
  match s with
  | OPrim n xn _ | OArr n xn _ | OObj n xn _ _ => if use_x then xn else n
  end.

(* schema.get(nullable_name) is True *)
Definition wraps (st : nstate) : bool := match st with NTrue => true | _ => false end.
Definition wrap (st : nstate) (j : js) : js := if wraps st then JsAnyOf [j; JsNull] else j.

Fixpoint conv (use_x : bool) (s : oas) : js :=
  wrap (eff use_x s)
    match s with
    | OPrim _ _ t => JsPrim t
    | OArr _ _ it => JsArr (conv use_x it)
    | OObj _ _ props req =>
        JsObj ((fix go (l : list (str * oas)) : list (str * js) :=
                  match l with [] => [] | (k, p) :: l' => (k, conv use_x p) :: go l' end) props) req
    end.

Fixpoint vget (k : str) (l : list (str * val)) : option val :=
  match l with [] => None | (k', v) :: l' => if str_eqb k k' then Some v else vget k l' end.
Definition vhas (l : list (str * val)) (k : str) : bool := match vget k l with Some _ => true | None => false end.
Definition prim_ok (t : prim) (v : val) : bool :=
  match t, v with PString, VStr | PInteger, VInt | PBoolean, VBool => true | _, _ => false end.

(* Draft 4 validity for the keywords type / items / properties / required / anyOf *)
Fixpoint jvalid (j : js) (v : val) {struct j} : bool :=
  match j with
  | JsPrim t => prim_ok t v
  | JsNull => match v with VNull => true | _ => false end
  | JsArr it => match v with VArr l => forallb (jvalid it) l | _ => false end
  | JsObj props req =>
      match v with
      | VObj l =>
          forallb (vhas l) req &&
          (fix go (ps : list (str * js)) : bool :=
             match ps with
             | [] => true
             | (k, pj) :: ps' => (match vget k l with Some pv => jvalid pj pv | None => true end) && go ps'
             end) props
      | _ => false
      end
  | JsAnyOf alts => (fix any (l : list js) : bool := match l with [] => false | a :: l' => jvalid a v || any l' end) alts
  end.

(* the Open API meaning: null exactly where the effective keyword is true *)
Fixpoint oas_valid (use_x : bool) (s : oas) (v : val) {struct s} : bool :=
  match v with
  | VNull => wraps (eff use_x s)
  | _ =>
    match s with
    | OPrim _ _ t => prim_ok t v
    | OArr _ _ it => match v with VArr l => forallb (oas_valid use_x it) l | _ => false end
    | OObj _ _ props req =>
        match v with
        | VObj l =>
            forallb (vhas l) req &&
            (fix go (ps : list (str * oas)) : bool :=
               match ps with
               | [] => true
               | (k, p) :: ps' => (match vget k l with Some pv => oas_valid use_x p pv | None => true end) && go ps'
               end) props
        | _ => false
        end
    end
  end.

(* ------------------------------------------------------------------------------------ *)
(* 8. Generation settings                                                                 *)
(* ------------------------------------------------------------------------------------ *)
(* formats.header_values + _hypothesis._build_custom_formats: the alphabet of the _header_value format that plain
   string headers / cookies get: latin-1 without CR / LF, without NUL when allow_x00 is off; the codec is not consulted *)
Definition header_char_ok (allow_x00 : bool) (c : N) : bool :=
  (N.leb c 255) && negb (N.eqb c 10) && negb (N.eqb c 13) && (allow_x00 || negb (N.eqb c 0)).
Inductive codec := CodecAscii | CodecLatin1 | CodecUtf8.
Definition codec_ok (cd : codec) (c : N) : bool :=
  match cd with CodecAscii => N.ltb c 128 | CodecLatin1 => N.leb c 255 | CodecUtf8 => true end.

(* _hypothesis._get_body_strategy / get_parameters_strategy: strategies are cached per parameter object (and factory),
   the generation settings are not part of the key.  A strategy is represented by the settings it was built under. *)
Definition gsettings := (bool * codec)%type.
Definition scache := list (N * gsettings).
Fixpoint cache_find (key : N) (c : scache) : option gsettings :=
  match c with [] => None | (k, g) :: c' => if N.eqb k key then Some g else cache_find key c' end.
Definition get_strategy (c : scache) (key : N) (g : gsettings) : gsettings * scache :=
  match cache_find key c with Some old => (old, c) | None => (g, (key, g) :: c) end.
(* a history of as_strategy calls: (parameter, requested settings) -> the settings of the strategy actually used *)
Fixpoint run_calls (c : scache) (calls : list (N * gsettings)) : list gsettings :=
  match calls with
  | [] => []
  | (k, g) :: rest => let '(used, c') := get_strategy c k g in used :: run_calls c' rest
  end.
Definition gs_eqb (a b : gsettings) : bool :=
  Bool.eqb (fst a) (fst b) &&
  match snd a, snd b with CodecAscii, CodecAscii | CodecLatin1, CodecLatin1 | CodecUtf8, CodecUtf8 => true | _, _ => false end.
(* every parameter is always asked for with the same settings *)
Fixpoint consistent_calls (seen : scache) (calls : list (N * gsettings)) : bool :=
  match calls with
  | [] => true
  | (k, g) :: rest =>
    match cache_find k seen with
    | Some old => gs_eqb old g && consistent_calls seen rest
    | None => consistent_calls ((k, g) :: seen) rest
    end
  end.

(* ------------------------------------------------------------------------------------ *)
(* 9. Aliasing: does a conversion change the document it is given?                        *)
(*    converter.to_json_schema (copy flag, deepclone, rewrite_properties,                  *)
(*    forbid_properties), core/transforms.transform (to_json_schema_recursive),            *)
(*    references.InliningResolver.resolve_all, ConvertingResolver.resolve, and a history   *)
(*    of conversions on ONE loaded raw document.                                           *)
(*    Python containers are objects with an identity: every dict / list of a value carries *)
(*    an id.  A mutation is addressed to an id and is seen by every value that contains    *)
(*    a container with that id (upd).  A function returns its result together with the     *)
(*    log of the mutations it performed (wlog); what any other live object looks like      *)
(*    after the call is  apply_log log object.                                             *)
(*    Fragment of this section: no nullable wrapping, no type file, no pattern merging     *)
(*    (sections 1-7 model those); required / not.required hold strings; an existing not    *)
(*    is a dict.                                                                           *)
(* ------------------------------------------------------------------------------------ *)
Inductive atom := ANull | ABool (b : bool) | AInt (z : Z) | AStr (s : str).
Inductive pv :=
| PA (a : atom)
| PD (id : N) (kv : list (str * pv))
| PL (id : N) (xs : list pv).

(* a JSON document as Python objects: every container is a distinct object, numbered from n *)
Fixpoint label (n : N) (j : json) : pv * N :=
  match j with
  | JNull => (PA ANull, n)
  | JBool b => (PA (ABool b), n)
  | JInt z => (PA (AInt z), n)
  | JStr s => (PA (AStr s), n)
  | JArr l =>
      let '(xs, n') :=
        (fix go (n : N) (l : list json) : list pv * N :=
           match l with
           | [] => ([], n)
           | x :: r => let '(x', n1) := label n x in let '(r', n2) := go n1 r in (x' :: r', n2)
           end) (n + 1)%N l in
      (PL n xs, n')
  | JObj kvs =>
      let '(kv, n') :=
        (fix go (n : N) (l : list (str * json)) : list (str * pv) * N :=
           match l with
           | [] => ([], n)
           | (k, x) :: r => let '(x', n1) := label n x in let '(r', n2) := go n1 r in ((k, x') :: r', n2)
           end) (n + 1)%N kvs in
      (PD n kv, n')
  end.

Fixpoint erase (t : pv) : json :=
  match t with
  | PA ANull => JNull
  | PA (ABool b) => JBool b
  | PA (AInt z) => JInt z
  | PA (AStr s) => JStr s
  | PD _ kv => JObj ((fix go (l : list (str * pv)) : list (str * json) :=
                        match l with [] => [] | (k, v) :: r => (k, erase v) :: go r end) kv)
  | PL _ xs => JArr ((fix go (l : list pv) : list json :=
                        match l with [] => [] | v :: r => erase v :: go r end) xs)
  end.

(* a predicate on every identity of a value *)
Fixpoint all_ids (P : N -> bool) (t : pv) : bool :=
  match t with
  | PA _ => true
  | PD i kv => P i && (fix go (l : list (str * pv)) : bool :=
                         match l with [] => true | (_, v) :: r => all_ids P v && go r end) kv
  | PL i xs => P i && (fix go (l : list pv) : bool :=
                         match l with [] => true | v :: r => all_ids P v && go r end) xs
  end.
Definition lt_ids (n : N) (t : pv) : bool := all_ids (fun i => N.ltb i n) t.   (* t existed before the counter reached n *)
Definition ge_ids (n : N) (t : pv) : bool := all_ids (fun i => N.leb n i) t.   (* t was allocated at or after n *)

(* 1 + the largest identity *)
Fixpoint bound (t : pv) : N :=
  match t with
  | PA _ => 0%N
  | PD i kv => N.max (i + 1)%N ((fix go (l : list (str * pv)) : N :=
                                  match l with [] => 0%N | (_, v) :: r => N.max (bound v) (go r) end) kv)
  | PL i xs => N.max (i + 1)%N ((fix go (l : list pv) : N :=
                                  match l with [] => 0%N | v :: r => N.max (bound v) (go r) end) xs)
  end.

(* core/transforms.deepclone: a structurally equal value made of new containers *)
Fixpoint shift (n : N) (t : pv) : pv :=
  match t with
  | PA _ => t
  | PD i kv => PD (i + n)%N ((fix go (l : list (str * pv)) : list (str * pv) :=
                               match l with [] => [] | (k, v) :: r => (k, shift n v) :: go r end) kv)
  | PL i xs => PL (i + n)%N ((fix go (l : list pv) : list pv :=
                               match l with [] => [] | v :: r => shift n v :: go r end) xs)
  end.
(* deepclone at counter n (n above every live identity): the clone and the next counter *)
Definition deepclone (n : N) (t : pv) : pv * N := (shift n t, (n + bound t)%N).

(* the mutations the modelled functions perform on a container *)
Inductive mutn :=
| MDel (k : str)               (* del d[k]  /  d.pop(k, None) *)
| MSet (k : str) (v : pv)      (* d[k] = v *)
| MRemove (x : str)            (* l.remove(x), x a string *)
| MExtend (ys : list pv).      (* l.extend(ys) *)

Definition atom_is_str (x : str) (v : pv) : bool := match v with PA (AStr s) => str_eqb x s | _ => false end.
Fixpoint remove_first (x : str) (l : list pv) : list pv :=
  match l with [] => [] | v :: r => if atom_is_str x v then r else v :: remove_first x r end.

Definition do_mut (m : mutn) (t : pv) : pv :=
  match m, t with
  | MDel k, PD i kv => PD i (assoc_remove k kv)
  | MSet k v, PD i kv => PD i (assoc_set k v kv)
  | MRemove x, PL i xs => PL i (remove_first x xs)
  | MExtend ys, PL i xs => PL i (xs ++ ys)
  | _, _ => t
  end.

(* the mutation m on the container i, as seen from the value t *)
Fixpoint upd (i : N) (m : mutn) (t : pv) : pv :=
  match t with
  | PA _ => t
  | PD j kv =>
      let t' := PD j ((fix go (l : list (str * pv)) : list (str * pv) :=
                         match l with [] => [] | (k, v) :: r => (k, upd i m v) :: go r end) kv) in
      if N.eqb j i then do_mut m t' else t'
  | PL j xs =>
      let t' := PL j ((fix go (l : list pv) : list pv :=
                         match l with [] => [] | v :: r => upd i m v :: go r end) xs) in
      if N.eqb j i then do_mut m t' else t'
  end.

Definition wlog := list (N * mutn).
Definition apply_log (lg : wlog) (t : pv) : pv := fold_left (fun t e => upd (fst e) (snd e) t) lg t.
Definition targets_ge (n : N) (lg : wlog) : bool := forallb (fun e => N.leb n (fst e)) lg.

(* working value, log so far, allocation counter *)
Definition cst := (pv * wlog * N)%type.
Definition cst_w (s : cst) : pv := fst (fst s).
Definition emit (i : N) (m : mutn) (s : cst) : cst :=
  let '(w, lg, n) := s in (upd i m w, lg ++ [(i, m)], n).
Definition emit_opt (i : option N) (m : mutn) (s : cst) : cst := match i with Some i => emit i m s | None => s end.

Definition s_required : str := [114; 101; 113; 117; 105; 114; 101; 100]%N.
Definition s_properties : str := [112; 114; 111; 112; 101; 114; 116; 105; 101; 115]%N.
Definition s_not : str := [110; 111; 116]%N.
Definition s_type : str := [116; 121; 112; 101]%N.
Definition s_object : str := [111; 98; 106; 101; 99; 116]%N.
Definition s_readOnly : str := [114; 101; 97; 100; 79; 110; 108; 121]%N.
Definition s_writeOnly : str := [119; 114; 105; 116; 101; 79; 110; 108; 121]%N.
Definition s_xwriteOnly : str := [120; 45; 119; 114; 105; 116; 101; 79; 110; 108; 121]%N.
Definition s_ref : str := [36; 114; 101; 102]%N.

Definition root_id (t : pv) : option N := match t with PD i _ | PL i _ => Some i | PA _ => None end.
Definition d_get (k : str) (t : pv) : option pv := match t with PD _ kv => assoc_get k kv | _ => None end.
Definition d_get_id (k : str) (t : pv) : option N := match d_get k t with Some v => root_id v | None => None end.
(* Python truth value *)
Definition truthy (v : pv) : bool :=
  match v with
  | PA ANull => false
  | PA (ABool b) => b
  | PA (AInt z) => negb (z =? 0)
  | PA (AStr s) => match s with [] => false | _ => true end
  | PD _ kv => match kv with [] => false | _ => true end
  | PL _ xs => match xs with [] => false | _ => true end
  end.
Definition get_truthy (k : str) (t : pv) : bool := match d_get k t with Some v => truthy v | None => false end.
(* converter.py:90 is_read_only, :84 is_write_only (a bool subschema is neither) *)
Definition is_read_only (sub : pv) : bool := get_truthy s_readOnly sub.
Definition is_write_only (sub : pv) : bool := get_truthy s_writeOnly sub || get_truthy s_xwriteOnly sub.
Definition list_has (x : str) (v : option pv) : bool :=
  match v with Some (PL _ xs) => existsb (atom_is_str x) xs | _ => false end.
Fixpoint dedup_strs (seen : list str) (l : list pv) : list pv :=
  match l with
  | [] => []
  | PA (AStr s) :: r => if has_key s seen then dedup_strs seen r else PA (AStr s) :: dedup_strs (s :: seen) r
  | v :: r => v :: dedup_strs seen r
  end.

(* converter.py:59-66, one iteration of the loop over list(schema.get(properties, {}).items()) *)
Definition rw_step (pred : pv -> bool) (rid pid : option N) (acc : cst * list str) (item : str * pv) : cst * list str :=
  let '(s, forb) := acc in
  let '(name, sub) := item in
  if pred sub then
    let s1 := if list_has name (d_get s_required (cst_w s)) then emit_opt rid (MRemove name) s else s in
    (emit_opt pid (MDel name) s1, forb ++ [name])
  else acc.

(* converter.py:74-79 forbid_properties on the schema object wid *)
Definition forbid (wid : N) (forb : list str) (s : cst) : cst :=
  (* not_schema = schema.setdefault(not, {}) *)
  let '(s1, nid) :=
    match d_get_id s_not (cst_w s) with
    | Some i => (s, i)
    | None => let '(w, lg, n) := s in (emit wid (MSet s_not (PD n [])) (w, lg, (n + 1)%N), n)
    end in
  (* already_forbidden = not_schema.setdefault(required, []) *)
  let cur_not := fun (x : cst) => match d_get s_not (cst_w x) with Some d => d | None => PA ANull end in
  let '(s2, lid) :=
    match d_get_id s_required (cur_not s1) with
    | Some i => (s1, i)
    | None => let '(w, lg, n) := s1 in (emit nid (MSet s_required (PL n [])) (w, lg, (n + 1)%N), n)
    end in
  (* already_forbidden.extend(forbidden) *)
  let s3 := emit lid (MExtend (map (fun x => PA (AStr x)) forb)) s2 in
  (* not_schema[required] = list(set(chain(already_forbidden, forbidden))): a new list, order unspecified *)
  let already := match d_get s_required (cur_not s3) with Some (PL _ xs) => xs | _ => [] end in
  let '(w, lg, n) := s3 in
  emit nid (MSet s_required (PL n (dedup_strs [] already))) (w, lg, (n + 1)%N).

(* converter.py:57-71 rewrite_properties(schema, predicate) on the schema object wid = the root of the working value *)
Definition rewrite_properties (pred : pv -> bool) (wid : N) (s : cst) : cst :=
  let w := cst_w s in
  let rid := d_get_id s_required w in
  let pid := d_get_id s_properties w in
  let items := match d_get s_properties w with Some (PD _ kv) => kv | _ => [] end in
  let '(s1, forb) := fold_left (rw_step pred rid pid) items (s, []) in
  let s2 := match forb with [] => s1 | _ => forbid wid forb s1 end in
  let s3 := if get_truthy s_required (cst_w s2) then s2 else emit wid (MDel s_required) s2 in
  if get_truthy s_properties (cst_w s3) then s3 else emit wid (MDel s_properties) s3.

(* converter.py:11-42 to_json_schema(schema, copy=, is_response_schema=) at allocation counter n *)
Definition to_json_schema (copy resp : bool) (n : N) (t : pv) : cst :=
  let '(w, n1) := if copy then deepclone n t else (t, n) in
  match w with
  | PD wid _ =>
      if match d_get s_type w with Some v => atom_is_str s_object v | None => false end
      then rewrite_properties (if resp then is_write_only else is_read_only) wid (w, [], n1)
      else (w, [], n1)
  | _ => (w, [], n1)
  end.

(* core/transforms.py:66 transform(schema, to_json_schema, ...) = converter.to_json_schema_recursive.
   The callback result w is then updated in place: w[key] = transform(sub_item); lists are rebuilt. *)
Fixpoint transform (fuel : nat) (copy resp : bool) (n : N) (t : pv) : option cst :=
  match fuel with
  | O => None
  | S f =>
    match t with
    | PA _ => Some (t, [], n)
    | PL _ xs =>
        match (fix go (n : N) (l : list pv) : option (list pv * wlog * N) :=
                 match l with
                 | [] => Some ([], [], n)
                 | x :: r =>
                     match transform f copy resp n x with
                     | None => None
                     | Some (x', lx, n1) =>
                         match go n1 r with
                         | None => None
                         | Some (r', lr, n2) => Some (x' :: r', lx ++ lr, n2)
                         end
                     end
                 end) (n + 1)%N xs with
        | None => None
        | Some (xs', lg, n') => Some (PL n xs', lg, n')
        end
    | PD _ _ =>
        let '(w, lg0, n1) := to_json_schema copy resp n t in
        match w with
        | PD wid kv =>
            (fix go (w : pv) (lg : wlog) (n : N) (items : list (str * pv)) : option cst :=
               match items with
               | [] => Some (w, lg, n)
               | (k, _) :: r =>
                   match d_get k w with
                   | None => go w lg n r
                   | Some sub =>
                       match transform f copy resp n sub with
                       | None => None
                       | Some (c, lgc, n1) =>
                           go (upd wid (MSet k c) (apply_log lgc w)) (lg ++ lgc ++ [(wid, MSet k c)]) n1 r
                       end
                   end
               end) w lg0 n1 kv
        | _ => Some (w, lg0, n1)
        end
    end
  end.

(* references.py:83 InliningResolver.resolve_all over the raw document: new containers everywhere, a dict with a string
   $ref is replaced by the (inlined) target.  The raw document is seen as a dict  reference text -> object  (store).
   None: fuel exhausted or unresolvable reference (RefResolutionError). *)
Fixpoint inline (fuel : nat) (store : pv) (n : N) (t : pv) : option (pv * N) :=
  match fuel with
  | O => None
  | S f =>
    match t with
    | PA _ => Some (t, n)
    | PL _ xs =>
        match (fix go (n : N) (l : list pv) : option (list pv * N) :=
                 match l with
                 | [] => Some ([], n)
                 | x :: r =>
                     match inline f store n x with
                     | None => None
                     | Some (x', n1) => match go n1 r with None => None | Some (r', n2) => Some (x' :: r', n2) end
                     end
                 end) (n + 1)%N xs with
        | None => None
        | Some (xs', n') => Some (PL n xs', n')
        end
    | PD _ kv =>
        match assoc_get s_ref kv with
        | Some (PA (AStr r)) =>
            match d_get r store with
            | Some target => inline f store n target
            | None => None
            end
        | _ =>
            match (fix go (n : N) (l : list (str * pv)) : option (list (str * pv) * N) :=
                     match l with
                     | [] => Some ([], n)
                     | (k, x) :: r =>
                         match inline f store n x with
                         | None => None
                         | Some (x', n1) => match go n1 r with None => None | Some (r', n2) => Some ((k, x') :: r', n2) end
                         end
                     end) (n + 1)%N kv with
            | None => None
            | Some (kv', n') => Some (PD n kv', n')
            end
        end
    end
  end.

(* A history on one loaded schema.  The state is the raw document (store); nothing else is shared between the steps.
   EvConvert loc resp : to_json_schema_recursive is called on the raw object at loc
                        (ConvertingResolver.resolve(loc) while a response is validated: resp = true;
                         get_response_schema on an inline response schema: resp = true)
   EvInit body        : an operation with this request body schema is initialised and its generation schema is built
                        (resolve_all, then OpenAPIBody.as_json_schema = to_json_schema_recursive, request direction).
   EvComponents loc   : rewritten_components converts the raw object at loc: transform(deepclone(object), callback with copy = False).
   copy = the flag to_json_schema is called with by the first two call sites (the code: always true). *)
Inductive event := EvConvert (loc : str) (resp : bool) | EvInit (body : json) | EvComponents (loc : str).

(* the allocation counter a conversion starts from only has to be above every live identity *)
Definition gen_schema (fuel : nat) (copy : bool) (store : pv) (body : json) : option cst :=
  let '(b, n1) := label (bound store) body in
  match inline fuel store n1 b with
  | None => None
  | Some (b', n2) => transform fuel copy false (N.max (N.max n2 (bound b')) (bound store)) b'
  end.

Definition step (fuel : nat) (copy : bool) (store : pv) (ev : event) : option pv :=
  match ev with
  | EvConvert loc resp =>
      match d_get loc store with
      | None => Some store
      | Some doc =>
          match transform fuel copy resp (bound store) doc with
          | None => None
          | Some (_, lg, _) => Some (apply_log lg store)
          end
      end
  | EvInit body =>
      match gen_schema fuel copy store body with
      | None => Some store
      | Some (_, lg, _) => Some (apply_log lg store)
      end
  | EvComponents loc =>
      match d_get loc store with
      | None => Some store
      | Some doc =>
          let '(c, n1) := deepclone (bound store) doc in
          match transform fuel false false n1 c with
          | None => None
          | Some (_, lg, _) => Some (apply_log lg store)
          end
      end
  end.

Fixpoint run (fuel : nat) (copy : bool) (store : pv) (h : list event) : option pv :=
  match h with
  | [] => Some store
  | ev :: h' => match step fuel copy store ev with None => None | Some s' => run fuel copy s' h' end
  end.

(* what the harness evaluates against the real functions: (erased result, erased input after the call) *)
Definition level_io (copy resp : bool) (j : json) : json * json :=
  let '(s, n) := label 1%N j in
  let '(r, lg, _) := to_json_schema copy resp n s in (erase r, erase (apply_log lg s)).
Definition conv_io (fuel : nat) (copy resp : bool) (j : json) : option (json * json) :=
  let '(s, n) := label 1%N j in
  match transform fuel copy resp n s with
  | None => None
  | Some (r, lg, _) => Some (erase r, erase (apply_log lg s))
  end.
(* the store after the history, and the generation schema of an operation initialised then *)
Definition history_io (fuel : nat) (copy : bool) (storej : json) (h : list event) (body : json) : option (json * option json) :=
  let '(s, _) := label 1%N storej in
  match run fuel copy s h with
  | None => None
  | Some s' => Some (erase s', match gen_schema fuel copy s' body with Some (r, _, _) => Some (erase r) | None => None end)
  end.
(* schemas.py:731 rewritten_components (local references only): transform(deepclone(components), callback with copy = False) *)
Definition clone_conv_io (fuel : nat) (j : json) : option (json * json) :=
  let '(s, n) := label 1%N j in
  let '(c, n1) := deepclone n s in
  match transform fuel false false n1 c with
  | None => None
  | Some (r, lg, _) => Some (erase r, erase (apply_log lg s))
  end.

(* ------------------------------------------------------------------------------------ *)
(* 10. WHERE the pattern rewriter runs: the conversion pipeline of one parameter location *)
(*     (_hypothesis.py get_parameters_strategy -> get_schema_for_location ->             *)
(*      parameters.py parameters_to_json_schema -> OpenAPIParameter.as_json_schema ->     *)
(*      converter.to_json_schema_recursive; then make_positive_strategy -> from_schema)   *)
(* ------------------------------------------------------------------------------------ *)
Inductive ploc := LPath | LQuery | LHeader | LCookie.
Inductive ptype := TyString | TyInteger | TyBoolean.

(* the keywords of a DECLARED parameter schema the pipeline looks at *)
Record decl := mkDecl {
  d_type : option ptype;          (* the type keyword, when written *)
  d_nullable : nstate;            (* nullable / x-nullable (the keyword of the dialect): absent, true, false *)
  d_other : bool;                 (* some further keyword is present (enum, format, example ...) *)
  d_pattern : option pattern;
  d_min : option Z;               (* minLength *)
  d_max : option Z }.             (* maxLength *)

(* one dict of the generation schema that may carry pattern / minLength / maxLength *)
Record kw := mkKw {
  k_type : option ptype;
  k_pattern : option pattern;
  k_rewritten : bool;             (* the pattern text was replaced by update_pattern_in_schema *)
  k_min : option Z;
  k_max : option Z;
  k_other : bool;                 (* keys besides type / pattern / minLength / maxLength / format *)
  k_format : bool }.              (* format: _header_value was added *)

(* the property of the location object: the dict itself, or anyOf [dict, null] with its own type / minLength next to anyOf *)
Inductive gprop :=
| GPlain (k : kw)
| GNullable (outer_type : option ptype) (outer_min : option Z) (k : kw).

Definition g_kw (g : gprop) : kw := match g with GPlain k => k | GNullable _ _ k => k end.
Definition g_pattern (g : gprop) : option pattern := k_pattern (g_kw g).
Definition g_rewritten (g : gprop) : bool := k_rewritten (g_kw g).

Definition set_pattern (k : kw) (p : pattern) : kw :=
  mkKw (k_type k) (Some p) true None None (k_other k) (k_format k).
Definition set_type (k : kw) (t : option ptype) : kw :=
  mkKw t (k_pattern k) (k_rewritten k) (k_min k) (k_max k) (k_other k) (k_format k).
Definition set_min (k : kw) (m : option Z) : kw :=
  mkKw (k_type k) (k_pattern k) (k_rewritten k) m (k_max k) (k_other k) (k_format k).
Definition set_format (k : kw) : kw :=
  mkKw (k_type k) (k_pattern k) (k_rewritten k) (k_min k) (k_max k) (k_other k) true.

(* converter.py:45 update_pattern_in_schema applied to one dict (section 3 gives the triple; here the dict) *)
Definition rewrite_kw (k : kw) : option kw :=
  match k_pattern k with
  | None => Some k
  | Some [] => Some k
  | Some p =>
    if py_truthy (k_min k) || py_truthy (k_max k) then
      match update_quantifier p (k_min k) (k_max k) with
      | Unchanged => Some k
      | Rewritten p' => Some (set_pattern k p')
      | RaisesInternal => None
      end
    else Some k
  end.

Definition setdefault {A} (o : option A) (v : A) : option A := match o with None => Some v | Some _ => o end.
Definition is_string (t : option ptype) : bool := match t with Some TyString => true | _ => false end.
Definition is_header_loc (l : ploc) : bool := match l with LHeader | LCookie => true | _ => false end.
Definition is_path_loc (l : ploc) : bool := match l with LPath => true | _ => false end.
Definition is_ntrue (n : nstate) : bool := match n with NTrue => true | _ => false end.
Definition is_nfalse (n : nstate) : bool := match n with NFalse => true | _ => false end.

(* parameters.py from_open_api_to_json_schema (keyword filter) + converter.to_json_schema_recursive:
   nullable: true is deleted and the dict is wrapped (the callback finds no pattern on the wrapper); transform then
   visits the inner dict, where - as for a dict that is not wrapped - update_pattern_in_schema runs on the keywords
   THE AUTHOR WROTE.  An explicit nullable: false stays in the dict as a key.  None = InternalError escapes. *)
Definition convert (d : decl) : option gprop :=
  let k := mkKw (d_type d) (d_pattern d) false (d_min d) (d_max d) (d_other d || is_nfalse (d_nullable d)) false in
  match rewrite_kw k with
  | None => None
  | Some k' => Some (if is_ntrue (d_nullable d) then GNullable None None k' else GPlain k')
  end.

(* the later steps, each on the OUTER dict of one property *)
Inductive pstep :=
| SHeaderType      (* parameters.py transform_keywords: if is_header: definition.setdefault(type, string) *)
| SPathDefaults    (* _hypothesis.py get_schema_for_location: path and type == string: prop.setdefault(minLength, 1) *)
| SRewriteOuter    (* update_pattern_in_schema(prop) - NOT a step of the code as it is *)
| SHeaderFormat.   (* _hypothesis.py make_positive_strategy: header and list(sub_schema) == [type] and type == string *)

Definition is_rewrite_step (s : pstep) : bool := match s with SRewriteOuter => true | _ => false end.

Definition only_type_string (k : kw) : bool :=
  is_string (k_type k) && negb (k_other k) && negb (k_format k) &&
  match k_pattern k, k_min k, k_max k with None, None, None => true | _, _, _ => false end.

Definition apply_step (l : ploc) (s : pstep) (g : gprop) : option gprop :=
  match s with
  | SHeaderType =>
    if is_header_loc l then
      Some (match g with
            | GPlain k => GPlain (set_type k (setdefault (k_type k) TyString))
            | GNullable t m k => GNullable (setdefault t TyString) m k
            end)
    else Some g
  | SPathDefaults =>
    if is_path_loc l then
      Some (match g with
            | GPlain k => if is_string (k_type k) then GPlain (set_min k (setdefault (k_min k) 1)) else g
            | GNullable t m k => if is_string t then GNullable t (setdefault m 1) k else g
            end)
    else Some g
  | SRewriteOuter =>
    match g with
    | GPlain k => match rewrite_kw k with Some k' => Some (GPlain k') | None => None end
    | GNullable _ _ _ => Some g        (* the wrapper has no pattern key *)
    end
  | SHeaderFormat =>
    if is_header_loc l then
      Some (match g with
            | GPlain k => if only_type_string k then GPlain (set_format k) else g
            | GNullable _ _ _ => g
            end)
    else Some g
  end.

Fixpoint run_steps (l : ploc) (steps : list pstep) (g : gprop) : option gprop :=
  match steps with
  | [] => Some g
  | s :: steps' => match apply_step l s g with Some g' => run_steps l steps' g' | None => None end
  end.

(* OpenAPIParameter.as_json_schema *)
Definition as_json_schema (l : ploc) (d : decl) : option gprop :=
  match convert d with Some g => apply_step l SHeaderType g | None => None end.

(* what happens to every property AFTER parameters_to_json_schema built the object: the code as it is,
   and the order with the rewriter called after the path default *)
Definition dict_steps : list pstep := [SPathDefaults; SHeaderFormat].
Definition seeded_dict_steps : list pstep := [SPathDefaults; SRewriteOuter; SHeaderFormat].

(* the generation schema of ONE parameter of a location *)
Definition gen_prop_with (steps : list pstep) (l : ploc) (d : decl) : option gprop :=
  match as_json_schema l d with Some g => run_steps l steps g | None => None end.
Definition gen_prop : ploc -> decl -> option gprop := gen_prop_with dict_steps.

(* ---- the whole location ---- *)
Record param := mkParam { p_name : str; p_required : bool; p_decl : decl }.

(* parameters.py:309 parameters_to_json_schema: properties[name] = ... (a later parameter of the same name wins),
   required gets each required name once *)
Fixpoint params_to_schema (l : ploc) (ps : list param) (props : list (str * gprop)) (req : list str)
  : option (list (str * gprop) * list str) :=
  match ps with
  | [] => Some (props, req)
  | p :: ps' =>
    match as_json_schema l (p_decl p) with
    | None => None
    | Some g =>
      params_to_schema l ps' (assoc_set (p_name p) g props)
        (if p_required p && negb (has_key (p_name p) req) then req ++ [p_name p] else req)
    end
  end.

Fixpoint map_steps (l : ploc) (steps : list pstep) (props : list (str * gprop)) : option (list (str * gprop)) :=
  match props with
  | [] => Some []
  | (name, g) :: props' =>
    match run_steps l steps g, map_steps l steps props' with
    | Some g', Some r => Some ((name, g') :: r)
    | _, _ => None
    end
  end.

(* get_schema_for_location + make_positive_strategy: (properties, required) of the object handed to from_schema;
   additionalProperties: false and type: object are constant *)
Definition location_schema_with (steps : list pstep) (l : ploc) (ps : list param)
  : option (list (str * gprop) * list str) :=
  match params_to_schema l ps [] [] with
  | None => None
  | Some (props, req) =>
    let req' := if is_path_loc l then map fst props else req in
    match map_steps l steps props with
    | Some props' => Some (props', req')
    | None => None
    end
  end.
Definition location_schema : ploc -> list param -> option (list (str * gprop) * list str) :=
  location_schema_with dict_steps.

(* the declared keywords have a truthy length bound: the only condition under which the rewriter may act *)
Definition declared_length (d : decl) : bool := py_truthy (d_min d) || py_truthy (d_max d).

(* all regions of C01_rewrite_sound_partial on the DECLARED keywords; trivially true when no length is declared *)
Definition pipeline_region (d : decl) (s : str) : bool :=
  match d_pattern d with
  | None => true
  | Some p =>
    negb (declared_length d) ||
    (wf_pattern p && max_small (d_max d) && anchored_for_max p (d_max d) && dollar_newline_ok p (d_max d) s &&
     unit_bodies p && not_max_zero_multi p (d_min d) (d_max d) && not_single_char_anchored p (d_max d))
  end.

(* executable acceptance of a string value by one dict / by the declared keywords (used by the harness to attribute failures) *)
Definition kw_accepts_b (catp : N -> N -> bool) (k : kw) (s : str) : bool :=
  (match k_pattern k with Some p => search_b catp p s | None => true end) && len_in (k_min k) (k_max k) s.
Definition decl_accepts_b (catp : N -> N -> bool) (d : decl) (s : str) : bool :=
  (match d_pattern d with Some p => search_b catp p s | None => true end) && len_in (d_min d) (d_max d) s.

(* witness of the seeded order: a path parameter ^[a-z]$ that declares no length *)
Definition d_single : decl := mkDecl (Some TyString) NAbsent false (Some w_single) None None.

(* ------------------------------------------------------------------------------------ *)
(* 11. The VALUE side: what happens to a generated container between the strategy and     *)
(*     the case (_hypothesis.py get_parameters_strategy: strategy.map(serialize),          *)
(*     .filter(is_valid_path etc), .map(quote_all), .map(jsonify_python_specific_types)).         *)
(*     Section 10 is the schema side (what from_schema is given); this is the chain the    *)
(*     generated value then runs through, per location.                                    *)
(* ------------------------------------------------------------------------------------ *)
(* a generated primitive parameter value *)
Inductive gval := GStr (s : str) | GBool (b : bool) | GNull | GInt (z : Z).
Definition container := list (str * gval).

(* str.isspace of one code point = what str.lstrip() removes and what \s means in a str regex *)
Definition py_space (c : N) : bool :=
  ((9 <=? c) && (c <=? 13) || (28 <=? c) && (c <=? 32) || (c =? 133) || (c =? 160) || (c =? 5760) ||
   (8192 <=? c) && (c <=? 8202) || (c =? 8232) || (c =? 8233) || (c =? 8239) || (c =? 8287) || (c =? 12288))%N.
Fixpoint py_lstrip (s : str) : str :=
  match s with c :: r => if py_space c then py_lstrip r else s | [] => [] end.

(* decimal text of an integer: str(int) *)
Fixpoint digits_fuel (fuel : nat) (n : N) (acc : str) : str :=
  match fuel with
  | O => acc
  | S f => let acc' := (48 + n mod 10)%N :: acc in
           if (n / 10 =? 0)%N then acc' else digits_fuel f (n / 10)%N acc'
  end.
Definition N_to_str (n : N) : str := digits_fuel (S (N.size_nat n)) n [].
Definition Z_to_str (z : Z) : str :=
  match z with Zneg p => 45%N :: N_to_str (Npos p) | _ => N_to_str (Z.to_N z) end.

(* str(value): serialization.to_string *)
Definition py_str (g : gval) : str :=
  match g with
  | GStr s => s
  | GBool true => [84; 114; 117; 101]%N
  | GBool false => [70; 97; 108; 115; 101]%N
  | GNull => [78; 111; 110; 101]%N
  | GInt z => Z_to_str z
  end.

(* jsonify_python_specific_types on one top-level value *)
Definition jsonify_val (g : gval) : gval :=
  match g with
  | GBool true => GStr [116; 114; 117; 101]%N
  | GBool false => GStr [102; 97; 108; 115; 101]%N
  | GNull => GStr [110; 117; 108; 108]%N
  | _ => g
  end.

(* UTF-8 bytes of a code point (bit masks as in the codec) *)
Definition utf8_c (c : N) : list N :=
  (if c <? 128 then [c mod 128]
   else if c <? 2048 then [192 + (c / 64) mod 32; 128 + c mod 64]
   else if c <? 65536 then [224 + (c / 4096) mod 16; 128 + (c / 64) mod 64; 128 + c mod 64]
   else [240 + (c / 262144) mod 8; 128 + (c / 4096) mod 64; 128 + (c / 64) mod 64; 128 + c mod 64])%N.
Definition utf8 (s : str) : list N := flat_map utf8_c s.

(* urllib.parse.quote_plus on bytes: unreserved characters stay, space is +, anything else %XX (upper case) *)
Definition hex_digit (n : N) : N := (if n <? 10 then 48 + n else 55 + n)%N.
Definition quote_safe (b : N) : bool :=
  (is_upper b || is_lower b || is_digit b || (b =? 95) || (b =? 46) || (b =? 45) || (b =? 126))%N.
Definition quote_byte (b : N) : str :=
  if quote_safe b then [b] else if (b =? 32)%N then [43%N] else [37%N; hex_digit (b / 16); hex_digit (b mod 16)].
Definition quote_plus (s : str) : str := flat_map quote_byte (utf8 s).
(* quote_all on one value: . and .. are spelled out *)
Definition quote_val (g : gval) : gval :=
  match g with
  | GStr s => if str_eqb s [46%N] then GStr [37; 50; 69]%N
              else if str_eqb s [46; 46]%N then GStr [37; 50; 69; 37; 50; 69]%N
              else GStr (quote_plus s)
  | _ => g
  end.

(* the reader side (urllib.parse.unquote_plus, before decoding the bytes): + is a space, %XX is a byte *)
Definition hex_val (c : N) : N :=
  (if is_digit c then c - 48 else if is_upper c then c - 55 else if is_lower c then c - 87 else 0)%N.
Fixpoint unquote_plus_bytes (s : str) : list N :=
  match s with
  | [] => []
  | c :: r =>
    if (c =? 43)%N then 32%N :: unquote_plus_bytes r
    else if (c =? 37)%N then
      match r with
      | h1 :: h2 :: r' => (16 * hex_val h1 + hex_val h2)%N :: unquote_plus_bytes r'
      | _ => c :: unquote_plus_bytes r
      end
    else c :: unquote_plus_bytes r
  end.

(* the filters of openapi/generation/filters.py, on one (name, value) entry *)
Definition is_surrogate (c : N) : bool := ((55296 <=? c) && (c <=? 57343))%N.
Definition has_surrogate (s : str) : bool := existsb is_surrogate s.
Definition is_crlf (c : N) : bool := ((c =? 10) || (c =? 13))%N.
(* requests: header name ^[^:\s][^:\r\n]*\Z, header value ^\S[^\r\n]*\Z|^\Z *)
Definition header_name_ok (n : str) : bool :=
  match n with
  | [] => false
  | c :: r => negb (c =? 58)%N && negb (py_space c) && forallb (fun x => negb (x =? 58)%N && negb (is_crlf x)) r
  end.
Definition header_value_ok (s : str) : bool :=
  forallb (fun c => (c <=? 255)%N) s &&
  match s with [] => true | c :: r => negb (py_space c) && forallb (fun x => negb (is_crlf x)) r end.
Definition entry_valid (l : ploc) (e : str * gval) : bool :=
  match l, snd e with
  | (LHeader | LCookie), GStr s => header_value_ok s && header_name_ok (fst e)
  | (LHeader | LCookie), _ => false                         (* is_latin_1_encodable of a non-string *)
  | LPath, GStr s => negb (str_eqb s []) && negb (has_surrogate s) &&
                     negb (existsb (fun c => (c =? 47) || (c =? 123) || (c =? 125))%N s)
  | LPath, _ => true
  | LQuery, GStr s => negb (has_surrogate (fst e)) && negb (has_surrogate s)
  | LQuery, _ => negb (has_surrogate (fst e))
  end.

(* one link of the chain *)
Inductive vstep :=
| VToString            (* strategy.map(serialize): to_string(name) of every header / cookie parameter *)
| VFilter (l : ploc)   (* strategy.filter(is_valid_path / is_valid_header / is_valid_query) *)
| VQuoteAll            (* strategy.map(quote_all) *)
| VJsonify             (* strategy.map(jsonify_python_specific_types) *)
| VLstrip.             (* NOT a link of the code as it is: str.lstrip() of every string value *)

Definition map_vals (f : gval -> gval) (c : container) : container := map (fun e => (fst e, f (snd e))) c.
Definition apply_vstep (st : vstep) (c : container) : option container :=
  match st with
  | VToString => Some (map_vals (fun g => GStr (py_str g)) c)
  | VFilter l => if forallb (entry_valid l) c then Some c else None       (* None: the draw is discarded *)
  | VQuoteAll => Some (map_vals quote_val c)
  | VJsonify => Some (map_vals jsonify_val c)
  | VLstrip => Some (map_vals (fun g => match g with GStr s => GStr (py_lstrip s) | _ => g end) c)
  end.
Fixpoint run_vsteps (steps : list vstep) (c : container) : option container :=
  match steps with
  | [] => Some c
  | st :: rest => match apply_vstep st c with Some c' => run_vsteps rest c' | None => None end
  end.

(* get_parameters_strategy, the chain after strategy_factory(...); skip = _can_skip_header_filter(schema) *)
Definition value_chain (l : ploc) (skip : bool) : list vstep :=
  match l with
  | LHeader | LCookie => VToString :: (if skip then [] else [VFilter l])
  | LPath => [VFilter LPath; VQuoteAll; VJsonify]
  | LQuery => [VFilter LQuery; VJsonify]
  end.
(* the seeded order: a strip between the serializer and the filter *)
Definition seeded_value_chain (l : ploc) (skip : bool) : list vstep :=
  match l with
  | LHeader | LCookie => VToString :: (if skip then [] else [VLstrip; VFilter l])
  | _ => value_chain l skip
  end.

(* what the property allows between the generated value and the value in the case: the string coercion of the location *)
Definition coerced (l : ploc) (g out : gval) : bool :=
  match l with
  | LHeader | LCookie => match out with GStr s => str_eqb s (py_str g) | _ => false end
  | LQuery =>
    match g, out with
    | GStr s, GStr s' => str_eqb s s'
    | GInt z, GInt z' => Z.eqb z z'
    | (GBool _ | GNull), GStr s' => match jsonify_val g with GStr j => str_eqb s' j | _ => false end
    | _, _ => false
    end
  | LPath =>
    match g, out with
    | GStr s, GStr q => str_eqb (unquote_plus_bytes q) (utf8 s)
    | GInt z, GInt z' => Z.eqb z z'
    | (GBool _ | GNull), GStr s' => match jsonify_val g with GStr j => str_eqb s' j | _ => false end
    | _, _ => false
    end
  end.
Fixpoint all_coerced (l : ploc) (c c' : container) : bool :=
  match c, c' with
  | [], [] => true
  | (n, g) :: r, (n', o) :: r' => str_eqb n n' && coerced l g o && all_coerced l r r'
  | _, _ => false
  end.

(* witness of the seeded strip: vertical tab + 7 letters for a header that declares minLength 8 *)
Definition s_vt7 : str := [11; 97; 98; 99; 100; 101; 102; 103]%N.
Definition d_min8 : decl := mkDecl (Some TyString) NAbsent false None (Some 8) None.
Definition c_vt7 : container := [([88; 45; 65]%N, GStr s_vt7)].
