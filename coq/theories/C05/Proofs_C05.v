From Coq Require Import List NArith Bool Arith Lia.
From Verif Require Import C11.Model_C11 C11.Proofs_C11 C05.Model_C05.
Import ListNotations.

(* ------------------------------------------------------------------ *)
(* the exception ladder never turns a raised exception into a pass     *)
(* ------------------------------------------------------------------ *)
Lemma ladder_never_passes : forall e f, raises e = true ->
  exists st nf, ladder e f = Outcome st nf /\ is_bad st = true.
Proof.
  intros e [c u n r h k] He.
  destruct e; try discriminate He; destruct c, u, n, r, h; cbn; eexists; eexists; split; reflexivity.
Qed.

Lemma ladder_pass_only_if_clean : forall e f st nf, ladder e f = Outcome st nf -> is_bad st = false ->
  (e = ENone \/ e = ESkipTest) /\ f_unsat_mark f = false /\ f_nonserializable f = false /\
  f_invalid_regex f = false /\ f_invalid_headers f = false /\ (e = ENone -> f_cof_failed f = false).
Proof.
  intros e [c u n r h k] st nf.
  destruct e, c, u, n, r, h; cbn; intros H Hb; inversion H; subst; cbn in Hb; try discriminate;
    repeat split; auto; try discriminate; intros; discriminate.
Qed.

(* ------------------------------------------------------------------ *)
(* quiet runs: nobody asks to stop, no failure limit                   *)
(* ------------------------------------------------------------------ *)
Definition calm (e : ev) : Prop :=
  match e with
  | Interrupt => False
  | ScFinish _ INTERRUPTED => False
  | _ => True
  end.

Definition st_ok (st : status) : Prop := st = SUCCESS \/ st = FAILURE.

Definition wcalm (w : wpc) : Prop :=
  match w with
  | WPut k => Forall calm k
  | WCheck _ _ _ st | WSend _ _ _ st => st_ok st
  | _ => True
  end.

Definition quiet (s : state) : Prop :=
  stop s = false /\ limit s = false /\ dropped s = [] /\ Forall calm (hist s) /\ wforall wcalm (workers s).

Lemma calm_final o st : st_ok st -> Forall calm (final_script o st).
Proof. intros [->| ->]; cbn; [destruct (end_skip o)|]; repeat constructor. Qed.

Lemma wcalm_next_case o rest st : st_ok st -> wcalm (next_case o rest st).
Proof. intros H. unfold next_case. destruct rest; cbn; auto. apply calm_final; auto. Qed.

Lemma quiet_worker c s i w : nth_error (workers s) i = Some w -> quiet s -> quiet (worker_step c s i w).
Proof.
  intros Hi (Q1 & Q2 & Q3 & Q4 & Q5). pose proof (Q5 _ _ Hi) as Hme.
  assert (Hts : has_to_stop s = false) by (unfold has_to_stop; rewrite Q1, Q2; reflexivity).
  assert (Hset : forall s' w', stop s' = stop s -> limit s' = limit s -> dropped s' = dropped s -> hist s' = hist s ->
            workers s' = upd i w' (workers s) -> wcalm w' -> quiet s').
  { intros s' w' E1 E2 E3 E4 E5 Hw. unfold quiet. rewrite E1, E2, E3, E4, E5. repeat split; auto. apply wforall_upd; auto. }
  assert (Hput : forall e w', calm e -> wcalm w' -> quiet (set_worker (put s e) i w')).
  { intros e w' He Hw.
    assert (Hh : hist (set_worker (put s e) i w') = hist s ++ [e]) by (unfold hist; cbn; rewrite app_assoc; reflexivity).
    unfold quiet. rewrite Hh. cbn [stop limit dropped workers set_worker put]. repeat split; auto.
    - apply Forall_app; split; auto.
    - apply wforall_upd; auto. }
  destruct w; cbn [worker_step].
  - rewrite Hts. eapply Hset; try reflexivity; try exact I.
  - destruct (ops s) as [|o rest]; [eapply Hset; try reflexivity; try exact I|].
    destruct (build_err o); (eapply Hset; try reflexivity); cbn; auto; repeat constructor.
  - apply Hput; cbn; auto. apply wcalm_next_case. left; reflexivity.
  - rewrite Hts. eapply Hset; try reflexivity; try exact Hme.
  - cbn in Hme. destruct c0.
    + eapply Hset; try reflexivity. apply wcalm_next_case; auto.
    + destruct (cof c); (eapply Hset; try reflexivity).
      * apply wcalm_next_case. right; reflexivity.
      * cbn. repeat constructor.
    + eapply Hset; try reflexivity. cbn. repeat constructor.
  - destruct script as [|e k]; [eapply Hset; try reflexivity; try exact I|].
    cbn in Hme. inversion Hme; subst. apply Hput; auto. unfold after_put. destruct k; cbn; auto.
  - repeat split; auto.
Qed.

Lemma quiet_consumer c s : maxf c = None -> invP s -> quiet s -> quiet (consumer_step c s).
Proof.
  intros Hm HP (Q1 & Q2 & Q3 & Q4 & Q5). unfold consumer_step. destruct (cp s) eqn:Ecp.
  - destruct (queue s) as [|e q] eqn:Eq.
    + unfold quiet, hist in *. cbn. rewrite Eq in Q4. repeat split; auto.
    + rewrite Q1. unfold quiet, hist in *. cbn. rewrite <- app_assoc. cbn. rewrite Eq in Q4. repeat split; auto.
  - (* CPost: e was emitted, hence calm; no limit without max_failures *)
    destruct (if counts_as_failure e then count_failure c (counter s) (limit s) else (counter s, limit s)) as [n lim] eqn:E.
    assert (lim = false).
    { destruct (counts_as_failure e); [unfold count_failure in E; rewrite Hm in E|]; inversion E; subst; auto. }
    subst lim.
    assert (Hce : calm e).
    { destruct (HP e Ecp) as [t Et]. unfold hist in Q4. rewrite Et in Q4. cbn in Q4.
      rewrite Forall_forall in Q4. apply Q4. apply in_or_app. left. apply in_or_app. right. left. reflexivity. }
    assert (Hi : is_interrupt e = false) by (destruct e; auto; destruct Hce).
    unfold quiet, hist in *. cbn. rewrite Q1, Hi. cbn. repeat split; auto.
  - unfold quiet, hist in *. cbn. repeat split; auto.
  - unfold quiet, hist in *. cbn. repeat split; auto.
  - repeat split; auto.
Qed.

Lemma quiet_init n os : quiet (init n os).
Proof.
  unfold quiet, hist. cbn. repeat split; auto. apply wforall_repeat. exact I.
Qed.

Definition no_stop (sched : list label) : Prop := Forall (fun l => l <> Stop) sched.

Lemma run_inv_nostop (P : state -> Prop) c :
  (forall s l, l <> Stop -> P s -> P (step c s l)) ->
  forall sched s, no_stop sched -> P s -> P (run c sched s).
Proof.
  intros Hstep sched. induction sched as [|l sched IH]; intros s Hn H; cbn; auto.
  inversion Hn; subst. apply IH; auto.
Qed.

(* ------------------------------------------------------------------ *)
(* J: every operation is pending, held by a worker, or finished with   *)
(*    the expected status                                              *)
(* ------------------------------------------------------------------ *)
Definition fin_ev (c : cfg) (o : opb) : ev := ScFinish (op_id o) (expected_status c o).

Definition holds (c : cfg) (w : wpc) (o : opb) : Prop :=
  match w with
  | WStart o' => o' = o /\ build_err o = false
  | WCheck o' c0 rest st | WSend o' c0 rest st =>
      o' = o /\ last_status (script_from c o (c0 :: rest) st) = expected_status c o
  | WPut k => In (fin_ev c o) k
  | _ => False
  end.

Definition placed (c : cfg) (s : state) (o : opb) : Prop :=
  In o (ops s) \/ (exists j w, nth_error (workers s) j = Some w /\ holds c w o) \/ In (fin_ev c o) (hist s).

Definition invJ (c : cfg) (os : list opb) (s : state) : Prop :=
  (forall o, In o os -> placed c s o) /\
  ((exists j, nth_error (workers s) j = Some WDead) -> ops s = []).

Lemma last_status_in c o cs st : In (ScFinish (op_id o) (last_status (script_from c o cs st))) (script_from c o cs st).
Proof.
  revert st. induction cs as [|c0 cs IH]; intros st; cbn.
  - unfold final_script. destruct st; cbn; auto.
  - destruct c0; auto. destruct (cof c); auto. cbn. auto. cbn. auto.
Qed.

Lemma holds_next_case c o rest st :
  last_status (script_from c o rest st) = expected_status c o -> holds c (next_case o rest st) o.
Proof.
  intros H. unfold next_case. destruct rest as [|c0 rest]; cbn.
  - unfold fin_ev. rewrite <- H. apply (last_status_in c o [] st).
  - split; auto.
Qed.

Lemma placed_worker c s i w o :
  quiet s -> nth_error (workers s) i = Some w -> placed c s o -> placed c (worker_step c s i w) o.
Proof.
  intros (Q1 & Q2 & _) Hi Hp.
  assert (Hts : has_to_stop s = false) by (unfold has_to_stop; rewrite Q1, Q2; reflexivity).
  (* generic: the step keeps ops, extends hist by `added`, replaces worker i by w' *)
  assert (Hgen : forall s' w' added, ops s' = ops s -> hist s' = hist s ++ added -> workers s' = upd i w' (workers s) ->
            (holds c w o -> holds c w' o \/ In (fin_ev c o) added) -> placed c s' o).
  { intros s' w' added E1 E2 E3 Hk. unfold placed. rewrite E1, E2, E3.
    destruct Hp as [Hp|[[j [wj [Hj Hh]]]|Hp]]; auto.
    - destruct (Nat.eq_dec j i) as [->|Hne].
      + rewrite Hi in Hj. inversion Hj; subst wj. destruct (Hk Hh) as [H|H].
        * right; left. exists i, w'. split; auto. apply nth_error_upd_same. apply nth_error_Some. congruence.
        * right; right. apply in_or_app; auto.
      + right; left. exists j, wj. split; auto. rewrite nth_error_upd_other; auto.
    - right; right. apply in_or_app; auto. }
  destruct w; cbn [worker_step].
  - rewrite Hts. apply (Hgen _ WFetch []); cbn; try rewrite app_nil_r; auto.
  - destruct (ops s) as [|o0 rest] eqn:Eo.
    + apply (Hgen _ WDead []); cbn; try rewrite app_nil_r; auto.
    + (* fetch o0 *)
      assert (Hcase : forall w', holds c w' o0 ->
                placed c (set_worker {| queue := queue s; emitted := emitted s; ops := rest; stop := stop s; limit := limit s;
                       counter := counter s; cstatus := cstatus s; executed := executed s; cp := cp s;
                       workers := workers s; sent := sent s; dropped := dropped s |} i w') o).
      { intros w' Hw'. unfold placed. cbn.
        destruct Hp as [Hp|[[j [wj [Hj Hh]]]|Hp]].
        - rewrite Eo in Hp. destruct Hp as [->|Hp]; auto.
          right; left. exists i, w'. split; auto. apply nth_error_upd_same. apply nth_error_Some. congruence.
        - destruct (Nat.eq_dec j i) as [->|Hne].
          + rewrite Hi in Hj. inversion Hj; subst wj. destruct Hh.
          + right; left. exists j, wj. split; auto. rewrite nth_error_upd_other; auto.
        - right; right. exact Hp. }
      destruct (build_err o0) eqn:Eb; apply Hcase; cbn.
      * unfold fin_ev, expected_status, expected_script. rewrite Eb. cbn. auto.
      * auto.
  - apply (Hgen _ (next_case o0 (cases o0) SUCCESS) [ScStart (op_id o0)]); auto.
    + cbn. unfold hist. cbn. rewrite app_assoc. reflexivity.
    + intros [-> Hb]. left. apply holds_next_case. unfold expected_status, expected_script. rewrite Hb. reflexivity.
  - rewrite Hts. apply (Hgen _ (WSend o0 c0 rest st) []); cbn; try rewrite app_nil_r; auto.
  - assert (Hg : forall w', (holds c (WSend o0 c0 rest st) o -> holds c w' o) ->
       placed c (set_worker {| queue := queue s; emitted := emitted s; ops := ops s; stop := stop s; limit := limit s;
                   counter := counter s; cstatus := cstatus s; executed := executed s; cp := cp s;
                   workers := workers s; sent := (op_id o0, has_to_stop s) :: sent s; dropped := dropped s |} i w') o).
    { intros w' Hk. apply (Hgen _ w' []); cbn; try rewrite app_nil_r; auto. }
    destruct c0.
    + apply Hg. intros [-> H]. apply holds_next_case. exact H.
    + destruct (cof c) eqn:Ec; apply Hg; intros [-> H].
      * apply holds_next_case. cbn in H. rewrite Ec in H. exact H.
      * cbn in H. rewrite Ec in H. cbn in H. cbn. unfold fin_ev. rewrite <- H. auto.
    + apply Hg. intros [-> H]. cbn in H. cbn. unfold fin_ev. rewrite <- H. auto.
  - destruct script as [|e k].
    + apply (Hgen _ WLoop []); cbn; try rewrite app_nil_r; auto.
    + apply (Hgen _ (after_put k) [e]); auto.
      * apply hist_put.
      * cbn. intros [H|H]; [right; left; exact H|]. left. unfold after_put. destruct k; [destruct H|exact H].
  - exact Hp.
Qed.

Lemma invJ_worker c os s i w :
  quiet s -> nth_error (workers s) i = Some w -> invJ c os s -> invJ c os (worker_step c s i w).
Proof.
  intros HQ Hi [J1 J2]. split; [intros o Ho; apply placed_worker; auto|].
  destruct HQ as (Q1 & Q2 & _).
  assert (Hts : has_to_stop s = false) by (unfold has_to_stop; rewrite Q1, Q2; reflexivity).
  (* a dead worker exists afterwards: either it existed before, or this step killed worker i with ops = [] *)
  assert (Hgen : forall s' w', workers s' = upd i w' (workers s) -> ops s' = ops s -> (w' = WDead -> ops s = []) ->
            (w = WDead -> w' = WDead) ->
            (exists j, nth_error (workers s') j = Some WDead) -> ops s' = []).
  { intros s' w' E1 E2 Hd Hdd [j Hj]. rewrite E2. rewrite E1 in Hj. apply nth_error_upd in Hj.
    destruct Hj as [[_ Hw]|[_ Hj]]; [apply Hd; auto | apply J2; eauto]. }
  destruct w; cbn [worker_step].
  - rewrite Hts. apply (Hgen _ WFetch); auto; discriminate.
  - destruct (ops s) as [|o0 rest] eqn:Eo.
    + apply (Hgen _ WDead); auto.
    + intros [j Hj]. exfalso.
      assert (Hex : exists j, nth_error (workers s) j = Some WDead).
      { destruct (build_err o0); cbn in Hj; apply nth_error_upd in Hj; destruct Hj as [[_ Hw]|[_ Hj]]; try discriminate; eauto. }
      specialize (J2 Hex). discriminate.
  - apply (Hgen _ (next_case o (cases o) SUCCESS)); auto; try discriminate.
    unfold next_case. destruct (cases o); discriminate.
  - rewrite Hts. apply (Hgen _ (WSend o c0 rest st)); auto; discriminate.
  - destruct c0; [apply (Hgen _ (next_case o rest st)) | destruct (cof c); [apply (Hgen _ (next_case o rest FAILURE)) | apply (Hgen _ (WPut [ScFinish (op_id o) FAILURE]))] | apply (Hgen _ (WPut [NonFatal (op_id o); ScFinish (op_id o) ERROR]))];
      auto; try discriminate; unfold next_case; try (destruct rest; discriminate).
  - destruct script as [|e k]; [apply (Hgen _ WLoop); auto; discriminate|].
    apply (Hgen _ (after_put k)); auto; try discriminate. unfold after_put. destruct k; discriminate.
  - exact J2.
Qed.

Lemma placed_ext c s s' o : ops s' = ops s -> workers s' = workers s -> hist s' = hist s ->
  placed c s o -> placed c s' o.
Proof. intros E1 E2 E3 H. unfold placed. rewrite E1, E2, E3. exact H. Qed.

Lemma placed_consumer c s o : quiet s -> placed c s o -> placed c (consumer_step c s) o.
Proof.
  intros (Q1 & _) Hp. unfold consumer_step. destruct (cp s).
  - destruct (queue s) as [|e q] eqn:Eq.
    + apply (placed_ext c s); [reflexivity | reflexivity | | exact Hp]. unfold hist. cbn [queue emitted]. rewrite Eq. reflexivity.
    + rewrite Q1. apply (placed_ext c s); [reflexivity | reflexivity | | exact Hp].
      unfold hist. cbn [queue emitted rev]. rewrite Eq, <- app_assoc. reflexivity.
  - destruct (if counts_as_failure e then count_failure c (counter s) (limit s) else (counter s, limit s)).
    eapply placed_ext; eauto.
  - eapply placed_ext; eauto.
  - eapply placed_ext; eauto.
  - exact Hp.
Qed.

Lemma invJ_consumer c os s : quiet s -> invJ c os s -> invJ c os (consumer_step c s).
Proof.
  intros HQ [J1 J2]. split; [intros o Ho; apply placed_consumer; auto|].
  unfold consumer_step. destruct (cp s); auto.
  - destruct (queue s); auto. destruct (stop s); auto.
  - destruct (if counts_as_failure e then count_failure c (counter s) (limit s) else (counter s, limit s)). auto.
Qed.

Lemma invJ_init c n os : invJ c os (init n os).
Proof.
  split; [intros o Ho; left; exact Ho|]. intros [j Hj]. cbn in Hj. apply nth_error_In in Hj.
  apply repeat_spec in Hj. discriminate.
Qed.

(* ------------------------------------------------------------------ *)
(* S: in a quiet run the consumer status is exactly the fold of what it processed *)
(* ------------------------------------------------------------------ *)
Definition processed (s : state) : list ev :=
  match cp s with CPost _ => tl (emitted s) | _ => emitted s end.

Definition invS (s : state) : Prop :=
  cstatus s = fold_trace (rev (processed s)) /\ (executed s = false -> emitted s = []).

Lemma invS_step c s l : l <> Stop -> maxf c = None -> invP s -> quiet s -> invS s -> invS (step c s l).
Proof.
  intros Hl Hm HP HQ [S1 S2]. destruct l; cbn [step]; [| |congruence].
  - pose proof HQ as (Q1 & Q2 & Q3 & Q4 & Q5).
    unfold consumer_step. destruct (cp s) eqn:Ecp.
    + unfold processed in S1. rewrite Ecp in S1.
      destruct (queue s) as [|e q]; [split; auto; unfold processed; cbn; auto|].
      rewrite Q1. split; [unfold processed; cbn; auto | cbn; discriminate].
    + destruct (HP e Ecp) as [t Et]. unfold processed in S1. rewrite Ecp, Et in S1. cbn [tl] in S1.
      destruct (if counts_as_failure e then count_failure c (counter s) (limit s) else (counter s, limit s)) as [n lim] eqn:E.
      assert (Hce : calm e).
      { unfold hist in Q4. rewrite Et in Q4. cbn in Q4.
        rewrite Forall_forall in Q4. apply Q4. apply in_or_app. left. apply in_or_app. right. left. reflexivity. }
      assert (Hi : is_interrupt e = false) by (destruct e; auto; destruct Hce).
      split; [|cbn; auto].
      unfold processed. cbn [cp emitted cstatus]. rewrite Hi, Q1. cbn [orb].
      assert (Hgoal : fold_status (cstatus s) e = fold_trace (rev (emitted s))).
      { rewrite Et. cbn [rev]. unfold fold_trace. rewrite fold_left_app. cbn [fold_left].
        unfold fold_trace in S1. rewrite <- S1. reflexivity. }
      destruct lim; exact Hgoal.
    + unfold processed in *. rewrite Ecp in S1. split; auto. cbn.
      destruct (forallb is_dead (workers s)); [destruct (drain_fix c)|]; auto.
    + unfold processed in *. rewrite Ecp in S1. split; auto. cbn. destruct (queue s); auto.
    + split; auto.
  - destruct (nth_error (workers s) i) eqn:Ei; [|split; auto].
    destruct (worker_step_flags c s i w) as (_ & _ & F3).
    assert (F : emitted (worker_step c s i w) = emitted s /\ cstatus (worker_step c s i w) = cstatus s /\
                executed (worker_step c s i w) = executed s).
    { destruct w; cbn [worker_step]; auto.
      - destruct (ops s); auto. destruct (build_err o); auto.
      - destruct (has_to_stop s); auto.
      - destruct c0; auto. destruct (cof c); auto.
      - destruct script; auto. }
    destruct F as (F4 & F5 & F6). unfold invS, processed. rewrite F3, F4, F5, F6. split; auto.
Qed.

Lemma invS_init n os : invS (init n os).
Proof. split; auto. Qed.

(* the fold never forgets a failure *)
Lemma fold_status_bad cur e : calm e -> is_bad cur = true -> exists st, fold_status (Some cur) e = Some st /\ is_bad st = true.
Proof.
  intros Hc Hb. destruct e; cbn; eauto.
  destruct st; try (destruct Hc); destruct cur; try discriminate; cbn; eauto.
Qed.

Lemma fold_left_bad t : forall cur, Forall calm t -> is_bad cur = true ->
  exists st, fold_left fold_status t (Some cur) = Some st /\ is_bad st = true.
Proof.
  induction t as [|e t IH]; intros cur Hc Hb; cbn; eauto.
  inversion Hc; subst. destruct (fold_status_bad cur e H1 Hb) as [st [E Hs]]. rewrite E. apply IH; auto.
Qed.

Definition low (cur : option status) : Prop :=
  match cur with None => True | Some st => srank st <= 2 end.

Lemma fold_low cur e : calm e -> low cur -> low (fold_status cur e).
Proof.
  intros Hc Hl. destruct e; cbn; auto.
  destruct st; try (destruct Hc); destruct cur as [[]|]; cbn in *; auto; lia.
Qed.

Lemma fold_trace_bad_gen t e : forall cur, low cur -> Forall calm t -> In e t ->
  (counts_as_failure e = true \/ exists id, e = NonFatal id) ->
  exists st, fold_left fold_status t cur = Some st /\ is_bad st = true.
Proof.
  induction t as [|x t IH]; intros cur Hl Hc Hin Hbad; [destruct Hin|].
  inversion Hc; subst. destruct Hin as [->|Hin].
  - cbn [fold_left].
    assert (exists st, fold_status cur e = Some st /\ is_bad st = true).
    { destruct Hbad as [Hb|[id ->]]; [|cbn; eauto].
      destruct e; cbn in Hb; try discriminate Hb.
      destruct st; cbn in Hb; try discriminate Hb; destruct cur as [[]|]; cbn in *; eauto; lia. }
    destruct H as [st [E Hs]]. rewrite E. apply fold_left_bad; auto.
  - cbn [fold_left]. apply IH; auto. apply fold_low; auto.
Qed.

Lemma fold_trace_bad t e : Forall calm t -> In e t -> (counts_as_failure e = true \/ exists id, e = NonFatal id) ->
  exists st, fold_trace t = Some st /\ is_bad st = true.
Proof. intros. unfold fold_trace. eapply fold_trace_bad_gen; eauto. exact I. Qed.

Lemma fold_trace_clean t st : fold_trace t = Some st -> is_bad st = false -> Forall calm t ->
  forall e, In e t -> counts_as_failure e = false /\ (forall id, e <> NonFatal id).
Proof.
  intros E Hb Hc e Hin. split.
  - destruct (counts_as_failure e) eqn:Ec; auto.
    destruct (fold_trace_bad t e Hc Hin (or_introl Ec)) as [st' [E' Hb']]. congruence.
  - intros id ->. destruct (fold_trace_bad t _ Hc Hin (or_intror (ex_intro _ id eq_refl))) as [st' [E' Hb']]. congruence.
Qed.

(* ------------------------------------------------------------------ *)
(* the bundle                                                          *)
(* ------------------------------------------------------------------ *)
Definition invAll (c : cfg) (os : list opb) (s : state) : Prop :=
  invP s /\ quiet s /\ invJ c os s /\ invS s /\ invABC c s.

Lemma invAll_run c sched n os : drain_fix c = true -> maxf c = None -> no_stop sched ->
  invAll c os (run c sched (init n os)).
Proof.
  intros Hfix Hm Hn. apply run_inv_nostop; auto.
  - intros s l Hl (HP & HQ & HJ & HS & HA & HB & HC).
    split; [apply invP_step; auto|].
    split; [destruct l; cbn [step]; [apply quiet_consumer; auto | destruct (nth_error (workers s) i) eqn:E; auto; apply quiet_worker; auto | congruence]|].
    split; [destruct l; cbn [step]; [apply invJ_consumer; auto | destruct (nth_error (workers s) i) eqn:E; auto; apply invJ_worker; auto | congruence]|].
    split; [apply invS_step; auto|].
    destruct (invAB_step c s l (conj HA HB)) as [HA' HB']. split; [exact HA'|]. split; [exact HB'|]. apply invC_step; auto.
  - split; [apply invP_init|]. split; [apply quiet_init|]. split; [apply invJ_init|]. split; [apply invS_init|].
    split; [apply invA_init|]. split; [apply invB_init | apply invC_init].
Qed.

(* A complete uninterrupted unit phase reports every operation with the status its behaviour implies,
   and its overall status is FAILURE/ERROR as soon as one of them failed or errored. *)
Theorem complete_run_reports c sched n os :
  drain_fix c = true -> maxf c = None -> no_stop sched -> 1 <= n ->
  let s := run c sched (init n os) in
  cp s = CDone ->
  (forall o, In o os -> In (ScFinish (op_id o) (expected_status c o)) (trace s)) /\
  ((exists o, In o os /\ is_bad (expected_status c o) = true) -> is_bad (final_status s) = true) /\
  (is_bad (final_status s) = false ->
     (forall o, In o os -> is_bad (expected_status c o) = false) /\ has_nonfatal (trace s) = false).
Proof.
  intros Hfix Hm Hn Hn1 s Hcp.
  destruct (invAll_run c sched n os Hfix Hm Hn) as (HP & HQ & [J1 J2] & [S1 S2] & HA & HB & [_ [HC _]]).
  fold s in HP, HQ, J1, J2, S1, S2, HC.
  destruct HQ as (Q1 & Q2 & Q3 & Q4 & Q5).
  assert (Hts : has_to_stop s = false) by (unfold has_to_stop; rewrite Q1, Q2; reflexivity).
  destruct (HC Hcp Hts) as (D1 & D2 & D3).
  assert (Hh : hist s = trace s) by (unfold hist, trace; rewrite D2, app_nil_r; reflexivity).
  (* all workers are dead, there is at least one: nothing is left to fetch *)
  assert (Hlen : length (workers s) = n).
  { unfold s. rewrite run_workers_length. cbn. apply repeat_length. }
  assert (Hops : ops s = []).
  { apply J2. destruct (workers s) as [|w ws] eqn:Ew; [cbn in Hlen; lia|].
    exists 0. cbn. f_equal. eapply (all_dead_nth (w :: ws) 0); eauto. }
  assert (Hfin : forall o, In o os -> In (fin_ev c o) (trace s)).
  { intros o Ho. destruct (J1 o Ho) as [H|[[j [w [Hj Hh']]]|H]].
    - rewrite Hops in H. destruct H.
    - assert (w = WDead) by (eapply all_dead_nth; eauto). subst w. destruct Hh'.
    - rewrite <- Hh. exact H. }
  assert (Hst : final_status s = match fold_trace (trace s) with Some st => st | None => SKIP end /\
                (emitted s <> [] -> executed s = true)).
  { unfold final_status. unfold processed in S1. rewrite Hcp in S1. fold (trace s) in S1.
    destruct (executed s) eqn:Ee.
    - rewrite S1. split; auto.
    - rewrite (S2 eq_refl) in *. split; [|intros H; exfalso; apply H; reflexivity].
      unfold trace. rewrite (S2 eq_refl). reflexivity. }
  destruct Hst as [Hst _].
  assert (Hcalm : Forall calm (trace s)) by (rewrite <- Hh; exact Q4).
  split; [exact Hfin|]. split.
  - intros [o [Ho Hb]]. rewrite Hst.
    destruct (fold_trace_bad (trace s) (fin_ev c o) Hcalm (Hfin o Ho)) as [st [E Hs]].
    + left. unfold fin_ev. cbn. destruct (expected_status c o); try discriminate; reflexivity.
    + rewrite E. exact Hs.
  - intros Hb. rewrite Hst in Hb.
    destruct (fold_trace (trace s)) as [st|] eqn:E.
    + pose proof (fold_trace_clean _ _ E Hb Hcalm) as Hc. split.
      * intros o Ho. destruct (Hc _ (Hfin o Ho)) as [H _]. unfold fin_ev in H. cbn in H.
        destruct (expected_status c o); auto; discriminate.
      * unfold has_nonfatal. destruct (existsb _ (trace s)) eqn:Ex; auto.
        apply existsb_exists in Ex. destruct Ex as [e [He Hn']]. destruct e; try discriminate.
        destruct (Hc _ He) as [_ H]. exfalso. eapply H. reflexivity.
    + (* nothing was folded: the trace holds no failure and no error *)
      split.
      * intros o Ho. destruct (is_bad (expected_status c o)) eqn:Eb; auto.
        destruct (fold_trace_bad (trace s) (fin_ev c o) Hcalm (Hfin o Ho)) as [st [E' _]]; [|congruence].
        left. unfold fin_ev. cbn. destruct (expected_status c o); try discriminate; reflexivity.
      * unfold has_nonfatal. destruct (existsb _ (trace s)) eqn:Ex; auto.
        apply existsb_exists in Ex. destruct Ex as [e [He Hn']]. destruct e; try discriminate.
        destruct (fold_trace_bad (trace s) _ Hcalm He (or_intror (ex_intro _ id eq_refl))) as [st [E' _]]. congruence.
Qed.

(* exit code 0 at plan level means no executed phase failed, errored or emitted a non-fatal error *)
Lemma zero_exit_means_clean t : exit_code t = 0 ->
  forall e, In e t ->
    match e with
    | PhaseBody _ body _ => has_nonfatal body = false
    | PhaseFinished _ st _ => is_bad st = false
    | _ => True
    end.
Proof.
  unfold exit_code. destruct (existsb pev_sets_exit t) eqn:E; [discriminate|]. intros _ e He.
  assert (pev_sets_exit e = false).
  { destruct (pev_sets_exit e) eqn:Ee; auto. assert (existsb pev_sets_exit t = true) by (apply existsb_exists; eauto). congruence. }
  destruct e; auto.
Qed.

(* non-vacuity: a complete quiet run with a failing and an erroring operation on two workers *)
Definition op_err (id : nat) : opb := {| op_id := id; build_err := false; cases := [CaseOk; CaseErr]; end_skip := false |}.
Definition op_build (id : nat) : opb := {| op_id := id; build_err := true; cases := []; end_skip := false |}.
Definition sched_full : list label :=
  [W 0; W 0; W 1; W 1; W 0; W 1; W 0; W 0; W 0; W 1; W 1; W 1; W 1; W 1; W 1; C; C; C; C; C; C; C; C; C; C;
   W 0; W 0; W 0; W 0; W 0; W 0; W 1; W 1; C; C; C; C; C; C; C; W 0; W 0; W 0; C; C; C].
Lemma complete_example :
  let c := cfg_now None in
  let s := run c sched_full (init 2 [op_fail 0; op_err 1; op_build 2]) in
  cp s = CDone /\ final_status s = ERROR /\
  trace s = [ScStart 0; ScStart 1; ScFinish 0 FAILURE; NonFatal 1; ScFinish 1 ERROR; ScStart 2; NonFatal 2; ScFinish 2 ERROR].
Proof. vm_compute. repeat split; reflexivity. Qed.

Lemma cli_zero_exit_means_no_abort l : cli_exit_code l = 0 ->
  (forall x, In x l -> cli_aborts x = false) /\ exit_code (cli_engine_events l) = 0.
Proof.
  unfold cli_exit_code. destruct (existsb cli_aborts l) eqn:E; [discriminate|]. intros H. split; auto.
  intros x Hx. destruct (cli_aborts x) eqn:Ex; auto.
  assert (existsb cli_aborts l = true) by (apply existsb_exists; eauto). congruence.
Qed.

Lemma cli_fatal_error_exits_nonzero l : In CFatalError l \/ In CHandlerRaises l -> cli_exit_code l = 1.
Proof.
  intros H. unfold cli_exit_code.
  assert (existsb cli_aborts l = true) by (apply existsb_exists; destruct H; eexists; split; eauto).
  rewrite H0. reflexivity.
Qed.
