(* C05 with a failure limit: the limit can only be reached through a failed / errored scenario the consumer has already
   yielded - so a run that stops at the limit has reported a failure (unit-phase LTS of Model_C11). *)
From Coq Require Import List Bool Arith Lia.
From Verif Require Import C11.Model_C11 C11.Proofs_C11.
Import ListNotations.

Definition LInv (s : state) : Prop :=
  (limit s = true -> existsb counts_as_failure (emitted s) = true) /\
  (forall e, cp s = CPost e -> In e (emitted s)).

Lemma worker_step_emitted c s i w : emitted (worker_step c s i w) = emitted s.
Proof.
  destruct w; cbn [worker_step]; auto.
  - destruct (ops s); auto. destruct (build_err o); auto.
  - destruct (has_to_stop s); auto.
  - destruct c0; auto. destruct (cof c); auto.
  - destruct script; auto.
Qed.

Lemma LInv_step c s l : LInv s -> LInv (step c s l).
Proof.
  intros [H1 H2]. destruct l; cbn [step].
  - unfold consumer_step. destruct (cp s) eqn:Ecp.
    + destruct (queue s) as [|e q]; [split; cbn; auto; intros; discriminate|].
      destruct (stop s); split; cbn [limit emitted cp existsb counts_as_failure orb]; auto; try (intros; discriminate).
      * intros Hl. rewrite (H1 Hl). apply orb_true_r.
      * intros e0 He. inversion He; subst. left; reflexivity.
    + specialize (H2 e eq_refl).
      destruct (counts_as_failure e) eqn:Ec.
      * destruct (count_failure c (counter s) (limit s)) as [n lim]. split; cbn [limit emitted cp].
        -- intros _. apply existsb_exists. exists e. split; auto.
        -- intros e0 He. destruct ((if is_interrupt e || stop s then true else stop s) || lim); discriminate.
      * split; cbn [limit emitted cp]; auto.
        intros e0 He. destruct ((if is_interrupt e || stop s then true else stop s) || limit s); discriminate.
    + split; cbn [limit emitted cp]; auto. intros e0 He. destruct (forallb is_dead (workers s)); [destruct (drain_fix c)|]; discriminate.
    + split; cbn [limit emitted cp]; auto. intros e0 He. destruct (queue s); discriminate.
    + split; auto. intros e0 He. rewrite Ecp in He. discriminate.
  - destruct (nth_error (workers s) i) as [w|]; [|split; auto].
    destruct (worker_step_flags c s i w) as (_ & Hl & Hc). split.
    + rewrite Hl, worker_step_emitted. exact H1.
    + intros e He. rewrite Hc in He. rewrite worker_step_emitted. apply H2, He.
  - split; cbn [limit emitted cp]; auto.
Qed.

Lemma LInv_run c sched s0 : LInv s0 -> LInv (run c sched s0).
Proof. unfold run. revert s0. induction sched as [|l sched IH]; intros s0 H0; cbn [fold_left]; auto. apply IH, LInv_step, H0. Qed.

Lemma limit_implies_failure_reported c sched n os :
  let s := run c sched (init n os) in
  limit s = true -> existsb counts_as_failure (trace s) = true.
Proof.
  intros s Hl.
  assert (H : LInv s) by (apply LInv_run; split; cbn; intros; discriminate).
  destruct H as [H _]. specialize (H Hl). unfold trace.
  apply existsb_exists in H. destruct H as (e & He & Hc). apply existsb_exists. exists e. split; auto. apply in_rev in He. exact He.
Qed.
