(* C05: what a complete, uninterrupted run must report.  Builds on the unit-phase LTS of
   C11 (Model_C11).  Adds: the script a test is expected to produce, the exception ladder
   of run_test (engine/phases/unit/_executor.py) and the exit-code rule of
   cli/commands/run/context.py (ExecutionContext.on_event). *)
From Coq Require Import List NArith Bool Arith.
From Verif Require Import C11.Model_C11.
Import ListNotations.

(* events the test of operation o yields after ScenarioStarted when nobody stops the run *)
Fixpoint script_from (c : cfg) (o : opb) (cs : list case_out) (st : status) : list ev :=
  match cs with
  | [] => final_script o st
  | CaseOk :: r => script_from c o r st
  | CaseFail :: r => if cof c then script_from c o r FAILURE else [ScFinish (op_id o) FAILURE]
  | CaseErr :: _ => [NonFatal (op_id o); ScFinish (op_id o) ERROR]
  end.

Definition expected_script (c : cfg) (o : opb) : list ev :=
  if build_err o then [NonFatal (op_id o); ScFinish (op_id o) ERROR]
  else script_from c o (cases o) SUCCESS.

Fixpoint last_status (k : list ev) : status :=
  match k with
  | [] => SUCCESS
  | [ScFinish _ st] => st
  | _ :: r => last_status r
  end.

Definition expected_status (c : cfg) (o : opb) : status := last_status (expected_script c o).

Definition is_bad (st : status) : bool := match st with FAILURE | ERROR => true | _ => false end.

(* the status fold of the consumer over a whole trace *)
Definition fold_trace (t : list ev) : option status := fold_left fold_status t None.

(* ---------- run_test: exception class -> (status, NonFatalError emitted?) ---------- *)
Inductive exn :=
| ENone                (* the test function returned *)
| ESkipTest
| EFailure             (* Failure / FailureGroup *)
| EUnexpectedError     (* raised by cached_test_func for any other exception of the test body *)
| EFlakyDeadline | EFlakyWithErrors | EFlakyPlain
| EExceptionGroup
| EUnsatisfiable
| EKeyboardInterrupt
| EAssertionError
| ERefResolution
| EInvalidArgument
| EDeadlineExceeded
| EJsonSchemaError
| EOther.               (* except Exception *)

Record flags := {
  f_cof_failed : bool;        (* continue_on_failure and a failed check was recorded *)
  f_unsat_mark : bool; f_nonserializable : bool; f_invalid_regex : bool; f_invalid_headers : bool;
  f_errors : nat              (* exceptions collected by cached_test_func *)
}.

Inductive outcome := Outcome (st : status) (nonfatal : nat) | Interrupted_.

Definition ladder (e : exn) (f : flags) : outcome :=
  match e with
  | EKeyboardInterrupt => Interrupted_
  | _ =>
    let '(st0, nf0) :=
      match e with
      | ENone => (SUCCESS, 0)
      | ESkipTest => (SKIP, 0)
      | EFailure => (FAILURE, 0)
      | EUnexpectedError => (ERROR, 0)
      | EFlakyDeadline => (ERROR, 1)
      | EFlakyWithErrors => (ERROR, 0)
      | EFlakyPlain => (FAILURE, 0)
      | EExceptionGroup => (ERROR, 0)
      | EUnsatisfiable => (ERROR, 1)
      | EAssertionError => (ERROR, 1)
      | ERefResolution => (ERROR, 1)
      | EInvalidArgument => (ERROR, 1)
      | EDeadlineExceeded => (ERROR, 1)
      | EJsonSchemaError => (ERROR, 1)
      | _ => (ERROR, 1)
      end in
    let st1 := if status_eqb st0 SUCCESS && f_cof_failed f then FAILURE else st0 in
    let '(st2, nf2) := if f_unsat_mark f then (ERROR, S nf0) else (st1, nf0) in
    let '(st3, nf3) := if f_nonserializable f && negb (status_eqb st2 ERROR) then (ERROR, S nf2) else (st2, nf2) in
    let '(st4, nf4) := if f_invalid_regex f && negb (status_eqb st3 ERROR) then (ERROR, S nf3) else (st3, nf3) in
    let '(st5, nf5) := if f_invalid_headers f then (ERROR, S nf4) else (st4, nf4) in
    Outcome st5 (nf5 + f_errors f)
  end.

Definition all_exn : list exn :=
  [ENone; ESkipTest; EFailure; EUnexpectedError; EFlakyDeadline; EFlakyWithErrors; EFlakyPlain; EExceptionGroup;
   EUnsatisfiable; EKeyboardInterrupt; EAssertionError; ERefResolution; EInvalidArgument; EDeadlineExceeded;
   EJsonSchemaError; EOther].

Definition raises (e : exn) : bool :=
  match e with ENone | ESkipTest | EKeyboardInterrupt => false | _ => true end.

(* ---------- exit code (ExecutionContext.on_event) ---------- *)
Definition has_nonfatal (t : list ev) : bool := existsb (fun e => match e with NonFatal _ => true | _ => false end) t.

Definition pev_sets_exit (e : pev) : bool :=
  match e with
  | PhaseBody _ body _ => has_nonfatal body
  | PhaseFinished _ st _ => is_bad st        (* only executed phases reach FAILURE / ERROR *)
  | _ => false
  end.
Definition exit_code (t : list pev) : nat := if existsb pev_sets_exit t then 1 else 0.

(* ---------- the CLI around the engine (cli/commands/run/executor.py: into_event_stream, _execute) ----------
   An exception escaping the engine in the main thread becomes a FatalError event; the output handler prints it and
   aborts (click.Abort -> exit code 1); a handler that raises aborts the run as well. *)
Inductive cli_ev := CEngine (e : pev) | CFatalError | CHandlerRaises.

Definition cli_engine_events (l : list cli_ev) : list pev :=
  flat_map (fun x => match x with CEngine e => [e] | _ => [] end) l.

Definition cli_aborts (x : cli_ev) : bool := match x with CFatalError | CHandlerRaises => true | _ => false end.

Definition cli_exit_code (l : list cli_ev) : nat :=
  if existsb cli_aborts l then 1 else exit_code (cli_engine_events l).
