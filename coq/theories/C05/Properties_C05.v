(* C05 property theorems only. *)
From Coq Require Import List NArith Bool Arith.
From Verif Require Import C11.Model_C11 C11.Proofs_C11 C05.Model_C05 C05.Proofs_C05.
From Verif Require C11.ModelP_C11 C11.ProofsP2_C11.
From Verif Require Import C05.ProofsL_C05.
Import ListNotations.

(* A complete, uninterrupted unit phase (any number of workers >= 1, any interleaving, any behaviour of
   the operations incl. errors while building the test): every operation is reported with the status its
   behaviour implies; the phase is FAILURE/ERROR as soon as one operation failed or errored; and the phase
   is clean only if every operation passed or was skipped and no non-fatal error was emitted. *)
Theorem C05_complete_run_reports : forall c sched n os,
  drain_fix c = true -> maxf c = None -> no_stop sched -> 1 <= n ->
  let s := run c sched (init n os) in
  cp s = CDone ->
  (forall o, In o os -> In (ScFinish (op_id o) (expected_status c o)) (trace s)) /\
  ((exists o, In o os /\ is_bad (expected_status c o) = true) -> is_bad (final_status s) = true) /\
  (is_bad (final_status s) = false ->
     (forall o, In o os -> is_bad (expected_status c o) = false) /\ has_nonfatal (trace s) = false).
Proof. exact complete_run_reports. Qed.
Print Assumptions C05_complete_run_reports.

(* run_test: whatever exception class the test function ends with (other than SkipTest and
   KeyboardInterrupt) and whatever marks are set, the scenario is FAILURE or ERROR, never a pass. *)
Theorem C05_ladder_never_passes : forall e f, raises e = true ->
  exists st nf, ladder e f = Outcome st nf /\ is_bad st = true.
Proof. exact ladder_never_passes. Qed.
Print Assumptions C05_ladder_never_passes.

Theorem C05_ladder_pass_only_if_clean : forall e f st nf, ladder e f = Outcome st nf -> is_bad st = false ->
  (e = ENone \/ e = ESkipTest) /\ f_unsat_mark f = false /\ f_nonserializable f = false /\
  f_invalid_regex f = false /\ f_invalid_headers f = false /\ (e = ENone -> f_cof_failed f = false).
Proof. exact ladder_pass_only_if_clean. Qed.
Print Assumptions C05_ladder_pass_only_if_clean.

(* exit code 0 only if no executed phase failed or errored and no non-fatal error was emitted *)
Theorem C05_zero_exit_means_clean : forall t, exit_code t = 0 ->
  forall e, In e t ->
    match e with
    | PhaseBody _ body _ => has_nonfatal body = false
    | PhaseFinished _ st _ => is_bad st = false
    | _ => True
    end.
Proof. exact zero_exit_means_clean. Qed.
Print Assumptions C05_zero_exit_means_clean.

(* the CLI around the engine: an internal error in the main thread (FatalError event) or a raising report handler
   always ends in a non-zero exit code; exit code 0 implies neither happened and the engine-level rule holds *)
Theorem C05_cli_fatal_error_exits_nonzero : forall l, In CFatalError l \/ In CHandlerRaises l -> cli_exit_code l = 1.
Proof. exact cli_fatal_error_exits_nonzero. Qed.
Print Assumptions C05_cli_fatal_error_exits_nonzero.

Theorem C05_cli_zero_exit_means_no_abort : forall l, cli_exit_code l = 0 ->
  (forall x, In x l -> cli_aborts x = false) /\ exit_code (cli_engine_events l) = 0.
Proof. exact cli_zero_exit_means_no_abort. Qed.
Print Assumptions C05_cli_zero_exit_means_no_abort.

(* non-vacuity: a complete quiet run of three operations (failing, erroring, unbuildable) on two workers *)
Theorem C05_complete_example :
  let c := cfg_now None in
  let s := run c sched_full (init 2 [op_fail 0; op_err 1; op_build 2]) in
  cp s = CDone /\ final_status s = ERROR /\
  trace s = [ScStart 0; ScStart 1; ScFinish 0 FAILURE; NonFatal 1; ScFinish 1 ERROR; ScStart 2; NonFatal 2; ScFinish 2 ERROR].
Proof. exact complete_example. Qed.
Print Assumptions C05_complete_example.

(* ---- the stateful phase (ModelP_C11: execute_state_machine_loop + the consumer's status fold) ----
   When the state-machine thread has ended and some scenario was reported FAILURE / ERROR (or worse), the phase status is
   not SUCCESS and not SKIP: FAILURE, ERROR - which set a non-zero exit code - or INTERRUPTED.  For every behaviour in which
   an exception raised by a step is what Hypothesis' run() ends with, every failure limit, every stop point. *)
Theorem C05_stateful_failure_reaches_phase_partial : forall c stop0 limit0 counter0 behs ls,
  forallb ModelP_C11.consistent_beh behs = true ->
  let s := ModelP_C11.prun c ls (ModelP_C11.pinit stop0 limit0 counter0 behs) in
  ModelP_C11.p_pc s = ModelP_C11.PDone ->
  1 <= ModelP_C11.worst_scenario (ModelP_C11.pscript s) ->
  ModelP_C11.phase_status (ModelP_C11.pscript s) <> SUCCESS /\ ModelP_C11.phase_status (ModelP_C11.pscript s) <> SKIP.
Proof.
  intros c stop0 limit0 counter0 behs ls Hc s Hd Hw.
  pose proof (ProofsP2_C11.producer_status_covers c stop0 limit0 counter0 behs ls Hc Hd) as H. fold s in H.
  unfold ModelP_C11.phase_rank in H.
  destruct (ModelP_C11.phase_status (ModelP_C11.pscript s)); cbn in H; split; try discriminate;
    exfalso; apply (Nat.lt_irrefl 0); apply Nat.lt_le_trans with (m := ModelP_C11.worst_scenario (ModelP_C11.pscript s)); auto.
Qed.
Print Assumptions C05_stateful_failure_reaches_phase_partial.

(* ---- runs that stop at the failure limit ----
   The limit flag can only be raised through a failed / errored ScenarioFinished the consumer has already yielded: whenever
   the limit is reached - any configuration, number of workers, behaviour, interleaving - a failure is in the reported stream.
   (Raising the flag from the worker that produced the event would lose it: the consumer leaves on has_to_stop.) *)
Theorem C05_limit_reached_means_failure_reported : forall c sched n os,
  let s := run c sched (init n os) in
  limit s = true -> existsb counts_as_failure (trace s) = true.
Proof. exact limit_implies_failure_reported. Qed.
Print Assumptions C05_limit_reached_means_failure_reported.
