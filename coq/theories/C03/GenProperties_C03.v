(* C03: the kernel regenerated from today's generation/coverage.py is the one the model and its theorems use. *)
From Coq Require Import ZArith.
From Verif Require Import C03.Model_C03 C03.Gen_C03 C03.GenProofs_C03.

Theorem C03_gen_closest_multiple_greater_than_eq : forall y x,
  gen_closest_multiple_greater_than y x = closest_multiple_greater_than y x.
Proof. exact gen_closest_multiple_greater_than_eq. Qed.
Print Assumptions C03_gen_closest_multiple_greater_than_eq.
