(* GENERATED on every run by harness/props/c03_gen.py from the Python source - do not edit.
   generation/coverage.py sha256 e47be216f2b6c0cc *)
From Coq Require Import ZArith Bool.
Local Open Scope Z_scope.

Definition gen_closest_multiple_greater_than (y : Z) (x : Z) :=
  let quotient := (Z.div y x) in
  let remainder := (Z.modulo y x) in
  (if (Z.eqb remainder (0)%Z) then y else (Z.mul x (Z.add quotient (1)%Z))).
