(* Ties the hand-written model to the kernel regenerated from the Python source (Gen_C03.v is rewritten on every run by
   harness/props/c03_gen.py): a semantic edit of coverage.closest_multiple_greater_than makes this lemma fail to check. *)
From Coq Require Import ZArith Bool.
From Verif Require Import C03.Model_C03 C03.Gen_C03.
Local Open Scope Z_scope.

Lemma gen_closest_multiple_greater_than_eq : forall y x, gen_closest_multiple_greater_than y x = closest_multiple_greater_than y x.
Proof. reflexivity. Qed.
