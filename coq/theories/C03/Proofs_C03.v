From Coq Require Import List NArith ZArith Bool Lia.
From Verif Require Import C03.Model_C03.
Import ListNotations.
Open Scope Z_scope.

(* ====================================================================== *)
(* Part 1: numbers                                                         *)
(* ====================================================================== *)

Lemma cmgt_ge y m : 0 < m -> y <= closest_multiple_greater_than y m.
Proof.
  intros Hm. unfold closest_multiple_greater_than.
  destruct (y mod m =? 0) eqn:E; [lia|].
  pose proof (Z.div_mod y m ltac:(lia)) as Hd.
  pose proof (Z.mod_pos_bound y m Hm) as Hb.
  lia.
Qed.

Lemma cmgt_mod y m : 0 < m -> closest_multiple_greater_than y m mod m = 0.
Proof.
  intros Hm. unfold closest_multiple_greater_than.
  destruct (y mod m =? 0) eqn:E.
  - apply Z.eqb_eq in E. exact E.
  - rewrite Z.mul_comm. apply Z.mod_mul. lia.
Qed.

Lemma floor_le b m : 0 < m -> b - b mod m <= b.
Proof. intros Hm. pose proof (Z.mod_pos_bound b m Hm). lia. Qed.

Lemma floor_mod b m : 0 < m -> (b - b mod m) mod m = 0.
Proof.
  intros Hm. pose proof (Z.div_mod b m ltac:(lia)) as Hd.
  replace (b - b mod m) with ((b / m) * m) by lia.
  apply Z.mod_mul. lia.
Qed.

(* a multiple below b is below the largest multiple below b *)
Lemma multiple_le_floor x b m : 0 < m -> x mod m = 0 -> x <= b -> x <= b - b mod m.
Proof.
  intros Hm Hx Hle.
  pose proof (Z.div_mod b m ltac:(lia)) as Hb.
  pose proof (Z.div_mod x m ltac:(lia)) as Hxd. rewrite Hx in Hxd.
  assert (Hq : x / m <= b / m) by (apply Z.div_le_mono; lia).
  replace (b - b mod m) with (m * (b / m)) by lia.
  rewrite Hxd, Z.add_0_r. apply Z.mul_le_mono_nonneg_l; lia.
Qed.

Lemma plus_mod x m : 0 < m -> x mod m = 0 -> (x + m) mod m = 0.
Proof. intros Hm Hx. replace (x + m) with (x + 1 * m) by lia. rewrite Z_mod_plus_full. exact Hx. Qed.
Lemma minus_mod x m : 0 < m -> x mod m = 0 -> (x - m) mod m = 0.
Proof. intros Hm Hx. replace (x - m) with (x + (-1) * m) by lia. rewrite Z_mod_plus_full. exact Hx. Qed.

(* what a value has to satisfy, stated on the effective bounds *)
Definition fits (s : num_schema) (v : Z) : Prop :=
  (forall a, eff_min s = Some a -> a <= v) /\
  (forall b, eff_max s = Some b -> v <= b) /\
  (forall m, n_mult s = Some m -> v mod m = 0).

Lemma fits_valid s v :
  numeric_exclusive s = true -> exclusive_dominates s = true -> fits s v -> num_valid s v = true.
Proof.
  unfold numeric_exclusive, exclusive_dominates, fits, num_valid, eff_min, eff_max.
  intros Hn Hd (Ha & Hb & Hm).
  destruct (n_exmin s) as [[e1|b1]|]; destruct (n_exmax s) as [[e2|b2]|];
    try discriminate Hn; cbn [pyval] in *;
    destruct (n_min s) as [mn|]; destruct (n_max s) as [mx|];
    try specialize (Ha _ eq_refl); try specialize (Hb _ eq_refl);
    destruct (n_mult s) as [m|]; try specialize (Hm _ eq_refl);
    rewrite ?andb_true_iff in *; repeat split; try reflexivity; lia.
Qed.

Lemma min_part_fits s v d :
  multiple_satisfiable s = true ->
  In (Some v, d) (fst (min_part s)) -> fits s v.
Proof.
  unfold multiple_satisfiable, min_part, min_part_with, fits. cbn [andb orb].
  destruct (eff_min s) as [a|]; [|intros _ []].
  intros Hs Hin.
  apply andb_true_iff in Hs. destruct Hs as [Hpos Hsat].
  destruct (n_mult s) as [m|].
  - apply Z.ltb_lt in Hpos.
    pose proof (cmgt_ge a m Hpos) as Hge. pose proof (cmgt_mod a m Hpos) as Hmod.
    set (sm := closest_multiple_greater_than a m) in *.
    assert (Hv : (v = sm) \/ (v = sm + m /\ forall b, eff_max s = Some b -> sm + m <= b)).
    { destruct (eff_max s) as [b|].
      - destruct (negb (inb (sm + m) [sm]) && (sm + m <=? b)) eqn:E; cbn [fst] in Hin.
        + destruct Hin as [H|[H|[]]]; inversion H; subst; [left; reflexivity|right; split; [reflexivity|]].
          intros b' Hb'. inversion Hb'; subst b'.
          apply andb_true_iff in E. destruct E as [_ E]. lia.
        + destruct Hin as [H|[]]; inversion H; subst; left; reflexivity.
      - destruct (negb (inb (sm + m) [sm]) && true) eqn:E; cbn [fst] in Hin.
        + destruct Hin as [H|[H|[]]]; inversion H; subst; [left; reflexivity|right; split; [reflexivity|]].
          intros b' Hb'. discriminate Hb'.
        + destruct Hin as [H|[]]; inversion H; subst; left; reflexivity. }
    destruct Hv as [->|[-> Hle]].
    + split; [intros a' Ha'; inversion Ha'; subst; lia|].
      split; [intros b Hb; rewrite Hb in Hsat; lia|].
      intros m' Hm'; inversion Hm'; subst; exact Hmod.
    + split; [intros a' Ha'; inversion Ha'; subst; lia|].
      split; [exact Hle|].
      intros m' Hm'; inversion Hm'; subst. apply plus_mod; assumption.
  - assert (Hv : (v = a) \/ (v = a + 1 /\ forall b, eff_max s = Some b -> a + 1 <= b)).
    { destruct (eff_max s) as [b|].
      - destruct (negb (inb (a + 1) [a]) && (a + 1 <=? b)) eqn:E; cbn [fst] in Hin.
        + destruct Hin as [H|[H|[]]]; inversion H; subst; [left; reflexivity|right; split; [reflexivity|]].
          intros b' Hb'. inversion Hb'; subst b'.
          apply andb_true_iff in E. destruct E as [_ E]. lia.
        + destruct Hin as [H|[]]; inversion H; subst; left; reflexivity.
      - destruct (negb (inb (a + 1) [a]) && true) eqn:E; cbn [fst] in Hin.
        + destruct Hin as [H|[H|[]]]; inversion H; subst; [left; reflexivity|right; split; [reflexivity|]].
          intros b' Hb'. discriminate Hb'.
        + destruct Hin as [H|[]]; inversion H; subst; left; reflexivity. }
    destruct Hv as [->|[-> Hle]].
    + split; [intros a' Ha'; inversion Ha'; subst; lia|].
      split; [intros b Hb; rewrite Hb in Hsat; lia|].
      intros m' Hm'; discriminate Hm'.
    + split; [intros a' Ha'; inversion Ha'; subst; lia|].
      split; [exact Hle|].
      intros m' Hm'; discriminate Hm'.
Qed.

Lemma max_part_fits s seen v d :
  multiple_satisfiable s = true ->
  In (Some v, d) (max_part s seen) -> fits s v.
Proof.
  unfold multiple_satisfiable, max_part, fits.
  destruct (eff_max s) as [b|]; [|intros _ []].
  intros Hs Hin.
  apply andb_true_iff in Hs. destruct Hs as [Hpos Hsat].
  destruct (n_mult s) as [m|].
  - apply Z.ltb_lt in Hpos.
    set (lg := b - b mod m) in *.
    pose proof (floor_le b m Hpos) as Hle. pose proof (floor_mod b m Hpos) as Hmod. fold lg in Hle, Hmod.
    assert (Hlow : forall a, eff_min s = Some a -> a <= lg).
    { intros a Ha. rewrite Ha in Hsat. apply Z.leb_le in Hsat.
      pose proof (cmgt_ge a m Hpos). pose proof (cmgt_mod a m Hpos).
      pose proof (multiple_le_floor _ b m Hpos H0 Hsat). fold lg in H1. lia. }
    assert (Hv : v = lg \/ (v = lg - m /\ forall a, eff_min s = Some a -> a <= lg - m)).
    { destruct (negb (inb (lg - m) (if negb (inb lg seen) then lg :: seen else seen))
                && ((0 <? lg - m) && match eff_min s with Some mn => mn <=? lg - m | None => true end)) eqn:E.
      - apply in_app_or in Hin. destruct Hin as [Hin|[H|[]]].
        + destruct (negb (inb lg seen)); [|destruct Hin]. destruct Hin as [H|[]]; inversion H; left; reflexivity.
        + inversion H; subst. right; split; [reflexivity|].
          intros a Ha. rewrite Ha in E. rewrite !andb_true_iff in E. lia.
      - destruct (negb (inb lg seen)); [|destruct Hin]. destruct Hin as [H|[]]; inversion H; left; reflexivity. }
    destruct Hv as [->|[-> Hlo]].
    + split; [exact Hlow|]. split; [intros b' Hb'; inversion Hb'; subst; lia|].
      intros m' Hm'; inversion Hm'; subst; exact Hmod.
    + split; [exact Hlo|]. split; [intros b' Hb'; inversion Hb'; subst; lia|].
      intros m' Hm'; inversion Hm'; subst. apply minus_mod; assumption.
  - assert (Hlow : forall a, eff_min s = Some a -> a <= b).
    { intros a Ha. rewrite Ha in Hsat. lia. }
    assert (Hv : v = b \/ (v = b - 1 /\ forall a, eff_min s = Some a -> a <= b - 1)).
    { destruct (negb (inb (b - 1) (if negb (inb b seen) then b :: seen else seen))
                && ((0 <? b - 1) && match eff_min s with Some mn => mn <=? b - 1 | None => true end)) eqn:E.
      - apply in_app_or in Hin. destruct Hin as [Hin|[H|[]]].
        + destruct (negb (inb b seen)); [|destruct Hin]. destruct Hin as [H|[]]; inversion H; left; reflexivity.
        + inversion H; subst. right; split; [reflexivity|].
          intros a Ha. rewrite Ha in E. rewrite !andb_true_iff in E. lia.
      - destruct (negb (inb b seen)); [|destruct Hin]. destruct Hin as [H|[]]; inversion H; left; reflexivity. }
    destruct Hv as [->|[-> Hlo]].
    + split; [exact Hlow|]. split; [intros b' Hb'; inversion Hb'; subst; lia|].
      intros m' Hm'; discriminate Hm'.
    + split; [exact Hlo|]. split; [intros b' Hb'; inversion Hb'; subst; lia|].
      intros m' Hm'; discriminate Hm'.
Qed.

Lemma head_items_authored s v d : In (Some v, d) (head_items s) -> authored d = true.
Proof.
  unfold head_items, authored_items.
  destruct (truthy (n_example s) || truthy_list (n_examples s) || truthy (n_default s)).
  - intros Hin. apply in_app_or in Hin. destruct Hin as [Hin|Hin].
    + destruct (truthy (n_example s)); [|destruct Hin]. destruct Hin as [H|[]]; inversion H; reflexivity.
    + apply in_app_or in Hin. destruct Hin as [Hin|Hin].
      * destruct (n_examples s) as [l|]; [|destruct Hin].
        apply in_map_iff in Hin. destruct Hin as (e & H & _). inversion H; reflexivity.
      * destruct (n_default s) as [dv|]; [|destruct Hin].
        match type of Hin with In _ (if ?c then _ else _) => destruct c end; [|destruct Hin].
        destruct Hin as [H|[]]; inversion H; reflexivity.
  - destruct (negb (truthy (eff_min s)) && negb (truthy (eff_max s))); [|intros []].
    intros [H|[]]; inversion H.
Qed.

Lemma positive_numbers_valid_partial : forall s ok v d,
  numeric_exclusive s = true -> exclusive_dominates s = true ->
  multiple_satisfiable s = true ->
  In (Some v, d) (fst (positive_number_plan s ok)) -> authored d = false ->
  num_valid s v = true.
Proof.
  intros s ok v d Hn Hd Hs Hin Ha.
  apply fits_valid; [assumption|assumption|].
  unfold positive_number_plan, positive_number_plan_with in Hin. fold (min_part s) in Hin.
  destruct (needs_draw s && negb ok); [destruct Hin|].
  match type of Hin with In _ (fst (if ?c then _ else _)) => destruct c end; cbn [fst] in Hin.
  - apply head_items_authored in Hin. congruence.
  - destruct (min_part s) as [items seen] eqn:Em. cbn [fst] in Hin.
    apply in_app_or in Hin. destruct Hin as [Hin|Hin].
    + apply head_items_authored in Hin. congruence.
    + apply in_app_or in Hin. destruct Hin as [Hin|Hin].
      * apply (min_part_fits s v d Hs). rewrite Em. exact Hin.
      * apply (max_part_fits s seen v d Hs Hin).
Qed.

(* ---- witnesses: the unrestricted statement is false ---- *)
Definition mk_num mn mx exmin exmax mult : num_schema :=
  {| n_min := mn; n_max := mx; n_exmin := exmin; n_exmax := exmax; n_mult := mult;
     n_example := None; n_examples := None; n_default := None |}.
Definition w_zero := mk_num (Some 0) (Some 0) None None None.                       (* minimum 0, maximum 0 *)
Definition w_bool := mk_num (Some 5) None (Some (PBool true)) None None.            (* minimum 5, exclusiveMinimum true *)
Definition w_mult := mk_num (Some 5) (Some 7) None None (Some 4).                   (* 5..7 multipleOf 4 *)
Definition w_both := mk_num (Some 10) None (Some (PInt 3)) None None.               (* minimum 10, exclusiveMinimum 3 *)
Definition w_good := mk_num (Some 3) (Some 20) None None (Some 4).                  (* 3..20 multipleOf 4 *)

Definition refutes (s : num_schema) (v : Z) (d : ndesc) (rest : Prop) : Prop :=
  In (Some v, d) (fst (positive_number_plan s true)) /\ authored d = false /\ num_valid s v = false /\ rest.

(* regression sentinel for the fixed finding C03-F1: the planner before commit 0b606a31 yields 1
   for minimum 0, maximum 0; the repaired planner yields the valid 0 only, and w_zero lies in every
   region of the theorem *)
Lemma legacy_max_zero_refuted :
  In (Some 1, DNear) (fst (positive_number_plan_legacy w_zero true)) /\ authored DNear = false /\ num_valid w_zero 1 = false /\
  numeric_exclusive w_zero = true /\ exclusive_dominates w_zero = true /\ multiple_satisfiable w_zero = true /\
  max_not_zero_with_min w_zero = false /\
  fst (positive_number_plan w_zero true) = [(None, DValid); (Some 0, DMinimum)].
Proof. vm_compute. intuition. Qed.
(* a bound 0 with a step: minimum -1, maximum 0, multipleOf 5 (legacy: 0 and 5; repaired: 0) *)
Definition w_zero_step := mk_num (Some (-1)) (Some 0) None None (Some 5).
Lemma zero_bounds_now_valid :
  fst (positive_number_plan w_zero_step true) = [(Some 0, DMinimum)] /\
  In (Some 5, DNear) (fst (positive_number_plan_legacy w_zero_step true)).
Proof. vm_compute. intuition. Qed.
Lemma refuted_bool : refutes w_bool 2 DMinimum
  (multiple_satisfiable w_bool = true).
Proof. unfold refutes. vm_compute. intuition. Qed.
(* minimum 2, exclusiveMinimum true: inside every other region *)
Definition w_bool2 := mk_num (Some 2) None (Some (PBool true)) None None.
Lemma refuted_bool2 : refutes w_bool2 2 DMinimum
  (exclusive_dominates w_bool2 = true /\ multiple_satisfiable w_bool2 = true).
Proof. unfold refutes. vm_compute. intuition. Qed.
Lemma refuted_mult : refutes w_mult 8 DMinimum
  (numeric_exclusive w_mult = true /\ exclusive_dominates w_mult = true).
Proof. unfold refutes. vm_compute. intuition. Qed.
Lemma refuted_both : refutes w_both 4 DMinimum
  (numeric_exclusive w_both = true /\ multiple_satisfiable w_both = true).
Proof. unfold refutes. vm_compute. intuition. Qed.

(* non-vacuity: a schema in every region whose plan has four checked values *)
Lemma good_hyps :
  numeric_exclusive w_good = true /\ exclusive_dominates w_good = true /\
  multiple_satisfiable w_good = true /\
  fst (positive_number_plan w_good true) = [(Some 4, DMinimum); (Some 8, DNear); (Some 20, DMaximum); (Some 16, DNear)].
Proof. vm_compute. intuition. Qed.

(* ---- negative numbers ---- *)
Lemma negative_numbers_invalid_partial : forall keys seen v d k,
  forallb numeric_key keys = true ->
  In (Some v, d, k) (negative_numbers keys seen) -> In k keys /\ violates k v = true.
Proof.
  induction keys as [|k0 rest IH]; intros seen v d k Hk Hin; [destruct Hin|].
  cbn [forallb] in Hk. apply andb_true_iff in Hk. destruct Hk as [Hk0 Hk].
  assert (Hrec : forall seen', In (Some v, d, k) (negative_numbers rest seen') -> In k (k0 :: rest) /\ violates k v = true).
  { intros seen' H. destruct (IH seen' v d k Hk H) as [H1 H2]. split; [right; exact H1|exact H2]. }
  cbn [negative_numbers] in Hin.
  destruct k0 as [M|m|p|p|m].
  - destruct (py_in (PInt (M + 1)) seen); [eapply Hrec; eassumption|].
    destruct Hin as [H|H]; [|eapply Hrec; eassumption].
    inversion H; subst. split; [left; reflexivity|]. cbn. lia.
  - destruct (py_in (PInt (m - 1)) seen); [eapply Hrec; eassumption|].
    destruct Hin as [H|H]; [|eapply Hrec; eassumption].
    inversion H; subst. split; [left; reflexivity|]. cbn. lia.
  - destruct Hin as [H|H]; [|eapply Hrec; eassumption].
    inversion H; subst. split; [left; reflexivity|].
    destruct v as [z|b]; [|discriminate Hk0]. cbn. lia.
  - destruct (py_in p seen); [eapply Hrec; eassumption|].
    destruct Hin as [H|H]; [|eapply Hrec; eassumption].
    inversion H; subst. split; [left; reflexivity|].
    destruct v as [z|b]; [|discriminate Hk0]. cbn. lia.
  - destruct Hin as [H|H]; [inversion H|eapply Hrec; eassumption].
Qed.

(* minimum 5, exclusiveMinimum true: the value labelled "smaller than minimum"
   at /exclusiveMinimum is the boolean itself *)
Lemma negative_numbers_invalid_refuted :
  In (Some (PBool true), NSmaller, KExMin (PBool true)) (negative_numbers [KMinimum 5; KExMin (PBool true)] [])
  /\ violates (KExMin (PBool true)) (PBool true) = false.
Proof. vm_compute. intuition. Qed.

Lemma negative_numbers_nonvacuous :
  negative_numbers [KMinimum 1; KMaximum 3; KExMax (PInt 9)] [] =
  [(Some (PInt 0), NSmaller, KMinimum 1); (Some (PInt 4), NGreater, KMaximum 3); (Some (PInt 9), NGreater, KExMax (PInt 9))].
Proof. reflexivity. Qed.

(* ====================================================================== *)
(* Part 2: lengths and sizes                                               *)
(* ====================================================================== *)
Require Import ZifyBool.

Ltac split_in H :=
  repeat match type of H with
  | In _ (_ ++ _) => apply in_app_or in H; destruct H as [H|H]
  | In _ (if ?c then _ else _) => destruct c eqn:?
  | In _ (_ :: _) => destruct H as [H|H]
  | In _ [] => destruct H
  end.

Lemma lengths_in_range_partial : forall s d lo hi,
  range_ok (s_min s) (s_max s) = true ->
  In (d, lo, hi) (string_plan s) -> within (s_min s) (s_max s) lo hi = true.
Proof.
  intros [mn mx pat au] d lo hi Hr Hin.
  unfold string_plan in Hin. cbn [s_min s_max s_pattern s_authored] in *.
  unfold range_ok, within, truthy, inb, BUFFER_SIZE in *. cbn [existsb] in *.
  destruct mn as [[|p|p]|]; destruct mx as [M|];
    repeat match type of Hin with context [if ?c then _ else _] => destruct c eqn:? end;
    cbn [app fst snd] in Hin; split_in Hin; try (inversion Hin; subst; clear Hin); lia.
Qed.

(* minLength 3, maxLength 0 (unsatisfiable): a string of length 3 is planned *)
Definition w_str := {| s_min := Some 3; s_max := Some 0; s_pattern := false; s_authored := false |}.
Lemma lengths_in_range_refuted :
  In (SMinimum, Some 3, Some 3) (string_plan w_str) /\ within (s_min w_str) (s_max w_str) (Some 3) (Some 3) = false.
Proof. vm_compute. intuition. Qed.
Definition w_str_ok := {| s_min := Some 2; s_max := Some 5; s_pattern := false; s_authored := false |}.
Lemma lengths_nonvacuous : range_ok (s_min w_str_ok) (s_max w_str_ok) = true /\
  string_plan w_str_ok = [(SMinimum, Some 2, Some 2); (SNear, Some 3, Some 3); (SMaximum, Some 5, Some 5); (SNear, Some 4, Some 4)].
Proof. vm_compute. intuition. Qed.

Lemma negative_lengths_violate : forall v l,
  (negative_min_length v = Some l -> 0 <= l < v) /\ (negative_max_length v = Some l -> v < l).
Proof.
  intros v l. unfold negative_min_length, negative_max_length, BUFFER_SIZE. split.
  - destruct ((0 <? v) && (v <? 8192)) eqn:E; intros H; inversion H; lia.
  - destruct (v <? 8192) eqn:E; intros H; inversion H; lia.
Qed.

Lemma sizes_in_range_partial : forall s L d lo hi,
  range_ok (a_min s) (a_max s) = true ->
  within (a_min s) (a_max s) (Some L) (Some L) = true ->
  In (d, lo, hi) (array_plan s L) -> within (a_min s) (a_max s) lo hi = true.
Proof.
  intros [mn mx au] L d lo hi Hr HL Hin.
  unfold array_plan, array_plan_with, upper_absent_is_none in Hin. cbn [a_min a_max a_authored] in *.
  unfold range_ok, within, inb, BUFFER_SIZE in *. cbn [existsb orb] in *.
  destruct mn as [mn|]; destruct mx as [M|];
    repeat match type of Hin with context [if ?c then _ else _] => destruct c eqn:? end;
    cbn [app fst snd] in Hin; split_in Hin; try (inversion Hin; subst; clear Hin); lia.
Qed.

(* the same at the level of the arrays themselves: whatever size n the foreign generator returns
   for a planned request (its contract: n lies in the request), n lies in [minItems, maxItems].
   No bound is excluded: minItems 0, maxItems 0, equal bounds are all covered by range_ok. *)
Lemma within_size_valid : forall s lo hi n,
  within (a_min s) (a_max s) lo hi = true -> size_in_request lo hi n = true -> arr_size_valid s n = true.
Proof.
  intros [mn mx au] lo hi n Hw Hn. unfold within, size_in_request, arr_size_valid in *. cbn [a_min a_max] in *.
  destruct mn as [mn|]; destruct mx as [M|]; destruct lo as [l|]; destruct hi as [h|]; lia.
Qed.
Lemma positive_array_sizes_valid_partial : forall s L d lo hi n,
  range_ok (a_min s) (a_max s) = true ->
  arr_size_valid s L = true ->
  In (d, lo, hi) (array_plan s L) -> size_in_request lo hi n = true ->
  arr_size_valid s n = true.
Proof.
  intros s L d lo hi n Hr HL Hin Hn.
  apply (within_size_valid s lo hi n); [|exact Hn].
  apply (sizes_in_range_partial s L d lo hi Hr); [|exact Hin].
  destruct s as [mn mx au]. unfold within, arr_size_valid in *. cbn [a_min a_max] in *.
  destruct mn as [mn|]; destruct mx as [M|]; lia.
Qed.

(* maxItems 0 (the only conforming array is the empty one, so L = 0): whether minItems is absent or
   an explicit 0, nothing but the template is planned - no request for a non-empty array *)
Lemma sizes_max_zero_only_template : forall s,
  a_max s = Some 0 -> (a_min s = None \/ a_min s = Some 0) -> a_authored s = false ->
  array_plan s 0 = [(AValid, Some 0, Some 0)].
Proof.
  intros [mn mx au] Hmx Hmn Hau. cbn [a_min a_max a_authored] in *. subst mx au.
  destruct Hmn as [Hmn|Hmn]; subst mn; reflexivity.
Qed.
Definition w_arr_zero := {| a_min := Some 0; a_max := Some 0; a_authored := false |}.
Definition w_arr_zero_nomin := {| a_min := None; a_max := Some 0; a_authored := false |}.
Lemma sizes_max_zero_examples :
  a_min w_arr_zero = Some 0 /\ a_max w_arr_zero = Some 0 /\ a_min w_arr_zero_nomin = None /\ a_max w_arr_zero_nomin = Some 0 /\
  range_ok (a_min w_arr_zero) (a_max w_arr_zero) = true /\ arr_size_valid w_arr_zero 0 = true /\
  array_plan w_arr_zero 0 = [(AValid, Some 0, Some 0)] /\
  array_plan w_arr_zero_nomin 0 = [(AValid, Some 0, Some 0)] /\
  (* 0/1, n/n and an explicit 0 lower bound with no upper bound *)
  array_plan {| a_min := Some 0; a_max := Some 1; a_authored := false |} 0 = [(AValid, Some 0, Some 0); (ANear, Some 1, Some 1)] /\
  array_plan {| a_min := Some 2; a_max := Some 2; a_authored := false |} 2 = [(AValid, Some 2, Some 2)] /\
  array_plan {| a_min := Some 0; a_max := None; a_authored := false |} 0 = [(AValid, Some 0, Some 0); (ANear, Some 1, Some 1)].
Proof. vm_compute. intuition. Qed.

(* regression sentinel (seed C03_c): with the truthiness guard, minItems 0 / maxItems 0 plans a request for
   exactly one item, which no array within the declared bounds satisfies; the code as it is does not *)
Lemma array_falsy_max_guard_refuted :
  In (ANear, Some 1, Some 1) (array_plan_falsy_max w_arr_zero 0)
  /\ range_ok (a_min w_arr_zero) (a_max w_arr_zero) = true /\ arr_size_valid w_arr_zero 0 = true
  /\ size_in_request (Some 1) (Some 1) 1 = true /\ arr_size_valid w_arr_zero 1 = false
  /\ array_plan w_arr_zero 0 = [(AValid, Some 0, Some 0)].
Proof. vm_compute. intuition. Qed.
(* ... and the two guards differ on maxItems 0 only *)
Lemma array_falsy_max_guard_differs_only_at_zero : forall s L,
  a_max s <> Some 0 -> array_plan_falsy_max s L = array_plan s L.
Proof.
  intros [mn mx au] L H. unfold array_plan_falsy_max, array_plan, array_plan_with, upper_absent_falsy, upper_absent_is_none, truthy.
  cbn [a_min a_max a_authored] in *.
  destruct mx as [M|]; [|reflexivity].
  destruct (M =? 0) eqn:E; [exfalso; apply H; f_equal; lia|]. reflexivity.
Qed.

Definition w_arr := {| a_min := Some 3; a_max := Some 1; a_authored := false |}.
Lemma sizes_in_range_refuted :
  In (AMaximum, Some 1, Some 1) (array_plan w_arr 3) /\ within (a_min w_arr) (a_max w_arr) (Some 1) (Some 1) = false.
Proof. vm_compute. intuition. Qed.
Definition w_arr_ok := {| a_min := Some 1; a_max := Some 4; a_authored := false |}.
Lemma sizes_nonvacuous : range_ok (a_min w_arr_ok) (a_max w_arr_ok) = true /\
  array_plan w_arr_ok 1 = [(AValid, Some 1, Some 1); (ANear, Some 2, Some 2); (AMaximum, Some 4, Some 4); (ANear, Some 3, Some 3)].
Proof. vm_compute. intuition. Qed.

(* ====================================================================== *)
(* Part 3: case labels                                                     *)
(* ====================================================================== *)
Definition negf (p : part) : bool := is_neg (pt_mode p).
Definition allpos (ps : list part) : Prop := Forall (fun p => pt_mode p = Pos) ps.
Definition good (c : case) : Prop :=
  c_mode c = Neg <-> (has_neg_part c = true \/ structural (c_kind c) = true).

Lemma allpos_noneg ps : allpos ps -> existsb negf ps = false.
Proof.
  induction 1 as [|p ps Hp _ IH]; [reflexivity|].
  cbn [existsb]. unfold negf at 1. rewrite Hp, IH. reflexivity.
Qed.
Lemma allpos_filter f ps : allpos ps -> allpos (filter f ps).
Proof.
  unfold allpos. rewrite !Forall_forall. intros H p Hp. apply filter_In in Hp. apply H, Hp.
Qed.
Lemma allpos_app a b : allpos a -> allpos b -> allpos (a ++ b).
Proof. unfold allpos. intros. apply Forall_app. split; assumption. Qed.
Lemma allpos_replace k new ps : allpos ps -> allpos new -> allpos (replace_container k new ps).
Proof. intros. unfold replace_container. apply allpos_app; [apply allpos_filter|]; assumption. Qed.
Lemma allpos_part_set q ps : allpos ps -> pt_mode q = Pos -> allpos (part_set q ps).
Proof.
  intros H Hq. induction H as [|p ps Hp Hps IH]; cbn [part_set].
  - constructor; [exact Hq|constructor].
  - destruct (same_slot p q); constructor; assumption.
Qed.
Lemma in_part_set q ps : In q (part_set q ps).
Proof. induction ps as [|p ps IH]; cbn [part_set]; [left; reflexivity|]. destruct (same_slot p q); [left; reflexivity|right; exact IH]. Qed.
Lemma noneg_part_set q ps : allpos ps -> existsb negf (part_set q ps) = negf q.
Proof.
  intros H. induction H as [|p ps Hp Hps IH]; cbn [part_set existsb].
  - apply orb_false_r.
  - destruct (same_slot p q); cbn [existsb].
    + rewrite (allpos_noneg _ Hps). apply orb_false_r.
    + unfold negf at 1. rewrite Hp. cbn. exact IH.
Qed.
Lemma noneg_replace k new ps : allpos ps -> existsb negf (replace_container k new ps) = existsb negf new.
Proof.
  intros H. unfold replace_container. rewrite existsb_app.
  rewrite (allpos_noneg _ (allpos_filter _ _ H)). reflexivity.
Qed.
Lemma in_existsb_neg q ps : In q ps -> pt_mode q = Neg -> existsb negf ps = true.
Proof. intros Hin Hq. apply existsb_exists. exists q. split; [exact Hin|]. unfold negf. rewrite Hq. reflexivity. Qed.

(* a case labelled negative that carries a negative part or is structural *)
Lemma neg_good c : c_mode c = Neg -> (has_neg_part c = true \/ structural (c_kind c) = true) -> good c.
Proof. intros Hm H. split; intros _; assumption. Qed.
(* a case labelled positive that carries no negative part and is not structural *)
Lemma pos_good c : c_mode c = Pos -> has_neg_part c = false -> structural (c_kind c) = false -> good c.
Proof. intros Hm Hp Hs. split; [rewrite Hm; discriminate|]. rewrite Hp, Hs. intros [H|H]; discriminate H. Qed.

Lemma is_neg_Neg m : is_neg m = true <-> m = Neg.
Proof. destruct m; split; intros H; try reflexivity; discriminate H. Qed.

(* ---- the template only holds positive values (region template_positive) ---- *)
Lemma build_template_allpos ps : forall T,
  forallb (fun p => first_mode_pos (p_modes p)) ps = true ->
  allpos (t_parts T) -> allpos (t_parts (build_template T ps)).
Proof.
  induction ps as [|p ps IH]; intros T Hf HT; [exact HT|].
  cbn [forallb] in Hf. apply andb_true_iff in Hf. destruct Hf as [Hp Hf].
  cbn [build_template]. destruct (p_modes p) as [|m0 tl]; [apply IH; assumption|].
  apply IH; [exact Hf|]. cbn [add_parameter t_parts].
  apply allpos_part_set; [exact HT|]. cbn [pt_mode]. destruct m0; [reflexivity|discriminate Hp].
Qed.

Lemma enumerate_in {A} n (l : list A) j x : In (j, x) (enumerate_from n l) -> In x l.
Proof. unfold enumerate_from. intros H. apply in_combine_r in H. exact H. Qed.

Lemma body_cases_tp bs : forall T i,
  allpos (t_parts T) ->
  (t_has_body T = true \/ first_body_mode bs <> Some Neg) ->
  allpos (t_parts (fst (body_cases T i bs))) /\
  forall c, In c (snd (body_cases T i bs)) -> is_body_tail (c_kind c) = false -> good c.
Proof.
  induction bs as [|b r IH]; intros T i HT Hb; cbn [body_cases].
  - split; [exact HT|intros c []].
  - destruct (b_modes b) as [|m0 tl] eqn:Eb.
    + apply IH; [exact HT|]. destruct Hb as [Hb|Hb]; [left; exact Hb|right]. cbn [first_body_mode] in Hb. rewrite Eb in Hb. exact Hb.
    + set (T1 := if t_has_body T then T else set_body T (b_media b) m0).
      assert (HT1 : allpos (t_parts T1)).
      { unfold T1. destruct (t_has_body T) eqn:Eh; [exact HT|].
        cbn [set_body t_parts]. apply allpos_replace; [exact HT|].
        constructor; [|constructor]. cbn [pt_mode].
        destruct Hb as [Hb|Hb]; [discriminate Hb|]. cbn [first_body_mode] in Hb. rewrite Eb in Hb.
        destruct m0; [reflexivity|congruence]. }
      assert (Hh1 : t_has_body T1 = true).
      { unfold T1. destruct (t_has_body T) eqn:Eh; [exact Eh|reflexivity]. }
      destruct (body_cases T1 (S i) r) as [T2 rest] eqn:Er.
      specialize (IH T1 (S i) HT1 (or_introl Hh1)). rewrite Er in IH. cbn [fst snd] in IH |- *.
      destruct IH as [IH1 IH2]. split; [exact IH1|].
      intros c [Hc|Hc] Hk.
      * subst c. unfold good, mk_case, has_neg_part. cbn [c_mode c_kind c_parts with_body snd structural].
        rewrite (noneg_replace _ _ _ HT1). cbn [existsb]. unfold negf. cbn [pt_mode].
        rewrite orb_false_r. rewrite is_neg_Neg. intuition discriminate.
      * apply in_app_or in Hc. destruct Hc as [Hc|Hc]; [|apply IH2; assumption].
        apply in_map_iff in Hc. destruct Hc as ([j mj] & Hc & _). subst c. discriminate Hk.
Qed.

Lemma param_cases_tp T ps c : allpos (t_parts T) -> In c (param_cases T ps) -> good c.
Proof.
  intros HT Hin. unfold param_cases in Hin. apply in_flat_map in Hin. destruct Hin as (p & _ & Hin).
  destruct (p_modes p) as [|m0 tl]; [destruct Hin|].
  apply in_map_iff in Hin. destruct Hin as ([j mj] & Hc & _). subst c.
  unfold good, mk_case, has_neg_part. cbn [c_mode c_kind c_parts with_parameter fst snd structural].
  rewrite (noneg_part_set _ _ HT). unfold negf. cbn [pt_mode]. rewrite is_neg_Neg. intuition discriminate.
Qed.

Lemma combo_cases_tp T sh l negs c : allpos (t_parts T) -> In c (combo_cases_for T sh l negs) -> good c.
Proof.
  intros HT Hin. unfold combo_cases_for in Hin.
  destruct (filter (is_loc l) (sh_params sh)) as [|p0 pr]; [destruct Hin|].
  set (pset := p0 :: pr) in *.
  assert (Hpos : forall tag names, good (mk_case (KComboPos l tag) Pos
            (with_container T (container l) (filter (fun q => mem_name (pt_name q) names) (container_parts (container l) (t_parts T))) Pos))).
  { intros tag names. apply pos_good; [reflexivity| |reflexivity].
    unfold has_neg_part, mk_case. cbn [c_parts with_container snd].
    rewrite (noneg_replace _ _ _ HT). apply allpos_noneg. apply allpos_filter. apply allpos_filter. exact HT. }
  assert (Hneg : forall tag n c', In c' (map (fun i => mk_case (KComboNeg l tag i) Neg (with_container T (container l) [foreign_neg (container l)] Neg)) (seq 0 n)) -> good c').
  { intros tag n c' Hc. apply in_map_iff in Hc. destruct Hc as (i & Hc & _). subst c'.
    apply neg_good; [reflexivity|left].
    unfold has_neg_part, mk_case. cbn [c_parts with_container snd]. unfold replace_container.
    rewrite existsb_app. cbn. apply orb_true_r. }
  repeat (apply in_app_or in Hin; destruct Hin as [Hin|Hin]).
  - destruct (dedup (map p_name (filter p_required pset))) as [|r0 rr]; [destruct Hin|].
    match type of Hin with In _ (if ?c then _ else _) => destruct c end; [|destruct Hin].
    apply in_app_or in Hin. destruct Hin as [Hin|Hin].
    + destruct (sh_pos sh); [|destruct Hin]. destruct Hin as [Hin|[]]. subst c. apply Hpos.
    + destruct (sh_neg sh); [|destruct Hin]. eapply Hneg. exact Hin.
  - apply in_flat_map in Hin. destruct Hin as ([io on] & _ & Hin). cbn [fst snd] in Hin.
    match type of Hin with In _ (if ?c then _ else _) => destruct c end; [|destruct Hin].
    destruct Hin as [Hin|Hin]; [subst c; apply Hpos|].
    destruct (sh_neg sh); [|destruct Hin]. eapply Hneg. exact Hin.
  - match type of Hin with In _ (if ?c then _ else _) => destruct c end; [|destruct Hin].
    apply in_flat_map in Hin. destruct Hin as (size & _ & Hin).
    apply in_flat_map in Hin. destruct Hin as (comb & _ & Hin).
    match type of Hin with In _ (if ?c then _ else _) => destruct c end; [|destruct Hin].
    destruct Hin as [Hin|[]]. subst c. apply Hpos.
Qed.

(* ---- pieces that are right whatever the template holds ---- *)
Lemma method_cases_good T ms c : In c (method_cases T ms) -> good c.
Proof.
  intros Hin. apply in_map_iff in Hin. destruct Hin as (m & Hc & _). subst c.
  apply neg_good; [reflexivity|right; reflexivity].
Qed.
Lemma duplicate_cases_good T ps c : In c (fst (duplicate_cases T ps)) -> good c.
Proof.
  unfold duplicate_cases. destruct (filter (is_loc LQuery) ps) as [|q qs]; [intros []|].
  destruct (has_container CQuery T); [|intros []]. cbn [fst]. intros Hin.
  apply in_flat_map in Hin. destruct Hin as (p & _ & Hin).
  destruct (has_name CQuery (p_name p) (t_parts T)); [|destruct Hin].
  destruct Hin as [Hc|[]]. subst c. apply neg_good; [reflexivity|right; reflexivity].
Qed.
Lemma missing_cases_good T ps c : In c (fst (missing_cases T ps)) -> good c.
Proof.
  induction ps as [|p r IH]; cbn [missing_cases]; [intros []|].
  destruct (p_required p && negb (loc_eqb (p_loc p) LPath)); [|exact IH].
  destruct (has_container (container (p_loc p)) T); [|intros []].
  destruct (missing_cases T r) as [rest o]. cbn [fst] in *.
  intros [Hc|Hc]; [|apply IH; exact Hc]. subst c. apply neg_good; [reflexivity|right; reflexivity].
Qed.

(* ---- negative-only generation (region all_modes_neg) ---- *)
Lemma forallb_in {A} (f : A -> bool) l x : forallb f l = true -> In x l -> f x = true.
Proof. intros H Hin. rewrite forallb_forall in H. apply H, Hin. Qed.

Lemma body_cases_an bs : forall T i c,
  forallb (fun b => forallb is_neg (b_modes b)) bs = true ->
  In c (snd (body_cases T i bs)) -> good c.
Proof.
  induction bs as [|b r IH]; intros T i c Hf Hin; cbn [body_cases] in Hin; [destruct Hin|].
  cbn [forallb] in Hf. apply andb_true_iff in Hf. destruct Hf as [Hb Hf].
  destruct (b_modes b) as [|m0 tl] eqn:Eb; [eapply IH; eassumption|].
  cbn [forallb] in Hb. apply andb_true_iff in Hb. destruct Hb as [Hm0 Htl]. apply is_neg_Neg in Hm0. subst m0.
  set (T1 := if t_has_body T then T else set_body T (b_media b) Neg) in *.
  destruct (body_cases T1 (S i) r) as [T2 rest] eqn:Er. cbn [snd] in Hin.
  destruct Hin as [Hc|Hc].
  - subst c. apply neg_good; [reflexivity|left].
    unfold has_neg_part, mk_case. cbn [c_parts with_body snd]. unfold replace_container.
    rewrite existsb_app. cbn. apply orb_true_r.
  - apply in_app_or in Hc. destruct Hc as [Hc|Hc].
    + apply in_map_iff in Hc. destruct Hc as ([j mj] & Hc & Hj). subst c.
      apply enumerate_in in Hj. pose proof (forallb_in _ _ _ Htl Hj) as Hmj. apply is_neg_Neg in Hmj. cbn [fst snd]. subst mj.
      apply neg_good; [reflexivity|left].
      unfold has_neg_part, mk_case. cbn [c_parts with_body snd]. unfold replace_container.
      rewrite existsb_app. cbn. apply orb_true_r.
    + apply (IH T1 (S i) c Hf). rewrite Er. exact Hc.
Qed.

Lemma param_cases_an T ps c :
  forallb (fun p => forallb is_neg (p_modes p)) ps = true -> In c (param_cases T ps) -> good c.
Proof.
  intros Hf Hin. unfold param_cases in Hin. apply in_flat_map in Hin. destruct Hin as (p & Hp & Hin).
  pose proof (forallb_in _ _ _ Hf Hp) as Hpm. cbn beta in Hpm.
  destruct (p_modes p) as [|m0 tl]; [destruct Hin|].
  cbn [forallb] in Hpm. apply andb_true_iff in Hpm. destruct Hpm as [_ Htl].
  apply in_map_iff in Hin. destruct Hin as ([j mj] & Hc & Hj). subst c.
  apply enumerate_in in Hj. pose proof (forallb_in _ _ _ Htl Hj) as Hmj. apply is_neg_Neg in Hmj. cbn [fst snd]. subst mj.
  apply neg_good; [reflexivity|left].
  unfold has_neg_part, mk_case. cbn [c_parts with_parameter snd].
  eapply in_existsb_neg; [apply in_part_set|reflexivity].
Qed.

Lemma combo_cases_an T sh l negs c : sh_pos sh = false -> In c (combo_cases_for T sh l negs) -> good c.
Proof.
  intros Hp Hin. unfold combo_cases_for in Hin. rewrite Hp in Hin.
  destruct (filter (is_loc l) (sh_params sh)) as [|p0 pr]; [destruct Hin|].
  set (pset := p0 :: pr) in *.
  repeat (apply in_app_or in Hin; destruct Hin as [Hin|Hin]).
  - destruct (dedup (map p_name (filter p_required pset))) as [|r0 rr]; [destruct Hin|].
    match type of Hin with In _ (if ?c then _ else _) => destruct c end; [|destruct Hin].
    cbn [app] in Hin. destruct (sh_neg sh); [|destruct Hin].
    apply in_map_iff in Hin. destruct Hin as (i & Hc & _). subst c.
    apply neg_good; [reflexivity|left].
    unfold has_neg_part, mk_case. cbn [c_parts with_container snd]. unfold replace_container.
    rewrite existsb_app. cbn. apply orb_true_r.
  - apply in_flat_map in Hin. destruct Hin as ([io on] & _ & Hin).
    rewrite andb_false_r in Hin. destruct Hin.
  - rewrite andb_false_r in Hin. destruct Hin.
Qed.

(* ---- the pieces of coverage_cases ---- *)
Lemma cases_pieces sh c : In c (fst (coverage_cases sh)) ->
  let T := final_template sh in
  In c (snd (body_stage sh (build_template empty_template (sh_params sh))))
  \/ In c (param_cases T (sh_params sh))
  \/ In c (method_cases T (sh_methods sh))
  \/ In c (fst (duplicate_cases T (sh_params sh)))
  \/ In c (fst (missing_cases T (sh_params sh)))
  \/ In c (combo_stage T sh).
Proof.
  intros Hin. cbn zeta. unfold coverage_cases in Hin. cbn zeta in Hin. set (T := final_template sh) in *.
  destruct (sh_neg sh).
  - destruct (snd (duplicate_cases T (sh_params sh)));
      [destruct (snd (missing_cases T (sh_params sh)))|..]; cbn [fst] in Hin;
      repeat (apply in_app_or in Hin; destruct Hin as [Hin|Hin]); try tauto;
      do 5 right; unfold combo_stage; rewrite !in_app_iff; tauto.
  - cbn [fst] in Hin. repeat (apply in_app_or in Hin; destruct Hin as [Hin|Hin]); try tauto;
      do 5 right; unfold combo_stage; rewrite !in_app_iff; tauto.
Qed.

Lemma case_label_iff_partial : forall sh c,
  In c (fst (coverage_cases sh)) ->
  is_body_tail (c_kind c) = false ->
  template_positive sh = true ->
  (c_mode c = Neg <-> (has_neg_part c = true \/ structural (c_kind c) = true)).
Proof.
  intros sh c Hin Hk Htp. fold (good c).
  unfold template_positive in Htp. apply andb_true_iff in Htp. destruct Htp as [Hps Hbs].
  pose proof (build_template_allpos (sh_params sh) empty_template Hps (Forall_nil _)) as HT0.
  set (T0 := build_template empty_template (sh_params sh)) in *.
  assert (Hstage : allpos (t_parts (fst (body_stage sh T0))) /\
                   forall c, In c (snd (body_stage sh T0)) -> is_body_tail (c_kind c) = false -> good c).
  { unfold body_stage. destruct (sh_bodies sh) as [|b r] eqn:Eb.
    - cbn [fst snd]. split; [exact HT0|]. intros c' Hc _.
      destruct (sh_pos sh); [|destruct Hc]. destruct Hc as [Hc|[]]. subst c'.
      apply pos_good; [reflexivity| |reflexivity]. unfold has_neg_part, mk_case. cbn [c_parts unmodified snd].
      apply allpos_noneg. exact HT0.
    - apply body_cases_tp; [exact HT0|right]. destruct (first_body_mode (b :: r)) as [[|]|]; congruence. }
  destruct Hstage as [HT Hb].
  apply cases_pieces in Hin. cbn zeta in Hin. unfold final_template in Hin. fold T0 in Hin.
  destruct Hin as [Hin|[Hin|[Hin|[Hin|[Hin|Hin]]]]].
  - apply Hb; assumption.
  - eapply param_cases_tp; eassumption.
  - eapply method_cases_good; eassumption.
  - eapply duplicate_cases_good; eassumption.
  - eapply missing_cases_good; eassumption.
  - unfold combo_stage in Hin. repeat (apply in_app_or in Hin; destruct Hin as [Hin|Hin]); eapply combo_cases_tp; eassumption.
Qed.

Lemma case_label_iff_negative_only : forall sh c,
  In c (fst (coverage_cases sh)) ->
  all_modes_neg sh = true ->
  (c_mode c = Neg <-> (has_neg_part c = true \/ structural (c_kind c) = true)).
Proof.
  intros sh c Hin Han. fold (good c).
  unfold all_modes_neg in Han. rewrite !andb_true_iff in Han. destruct Han as [[Hp Hps] Hbs].
  apply negb_true_iff in Hp.
  apply cases_pieces in Hin. cbn zeta in Hin.
  destruct Hin as [Hin|[Hin|[Hin|[Hin|[Hin|Hin]]]]].
  - unfold body_stage in Hin. destruct (sh_bodies sh) as [|b r] eqn:Eb.
    + rewrite Hp in Hin. destruct Hin.
    + eapply body_cases_an; eassumption.
  - eapply param_cases_an; eassumption.
  - eapply method_cases_good; eassumption.
  - eapply duplicate_cases_good; eassumption.
  - eapply missing_cases_good; eassumption.
  - unfold combo_stage in Hin. repeat (apply in_app_or in Hin; destruct Hin as [Hin|Hin]); eapply combo_cases_an; eassumption.
Qed.

(* ---- witnesses ---- *)
Definition no_combo : nat * list nat := (O, []).
(* one JSON body whose generator yields a positive then a negative value *)
Definition sh_tail : shape :=
  {| sh_params := []; sh_bodies := [{| b_media := 0%N; b_modes := [Pos; Neg] |}];
     sh_pos := true; sh_neg := true; sh_methods := [];
     sh_combo_query := no_combo; sh_combo_header := no_combo; sh_combo_cookie := no_combo |}.
Definition c_tail : case :=
  {| c_kind := KBodyTail 0 1; c_mode := Pos; c_comps := [(CBody, Neg)];
     c_parts := [{| pt_kind := CBody; pt_name := 0%N; pt_src := FromGen 1; pt_mode := Neg |}] |}.
Lemma case_label_refuted_body_tail :
  In c_tail (fst (coverage_cases sh_tail)) /\ template_positive sh_tail = true /\
  c_mode c_tail = Pos /\ has_neg_part c_tail = true.
Proof. vm_compute. intuition. Qed.

(* an optional query parameter whose schema has no type (minimum: 5): its only
   value is negative and becomes part of the template *)
Definition sh_tmpl : shape :=
  {| sh_params := [{| p_loc := LQuery; p_name := 0%N; p_required := false; p_modes := [Neg] |}];
     sh_bodies := []; sh_pos := true; sh_neg := true; sh_methods := [];
     sh_combo_query := no_combo; sh_combo_header := no_combo; sh_combo_cookie := no_combo |}.
Definition c_tmpl : case :=
  {| c_kind := KDefault; c_mode := Pos; c_comps := [(CQuery, Neg)];
     c_parts := [{| pt_kind := CQuery; pt_name := 0%N; pt_src := FromGen 0; pt_mode := Neg |}] |}.
Lemma case_label_refuted_template :
  In c_tmpl (fst (coverage_cases sh_tmpl)) /\ is_body_tail (c_kind c_tmpl) = false /\
  c_mode c_tmpl = Pos /\ has_neg_part c_tmpl = true.
Proof. vm_compute. intuition. Qed.

(* non-vacuity: an operation with a required query parameter, an optional header and a
   body yields 12 cases in mixed mode and is inside the region *)
Definition sh_ok : shape :=
  {| sh_params := [{| p_loc := LHeader; p_name := 1%N; p_required := false; p_modes := [Pos; Pos; Neg] |};
                   {| p_loc := LQuery; p_name := 0%N; p_required := true; p_modes := [Pos; Neg; Neg] |}];
     sh_bodies := [{| b_media := 0%N; b_modes := [Pos; Pos] |}];
     sh_pos := true; sh_neg := true; sh_methods := [7%N; 8%N];
     sh_combo_query := no_combo; sh_combo_header := no_combo; sh_combo_cookie := no_combo |}.
Lemma case_label_nonvacuous :
  template_positive sh_ok = true /\ length (fst (coverage_cases sh_ok)) = 10%nat /\ snd (coverage_cases sh_ok) = Completed.
Proof. vm_compute. intuition. Qed.
Definition sh_negonly : shape :=
  {| sh_params := [{| p_loc := LQuery; p_name := 0%N; p_required := true; p_modes := [Neg; Neg] |}];
     sh_bodies := [{| b_media := 0%N; b_modes := [Neg; Neg] |}];
     sh_pos := false; sh_neg := true; sh_methods := [7%N];
     sh_combo_query := no_combo; sh_combo_header := no_combo; sh_combo_cookie := no_combo |}.
Lemma case_label_negative_only_nonvacuous :
  all_modes_neg sh_negonly = true /\ length (fst (coverage_cases sh_negonly)) = 6%nat.
Proof. vm_compute. intuition. Qed.

(* ---- the exact shape of the body-tail defect ---- *)
Lemma comp_get_set k m cs : comp_get k (comp_set k m cs) = Some m.
Proof.
  induction cs as [|[k' m'] r IH]; cbn [comp_set comp_get].
  - destruct k; reflexivity.
  - destruct (ckind_eqb k k') eqn:E; cbn [comp_get]; rewrite ?E; [|exact IH].
    destruct k; reflexivity.
Qed.

Lemma enumerate_nth {A} (l : list A) : forall n j x,
  In (j, x) (enumerate_from n l) -> (n <= j)%nat /\ nth_error l (j - n) = Some x.
Proof.
  unfold enumerate_from. induction l as [|a l IH]; intros n j x Hin; [destruct Hin|].
  cbn [length seq combine] in Hin. destruct Hin as [H|H].
  - inversion H; subst. split; [lia|]. rewrite Nat.sub_diag. reflexivity.
  - apply IH in H. destruct H as [Hle Hn]. split; [lia|].
    replace (j - n)%nat with (S (j - S n)) by lia. exact Hn.
Qed.

Lemma body_cases_tail bs : forall T i c i' j,
  In c (snd (body_cases T i bs)) -> c_kind c = KBodyTail i' j ->
  (i <= i')%nat /\ exists b m0 tl mj,
    nth_error bs (i' - i) = Some b /\ b_modes b = m0 :: tl /\ (1 <= j)%nat /\ nth_error tl (j - 1) = Some mj /\
    c_mode c = m0 /\ comp_get CBody (c_comps c) = Some mj.
Proof.
  induction bs as [|b r IH]; intros T i c i' j Hin Hk; cbn [body_cases] in Hin; [destruct Hin|].
  assert (Hrec : forall T', In c (snd (body_cases T' (S i) r)) ->
     (i <= i')%nat /\ exists b0 m0 tl mj, nth_error (b :: r) (i' - i) = Some b0 /\ b_modes b0 = m0 :: tl /\ (1 <= j)%nat /\
       nth_error tl (j - 1) = Some mj /\ c_mode c = m0 /\ comp_get CBody (c_comps c) = Some mj).
  { intros T' H. destruct (IH T' (S i) c i' j H Hk) as (Hle & b0 & m0 & tl & mj & Hn & Hrest).
    split; [lia|]. exists b0, m0, tl, mj. split; [|exact Hrest].
    replace (i' - i)%nat with (S (i' - S i)) by lia. exact Hn. }
  destruct (b_modes b) as [|m0 tl] eqn:Eb; [apply Hrec with (T' := T); exact Hin|].
  set (T1 := if t_has_body T then T else set_body T (b_media b) m0) in *.
  destruct (body_cases T1 (S i) r) as [T2 rest] eqn:Er. cbn [snd] in Hin.
  destruct Hin as [Hc|Hc]; [subst c; discriminate Hk|].
  apply in_app_or in Hc. destruct Hc as [Hc|Hc].
  - apply in_map_iff in Hc. destruct Hc as ([j' mj] & Hc & Hj). subst c. cbn [fst snd] in *.
    unfold mk_case in Hk. cbn [c_kind] in Hk. inversion Hk; subst i' j'.
    apply enumerate_nth in Hj. destruct Hj as [Hle Hn].
    split; [lia|]. exists b, m0, tl, mj. rewrite Nat.sub_diag.
    repeat split; try assumption; try reflexivity.
    unfold mk_case, with_body. cbn [c_comps fst]. apply comp_get_set.
  - apply Hrec with (T' := T1). rewrite Er. exact Hc.
Qed.

Lemma param_cases_kind T ps c : In c (param_cases T ps) -> is_body_tail (c_kind c) = false.
Proof.
  intros Hin. unfold param_cases in Hin. apply in_flat_map in Hin. destruct Hin as (p & _ & Hin).
  destruct (p_modes p); [destruct Hin|]. apply in_map_iff in Hin. destruct Hin as (jm & Hc & _). subst c. reflexivity.
Qed.
Lemma method_cases_kind T ms c : In c (method_cases T ms) -> is_body_tail (c_kind c) = false.
Proof. intros Hin. apply in_map_iff in Hin. destruct Hin as (m & Hc & _). subst c. reflexivity. Qed.
Lemma duplicate_cases_kind T ps c : In c (fst (duplicate_cases T ps)) -> is_body_tail (c_kind c) = false.
Proof.
  unfold duplicate_cases. destruct (filter (is_loc LQuery) ps) as [|q0 qs]; [intros []|].
  destruct (has_container CQuery T); [|intros []]. cbn [fst]. intros Hin.
  apply in_flat_map in Hin. destruct Hin as (p0 & _ & Hin).
  destruct (has_name CQuery (p_name p0) (t_parts T)); [|destruct Hin]. destruct Hin as [Hc|[]]. subst c. reflexivity.
Qed.
Lemma missing_cases_kind T ps c : In c (fst (missing_cases T ps)) -> is_body_tail (c_kind c) = false.
Proof.
  induction ps as [|p r IH]; cbn [missing_cases]; [intros []|].
  destruct (p_required p && negb (loc_eqb (p_loc p) LPath)); [|exact IH].
  destruct (has_container (container (p_loc p)) T); [|intros []].
  destruct (missing_cases T r) as [rest o]. cbn [fst] in *.
  intros [Hc|Hc]; [subst c; reflexivity|apply IH; exact Hc].
Qed.
Lemma combo_cases_kind T sh l negs c : In c (combo_cases_for T sh l negs) -> is_body_tail (c_kind c) = false.
Proof.
  intros Hin. unfold combo_cases_for in Hin.
  destruct (filter (is_loc l) (sh_params sh)) as [|p0 pr]; [destruct Hin|].
  repeat (apply in_app_or in Hin; destruct Hin as [Hin|Hin]).
  - destruct (dedup (map p_name (filter p_required (p0 :: pr)))); [destruct Hin|].
    match type of Hin with In _ (if ?c then _ else _) => destruct c end; [|destruct Hin].
    apply in_app_or in Hin. destruct Hin as [Hin|Hin].
    + destruct (sh_pos sh); [|destruct Hin]. destruct Hin as [Hin|[]]. subst c. reflexivity.
    + destruct (sh_neg sh); [|destruct Hin]. apply in_map_iff in Hin. destruct Hin as (i & Hc & _). subst c. reflexivity.
  - apply in_flat_map in Hin. destruct Hin as ([io on] & _ & Hin). cbn [fst snd] in Hin.
    match type of Hin with In _ (if ?c then _ else _) => destruct c end; [|destruct Hin].
    destruct Hin as [Hin|Hin]; [subst c; reflexivity|].
    destruct (sh_neg sh); [|destruct Hin]. apply in_map_iff in Hin. destruct Hin as (i & Hc & _). subst c. reflexivity.
  - match type of Hin with In _ (if ?c then _ else _) => destruct c end; [|destruct Hin].
    apply in_flat_map in Hin. destruct Hin as (size & _ & Hin).
    apply in_flat_map in Hin. destruct Hin as (comb & _ & Hin).
    match type of Hin with In _ (if ?c then _ else _) => destruct c end; [|destruct Hin].
    destruct Hin as [Hin|[]]. subst c. reflexivity.
Qed.

Lemma body_tail_inherits_first : forall sh c i j,
  In c (fst (coverage_cases sh)) -> c_kind c = KBodyTail i j ->
  exists b m0 tl mj,
    nth_error (sh_bodies sh) i = Some b /\ b_modes b = m0 :: tl /\ (1 <= j)%nat /\ nth_error tl (j - 1) = Some mj /\
    c_mode c = m0 /\ comp_get CBody (c_comps c) = Some mj.
Proof.
  intros sh c i j Hin Hk.
  assert (Ht : is_body_tail (c_kind c) = true) by (rewrite Hk; reflexivity).
  apply cases_pieces in Hin. cbn zeta in Hin.
  destruct Hin as [Hin|[Hin|[Hin|[Hin|[Hin|Hin]]]]].
  - unfold body_stage in Hin. destruct (sh_bodies sh) as [|b r] eqn:Eb.
    + cbn [snd] in Hin. destruct (sh_pos sh); [|destruct Hin]. destruct Hin as [Hc|[]]. subst c. discriminate Hk.
    + destruct (body_cases_tail _ _ _ _ _ _ Hin Hk) as (_ & b0 & m0 & tl & mj & Hn & Hrest).
      rewrite Nat.sub_0_r in Hn. exists b0, m0, tl, mj. split; assumption.
  - apply param_cases_kind in Hin. congruence.
  - apply method_cases_kind in Hin. congruence.
  - apply duplicate_cases_kind in Hin. congruence.
  - apply missing_cases_kind in Hin. congruence.
  - unfold combo_stage in Hin. repeat (apply in_app_or in Hin; destruct Hin as [Hin|Hin]); apply combo_cases_kind in Hin; congruence.
Qed.

(* ---- anyOf / oneOf over numeric branches ---- *)
Open Scope Z_scope.
Lemma anyof_negative_partial : forall bs seen i v d k,
  forallb (forallb numeric_key) bs = true ->
  In (i, (Some v, d, k)) (anyof_negative_numbers bs seen) ->
  exists b, nth_error bs i = Some b /\ In k b /\ violates k v = true.
Proof.
  induction bs as [|b r IH]; intros seen i v d k Hn Hin; [destruct Hin|].
  cbn [forallb] in Hn. apply andb_true_iff in Hn. destruct Hn as [Hb Hr].
  cbn [anyof_negative_numbers] in Hin. apply in_app_or in Hin. destruct Hin as [Hin|Hin].
  - apply in_map_iff in Hin. destruct Hin as (it & Hit & Hin). inversion Hit; subst.
    destruct (negative_numbers_invalid_partial _ _ _ _ _ Hb Hin) as [Hk Hv].
    exists b. repeat split; assumption.
  - apply in_map_iff in Hin. destruct Hin as ([i' it] & Hit & Hin). cbn [fst snd] in Hit. inversion Hit; subst.
    destruct (IH _ _ _ _ _ Hr Hin) as (b' & Hn' & Hrest). exists b'. split; [exact Hn'|exact Hrest].
Qed.

(* anyOf [minimum 5] [maximum 10]: 4 is yielded as "smaller than minimum" and conforms to the second branch *)
Lemma anyof_negative_refuted :
  In (O, (Some (PInt 4), NSmaller, KMinimum 5)) (anyof_negative_numbers [[KMinimum 5]; [KMaximum 10]] [])
  /\ existsb (fun b => conforms b (PInt 4)) [[KMinimum 5]; [KMaximum 10]] = true.
Proof. vm_compute. intuition. Qed.

(* ---- positive values under anyOf / oneOf ---- *)
Lemma combined_positive_in : forall bs ok i it,
  In (i, it) (combined_positive_numbers bs ok) ->
  exists b, nth_error bs i = Some b /\ In it (fst (positive_number_plan b ok)).
Proof.
  induction bs as [|b r IH]; intros ok i it Hin; [destruct Hin|].
  cbn [combined_positive_numbers] in Hin. apply in_app_or in Hin. destruct Hin as [Hin|Hin].
  - apply in_map_iff in Hin. destruct Hin as (it' & Hit & Hin). inversion Hit; subst. exists b. split; [reflexivity|exact Hin].
  - apply in_map_iff in Hin. destruct Hin as ([i' it'] & Hit & Hin). cbn [fst snd] in Hit. inversion Hit; subst.
    destruct (IH _ _ _ Hin) as (b' & Hn & Hb). exists b'. split; [exact Hn|exact Hb].
Qed.

Lemma combined_positive_own_branch : forall bs ok i v d,
  forallb branch_in_regions bs = true ->
  In (i, (Some v, d)) (combined_positive_numbers bs ok) -> authored d = false ->
  exists b, nth_error bs i = Some b /\ num_valid b v = true.
Proof.
  intros bs ok i v d Hreg Hin Hau.
  destruct (combined_positive_in _ _ _ _ Hin) as (b & Hn & Hb).
  exists b. split; [exact Hn|].
  assert (Hinb : In b bs) by (eapply nth_error_In; exact Hn).
  pose proof (proj1 (forallb_forall _ _) Hreg b Hinb) as Hr. unfold branch_in_regions in Hr.
  apply andb_true_iff in Hr. destruct Hr as [Hr Hms]. apply andb_true_iff in Hr. destruct Hr as [Hne Hed].
  exact (positive_numbers_valid_partial b ok v d Hne Hed Hms Hb Hau).
Qed.

Lemma anyof_positive_partial : forall bs ok i v d,
  forallb branch_in_regions bs = true ->
  In (i, (Some v, d)) (combined_positive_numbers bs ok) -> authored d = false ->
  anyof_valid bs v = true.
Proof.
  intros bs ok i v d Hreg Hin Hau.
  destruct (combined_positive_own_branch _ _ _ _ _ Hreg Hin Hau) as (b & Hn & Hv).
  unfold anyof_valid. apply existsb_exists. exists b. split; [eapply nth_error_In; exact Hn|exact Hv].
Qed.

Lemma others_reject_count : forall bs i b v,
  nth_error bs i = Some b -> num_valid b v = true -> others_reject bs i v = true -> count_valid bs v = 1%nat.
Proof.
  unfold count_valid.
  induction bs as [|b0 r IH]; intros i b v Hn Hv Ho; [destruct i; discriminate Hn|].
  destruct i as [|j].
  - cbn [nth_error] in Hn. inversion Hn; subst b0. cbn [others_reject] in Ho. cbn [filter]. rewrite Hv. cbn [length]. f_equal.
    clear IH Hn Hv. induction r as [|c r IHr]; [reflexivity|].
    cbn [forallb] in Ho. apply andb_true_iff in Ho. destruct Ho as [Hc Hr]. cbn [filter].
    apply negb_true_iff in Hc. rewrite Hc. exact (IHr Hr).
  - cbn [nth_error] in Hn. cbn [others_reject] in Ho. apply andb_true_iff in Ho. destruct Ho as [Hc Hr].
    apply negb_true_iff in Hc. cbn [filter]. rewrite Hc. exact (IH _ _ _ Hn Hv Hr).
Qed.

Lemma oneof_positive_partial : forall bs ok i v d,
  forallb branch_in_regions bs = true ->
  In (i, (Some v, d)) (combined_positive_numbers bs ok) -> authored d = false ->
  others_reject bs i v = true ->
  oneof_valid bs v = true.
Proof.
  intros bs ok i v d Hreg Hin Hau Ho.
  destruct (combined_positive_own_branch _ _ _ _ _ Hreg Hin Hau) as (b & Hn & Hv).
  unfold oneof_valid. rewrite (others_reject_count _ _ _ _ Hn Hv Ho). reflexivity.
Qed.

(* oneOf [minimum -5, maximum 0] [maximum -3]: -5 is the "Minimum value" of the first branch, every branch is inside
   the regions of the positive-number theorem, and -5 conforms to both branches, so not to the oneOf *)
Definition w_oneof := [mk_num (Some (-5)) (Some 0) None None None; mk_num None (Some (-3)) None None None].
Lemma oneof_positive_refuted :
  In (O, (Some (-5), DMinimum)) (combined_positive_numbers w_oneof true) /\ authored DMinimum = false
  /\ forallb branch_in_regions w_oneof = true /\ oneof_valid w_oneof (-5) = false /\ anyof_valid w_oneof (-5) = true.
Proof. vm_compute. intuition. Qed.
Definition w_oneof_ok := [mk_num (Some 1) (Some 3) None None None; mk_num (Some 7) (Some 9) None None None].
Lemma oneof_positive_nonvacuous :
  forallb branch_in_regions w_oneof_ok = true /\
  combined_positive_numbers w_oneof_ok true =
    [(O, (Some 1, DMinimum)); (O, (Some 2, DNear)); (O, (Some 3, DMaximum));
     (1%nat, (Some 7, DMinimum)); (1%nat, (Some 8, DNear)); (1%nat, (Some 9, DMaximum))] /\
  forallb (fun x => match snd x with (Some v, _) => others_reject w_oneof_ok (fst x) v | _ => true end)
          (combined_positive_numbers w_oneof_ok true) = true.
Proof. vm_compute. intuition. Qed.

(* ====================================================================== *)
(* Part 4: object-level generators                                         *)
(* ====================================================================== *)
Lemma cover_sub_negative_ctx c s m :
  sub_respects_modes s = true -> In m (cover_sub (with_negative_ctx c) s) -> m = Neg.
Proof.
  unfold sub_respects_modes, cover_sub, with_negative_ctx. cbn [fst snd app].
  intros H Hin. apply andb_true_iff in H. destruct H as [_ H].
  apply is_neg_Neg. exact (forallb_in _ _ _ H Hin).
Qed.

Lemma wrap_all_labels c mk subs it :
  forallb sub_respects_modes subs = true -> In it (wrap_all c mk subs) ->
  oi_label it = Neg /\ oi_sub it = Some Neg.
Proof.
  intros H Hin. unfold wrap_all in Hin. apply in_flat_map in Hin. destruct Hin as ([i s] & His & Hin).
  apply enumerate_in in His. pose proof (forallb_in _ _ _ H His) as Hs.
  apply in_map_iff in Hin. destruct Hin as (m & Hit & Hm). cbn [fst snd] in *. subst it. cbn [oi_label oi_sub].
  split; [reflexivity|]. f_equal. eapply cover_sub_negative_ctx; eassumption.
Qed.

Definition key_respects_modes (k : okey) : bool :=
  match k with
  | OKProperties subs | OKPatternProperties subs => forallb sub_respects_modes subs
  | OKItems sub => sub_respects_modes sub
  | _ => true
  end.

(* labels of sub-values are never flipped: whatever is yielded as NegativeValue by the object/array
   wrappers wraps a NEGATIVE value of the sub-schema, or is structural *)
Lemma object_wrappers_keep_labels : forall c tok keys it,
  forallb key_respects_modes keys = true ->
  In it (object_negatives c tok keys) ->
  snd c = true /\ oi_label it = Neg /\ (oi_sub it = Some Neg \/ oi_sub it = None).
Proof.
  intros c tok keys it H Hin. unfold object_negatives in Hin.
  destruct (snd c); [|destruct Hin]. split; [reflexivity|].
  apply in_flat_map in Hin. destruct Hin as (k & Hk & Hin).
  pose proof (forallb_in _ _ _ H Hk) as Hkr.
  destruct k as [subs|subs|sub|n|a]; cbn [object_key_negatives key_respects_modes] in *.
  - destruct tok; [|destruct Hin]. destruct (wrap_all_labels _ _ _ _ Hkr Hin) as [H1 H2]. split; [exact H1|left; exact H2].
  - destruct tok; [|destruct Hin]. destruct (wrap_all_labels _ _ _ _ Hkr Hin) as [H1 H2]. split; [exact H1|left; exact H2].
  - apply in_map_iff in Hin. destruct Hin as (m & Hit & Hm). subst it. cbn [oi_label oi_sub].
    split; [reflexivity|left]. f_equal. eapply cover_sub_negative_ctx; eassumption.
  - destruct tok; [|destruct Hin]. apply in_map_iff in Hin. destruct Hin as (i & Hit & _). subst it. split; [reflexivity|right; reflexivity].
  - destruct (addl_falsy a && tok); [|destruct Hin]. destruct Hin as [Hit|[]]. subst it. split; [reflexivity|right; reflexivity].
Qed.

(* an unexpected property is added exactly when additionalProperties is falsy; for false that is a violation *)
Lemma additional_negative_partial : forall c tok a it,
  a <> AddlEmptySchema -> In it (object_negatives c tok [OKAdditional a]) -> addl_forbids a = true.
Proof.
  intros c tok a it Ha Hin. unfold object_negatives in Hin. destruct (snd c); [|destruct Hin].
  cbn [flat_map object_key_negatives app] in Hin. destruct a; cbn in Hin; [reflexivity|congruence|destruct Hin].
Qed.
Lemma additional_negative_refuted :
  object_negatives (true, true) true [OKAdditional AddlEmptySchema] = [{| oi_label := Neg; oi_via := WAdditional; oi_sub := None |}]
  /\ addl_forbids AddlEmptySchema = false.
Proof. vm_compute. intuition. Qed.

(* what the seeded change did: iterate the sub-schema with the caller's context *)
Definition wrap_all_callers_ctx (c : gctx) (mk : nat -> wrapper) (subs : list osub) : list oitem :=
  flat_map (fun is => map (fun m => {| oi_label := Neg; oi_via := mk (fst is); oi_sub := Some m |}) (cover_sub c (snd is)))
           (enumerate_from 0 subs).
Definition sub_string : osub := {| os_pos := [Pos; Pos; Pos]; os_neg := [Neg; Neg; Neg] |}.
Lemma callers_ctx_flips_labels :
  In {| oi_label := Neg; oi_via := WPatternProperty 0; oi_sub := Some Pos |} (wrap_all_callers_ctx (true, true) WPatternProperty [sub_string])
  /\ sub_respects_modes sub_string = true
  /\ length (object_negatives (true, true) true [OKProperties [sub_string]; OKPatternProperties [sub_string]; OKRequired 1; OKAdditional AddlFalse]) = 8%nat.
Proof. vm_compute. intuition. Qed.

(* ---- _positive_object ignores minProperties ---- *)
Lemma object_subset_sizes_partial : forall r o extra minp d n,
  (minp <= r)%nat -> In (d, n) (object_subset_sizes r o extra) -> (minp <= n)%nat.
Proof.
  intros r o extra minp d n Hr Hin. unfold object_subset_sizes in Hin.
  apply in_app_or in Hin. destruct Hin as [Hin|Hin].
  - destruct (Nat.eqb o 1 && negb extra); [destruct Hin|]. apply in_map_iff in Hin. destruct Hin as (x & H & _). inversion H. lia.
  - apply in_app_or in Hin. destruct Hin as [Hin|Hin].
    + apply in_map_iff in Hin. destruct Hin as (x & H & _). inversion H. lia.
    + destruct (Nat.eqb o 0); [destruct Hin|]. destruct Hin as [H|[]]. inversion H. lia.
Qed.
(* two optional properties, minProperties 1: the object with only required properties is empty *)
Lemma object_subset_sizes_refuted : In (OOnlyRequired, 0%nat) (object_subset_sizes 0 2 false) /\ (0 < 1)%nat.
Proof. vm_compute. intuition. Qed.
Lemma object_subset_sizes_nonvacuous :
  object_subset_sizes 1 3 false = [(OOneOptional, 2%nat); (OOneOptional, 2%nat); (OOneOptional, 2%nat); (OSubset, 3%nat); (OOnlyRequired, 1%nat)].
Proof. reflexivity. Qed.

(* ====================================================================== *)
(* Part 5: the subschemas of the parameter combination blocks              *)
(* ====================================================================== *)

Lemma loc_eqb_eq a b : loc_eqb a b = true -> a = b.
Proof. destruct a, b; cbn; congruence. Qed.
Lemma loc_eqb_refl a : loc_eqb a a = true.
Proof. destruct a; reflexivity. Qed.

Lemma dedup_in x l : In x (dedup l) -> In x l.
Proof.
  induction l as [|y r IH]; cbn [dedup]; [tauto|].
  destruct (mem_name y r) eqn:E; intros H.
  - right. auto.
  - destruct H as [H|H]; [left; exact H|right; auto].
Qed.

Lemma prop_set_in {S} (name : N) (s : S) ps n s' :
  In (n, s') (prop_set name s ps) -> (n = name /\ s' = s) \/ In (n, s') ps.
Proof.
  induction ps as [|[n0 s0] r IH]; cbn [prop_set]; intros H.
  - destruct H as [H|[]]. inversion H. left. split; reflexivity.
  - destruct (N.eqb n0 name) eqn:E.
    + apply N.eqb_eq in E. subst n0. destruct H as [H|H].
      * inversion H. left. split; reflexivity.
      * right. right. exact H.
    + destruct H as [H|H].
      * right. left. exact H.
      * destruct (IH H) as [H'|H']; [left; exact H'|right; right; exact H'].
Qed.

(* CacheNone: the cache is never consulted nor written *)
Lemma schema_through_none {S} (c : list (ckey * S)) p : schema_through CacheNone c p = (dp_schema p, c).
Proof. reflexivity. Qed.

Lemma combination_props_none_cache {S} (pset : list (dparam S)) comb acc c :
  snd (combination_props CacheNone pset comb acc c) = c.
Proof.
  revert acc. induction pset as [|p r IH]; intros acc; cbn [combination_props]; [reflexivity|].
  destruct (mem_name (dp_name p) comb); [rewrite schema_through_none; cbn [fst snd]|]; apply IH.
Qed.

Lemma combination_props_none_irrelevant {S} (pset : list (dparam S)) comb acc c1 c2 :
  fst (combination_props CacheNone pset comb acc c1) = fst (combination_props CacheNone pset comb acc c2).
Proof.
  revert acc. induction pset as [|p r IH]; intros acc; cbn [combination_props]; [reflexivity|].
  destruct (mem_name (dp_name p) comb); [rewrite !schema_through_none; cbn [fst snd]|]; apply IH.
Qed.

Lemma combination_props_none_in {S} (pset : list (dparam S)) comb acc c n s :
  In (n, s) (fst (combination_props CacheNone pset comb acc c)) ->
  In (n, s) acc \/ exists p, In p pset /\ dp_name p = n /\ dp_schema p = s.
Proof.
  revert acc. induction pset as [|p r IH]; intros acc; cbn [combination_props].
  - cbn [fst]. tauto.
  - destruct (mem_name (dp_name p) comb).
    + rewrite schema_through_none. cbn [fst snd]. intros H. destruct (IH _ H) as [H'|(q & Hq & Hn & Hs)].
      * destruct (prop_set_in _ _ _ _ _ H') as [[Hn Hs]|H''].
        -- right. exists p. split; [left; reflexivity|]. split; congruence.
        -- left. exact H''.
      * right. exists q. split; [right; exact Hq|]. split; assumption.
    + intros H. destruct (IH _ H) as [H'|(q & Hq & Hn & Hs)]; [left; exact H'|].
      right. exists q. split; [right; exact Hq|]. split; assumption.
Qed.

Lemma optional_subschemas_none_cache {S} pos neg l (pset : list (dparam S)) base required opts c :
  snd (optional_subschemas CacheNone pos neg l pset base required opts c) = c.
Proof.
  induction opts as [|o r IH]; cbn [optional_subschemas]; [reflexivity|].
  destruct (negb _ && pos && neg); cbn [snd].
  - rewrite combination_props_none_cache. exact IH.
  - exact IH.
Qed.

Lemma optional_subschemas_none_irrelevant {S} pos neg l (pset : list (dparam S)) base required opts c1 c2 :
  fst (optional_subschemas CacheNone pos neg l pset base required opts c1)
  = fst (optional_subschemas CacheNone pos neg l pset base required opts c2).
Proof.
  induction opts as [|o r IH]; cbn [optional_subschemas]; [reflexivity|].
  destruct (negb _ && pos && neg); cbn [fst].
  - rewrite !combination_props_none_cache.
    rewrite (combination_props_none_irrelevant pset _ [] c1 c2). rewrite IH. reflexivity.
  - exact IH.
Qed.

Lemma optional_subschemas_none_in {S} pos neg l (pset : list (dparam S)) base required opts c ss :
  In ss (fst (optional_subschemas CacheNone pos neg l pset base required opts c)) ->
  ss_loc ss = l /\ ss_required ss = required /\
  forall n s, In (n, s) (ss_props ss) -> exists p, In p pset /\ dp_name p = n /\ dp_schema p = s.
Proof.
  induction opts as [|o r IH]; cbn [optional_subschemas]; [intros []|].
  destruct (negb _ && pos && neg); cbn [fst].
  - rewrite combination_props_none_cache. intros [H|H].
    + subst ss. cbn [ss_loc ss_required ss_props]. repeat split.
      intros n s Hin. destruct (combination_props_none_in _ _ _ _ _ _ Hin) as [[]|Hp]. exact Hp.
    + exact (IH H).
  - exact IH.
Qed.

Definition declared_here {S} (params : list (dparam S)) (l : loc) (n : N) (p : dparam S) : Prop :=
  In p params /\ dp_loc p = l /\ dp_name p = n.

Lemma in_pset {S} (params : list (dparam S)) l p : In p (filter (at_loc l) params) -> In p params /\ dp_loc p = l.
Proof.
  intros H. apply filter_In in H. destruct H as [H1 H2]. split; [exact H1|].
  unfold at_loc in H2. symmetry. apply loc_eqb_eq. exact H2.
Qed.

Lemma combo_subschemas_for_none_in {S} pos neg (params : list (dparam S)) l c ss :
  In ss (fst (combo_subschemas_for CacheNone pos neg params l c)) ->
  ss_loc ss = l
  /\ (forall n s, In (n, s) (ss_props ss) -> exists p, declared_here params l n p /\ dp_schema p = s)
  /\ (forall n, In n (ss_required ss) -> exists p, declared_here params l n p /\ dp_required p = true).
Proof.
  unfold combo_subschemas_for.
  set (pset := filter (at_loc l) params).
  assert (Hreq : forall n, In n (dedup (map dp_name (filter dp_required pset))) ->
                           exists p, declared_here params l n p /\ dp_required p = true).
  { intros n Hn. apply dedup_in in Hn. apply in_map_iff in Hn. destruct Hn as (p & Hname & Hp).
    apply filter_In in Hp. destruct Hp as [Hp Hr]. destruct (in_pset _ _ _ Hp) as [Hin Hl].
    exists p. split; [split; [exact Hin|split; assumption]|exact Hr]. }
  assert (Hprops : forall n s, (exists p, In p pset /\ dp_name p = n /\ dp_schema p = s) ->
                               exists p, declared_here params l n p /\ dp_schema p = s).
  { intros n s (p & Hp & Hn & Hs). destruct (in_pset _ _ _ Hp) as [Hin Hl].
    exists p. split; [split; [exact Hin|split; assumption]|exact Hs]. }
  destruct pset as [|p0 pr] eqn:Epset; [intros []|].
  rewrite <- Epset in *. clear Epset.
  set (required := dedup (map dp_name (filter dp_required pset))) in *.
  cbn [fst snd]. intros Hin. apply in_app_or in Hin. destruct Hin as [Hin|Hin].
  - destruct required as [|r0 rr] eqn:Ereq; [destruct Hin|]. rewrite <- Ereq in *.
    destruct (negb _ && neg); [|destruct Hin]. cbn [fst] in Hin. destruct Hin as [Hin|[]]. subst ss.
    cbn [ss_loc ss_props ss_required]. split; [reflexivity|]. split.
    + intros n s H. apply Hprops. destruct (combination_props_none_in _ _ _ _ _ _ H) as [[]|Hp]. exact Hp.
    + exact Hreq.
  - apply optional_subschemas_none_in in Hin. destruct Hin as (Hl & Hr & Hp). split; [exact Hl|]. split.
    + intros n s H. apply Hprops. exact (Hp n s H).
    + rewrite Hr. exact Hreq.
Qed.

Lemma combo_subschemas_for_none_cache {S} pos neg (params : list (dparam S)) l c :
  snd (combo_subschemas_for CacheNone pos neg params l c) = c.
Proof.
  unfold combo_subschemas_for. destruct (filter (at_loc l) params) as [|p0 pr]; [reflexivity|].
  cbn [snd]. rewrite optional_subschemas_none_cache.
  destruct (dedup (map dp_name (filter dp_required (p0 :: pr)))); [reflexivity|].
  destruct (negb _ && neg); [|reflexivity]. cbn [snd]. apply combination_props_none_cache.
Qed.

(* every subschema of the plan belongs to one of the three locations and is built from the
   parameters declared AT that location only *)
Lemma combo_plan_declared {S} pos neg (params : list (dparam S)) ss :
  In ss (combo_plan CacheNone pos neg params) ->
  (ss_loc ss = LQuery \/ ss_loc ss = LHeader \/ ss_loc ss = LCookie)
  /\ (forall n s, In (n, s) (ss_props ss) -> exists p, declared_here params (ss_loc ss) n p /\ dp_schema p = s)
  /\ (forall n, In n (ss_required ss) -> exists p, declared_here params (ss_loc ss) n p /\ dp_required p = true).
Proof.
  unfold combo_plan. intros Hin.
  apply in_app_or in Hin. destruct Hin as [Hin|Hin]; [|apply in_app_or in Hin; destruct Hin as [Hin|Hin]];
    apply combo_subschemas_for_none_in in Hin; destruct Hin as (Hl & Hp & Hr); rewrite Hl; (split; [tauto|split; assumption]).
Qed.

(* the block of location l is a function of the parameters declared at l: whatever is declared at
   the other locations (same names included) and whatever an earlier block left behind *)
Lemma combo_block_location_independent {S} pos neg (ps1 ps2 : list (dparam S)) l c1 c2 :
  filter (at_loc l) ps1 = filter (at_loc l) ps2 ->
  fst (combo_subschemas_for CacheNone pos neg ps1 l c1) = fst (combo_subschemas_for CacheNone pos neg ps2 l c2).
Proof.
  intros H. unfold combo_subschemas_for. rewrite H.
  destruct (filter (at_loc l) ps2) as [|p0 pr]; [reflexivity|].
  cbn [fst snd].
  destruct (dedup (map dp_name (filter dp_required (p0 :: pr)))) as [|r0 rr] eqn:Ereq.
  - cbn [fst snd]. apply optional_subschemas_none_irrelevant.
  - destruct (negb _ && neg); cbn [fst snd].
    + rewrite !combination_props_none_cache.
      rewrite (combination_props_none_irrelevant _ _ [] c1 c2).
      f_equal. apply optional_subschemas_none_irrelevant.
    + apply optional_subschemas_none_irrelevant.
Qed.

Lemma filter_at_loc_idem {S} (params : list (dparam S)) l :
  filter (at_loc l) (filter (at_loc l) params) = filter (at_loc l) params.
Proof.
  induction params as [|p r IH]; cbn [filter]; [reflexivity|].
  destruct (at_loc l p) eqn:E; cbn [filter]; [rewrite E, IH; reflexivity|exact IH].
Qed.

Lemma combo_plan_by_location {S} pos neg (params : list (dparam S)) :
  combo_plan CacheNone pos neg params
  = fst (combo_subschemas_for CacheNone pos neg (filter (at_loc LQuery) params) LQuery [])
    ++ fst (combo_subschemas_for CacheNone pos neg (filter (at_loc LHeader) params) LHeader [])
    ++ fst (combo_subschemas_for CacheNone pos neg (filter (at_loc LCookie) params) LCookie []).
Proof.
  unfold combo_plan. rewrite !combo_subschemas_for_none_cache.
  f_equal; [|f_equal]; apply combo_block_location_independent; symmetry; apply filter_at_loc_idem.
Qed.

(* ---- a cache keyed by the full identity (location, name) changes nothing ---- *)
Definition cache_ok {S} (params : list (dparam S)) (c : list (ckey * S)) : Prop :=
  forall l n s, cache_get (Some l, n) c = Some s ->
  forall p, In p params -> dp_loc p = l -> dp_name p = n -> dp_schema p = s.

Lemma distinct_identities_functional {S} (params : list (dparam S)) :
  distinct_identities params = true ->
  forall p q, In p params -> In q params -> dp_loc p = dp_loc q -> dp_name p = dp_name q -> p = q.
Proof.
  induction params as [|a r IH]; cbn [distinct_identities]; [intros _ p q []|].
  intros H. apply andb_true_iff in H. destruct H as [Ha Hr]. apply negb_true_iff in Ha.
  assert (Hno : forall q, In q r -> dp_loc a = dp_loc q -> dp_name a = dp_name q -> False).
  { intros q Hq Hl Hn. assert (existsb (fun q => loc_eqb (dp_loc a) (dp_loc q) && N.eqb (dp_name a) (dp_name q)) r = true) as E.
    { apply existsb_exists. exists q. split; [exact Hq|]. rewrite Hl, Hn, loc_eqb_refl, N.eqb_refl. reflexivity. }
    congruence. }
  intros p q [Hp|Hp] [Hq|Hq] Hl Hn.
  - congruence.
  - subst a. exfalso. exact (Hno q Hq Hl Hn).
  - subst a. exfalso. symmetry in Hl, Hn. exact (Hno p Hp Hl Hn).
  - exact (IH Hr p q Hp Hq Hl Hn).
Qed.

Lemma schema_through_locname {S} (params : list (dparam S)) c p :
  distinct_identities params = true -> cache_ok params c -> In p params ->
  fst (schema_through CacheByLocName c p) = dp_schema p /\ cache_ok params (snd (schema_through CacheByLocName c p)).
Proof.
  intros Hd Hok Hp. unfold schema_through. cbn [cache_key].
  destruct (cache_get (Some (dp_loc p), dp_name p) c) as [s|] eqn:E; cbn [fst snd].
  - split; [|exact Hok]. symmetry. exact (Hok _ _ _ E p Hp eq_refl eq_refl).
  - split; [reflexivity|]. intros l n s Hget q Hq Hl Hn. cbn [cache_get] in Hget.
    destruct (ckey_eqb (Some l, n) (Some (dp_loc p), dp_name p)) eqn:Ek.
    + inversion Hget. subst s. unfold ckey_eqb in Ek. cbn [fst snd] in Ek. apply andb_true_iff in Ek. destruct Ek as [E1 E2].
      apply loc_eqb_eq in E1. apply N.eqb_eq in E2.
      assert (q = p) as -> by (apply (distinct_identities_functional params Hd); congruence). reflexivity.
    + exact (Hok _ _ _ Hget q Hq Hl Hn).
Qed.

Lemma combination_props_locname {S} (params pset : list (dparam S)) comb acc c c0 :
  distinct_identities params = true -> cache_ok params c -> (forall p, In p pset -> In p params) ->
  fst (combination_props CacheByLocName pset comb acc c) = fst (combination_props CacheNone pset comb acc c0)
  /\ cache_ok params (snd (combination_props CacheByLocName pset comb acc c)).
Proof.
  intros Hd. revert acc c. induction pset as [|p r IH]; intros acc c Hok Hsub; cbn [combination_props].
  - split; [reflexivity|exact Hok].
  - destruct (mem_name (dp_name p) comb).
    + destruct (schema_through_locname params c p Hd Hok (Hsub p (or_introl eq_refl))) as [Hs Hok'].
      rewrite schema_through_none. cbn [fst snd]. rewrite Hs.
      apply IH; [exact Hok'|]. intros q Hq. apply Hsub. right. exact Hq.
    + apply IH; [exact Hok|]. intros q Hq. apply Hsub. right. exact Hq.
Qed.

Lemma optional_subschemas_locname {S} (params pset : list (dparam S)) pos neg l base required opts c c0 :
  distinct_identities params = true -> cache_ok params c -> (forall p, In p pset -> In p params) ->
  fst (optional_subschemas CacheByLocName pos neg l pset base required opts c)
  = fst (optional_subschemas CacheNone pos neg l pset base required opts c0)
  /\ cache_ok params (snd (optional_subschemas CacheByLocName pos neg l pset base required opts c)).
Proof.
  intros Hd. revert c. induction opts as [|o r IH]; intros c Hok Hsub; cbn [optional_subschemas].
  - split; [reflexivity|exact Hok].
  - destruct (negb _ && pos && neg); cbn [fst snd].
    + destruct (combination_props_locname params pset (filter (fun n => mem_name n required || N.eqb n o) base) [] c c0 Hd Hok Hsub) as [Hf Hok'].
      rewrite combination_props_none_cache.
      destruct (IH _ Hok' Hsub) as [Hf2 Hok2]. rewrite Hf, Hf2. split; [reflexivity|exact Hok2].
    + exact (IH _ Hok Hsub).
Qed.

Lemma combo_subschemas_for_locname {S} (params : list (dparam S)) pos neg l c c0 :
  distinct_identities params = true -> cache_ok params c ->
  fst (combo_subschemas_for CacheByLocName pos neg params l c) = fst (combo_subschemas_for CacheNone pos neg params l c0)
  /\ cache_ok params (snd (combo_subschemas_for CacheByLocName pos neg params l c)).
Proof.
  intros Hd Hok. unfold combo_subschemas_for.
  assert (Hsub : forall p, In p (filter (at_loc l) params) -> In p params) by (intros p Hp; apply filter_In in Hp; tauto).
  destruct (filter (at_loc l) params) as [|p0 pr] eqn:Epset; [split; [reflexivity|exact Hok]|].
  rewrite <- Epset in *. clear Epset. cbn [fst snd].
  set (pset := filter (at_loc l) params) in *.
  set (base := dedup (map dp_name (filter dp_in_template pset))).
  set (required := dedup (map dp_name (filter dp_required pset))).
  destruct required as [|r0 rr] eqn:Ereq.
  - cbn [fst snd]. apply optional_subschemas_locname; assumption.
  - rewrite <- Ereq. destruct (negb _ && neg); cbn [fst snd].
    + destruct (combination_props_locname params pset (filter (fun n => mem_name n required) base) [] c c0 Hd Hok Hsub) as [Hf Hok'].
      rewrite combination_props_none_cache.
      destruct (optional_subschemas_locname params pset pos neg l base required
                  (sort_names (filter (fun n => negb (mem_name n required)) (dedup (map dp_name pset))))
                  _ c0 Hd Hok' Hsub) as [Hf2 Hok2].
      rewrite Hf, Hf2. split; [reflexivity|exact Hok2].
    + apply optional_subschemas_locname; assumption.
Qed.

Lemma cache_ok_empty {S} (params : list (dparam S)) : cache_ok params [].
Proof. intros l n s H. discriminate H. Qed.

Lemma combo_plan_locname_safe {S} pos neg (params : list (dparam S)) :
  distinct_identities params = true ->
  combo_plan CacheByLocName pos neg params = combo_plan CacheNone pos neg params.
Proof.
  intros Hd. unfold combo_plan.
  destruct (combo_subschemas_for_locname params pos neg LQuery [] [] Hd (cache_ok_empty params)) as [H1 K1].
  destruct (combo_subschemas_for_locname params pos neg LHeader _ (snd (combo_subschemas_for CacheNone pos neg params LQuery [])) Hd K1) as [H2 K2].
  destruct (combo_subschemas_for_locname params pos neg LCookie _ (snd (combo_subschemas_for CacheNone pos neg params LHeader (snd (combo_subschemas_for CacheNone pos neg params LQuery [])))) Hd K2) as [H3 _].
  rewrite H1, H2, H3. reflexivity.
Qed.

(* ---- value level: the numeric negatives of a combination case violate the schema DECLARED at
   (location of the block, name) ---- *)
Lemma combo_negative_values_violate_declared {S} (keys_of : S -> list nkey) pos neg (params : list (dparam S)) ss name v d k :
  forallb (fun p => forallb numeric_key (keys_of (dp_schema p))) params = true ->
  In ss (combo_plan CacheNone pos neg params) ->
  In (name, (Some v, d, k)) (combo_negative_values keys_of ss) ->
  exists p, declared_here params (ss_loc ss) name p
            /\ In k (keys_of (dp_schema p)) /\ violates k v = true /\ conforms (keys_of (dp_schema p)) v = false.
Proof.
  intros Hreg Hss Hin. destruct (combo_plan_declared _ _ _ _ Hss) as (_ & Hprops & _).
  unfold combo_negative_values in Hin. apply in_flat_map in Hin. destruct Hin as ([n s] & Hns & Hit).
  cbn [fst snd] in Hit. apply in_map_iff in Hit. destruct Hit as (it & Heq & Hit). inversion Heq. subst n it.
  destruct (Hprops _ _ Hns) as (p & Hdecl & Hs). exists p. split; [exact Hdecl|]. rewrite Hs.
  assert (Hnum : forallb numeric_key (keys_of s) = true).
  { rewrite forallb_forall in Hreg. destruct Hdecl as (Hp & _). specialize (Hreg p Hp). rewrite Hs in Hreg. exact Hreg. }
  destruct (negative_numbers_invalid_partial _ _ _ _ _ Hnum Hit) as [Hk Hv]. split; [exact Hk|]. split; [exact Hv|].
  unfold conforms. apply not_true_is_false. intros Hall. rewrite forallb_forall in Hall. specialize (Hall k Hk). rewrite Hv in Hall. discriminate Hall.
Qed.

(* ---- the sentinel: the cache keyed by the name alone ---- *)
(* GET /items: id in query (required, integer, maximum 10), q and r in query (optional),
   id in header (required, integer, no bound), t in header (optional): names 0 = id, 1 = q, 2 = r, 3 = t *)
Definition w_shared : list (dparam (list nkey)) :=
  [ {| dp_loc := LHeader; dp_name := 0%N; dp_required := true;  dp_in_template := true; dp_schema := [] |};
    {| dp_loc := LHeader; dp_name := 3%N; dp_required := false; dp_in_template := true; dp_schema := [] |};
    {| dp_loc := LQuery;  dp_name := 0%N; dp_required := true;  dp_in_template := true; dp_schema := [KMaximum 10] |};
    {| dp_loc := LQuery;  dp_name := 1%N; dp_required := false; dp_in_template := true; dp_schema := [KMinimum 1] |};
    {| dp_loc := LQuery;  dp_name := 2%N; dp_required := false; dp_in_template := true; dp_schema := [] |} ].
Definition w_shared_header_block : subschema (list nkey) :=
  {| ss_loc := LHeader; ss_tag := OnlyRequired; ss_props := [(0%N, [KMaximum 10])]; ss_required := [0%N] |}.

Lemma combo_cache_by_name_refuted :
  distinct_identities w_shared = true
  /\ In w_shared_header_block (combo_plan CacheByName true true w_shared)
  /\ In (0%N, [KMaximum 10]) (ss_props w_shared_header_block)
  /\ (forall p, declared_here w_shared (ss_loc w_shared_header_block) 0%N p -> dp_schema p <> [KMaximum 10])
  /\ In (0%N, (Some (PInt 11), NGreater, KMaximum 10)) (combo_negative_values (fun s => s) w_shared_header_block)
  /\ (forall p, declared_here w_shared (ss_loc w_shared_header_block) 0%N p -> conforms (dp_schema p) (PInt 11) = true)
  /\ ~ In w_shared_header_block (combo_plan CacheNone true true w_shared).
Proof.
  split; [reflexivity|]. split; [vm_compute; tauto|]. split; [left; reflexivity|]. split.
  - intros p (Hin & Hl & Hn). cbn in Hin.
    destruct Hin as [H|[H|[H|[H|[H|[]]]]]]; subst p; cbn in Hl, Hn; try discriminate; cbn; discriminate.
  - split; [vm_compute; tauto|]. split.
    + intros p (Hin & Hl & Hn). cbn in Hin.
      destruct Hin as [H|[H|[H|[H|[H|[]]]]]]; subst p; cbn in Hl, Hn; try discriminate; reflexivity.
    + vm_compute. intros H. repeat (destruct H as [H|H]; [discriminate H|]). exact H.
Qed.

(* non-vacuity: with the policy of the code the same operation has four subschemas (query: only required,
   required + q, required + r; header: only required) and the header block carries the header schema *)
Lemma combo_plan_nonvacuous :
  map (fun ss => (ss_loc ss, ss_tag ss, ss_props ss, ss_required ss)) (combo_plan CacheNone true true w_shared)
  = [ (LQuery, OnlyRequired, [(0%N, [KMaximum 10])], [0%N]);
      (LQuery, OneOptional 1%N, [(0%N, [KMaximum 10]); (1%N, [KMinimum 1])], [0%N]);
      (LQuery, OneOptional 2%N, [(0%N, [KMaximum 10]); (2%N, [])], [0%N]);
      (LHeader, OnlyRequired, [(0%N, [])], [0%N]) ]
  /\ combo_plan CacheByLocName true true w_shared = combo_plan CacheNone true true w_shared
  /\ forallb (fun p => forallb numeric_key (dp_schema p)) w_shared = true
  /\ flat_map (combo_negative_values (fun s => s)) (combo_plan CacheNone true true w_shared)
     = [ (0%N, (Some (PInt 11), NGreater, KMaximum 10));
         (0%N, (Some (PInt 11), NGreater, KMaximum 10)); (1%N, (Some (PInt 0), NSmaller, KMinimum 1));
         (0%N, (Some (PInt 11), NGreater, KMaximum 10)) ].
Proof. vm_compute. repeat split. Qed.
(* ====================================================================== *)
(* Part 6: _negative_type                                                  *)
(* ====================================================================== *)

Lemma jtype_eqb_refl t : jtype_eqb t t = true.
Proof. destruct t; cbn; try reflexivity. apply N.eqb_refl. Qed.

Lemma conforms_type_false types k :
  (forall t, has_type t k = true -> type_in t types = false) ->
  existsb (fun t => has_type t k) types = false.
Proof.
  induction types as [|a r IH]; intros H; cbn; [reflexivity|].
  destruct (has_type a k) eqn:Ha.
  - specialize (H a Ha). unfold type_in in H. cbn in H. rewrite jtype_eqb_refl in H. discriminate H.
  - cbn. apply IH. intros t Ht. specialize (H t Ht). unfold type_in in *. cbn in H.
    apply orb_false_iff in H. destruct H as [_ H]. exact H.
Qed.

(* the heart: whatever the membership test, a class a consulted strategy can return belongs to no listed type *)
Lemma negative_type_plan_with_sound mem l s k :
  negative_type_plan_with mem = TypePlan l -> In s l -> draws s k = true ->
  forall t, has_type t k = true -> mem t = false.
Proof.
  unfold negative_type_plan_with. cbn [strategies_for_type filter fst].
  destruct (mem TInteger) eqn:EI; destruct (mem TNumber) eqn:EN; destruct (mem TBoolean) eqn:EB;
  destruct (mem TNull) eqn:EU; destruct (mem TString) eqn:ES; destruct (mem TArray) eqn:EA;
  destruct (mem TObject) eqn:EO; cbn; intros Hp Hin Hd t Ht; try discriminate Hp;
  injection Hp as Hp; subst l; cbn in Hin;
  repeat (destruct Hin as [Hin|Hin]; [subst s|]); try contradiction;
  destruct k; try discriminate Hd; destruct t; try discriminate Ht; assumption.
Qed.

Lemma negative_type_values_violate kw l s k :
  negative_type_plan kw = TypePlan l -> In s l -> draws s k = true -> conforms_type kw k = false.
Proof.
  intros Hp Hin Hd. unfold conforms_type. apply conforms_type_false.
  intros t Ht. exact (negative_type_plan_with_sound _ l s k Hp Hin Hd t Ht).
Qed.

(* the plan depends on the keyword only through the membership test: order, repetitions and the
   string / one-element-list form are irrelevant *)
Lemma negative_type_plan_with_ext m1 m2 :
  (forall t, m1 t = m2 t) -> negative_type_plan_with m1 = negative_type_plan_with m2.
Proof.
  intros H. unfold negative_type_plan_with. cbn [strategies_for_type filter fst].
  rewrite !H. reflexivity.
Qed.

Lemma negative_type_plan_same_set kw1 kw2 :
  (forall t, type_in t (types_of kw1) = type_in t (types_of kw2)) ->
  negative_type_plan kw1 = negative_type_plan kw2.
Proof. intros H. unfold negative_type_plan. apply negative_type_plan_with_ext. exact H. Qed.

Lemma negative_type_plan_str_is_singleton t : negative_type_plan (TyStr t) = negative_type_plan (TyList [t]).
Proof. reflexivity. Qed.

(* totality: KeyError exactly when number and integer are both listed *)
Lemma negative_type_plan_total kw :
  not_number_and_integer kw = true <-> exists l, negative_type_plan kw = TypePlan l.
Proof.
  unfold not_number_and_integer, negative_type_plan, negative_type_plan_with.
  cbn [strategies_for_type filter fst].
  destruct (type_in TInteger (types_of kw)) eqn:EI; destruct (type_in TNumber (types_of kw)) eqn:EN;
  destruct (type_in TBoolean (types_of kw)); destruct (type_in TNull (types_of kw));
  destruct (type_in TString (types_of kw)); destruct (type_in TArray (types_of kw));
  destruct (type_in TObject (types_of kw)); cbn;
  (split; [intros H; try discriminate H; eexists; reflexivity | intros [l Hl]; try discriminate Hl; reflexivity]).
Qed.

(* when integer is listed (without number) no integer-valued class is ever drawn: the number slot
   holds the fractional floats, the integer slot is gone *)
Lemma negative_type_integer_listed kw l :
  type_in TInteger (types_of kw) = true -> negative_type_plan kw = TypePlan l ->
  In SFracFloats l /\ ~ In SNumeric l /\ ~ In SIntegers l.
Proof.
  unfold negative_type_plan, negative_type_plan_with. cbn [strategies_for_type filter fst].
  intros EI. rewrite EI.
  destruct (type_in TNumber (types_of kw)) eqn:EN;
  destruct (type_in TBoolean (types_of kw)); destruct (type_in TNull (types_of kw));
  destruct (type_in TString (types_of kw)); destruct (type_in TArray (types_of kw));
  destruct (type_in TObject (types_of kw)); cbn; intros Hp; try discriminate Hp; injection Hp as Hp; subst l; cbn;
  (split; [tauto|]); split; intros H; repeat (destruct H as [H|H]; [discriminate H|]); exact H.
Qed.

(* the sentinel agrees with the code on every plain-string keyword ... *)
Lemma raw_keyword_plan_agrees_on_strings t :
  negative_type_plan_raw_keyword (TyStr t) = negative_type_plan (TyStr t).
Proof. destruct t; reflexivity. Qed.

(* ... and breaks the property on a list: type [integer, null] consults integers | floats, whose
   minimal example 0 is an integer *)
Definition w_nullable_integer : type_kw := TyList [TInteger; TNull].
Lemma raw_keyword_plan_refuted :
  not_number_and_integer w_nullable_integer = true
  /\ negative_type_plan_raw_keyword w_nullable_integer = TypePlan [SNumeric; SBooleans; SText; SArrays; SObjects]
  /\ draws SNumeric KInt = true
  /\ conforms_type w_nullable_integer KInt = true
  /\ negative_type_plan w_nullable_integer = TypePlan [SFracFloats; SBooleans; SText; SArrays; SObjects].
Proof. vm_compute. repeat split. Qed.

Lemma raw_keyword_plan_refuted_ex :
  exists (kw : type_kw) (l : list strat) (s : strat) (k : vclass),
    not_number_and_integer kw = true /\ negative_type_plan_raw_keyword kw = TypePlan l /\ In s l
    /\ draws s k = true /\ conforms_type kw k = true
    /\ negative_type_plan kw = TypePlan [SFracFloats; SBooleans; SText; SArrays; SObjects].
Proof.
  exists w_nullable_integer, [SNumeric; SBooleans; SText; SArrays; SObjects], SNumeric, KInt.
  destruct raw_keyword_plan_refuted as (H1 & H2 & H3 & H4 & H5).
  repeat split; try assumption. left. reflexivity.
Qed.

(* non-vacuity: exact plans *)
Lemma negative_type_plan_examples :
  negative_type_plan (TyStr TInteger) = TypePlan [SFracFloats; SBooleans; SNone; SText; SArrays; SObjects]
  /\ negative_type_plan (TyList [TInteger]) = TypePlan [SFracFloats; SBooleans; SNone; SText; SArrays; SObjects]
  /\ negative_type_plan (TyStr TNumber) = TypePlan [SBooleans; SNone; SText; SArrays; SObjects]
  /\ negative_type_plan (TyList [TNumber; TNull]) = TypePlan [SBooleans; SText; SArrays; SObjects]
  /\ negative_type_plan (TyList [TString; TInteger]) = TypePlan [SFracFloats; SBooleans; SNone; SArrays; SObjects]
  /\ negative_type_plan (TyList [TBoolean; TNull]) = TypePlan [SIntegers; SNumeric; SText; SArrays; SObjects]
  /\ negative_type_plan (TyList []) = TypePlan [SIntegers; SNumeric; SBooleans; SNone; SText; SArrays; SObjects]
  /\ negative_type_plan (TyList [TOther 7%N]) = TypePlan [SIntegers; SNumeric; SBooleans; SNone; SText; SArrays; SObjects]
  /\ negative_type_plan (TyList [TNumber; TInteger]) = TypeRaisesKeyError
  /\ negative_type_plan (TyList [TInteger; TNumber; TNull]) = TypeRaisesKeyError.
Proof. vm_compute. repeat split. Qed.

(* the negatives of minLength / maxLength under a type list *)
Lemma length_negative_string_only declared k :
  string_only (length_request_type declared) = true ->
  conforms_type (length_request_type declared) k = true -> length_applies k = true.
Proof.
  unfold string_only, conforms_type. generalize (types_of (length_request_type declared)) as l.
  induction l as [|a r IH]; cbn; intros Hs Hc; [discriminate Hc|].
  apply andb_true_iff in Hs. destruct Hs as [Ha Hr].
  apply orb_true_iff in Hc. destruct Hc as [Hc|Hc].
  - destruct a; try discriminate Ha. destruct k; try discriminate Hc. reflexivity.
  - exact (IH Hr Hc).
Qed.

Lemma length_negative_type_list_refuted :
  exists declared k,
    conforms_type (length_request_type declared) k = true /\ length_applies k = false
    /\ string_only (length_request_type declared) = false.
Proof. exists (Some (TyList [TString; TNull])), KNull. vm_compute. repeat split. Qed.

Lemma length_negative_absent_type_is_string_only : string_only (length_request_type None) = true.
Proof. reflexivity. Qed.

(* ====================================================================== *)
(* Part 7: magnitude - the kernel is exact for integers of any size        *)
(* ====================================================================== *)

Lemma cmgt_lt y m : 0 < m -> closest_multiple_greater_than y m < y + m.
Proof.
  intros Hm. unfold closest_multiple_greater_than.
  destruct (y mod m =? 0) eqn:E; [lia|].
  apply Z.eqb_neq in E.
  pose proof (Z.div_mod y m ltac:(lia)) as Hd.
  pose proof (Z.mod_pos_bound y m Hm) as Hb.
  lia.
Qed.

Lemma cmgt_least_multiple : forall y x, 0 < x ->
  least_multiple_at_least y x (closest_multiple_greater_than y x) = true.
Proof.
  intros y x Hx. unfold least_multiple_at_least.
  pose proof (cmgt_ge y x Hx). pose proof (cmgt_lt y x Hx). pose proof (cmgt_mod y x Hx) as Hmod.
  rewrite Hmod.
  replace (y <=? closest_multiple_greater_than y x) with true by (symmetry; apply Z.leb_le; lia).
  replace (closest_multiple_greater_than y x <? y + x) with true by (symmetry; apply Z.ltb_lt; lia).
  reflexivity.
Qed.

(* the window [y, y + x) holds exactly one multiple of x *)
Lemma least_multiple_unique : forall y x r r', 0 < x ->
  least_multiple_at_least y x r = true -> least_multiple_at_least y x r' = true -> r = r'.
Proof.
  intros y x r r' Hx H1 H2. unfold least_multiple_at_least in *.
  apply andb_prop in H1 as [H1 M1]. apply andb_prop in H1 as [L1 U1].
  apply andb_prop in H2 as [H2 M2]. apply andb_prop in H2 as [L2 U2].
  apply Z.leb_le in L1, L2. apply Z.ltb_lt in U1, U2. apply Z.eqb_eq in M1, M2.
  pose proof (Z.div_mod r x ltac:(lia)) as D1. pose proof (Z.div_mod r' x ltac:(lia)) as D2.
  rewrite M1 in D1. rewrite M2 in D2.
  assert (r / x = r' / x) by nia.
  congruence.
Qed.

Lemma cmgt_characterised : forall y x r, 0 < x ->
  (least_multiple_at_least y x r = true <-> r = closest_multiple_greater_than y x).
Proof.
  intros y x r Hx. split.
  - intros H. exact (least_multiple_unique y x _ _ Hx H (cmgt_least_multiple y x Hx)).
  - intros ->. exact (cmgt_least_multiple y x Hx).
Qed.

(* the minimum value planned for a lower bound with a step, and the near-boundary value one step above it, are
   multiples at or above that lower bound, whatever its size *)
Lemma cmgt_minimum_value_valid : forall minimum m, 0 < m ->
  let v := closest_multiple_greater_than minimum m in minimum <= v /\ v mod m = 0 /\ (v + m) mod m = 0.
Proof.
  intros minimum m Hm v. subst v. repeat split.
  - exact (cmgt_ge minimum m Hm).
  - exact (cmgt_mod minimum m Hm).
  - replace (closest_multiple_greater_than minimum m + m) with (closest_multiple_greater_than minimum m + 1 * m) by lia.
    rewrite Z.mod_add by lia. exact (cmgt_mod minimum m Hm).
Qed.

(* the sentinel: true division rounds the quotient to 53 bits before the ceil *)
Lemma float53_refuted :
  closest_multiple_float53 (2 ^ 53 + 1) 1 = 2 ^ 53
  /\ closest_multiple_float53 1000000000000000001 10 = 1000000000000000000
  /\ closest_multiple_float53 (2 ^ 63 - 1) 3 = 2 ^ 63 - 512
  /\ closest_multiple_float53 (- (2 ^ 63) + 1) 3 = - (2 ^ 63) + 512
  /\ least_multiple_at_least (2 ^ 53 + 1) 1 (closest_multiple_float53 (2 ^ 53 + 1) 1) = false
  /\ least_multiple_at_least 1000000000000000001 10 (closest_multiple_float53 1000000000000000001 10) = false
  /\ closest_multiple_greater_than (2 ^ 53 + 1) 1 = 2 ^ 53 + 1
  /\ closest_multiple_greater_than 1000000000000000001 10 = 1000000000000000010.
Proof. vm_compute. repeat split. Qed.

Definition float53_agrees_on (ys xs : list Z) : bool :=
  forallb (fun y => forallb (fun x => closest_multiple_float53 y x =? closest_multiple_greater_than y x) xs) ys.

Lemma float53_agrees_small_grid : float53_agrees_on (zrange (-400) 801) (zrange 1 60) = true.
Proof. vm_compute. reflexivity. Qed.

(* just below 2^53 the two kernels still agree (x = 1: the quotient is the integer itself) *)
Lemma float53_agrees_below_2_53 :
  float53_agrees_on (zrange (2 ^ 53 - 40) 41 ++ zrange (- (2 ^ 53)) 41) [1; 3; 10; 1048576] = true.
Proof. vm_compute. reflexivity. Qed.

(* ---- unspecified-method cases vs the documented methods of the resolved path item ---- *)
Lemma undocumented_spec d m : In m (undocumented d) <-> In m all_methods /\ ~ In m d.
Proof.
  unfold undocumented. rewrite filter_In. split; intros [Ha Hb]; split; auto.
  - intros Hin. apply negb_true_iff in Hb.
    assert (existsb (N.eqb m) d = true) as E by (apply existsb_exists; exists m; split; [assumption|apply N.eqb_refl]).
    congruence.
  - apply negb_true_iff. destruct (existsb (N.eqb m) d) eqn:E; [|reflexivity].
    apply existsb_exists in E. destruct E as (x & Hx & Hxe). apply N.eqb_eq in Hxe. subst x. contradiction.
Qed.

Lemma unspecified_method_case_undocumented T p c :
  In c (method_cases T (unspecified_methods p)) ->
  exists m, c_kind c = KMethod m /\ c_mode c = Neg /\ In m all_methods /\ ~ In m (resolved_methods p).
Proof.
  intros Hin. apply in_map_iff in Hin. destruct Hin as (m & Hc & Hm). subst c.
  apply undocumented_spec in Hm. destruct Hm. exists m. repeat split; assumption.
Qed.

Lemma unspecified_method_case_complete T p m :
  In m all_methods -> ~ In m (resolved_methods p) ->
  In (mk_case (KMethod m) Neg (unmodified T)) (method_cases T (unspecified_methods p)).
Proof.
  intros Ha Hn. apply in_map_iff. exists m. split; [reflexivity|]. apply undocumented_spec. split; assumption.
Qed.

Lemma unspecified_method_raw_refuted :
  In 1%N (resolved_methods (PRef [1; 5; 0]%N)) /\ In 1%N (unspecified_methods_raw (PRef [1; 5; 0]%N))
  /\ unspecified_methods (PRef [1; 5; 0]%N) = [2; 3; 4; 6]%N
  /\ unspecified_methods_raw (PInline [1; 5; 0]%N) = unspecified_methods (PInline [1; 5; 0]%N).
Proof. repeat split; vm_compute; auto. Qed.
