(* C03 model: the deterministic boundary-value (coverage phase) planner.
   Part 1  numeric plans of schemathesis/generation/coverage.py
           (closest_multiple_greater_than, _positive_number, the numeric keys of
           cover_schema_iter) over Z, with Python truthiness of 0 and bool+1.
   Part 2  the length plan of _positive_string, the size plan of _positive_array,
           the minLength/maxLength negatives of cover_schema_iter.
   Part 3  the label assembly of _iter_coverage_cases and Template in
           schemathesis/generation/hypothesis/builder.py.
   Executable definitions only.  The code is modelled AS IT IS. *)
From Coq Require Import List NArith ZArith Bool.
Import ListNotations.
Open Scope Z_scope.

Inductive mode := Pos | Neg.
Definition mode_eqb (a b : mode) : bool :=
  match a, b with Pos, Pos | Neg, Neg => true | _, _ => false end.
Definition is_neg (m : mode) : bool := match m with Neg => true | Pos => false end.

(* ====================================================================== *)
(* Part 1: numbers                                                         *)
(* ====================================================================== *)

(* A Python value met where the code expects a number: int or bool
   (OpenAPI 3.0 writes exclusiveMinimum: true).  True + 1 = 2. *)
Inductive pynum := PInt (z : Z) | PBool (b : bool).
Definition pyval (p : pynum) : Z :=
  match p with PInt z => z | PBool true => 1 | PBool false => 0 end.
(* Python equality / set membership: True == 1, False == 0 *)
Definition pyeq (a b : pynum) : bool := pyval a =? pyval b.
Definition py_in (a : pynum) (l : list pynum) : bool := existsb (pyeq a) l.

Record num_schema := {
  n_min : option Z;            (* minimum *)
  n_max : option Z;            (* maximum *)
  n_exmin : option pynum;      (* exclusiveMinimum *)
  n_exmax : option pynum;      (* exclusiveMaximum *)
  n_mult : option Z;           (* multipleOf *)
  n_example : option Z;
  n_examples : option (list Z);
  n_default : option Z }.

Inductive ndesc := DExample | DDefault | DValid | DMinimum | DNear | DMaximum.
Definition authored (d : ndesc) : bool :=
  match d with DExample | DDefault => true | _ => false end.

(* value None = drawn by the foreign generator (ctx.generate_from_schema) *)
Definition nitem := (option Z * ndesc)%type.

Inductive outcome := Completed | RaisesZeroDivision | RaisesKeyError | ForeignFailed.

(* bool(x) of an optional int: None and 0 are falsy *)
Definition truthy (o : option Z) : bool :=
  match o with Some z => negb (z =? 0) | None => false end.
Definition truthy_list (o : option (list Z)) : bool :=
  match o with Some (_ :: _) => true | _ => false end.

Definition inb (z : Z) (l : list Z) : bool := existsb (Z.eqb z) l.

(* coverage.py:568  divmod is floor division: Z.div / Z.modulo (x <> 0) *)
Definition closest_multiple_greater_than (y x : Z) : Z :=
  let quotient := y / x in
  let remainder := y mod x in
  if remainder =? 0 then y else x * (quotient + 1).

(* coverage.py:583-586 *)
Definition eff_min (s : num_schema) : option Z :=
  match n_exmin s with Some e => Some (pyval e + 1) | None => n_min s end.
Definition eff_max (s : num_schema) : option Z :=
  match n_exmax s with Some e => Some (pyval e - 1) | None => n_max s end.

Definition last_opt (l : list Z) : option Z :=
  match rev l with x :: _ => Some x | [] => None end.

(* coverage.py:592-603; the loop variable of "for example in examples" rebinds
   example, so the default is compared with the LAST element of examples *)
Definition authored_items (s : num_schema) : list nitem :=
  let ex_after := if truthy_list (n_examples s)
                  then match n_examples s with Some l => last_opt l | None => None end
                  else n_example s in
  (if truthy (n_example s) then [(n_example s, DExample)] else [])
  ++ (match n_examples s with Some l => map (fun e => (Some e, DExample)) l | None => [] end)
  ++ (match n_default s with
      | Some d =>
        if negb (d =? 0)
           && negb (match ex_after with Some e => d =? e | None => false end)
           && negb (match n_examples s with Some l => existsb (Z.eqb d) l | None => false end)
        then [(Some d, DDefault)] else []
      | None => []
      end).

Definition head_items (s : num_schema) : list nitem :=
  if truthy (n_example s) || truthy_list (n_examples s) || truthy (n_default s)
  then authored_items s
  else if negb (truthy (eff_min s)) && negb (truthy (eff_max s))
  then [(None, DValid)] else [].

(* coverage.py:610-626, multiple_of <> 0.  zero_is_absent = false is the code since commit
   0b606a31 (guard "maximum is None or larger <= maximum"); zero_is_absent = true is the guard
   before the repair ("not maximum or ..."), kept as a regression sentinel *)
Definition min_part_with (zero_is_absent : bool) (s : num_schema) : list nitem * list Z :=
  match eff_min s with
  | None => ([], [])
  | Some minimum =>
    let smallest := match n_mult s with Some m => closest_multiple_greater_than minimum m | None => minimum end in
    let larger := match n_mult s with Some m => smallest + m | None => minimum + 1 end in
    if negb (inb larger [smallest])
       && (match eff_max s with None => true | Some M => (zero_is_absent && (M =? 0)) || (larger <=? M) end)
    then ([(Some smallest, DMinimum); (Some larger, DNear)], [larger; smallest])
    else ([(Some smallest, DMinimum)], [smallest])
  end.
Definition min_part : num_schema -> list nitem * list Z := min_part_with false.
Definition min_part_legacy : num_schema -> list nitem * list Z := min_part_with true.

(* coverage.py:628-645, multiple_of <> 0 *)
Definition max_part (s : num_schema) (seen : list Z) : list nitem :=
  match eff_max s with
  | None => []
  | Some maximum =>
    let largest := match n_mult s with Some m => maximum - (maximum mod m) | None => maximum end in
    let first := if negb (inb largest seen) then [(Some largest, DMaximum)] else [] in
    let seen1 := if negb (inb largest seen) then largest :: seen else seen in
    let smaller := match n_mult s with Some m => largest - m | None => maximum - 1 end in
    if negb (inb smaller seen1)
       && ((0 <? smaller) && (match eff_min s with None => true | Some mn => mn <=? smaller end))
    then first ++ [(Some smaller, DNear)] else first
  end.

(* _positive_number: the value plan and how the generator ends.  gen_ok = the
   foreign draw ctx.generate_from_schema(schema) succeeds; when it raises
   Unsatisfiable / SchemaError / InvalidArgument the generator is abandoned
   (swallowed by _ignore_unfixable in cover_schema_iter) *)
Definition needs_draw (s : num_schema) : bool :=
  negb (truthy (n_example s) || truthy_list (n_examples s) || truthy (n_default s))
  && negb (truthy (eff_min s)) && negb (truthy (eff_max s)).
Definition positive_number_plan_with (zero_is_absent : bool) (s : num_schema) (gen_ok : bool) : list nitem * outcome :=
  let zero_mult := match n_mult s with Some m => m =? 0 | None => false end in
  let bounded := match eff_min s, eff_max s with None, None => false | _, _ => true end in
  if needs_draw s && negb gen_ok then ([], ForeignFailed)
  else if zero_mult && bounded then (head_items s, RaisesZeroDivision)
  else let '(items, seen) := min_part_with zero_is_absent s in
       (head_items s ++ items ++ max_part s seen, Completed).
Definition positive_number_plan : num_schema -> bool -> list nitem * outcome := positive_number_plan_with false.
(* the planner before commit 0b606a31 (finding C03-F1, fixed) *)
Definition positive_number_plan_legacy : num_schema -> bool -> list nitem * outcome := positive_number_plan_with true.

(* JSON-Schema validity of an integer against the numeric keywords (draft 4
   boolean exclusives and draft 6+ numeric exclusives) *)
Definition num_valid (s : num_schema) (v : Z) : bool :=
  (match n_min s with
   | Some m => (m <=? v) && (match n_exmin s with Some (PBool true) => m <? v | _ => true end)
   | None => true end)
  && (match n_exmin s with Some (PInt e) => e <? v | _ => true end)
  && (match n_max s with
      | Some M => (v <=? M) && (match n_exmax s with Some (PBool true) => v <? M | _ => true end)
      | None => true end)
  && (match n_exmax s with Some (PInt e) => v <? e | _ => true end)
  && (match n_mult s with Some m => v mod m =? 0 | None => true end).

(* ---- regions of the positive plan (each excluded region is one finding) ---- *)
(* F2: exclusive bounds are numbers, not the OpenAPI 3.0 booleans *)
Definition numeric_exclusive (s : num_schema) : bool :=
  (match n_exmin s with Some (PBool _) => false | _ => true end)
  && (match n_exmax s with Some (PBool _) => false | _ => true end).
(* F4: a numeric exclusive bound replaces the inclusive one even when the
   inclusive one is stricter *)
Definition exclusive_dominates (s : num_schema) : bool :=
  (match n_exmin s, n_min s with Some e, Some m => m <=? pyval e + 1 | _, _ => true end)
  && (match n_exmax s, n_max s with Some e, Some M => pyval e - 1 <=? M | _, _ => true end).
(* F1 (fixed by 0b606a31): "not maximum" treated maximum 0 as absent.  No longer a hypothesis of
   the theorem about positive_number_plan; it is the region of the legacy planner only *)
Definition max_not_zero_with_min (s : num_schema) : bool :=
  match eff_min s, eff_max s with Some _, Some M => negb (M =? 0) | _, _ => true end.
(* F3: the range holds a multiple (multipleOf absent = 1); multipleOf > 0 *)
Definition multiple_satisfiable (s : num_schema) : bool :=
  (match n_mult s with Some m => 0 <? m | None => true end)
  && (match eff_min s, eff_max s with
      | Some mn, Some mx =>
        (match n_mult s with Some m => closest_multiple_greater_than mn m | None => mn end) <=? mx
      | _, _ => true end).

(* ---- the numeric keys of cover_schema_iter (coverage.py:368-388) ---- *)
Inductive nkey :=
| KMaximum (z : Z) | KMinimum (z : Z)
| KExMax (p : pynum) | KExMin (p : pynum)
| KMultipleOf (m : Z).
Inductive negdesc := NGreater | NSmaller | NNonMultiple.
(* value None = the non-multiple drawn by the foreign generator *)
Definition negitem := (option pynum * negdesc * nkey)%type.

Fixpoint negative_numbers (keys : list nkey) (seen : list pynum) : list negitem :=
  match keys with
  | [] => []
  | k :: rest =>
    match k with
    | KMaximum M =>
      let next := PInt (M + 1) in
      if py_in next seen then negative_numbers rest seen
      else (Some next, NGreater, k) :: negative_numbers rest (next :: seen)
    | KMinimum m =>
      let next := PInt (m - 1) in
      if py_in next seen then negative_numbers rest seen
      else (Some next, NSmaller, k) :: negative_numbers rest (next :: seen)
    | KExMax p =>   (* operator precedence: "or ... and": never looks at seen *)
      (Some p, NGreater, k) :: negative_numbers rest (p :: seen)
    | KExMin p =>
      if py_in p seen then negative_numbers rest seen
      else (Some p, NSmaller, k) :: negative_numbers rest (p :: seen)
    | KMultipleOf _ => (None, NNonMultiple, k) :: negative_numbers rest seen
    end
  end.

(* does value v violate keyword k (jsonschema ignores non-numbers, and a bool is
   not a number, for the bound keywords) *)
Definition violates (k : nkey) (v : pynum) : bool :=
  match v with
  | PBool _ => false
  | PInt z =>
    match k with
    | KMaximum M => M <? z
    | KMinimum m => z <? m
    | KExMax (PInt e) => e <=? z
    | KExMin (PInt e) => z <=? e
    | KExMax (PBool _) | KExMin (PBool _) => false
    | KMultipleOf m => negb (z mod m =? 0)
    end
  end.
Definition numeric_key (k : nkey) : bool :=
  match k with KExMax (PBool _) | KExMin (PBool _) => false | _ => true end.

(* cover_schema_iter, keys anyOf / oneOf (coverage.py:461-466): the negative values of every
   branch in turn, the seen set shared; the other branches are not consulted *)
Definition yielded_values (items : list negitem) : list pynum :=
  flat_map (fun it => match fst (fst it) with Some v => [v] | None => [] end) items.
Fixpoint anyof_negative_numbers (branches : list (list nkey)) (seen : list pynum) : list (nat * negitem) :=
  match branches with
  | [] => []
  | b :: r =>
    let items := negative_numbers b seen in
    map (fun it => (O, it)) items
    ++ map (fun x => (S (fst x), snd x)) (anyof_negative_numbers r (yielded_values items ++ seen))
  end.
(* v satisfies every numeric keyword of a branch *)
Definition conforms (keys : list nkey) (v : pynum) : bool := forallb (fun k => negb (violates k v)) keys.


(* _cover_positive_for_type, keys anyOf / oneOf (coverage.py:266-271): the positive values of every branch in
   turn, each branch through its own cover_schema_iter (own seen set); the sibling branches are not consulted *)
Fixpoint combined_positive_numbers (branches : list num_schema) (gen_ok : bool) : list (nat * nitem) :=
  match branches with
  | [] => []
  | b :: r =>
    map (fun it => (O, it)) (fst (positive_number_plan b gen_ok))
    ++ map (fun x => (S (fst x), snd x)) (combined_positive_numbers r gen_ok)
  end.
(* JSON-Schema validity under anyOf (some branch) and oneOf (exactly one branch) *)
Definition anyof_valid (branches : list num_schema) (v : Z) : bool := existsb (fun b => num_valid b v) branches.
Definition count_valid (branches : list num_schema) (v : Z) : nat := length (filter (fun b => num_valid b v) branches).
Definition oneof_valid (branches : list num_schema) (v : Z) : bool := Nat.eqb (count_valid branches v) 1.
(* region of the oneOf statement: v conforms to no branch other than the i-th *)
Fixpoint others_reject (branches : list num_schema) (i : nat) (v : Z) : bool :=
  match branches with
  | [] => true
  | b :: r =>
    match i with
    | O => forallb (fun b' => negb (num_valid b' v)) r
    | S j => negb (num_valid b v) && others_reject r j v
    end
  end.
Definition branch_in_regions (b : num_schema) : bool :=
  numeric_exclusive b && exclusive_dominates b && multiple_satisfiable b.

(* ====================================================================== *)
(* Part 2: string lengths and array sizes                                  *)
(* ====================================================================== *)
Definition BUFFER_SIZE : Z := 8192.

Record str_schema := {
  s_min : option Z;        (* minLength as written *)
  s_max : option Z;        (* maxLength *)
  s_pattern : bool;        (* "pattern" in schema *)
  s_authored : bool }.     (* example or examples or default is truthy *)

Inductive sdesc := SValid | SMinimum | SNear | SMaximum.
(* a request to the foreign generator: description, minLength, maxLength of the
   schema handed to ctx.generate_from_schema *)
Definition sitem := (sdesc * option Z * option Z)%type.

(* coverage.py:498-565 without the author-example block *)
Definition string_plan (s : str_schema) : list sitem :=
  let min_length := match s_min s with Some 0 => None | o => o end in
  let max_length := s_max s in
  let head :=
    if s_authored s then []
    else if negb (truthy min_length) && negb (truthy max_length) then [(SValid, s_min s, s_max s)]
    else if s_pattern s then [(SValid, s_min s, s_max s)] else [] in
  let '(mid, seen) :=
    match min_length with
    | Some mn =>
      if mn <? BUFFER_SIZE then
        let larger := mn + 1 in
        if (larger <? BUFFER_SIZE) && negb (inb larger [mn])
           && (match max_length with None => true | Some M => (M =? 0) || (larger <=? M) end)
        then ([(SMinimum, s_min s, Some mn); (SNear, Some larger, Some larger)], [larger; mn])
        else ([(SMinimum, s_min s, Some mn)], [mn])
      else ([], [])
    | None => ([], [])
    end in
  let tail :=
    match max_length with
    | Some M =>
      let first := if (M <? BUFFER_SIZE) && negb (inb M seen) then [(SMaximum, Some M, s_max s)] else [] in
      let seen1 := if (M <? BUFFER_SIZE) && negb (inb M seen) then M :: seen else seen in
      let smaller := M - 1 in
      if (smaller <? BUFFER_SIZE) && negb (inb smaller seen1)
         && ((0 <? smaller) && (match min_length with None => true | Some mn => mn <=? smaller end))
      then first ++ [(SNear, Some smaller, Some smaller)] else first
    | None => []
    end in
  head ++ mid ++ tail.

(* the requested range [lo, hi] is non-empty and inside the declared one *)
Definition within (dmin dmax lo hi : option Z) : bool :=
  let l := match lo with Some x => Z.max 0 x | None => 0 end in
  let d := match dmin with Some x => Z.max 0 x | None => 0 end in
  (d <=? l)
  && (match dmax with
      | Some M => match hi with Some h => h <=? M | None => false end
      | None => true end)
  && (match hi with Some h => l <=? h | None => true end).

Definition range_ok (mn mx : option Z) : bool :=
  (match mn with Some a => 0 <=? a | None => true end)
  && (match mx with Some b => 0 <=? b | None => true end)
  && (match mn, mx with Some a, Some b => a <=? b | _, _ => true end).

(* cover_schema_iter minLength / maxLength keys (coverage.py:389, 411): the one
   length requested for the negative string *)
Definition negative_min_length (v : Z) : option Z :=
  if (0 <? v) && (v <? BUFFER_SIZE) then Some (v - 1) else None.
Definition negative_max_length (v : Z) : option Z :=
  if v <? BUFFER_SIZE then Some (v + 1) else None.

Record arr_schema := {
  a_min : option Z;        (* minItems *)
  a_max : option Z;        (* maxItems *)
  a_authored : bool }.
Inductive adesc := AValid | ANear | AMaximum.
Definition aitem := (adesc * option Z * option Z)%type.

(* coverage.py:648-705; L = len(template), the foreign-drawn template array.
   The template itself is the item (AValid, L, L).
   The upper-bound guard of the near-boundary size minItems + 1 is a parameter: the code tests
   max_items is None (upper_absent_is_none); the truthiness idiom not max_items that _positive_string
   uses for maxLength (upper_absent_falsy) also takes maxItems 0 for an absent bound.  _positive_string
   gets away with it because it turns minLength 0 into None first; _positive_array has no such step. *)
Definition upper_absent_is_none (mx : option Z) : bool := match mx with None => true | Some _ => false end.
Definition upper_absent_falsy (mx : option Z) : bool := negb (truthy mx).
Definition array_plan_with (absent : option Z -> bool) (s : arr_schema) (L : Z) : list aitem :=
  let head := if a_authored s then [] else [(AValid, Some L, Some L)] in
  let seen := [L] in
  let '(mid, seen1) :=
    match a_min s with
    | Some mn =>
      let larger := mn + 1 in
      if negb (inb larger seen) && (absent (a_max s) || match a_max s with None => true | Some M => larger <=? M end)
      then ([(ANear, Some larger, Some larger)], larger :: seen) else ([], seen)
    | None => ([], seen)
    end in
  let tail :=
    match a_max s with
    | Some M =>
      let first := if (M <? BUFFER_SIZE) && negb (inb M seen1) then [(AMaximum, Some M, a_max s)] else [] in
      let seen2 := if (M <? BUFFER_SIZE) && negb (inb M seen1) then M :: seen1 else seen1 in
      let smaller := M - 1 in
      if (smaller <? BUFFER_SIZE) && (0 <? smaller) && negb (inb smaller seen2)
         && (match a_min s with None => true | Some mn => mn <=? smaller end)
      then first ++ [(ANear, Some smaller, Some smaller)] else first
    | None => []
    end in
  head ++ mid ++ tail.
(* the code as it is *)
Definition array_plan : arr_schema -> Z -> list aitem := array_plan_with upper_absent_is_none.
(* regression sentinel: the same planner with the truthiness guard (not the code) *)
Definition array_plan_falsy_max : arr_schema -> Z -> list aitem := array_plan_with upper_absent_falsy.

(* what the foreign generator may return for a request (lo, hi): an array whose size n lies in it
   (the contract of ctx.generate_from_schema); arr_size_valid = minItems <= n <= maxItems *)
Definition size_in_request (lo hi : option Z) (n : Z) : bool :=
  (0 <=? n) && (match lo with Some l => l <=? n | None => true end) && (match hi with Some h => n <=? h | None => true end).
Definition arr_size_valid (s : arr_schema) (n : Z) : bool :=
  (0 <=? n) && (match a_min s with Some mn => mn <=? n | None => true end) && (match a_max s with Some M => n <=? M | None => true end).

(* ====================================================================== *)
(* Part 3: case labels (_iter_coverage_cases + Template)                   *)
(* ====================================================================== *)
Inductive loc := LPath | LHeader | LCookie | LQuery.
Inductive ckind := CQuery | CPath | CHeaders | CCookies | CBody.
Definition loc_eqb (a b : loc) : bool :=
  match a, b with LPath, LPath | LHeader, LHeader | LCookie, LCookie | LQuery, LQuery => true | _, _ => false end.
Definition ckind_eqb (a b : ckind) : bool :=
  match a, b with
  | CQuery, CQuery | CPath, CPath | CHeaders, CHeaders | CCookies, CCookies | CBody, CBody => true
  | _, _ => false end.
(* LOCATION_TO_CONTAINER *)
Definition container (l : loc) : ckind :=
  match l with LPath => CPath | LHeader => CHeaders | LCookie => CCookies | LQuery => CQuery end.

(* what the harness records about an operation: for every parameter (in
   operation.iter_parameters() order: path, header, cookie, query) and every
   body alternative the sequence of labels its cover_schema_iter generator
   yields; the generation modes; the methods not defined on the path (sorted);
   per location the number of cases _yield_negative lets through for the
   only-required subschema and for each optional parameter (sorted by name) *)
Record param := { p_loc : loc; p_name : N; p_required : bool; p_modes : list mode }.
Record body := { b_media : N; b_modes : list mode }.
Record shape := {
  sh_params : list param;
  sh_bodies : list body;
  sh_pos : bool;
  sh_neg : bool;
  sh_methods : list N;
  sh_combo_query : nat * list nat;
  sh_combo_header : nat * list nat;
  sh_combo_cookie : nat * list nat }.

(* where a value inside a case comes from: the idx-th value of the generator of
   that parameter/body, or a fresh object built by a foreign generator *)
Inductive psrc := FromGen (idx : nat) | Foreign.
Record part := { pt_kind : ckind; pt_name : N; pt_src : psrc; pt_mode : mode }.

Record template := {
  t_comps : list (ckind * mode);     (* Template._components, insertion order *)
  t_parts : list part;               (* Template._template, flattened *)
  t_has_body : bool }.               (* "body" in template *)
Definition empty_template : template := {| t_comps := []; t_parts := []; t_has_body := false |}.

Fixpoint comp_get (k : ckind) (cs : list (ckind * mode)) : option mode :=
  match cs with
  | [] => None
  | (k', m) :: r => if ckind_eqb k k' then Some m else comp_get k r
  end.
Fixpoint comp_set (k : ckind) (m : mode) (cs : list (ckind * mode)) : list (ckind * mode) :=
  match cs with
  | [] => [(k, m)]
  | (k', m') :: r => if ckind_eqb k k' then (k, m) :: r else (k', m') :: comp_set k m r
  end.

Definition in_container (k : ckind) (p : part) : bool := ckind_eqb k (pt_kind p).
Definition same_slot (p q : part) : bool := ckind_eqb (pt_kind p) (pt_kind q) && N.eqb (pt_name p) (pt_name q).
(* container[name] = value *)
Fixpoint part_set (q : part) (ps : list part) : list part :=
  match ps with
  | [] => [q]
  | p :: r => if same_slot p q then q :: r else p :: part_set q r
  end.
Definition container_parts (k : ckind) (ps : list part) : list part := filter (in_container k) ps.
Definition replace_container (k : ckind) (new : list part) (ps : list part) : list part :=
  filter (fun p => negb (in_container k p)) ps ++ new.
Definition has_container (k : ckind) (T : template) : bool := existsb (in_container k) (t_parts T).

(* Template.add_parameter (builder.py:286) *)
Definition add_parameter (T : template) (l : loc) (name : N) (m : mode) : template :=
  let k := container l in
  {| t_comps := match comp_get k (t_comps T) with
                | None => comp_set k m (t_comps T)
                | Some _ => if is_neg m then comp_set k Neg (t_comps T) else t_comps T
                end;
     t_parts := part_set {| pt_kind := k; pt_name := name; pt_src := FromGen 0; pt_mode := m |} (t_parts T);
     t_has_body := t_has_body T |}.

(* Template.set_body (builder.py:300) *)
Definition set_body (T : template) (media : N) (m : mode) : template :=
  {| t_comps := comp_set CBody m (t_comps T);
     t_parts := replace_container CBody [{| pt_kind := CBody; pt_name := media; pt_src := FromGen 0; pt_mode := m |}] (t_parts T);
     t_has_body := true |}.

(* TemplateValue: components + content *)
Definition tvalue := (list (ckind * mode) * list part)%type.
Definition unmodified (T : template) : tvalue := (t_comps T, t_parts T).
Definition with_container (T : template) (k : ckind) (new : list part) (m : mode) : tvalue :=
  (comp_set k m (t_comps T), replace_container k new (t_parts T)).
Definition with_body (T : template) (media : N) (idx : nat) (m : mode) : tvalue :=
  (comp_set CBody m (t_comps T),
   replace_container CBody [{| pt_kind := CBody; pt_name := media; pt_src := FromGen idx; pt_mode := m |}] (t_parts T)).
Definition with_parameter (T : template) (l : loc) (name : N) (idx : nat) (m : mode) : tvalue :=
  let k := container l in
  (comp_set k m (t_comps T),
   part_set {| pt_kind := k; pt_name := name; pt_src := FromGen idx; pt_mode := m |} (t_parts T)).

Inductive combo_tag := OnlyRequired | OneOptional (name : N) | OfSize (n : nat).
Inductive kind :=
| KBodyFirst (i : nat)            (* first value of the i-th body alternative *)
| KBodyTail (i j : nat)           (* j-th value (j >= 1) of the i-th body alternative *)
| KDefault                        (* "Default positive test case" *)
| KParam (l : loc) (name : N) (j : nat)
| KMethod (m : N)                 (* "Unspecified HTTP method" *)
| KDuplicate (name : N)           (* "Duplicate ... query parameter" *)
| KMissing (l : loc) (name : N)   (* "Missing ... at ..." *)
| KComboPos (l : loc) (t : combo_tag)
| KComboNeg (l : loc) (t : combo_tag) (n : nat).

Record case := {
  c_kind : kind;
  c_mode : mode;                       (* meta.generation.mode *)
  c_comps : list (ckind * mode);       (* meta.components *)
  c_parts : list part }.               (* what the request carries *)
Definition mk_case (k : kind) (m : mode) (tv : tvalue) : case :=
  {| c_kind := k; c_mode := m; c_comps := fst tv; c_parts := snd tv |}.

Definition enumerate_from {A} (n : nat) (l : list A) : list (nat * A) := combine (seq n (length l)) l.

(* builder.py:393-406 *)
Fixpoint build_template (T : template) (ps : list param) : template :=
  match ps with
  | [] => T
  | p :: r =>
    match p_modes p with
    | [] => build_template T r
    | m0 :: _ => build_template (add_parameter T (p_loc p) (p_name p) m0) r
    end
  end.

(* builder.py:408-467: the case label of every value of a body is the label of
   the FIRST value (value.generation_mode), also inside the while loop *)
Fixpoint body_cases (T : template) (i : nat) (bs : list body) : template * list case :=
  match bs with
  | [] => (T, [])
  | b :: r =>
    match b_modes b with
    | [] => body_cases T (S i) r
    | m0 :: tl =>
      let T1 := if t_has_body T then T else set_body T (b_media b) m0 in
      let first := mk_case (KBodyFirst i) m0 (with_body T1 (b_media b) 0 m0) in
      let tails := map (fun jm => mk_case (KBodyTail i (fst jm)) m0 (with_body T1 (b_media b) (fst jm) (snd jm)))
                       (enumerate_from 1 tl) in
      let '(T2, rest) := body_cases T1 (S i) r in
      (T2, first :: tails ++ rest)
    end
  end.

(* builder.py:482-504 *)
Definition param_cases (T : template) (ps : list param) : list case :=
  flat_map (fun p =>
    match p_modes p with
    | [] => []
    | _ :: tl => map (fun jm => mk_case (KParam (p_loc p) (p_name p) (fst jm)) (snd jm)
                                        (with_parameter T (p_loc p) (p_name p) (fst jm) (snd jm)))
                     (enumerate_from 1 tl)
    end) ps.

(* builder.py:506-519 *)
Definition method_cases (T : template) (ms : list N) : list case :=
  map (fun m => mk_case (KMethod m) Neg (unmodified T)) ms.

Definition is_loc (l : loc) (p : param) : bool := loc_eqb l (p_loc p).
Definition has_name (k : ckind) (name : N) (ps : list part) : bool :=
  existsb (fun p => in_container k p && N.eqb (pt_name p) name) ps.

(* builder.py:520-545; template["query"] raises KeyError when no query
   parameter produced a value *)
Definition duplicate_cases (T : template) (ps : list param) : list case * outcome :=
  let qs := filter (is_loc LQuery) ps in
  match qs with
  | [] => ([], Completed)
  | _ =>
    if has_container CQuery T then
      (flat_map (fun p =>
         if has_name CQuery (p_name p) (t_parts T)
         then [mk_case (KDuplicate (p_name p)) Neg (with_container T CQuery (container_parts CQuery (t_parts T)) Neg)]
         else []) qs, Completed)
    else ([], RaisesKeyError)
  end.

(* builder.py:546-570 *)
Fixpoint missing_cases (T : template) (ps : list param) : list case * outcome :=
  match ps with
  | [] => ([], Completed)
  | p :: r =>
    if p_required p && negb (loc_eqb (p_loc p) LPath) then
      let k := container (p_loc p) in
      if has_container k T then
        let c := mk_case (KMissing (p_loc p) (p_name p)) Neg
                   (with_container T k
                      (filter (fun q => negb (N.eqb (pt_name q) (p_name p))) (container_parts k (t_parts T))) Neg) in
        let '(rest, o) := missing_cases T r in (c :: rest, o)
      else ([], RaisesKeyError)
    else missing_cases T r
  end.

(* sorted(), on names *)
Fixpoint insert_sorted (x : N) (l : list N) : list N :=
  match l with
  | [] => [x]
  | y :: r => if N.leb x y then x :: l else y :: insert_sorted x r
  end.
Definition sort_names (l : list N) : list N := fold_right insert_sorted [] l.
Definition mem_name (x : N) (l : list N) : bool := existsb (N.eqb x) l.
Fixpoint dedup (l : list N) : list N :=
  match l with [] => [] | x :: r => if mem_name x r then dedup r else x :: dedup r end.

(* itertools.combinations, same order *)
Fixpoint combinations (l : list N) (k : nat) : list (list N) :=
  match k with
  | O => [[]]
  | S k' => match l with
            | [] => []
            | x :: t => map (cons x) (combinations t k') ++ combinations t k
            end
  end.

Definition foreign_neg (k : ckind) : part := {| pt_kind := k; pt_name := 0%N; pt_src := Foreign; pt_mode := Neg |}.

(* builder.py:572-717 for one location *)
Definition combo_cases_for (T : template) (sh : shape) (l : loc) (negs : nat * list nat) : list case :=
  let pset := filter (is_loc l) (sh_params sh) in
  match pset with
  | [] => []
  | _ =>
    let k := container l in
    let base := container_parts k (t_parts T) in
    let required := dedup (map p_name (filter p_required pset)) in
    let all := dedup (map p_name pset) in
    let optional := sort_names (filter (fun n => negb (mem_name n required)) all) in
    let pos_case tag names :=
      mk_case (KComboPos l tag) Pos
              (with_container T k (filter (fun q => mem_name (pt_name q) names) base) Pos) in
    let neg_cases tag n :=
      map (fun i => mk_case (KComboNeg l tag i) Neg (with_container T k [foreign_neg k] Neg)) (seq 0 n) in
    let differs names := negb (Nat.eqb (length (filter (fun q => mem_name (pt_name q) names) base)) (length base)) in
    (* 1 *)
    (match required with
     | [] => []
     | _ => if negb (Nat.eqb (length all) (length required)) then
              (if sh_pos sh then [pos_case OnlyRequired required] else [])
              ++ (if sh_neg sh then neg_cases OnlyRequired (fst negs) else [])
            else []
     end)
    (* 2 *)
    ++ flat_map (fun on =>
         let names := snd on :: required in
         if differs names && sh_pos sh
         then pos_case (OneOptional (snd on)) names
              :: (if sh_neg sh then neg_cases (OneOptional (snd on)) (nth (fst on) (snd negs) O) else [])
         else []) (enumerate_from 0 optional)
    (* 3 *)
    ++ (if Nat.ltb 1 (length optional) && sh_pos sh then
          flat_map (fun size =>
            flat_map (fun comb =>
              let names := comb ++ required in
              if differs names then [pos_case (OfSize size) names] else [])
              (combinations optional size))
            (seq 2 (length optional - 2))
        else [])
  end.

(* builder.py:408-480 *)
Definition body_stage (sh : shape) (T0 : template) : template * list case :=
  match sh_bodies sh with
  | [] => (T0, if sh_pos sh then [mk_case KDefault Pos (unmodified T0)] else [])
  | bs => body_cases T0 0 bs
  end.
Definition combo_stage (T : template) (sh : shape) : list case :=
  combo_cases_for T sh LQuery (sh_combo_query sh)
  ++ combo_cases_for T sh LHeader (sh_combo_header sh)
  ++ combo_cases_for T sh LCookie (sh_combo_cookie sh).
Definition final_template (sh : shape) : template :=
  fst (body_stage sh (build_template empty_template (sh_params sh))).

(* _iter_coverage_cases: every yielded case, and how the generator ends *)
Definition coverage_cases (sh : shape) : list case * outcome :=
  let T := final_template sh in
  let bcases := snd (body_stage sh (build_template empty_template (sh_params sh))) in
  let pcases := param_cases T (sh_params sh) in
  let combos := combo_stage T sh in
  if sh_neg sh then
    let mcases := method_cases T (sh_methods sh) in
    let d := duplicate_cases T (sh_params sh) in
    let ms := missing_cases T (sh_params sh) in
    match snd d with
    | Completed =>
      match snd ms with
      | Completed => (bcases ++ pcases ++ mcases ++ fst d ++ fst ms ++ combos, Completed)
      | o => (bcases ++ pcases ++ mcases ++ fst d ++ fst ms, o)
      end
    | o => (bcases ++ pcases ++ mcases ++ fst d, o)
    end
  else (bcases ++ pcases ++ combos, Completed).

(* ---- what the property says about a case ---- *)
Definition has_neg_part (c : case) : bool := existsb (fun p => is_neg (pt_mode p)) (c_parts c).
Definition structural (k : kind) : bool :=
  match k with KMethod _ | KDuplicate _ | KMissing _ _ => true | _ => false end.
Definition is_body_tail (k : kind) : bool := match k with KBodyTail _ _ => true | _ => false end.

(* ---- regions ---- *)
Definition first_mode_pos (ms : list mode) : bool := match ms with Neg :: _ => false | _ => true end.
(* F6: every value that goes into the template is a positive one *)
Fixpoint first_body_mode (bs : list body) : option mode :=
  match bs with
  | [] => None
  | b :: r => match b_modes b with [] => first_body_mode r | m :: _ => Some m end
  end.
Definition template_positive (sh : shape) : bool :=
  forallb (fun p => first_mode_pos (p_modes p)) (sh_params sh)
  && (match first_body_mode (sh_bodies sh) with Some Neg => false | _ => true end).
(* negative-only generation: every generator yields negative values only *)
Definition all_modes_neg (sh : shape) : bool :=
  negb (sh_pos sh)
  && forallb (fun p => forallb is_neg (p_modes p)) (sh_params sh)
  && forallb (fun b => forallb is_neg (b_modes b)) (sh_bodies sh).

(* ====================================================================== *)
(* Part 4: object-level generators, at the level of labels                 *)
(* ====================================================================== *)
(* a generation context: which modes are requested (CoverageContext.generation_modes) *)
Definition gctx := (bool * bool)%type.                    (* (POSITIVE requested, NEGATIVE requested) *)
Definition with_negative_ctx (c : gctx) : gctx := (false, true).   (* CoverageContext.with_negative *)
Definition with_positive_ctx (c : gctx) : gctx := (true, false).   (* CoverageContext.with_positive *)

(* what the harness records about a sub-schema: the labels cover_schema_iter yields for it under a
   POSITIVE-only and under a NEGATIVE-only context (positive block first, then the negative block) *)
Record osub := { os_pos : list mode; os_neg : list mode }.
Definition cover_sub (c : gctx) (s : osub) : list mode :=
  (if fst c then os_pos s else []) ++ (if snd c then os_neg s else []).
Definition sub_respects_modes (s : osub) : bool :=
  forallb (fun m => negb (is_neg m)) (os_pos s) && forallb is_neg (os_neg s).

(* the value of additionalProperties: false, the empty schema {} (falsy in Python, forbids nothing),
   or true / a non-empty schema *)
Inductive addl := AddlFalse | AddlEmptySchema | AddlOther.
Definition addl_falsy (a : addl) : bool := match a with AddlOther => false | _ => true end.      (* not value *)
Definition addl_forbids (a : addl) : bool := match a with AddlFalse => true | _ => false end.    (* JSON Schema *)

(* the object/array keys of cover_schema_iter that wrap or build negative values, in dict order *)
Inductive okey :=
| OKProperties (subs : list osub)          (* coverage.py:354 -> _negative_properties (780-792) *)
| OKPatternProperties (subs : list osub)   (* coverage.py:357 -> _negative_pattern_properties (795-810) *)
| OKItems (sub : osub)                     (* coverage.py:360 -> _negative_items (813-821) *)
| OKRequired (n : nat)                     (* coverage.py:437 -> _negative_required (865-874) *)
| OKAdditional (a : addl).                 (* coverage.py:440-451: "not value", type object *)
Inductive wrapper := WProperty (i : nat) | WPatternProperty (i : nat) | WItems | WRequired (i : nat) | WAdditional.
(* a yielded value: its label, how it was built, and the label of the sub-schema value it wraps
   (None = structural: a property removed / an undeclared property added) *)
Record oitem := { oi_label : mode; oi_via : wrapper; oi_sub : option mode }.

(* every one of the three wrappers iterates the sub-schema with nctx = ctx.with_negative() and
   yields NegativeValue *)
Definition wrap_all (c : gctx) (mk : nat -> wrapper) (subs : list osub) : list oitem :=
  flat_map (fun is => map (fun m => {| oi_label := Neg; oi_via := mk (fst is); oi_sub := Some m |})
                          (cover_sub (with_negative_ctx c) (snd is)))
           (enumerate_from 0 subs).
(* template_ok = the foreign draw of the template object (ctx.generate_from_schema of
   _get_template_schema) succeeds; when it raises Unsatisfiable the key is abandoned (_ignore_unfixable) *)
Definition object_key_negatives (c : gctx) (template_ok : bool) (k : okey) : list oitem :=
  match k with
  | OKProperties subs => if template_ok then wrap_all c WProperty subs else []
  | OKPatternProperties subs => if template_ok then wrap_all c WPatternProperty subs else []
  | OKItems sub => map (fun m => {| oi_label := Neg; oi_via := WItems; oi_sub := Some m |}) (cover_sub (with_negative_ctx c) sub)
  | OKRequired n => if template_ok then map (fun i => {| oi_label := Neg; oi_via := WRequired i; oi_sub := None |}) (seq 0 n) else []
  | OKAdditional a => if addl_falsy a && template_ok then [{| oi_label := Neg; oi_via := WAdditional; oi_sub := None |}] else []
  end.
(* the negative block of cover_schema_iter restricted to these keys (coverage.py:340) *)
Definition object_negatives (c : gctx) (template_ok : bool) (keys : list okey) : list oitem :=
  if snd c then flat_map (object_key_negatives c template_ok) keys else [].

(* _positive_object (coverage.py:728-745): the sizes of the objects built by dropping optional
   properties; r = number of required properties, o = number of optional ones *)
Inductive osize_desc := OOneOptional | OSubset | OOnlyRequired.
(* extra = the template drawn by the foreign generator holds keys beyond the declared properties
   (possible when minProperties / additional properties make from_schema add some) *)
Definition object_subset_sizes (r o : nat) (extra : bool) : list (osize_desc * nat) :=
  (if Nat.eqb o 1 && negb extra then [] else map (fun _ => (OOneOptional, (r + 1)%nat)) (seq 0 o))   (* combo != template *)
  ++ map (fun size => (OSubset, (r + size)%nat)) (seq 2 (o - 2))                          (* select_combinations *)
  ++ (if Nat.eqb o 0 then [] else [(OOnlyRequired, r)]).                                  (* set(properties) != required *)

(* ====================================================================== *)
(* Part 5: the subschemas of the parameter combination blocks              *)
(*         (builder.py:573-703, _combination_schema + _yield_negative)     *)
(* ====================================================================== *)
(* OpenAPI identifies a parameter by the pair (name, in).  A declared parameter: its location,
   name, required flag, whether its generator put a value into the template, and the schema
   parameter.as_json_schema(operation) returns for it (S: any representation of a schema) *)
Record dparam (S : Type) := {
  dp_loc : loc; dp_name : N; dp_required : bool; dp_in_template : bool; dp_schema : S }.
Arguments dp_loc {S} _.
Arguments dp_name {S} _.
Arguments dp_required {S} _.
Arguments dp_in_template {S} _.
Arguments dp_schema {S} _.

(* How _combination_schema obtains the schema of a parameter.  The code calls
   parameter.as_json_schema(operation) every time (CacheNone).  CacheByName is the sentinel: one
   dictionary keyed by the parameter NAME, created above the loop over the locations, so that
   query, header and cookie share it.  CacheByLocName is a cache keyed by the full identity. *)
Inductive cache_policy := CacheNone | CacheByName | CacheByLocName.
Definition ckey := (option loc * N)%type.
Definition ckey_eqb (a b : ckey) : bool :=
  (match fst a, fst b with
   | None, None => true
   | Some x, Some y => loc_eqb x y
   | _, _ => false
   end) && N.eqb (snd a) (snd b).
Definition cache_key (pol : cache_policy) (l : loc) (name : N) : option ckey :=
  match pol with
  | CacheNone => None
  | CacheByName => Some (None, name)
  | CacheByLocName => Some (Some l, name)
  end.
Fixpoint cache_get {S} (k : ckey) (c : list (ckey * S)) : option S :=
  match c with
  | [] => None
  | (k', s) :: r => if ckey_eqb k k' then Some s else cache_get k r
  end.
(* the schema used for parameter p, and the cache afterwards *)
Definition schema_through {S} (pol : cache_policy) (c : list (ckey * S)) (p : dparam S) : S * list (ckey * S) :=
  match cache_key pol (dp_loc p) (dp_name p) with
  | None => (dp_schema p, c)
  | Some k =>
    match cache_get k c with
    | Some s => (s, c)
    | None => (dp_schema p, (k, dp_schema p) :: c)
    end
  end.

(* properties[name] = schema: a dict keeps the position of the first insertion *)
Fixpoint prop_set {S} (name : N) (s : S) (ps : list (N * S)) : list (N * S) :=
  match ps with
  | [] => [(name, s)]
  | (n, s') :: r => if N.eqb n name then (n, s) :: r else (n, s') :: prop_set name s r
  end.

(* _combination_schema(combination, required, parameter_set)["properties"]: the parameters of
   THIS location whose name is a key of the combination, in the order of the parameter set *)
Fixpoint combination_props {S} (pol : cache_policy) (pset : list (dparam S)) (combination : list N)
         (acc : list (N * S)) (c : list (ckey * S)) : list (N * S) * list (ckey * S) :=
  match pset with
  | [] => (acc, c)
  | p :: r =>
    if mem_name (dp_name p) combination
    then let sc := schema_through pol c p in
         combination_props pol r combination (prop_set (dp_name p) (fst sc) acc) (snd sc)
    else combination_props pol r combination acc c
  end.

(* one schema handed to _yield_negative: {properties, required, additionalProperties: false};
   required is list(set): its order is not specified, compared as a set *)
Record subschema (S : Type) := {
  ss_loc : loc; ss_tag : combo_tag; ss_props : list (N * S); ss_required : list N }.
Arguments ss_loc {S} _.
Arguments ss_tag {S} _.
Arguments ss_props {S} _.
Arguments ss_required {S} _.

Definition at_loc {S} (l : loc) (p : dparam S) : bool := loc_eqb l (dp_loc p).

(* block 2: required + one optional parameter, for every optional name in sorted order; the
   negative cases are nested inside "combo != base_container and POSITIVE in generation_modes" *)
Fixpoint optional_subschemas {S} (pol : cache_policy) (pos neg : bool) (l : loc) (pset : list (dparam S))
         (base required opts : list N) (c : list (ckey * S)) : list (subschema S) * list (ckey * S) :=
  match opts with
  | [] => ([], c)
  | o :: r =>
    let combo := filter (fun n => mem_name n required || N.eqb n o) base in
    if negb (Nat.eqb (length combo) (length base)) && pos && neg then
      let pc := combination_props pol pset combo [] c in
      let rest := optional_subschemas pol pos neg l pset base required r (snd pc) in
      ({| ss_loc := l; ss_tag := OneOptional o; ss_props := fst pc; ss_required := required |} :: fst rest, snd rest)
    else optional_subschemas pol pos neg l pset base required r c
  end.

(* the subschemas of one location, in the order _yield_negative receives them *)
Definition combo_subschemas_for {S} (pol : cache_policy) (pos neg : bool) (params : list (dparam S)) (l : loc)
           (c : list (ckey * S)) : list (subschema S) * list (ckey * S) :=
  let pset := filter (at_loc l) params in
  match pset with
  | [] => ([], c)
  | _ =>
    let base := dedup (map dp_name (filter dp_in_template pset)) in
    let required := dedup (map dp_name (filter dp_required pset)) in
    let all := dedup (map dp_name pset) in
    let optional := sort_names (filter (fun n => negb (mem_name n required)) all) in
    let first :=
      match required with
      | [] => ([], c)
      | _ => if negb (Nat.eqb (length all) (length required)) && neg then
               let pc := combination_props pol pset (filter (fun n => mem_name n required) base) [] c in
               ([{| ss_loc := l; ss_tag := OnlyRequired; ss_props := fst pc; ss_required := required |}], snd pc)
             else ([], c)
      end in
    let rest := optional_subschemas pol pos neg l pset base required optional (snd first) in
    (fst first ++ fst rest, snd rest)
  end.

(* for location, parameter_set in [query, header, cookie]: the cache (if any) lives above the loop *)
Definition combo_plan {S} (pol : cache_policy) (pos neg : bool) (params : list (dparam S)) : list (subschema S) :=
  let q := combo_subschemas_for pol pos neg params LQuery [] in
  let h := combo_subschemas_for pol pos neg params LHeader (snd q) in
  let k := combo_subschemas_for pol pos neg params LCookie (snd h) in
  fst q ++ fst h ++ fst k.

(* _negative_properties on such a subschema, numeric keys only: every property in turn, each with
   its own cover_schema_iter call (own seen set); the value replaces that property in the container.
   keys_of reads the numeric keywords off a schema, in dict order *)
Definition combo_negative_values {S} (keys_of : S -> list nkey) (ss : subschema S) : list (N * negitem) :=
  flat_map (fun ns => map (fun it => (fst ns, it)) (negative_numbers (keys_of (snd ns)) [])) (ss_props ss).

(* the parameters declared at one identity *)
Definition declared_at {S} (params : list (dparam S)) (l : loc) (name : N) : list (dparam S) :=
  filter (fun p => loc_eqb l (dp_loc p) && N.eqb (dp_name p) name) params.

(* region of the statement about caches keyed by the full identity: no identity is declared twice *)
Fixpoint distinct_identities {S} (params : list (dparam S)) : bool :=
  match params with
  | [] => true
  | p :: r => negb (existsb (fun q => loc_eqb (dp_loc p) (dp_loc q) && N.eqb (dp_name p) (dp_name q)) r)
              && distinct_identities r
  end.

(* ====================================================================== *)
(* Part 6: _negative_type (coverage.py:906-922), the values presented as   *)
(*         Incorrect type, for a type keyword that is a string OR a list   *)
(* ====================================================================== *)

(* a name met in the type keyword: the seven JSON Schema names that have an entry in
   STRATEGIES_FOR_TYPE, or any other string (OpenAPI 2 file, a typo): it removes no strategy *)
Inductive jtype := TInteger | TNumber | TBoolean | TNull | TString | TArray | TObject | TOther (name : N).
Definition jtype_eqb (a b : jtype) : bool :=
  match a, b with
  | TInteger, TInteger | TNumber, TNumber | TBoolean, TBoolean | TNull, TNull
  | TString, TString | TArray, TArray | TObject, TObject => true
  | TOther x, TOther y => N.eqb x y
  | _, _ => false
  end.
(* Python: name in types *)
Definition type_in (t : jtype) (l : list jtype) : bool := existsb (jtype_eqb t) l.

(* the RAW keyword as cover_schema_iter hands it over: type: integer or type: [integer, null] *)
Inductive type_kw := TyStr (t : jtype) | TyList (l : list jtype).
(* types = [ty] if isinstance(ty, str) else ty *)
Definition types_of (kw : type_kw) : list jtype := match kw with TyStr t => [t] | TyList l => l end.

(* the strategies a value is drawn from: st.integers(), NUMERIC_STRATEGY = integers | floats,
   FLOAT_STRATEGY.filter(_is_non_integer_float), booleans, none, text, ARRAY_STRATEGY, OBJECT_STRATEGY *)
Inductive strat := SIntegers | SNumeric | SFracFloats | SBooleans | SNone | SText | SArrays | SObjects.
(* STRATEGIES_FOR_TYPE, in dict order *)
Definition strategies_for_type : list (jtype * strat) :=
  [ (TInteger, SIntegers); (TNumber, SNumeric); (TBoolean, SBooleans); (TNull, SNone);
    (TString, SText); (TArray, SArrays); (TObject, SObjects) ].

(* what a drawn value can be, as far as the type keyword can tell: an int, a float with an integral
   value (1.0 is an integer for JSON Schema draft 6+), a float with a fractional part, ... *)
Inductive vclass := KInt | KIntegralFloat | KFracFloat | KBool | KNull | KStr | KArr | KObj.
(* which classes a strategy can return (the foreign side: any of them, also its minimal example) *)
Definition draws (s : strat) (k : vclass) : bool :=
  match s, k with
  | SIntegers, KInt => true
  | SNumeric, (KInt | KIntegralFloat | KFracFloat) => true
  | SFracFloats, KFracFloat => true
  | SBooleans, KBool => true
  | SNone, KNull => true
  | SText, KStr => true
  | SArrays, KArr => true
  | SObjects, KObj => true
  | _, _ => false
  end.
(* JSON Schema: the value is of the named type (a bool is not a number; an unknown name has no values) *)
Definition has_type (t : jtype) (k : vclass) : bool :=
  match t, k with
  | TInteger, (KInt | KIntegralFloat) => true
  | TNumber, (KInt | KIntegralFloat | KFracFloat) => true
  | TBoolean, KBool => true
  | TNull, KNull => true
  | TString, KStr => true
  | TArray, KArr => true
  | TObject, KObj => true
  | _, _ => false
  end.
(* the value conforms to the declared type keyword, string or list (a list: any of the names) *)
Definition conforms_type (kw : type_kw) (k : vclass) : bool := existsb (fun t => has_type t k) (types_of kw).

(* Python dict operations on the strategies dict (unique keys, insertion order) *)
Definition sd_has (t : jtype) (d : list (jtype * strat)) : bool := existsb (fun p => jtype_eqb t (fst p)) d.
Definition sd_del (t : jtype) (d : list (jtype * strat)) : list (jtype * strat) :=
  filter (fun p => negb (jtype_eqb t (fst p))) d.
Definition sd_set (t : jtype) (s : strat) (d : list (jtype * strat)) : list (jtype * strat) :=
  if sd_has t d then map (fun p => if jtype_eqb t (fst p) then (t, s) else p) d else d ++ [(t, s)].

(* del strategies[integer] raises KeyError when the key is not there: an explicit outcome *)
Inductive type_outcome := TypePlan (l : list strat) | TypeRaisesKeyError.

(* _negative_type as a function of the membership test name in types:
     strategies = {ty: s for ty, s in STRATEGIES_FOR_TYPE.items() if ty not in types}
     if number in types: del strategies[integer]
     if integer in types: strategies[number] = FLOAT_STRATEGY.filter(_is_non_integer_float)
     for strategy in strategies.values(): value = ctx.generate_from(strategy) ...
   The plan is the list of strategies consulted, in order; the seen set only drops drawn values. *)
Definition negative_type_plan_with (mem : jtype -> bool) : type_outcome :=
  let d := filter (fun p => negb (mem (fst p))) strategies_for_type in
  let d1 := if mem TNumber then (if sd_has TInteger d then Some (sd_del TInteger d) else None) else Some d in
  match d1 with
  | None => TypeRaisesKeyError
  | Some d1 =>
      let d2 := if mem TInteger then sd_set TNumber SFracFloats d1 else d1 in
      TypePlan (map snd d2)
  end.
Definition negative_type_plan (kw : type_kw) : type_outcome :=
  negative_type_plan_with (fun t => type_in t (types_of kw)).

(* regression sentinel: the float rule keyed on the RAW keyword (elif ty == integer, the integer
   strategy popped with a default): right for a plain string, wrong for a list that names integer *)
Definition negative_type_plan_raw_keyword (kw : type_kw) : type_outcome :=
  let mem := fun t => type_in t (types_of kw) in
  let d := filter (fun p => negb (mem (fst p))) strategies_for_type in
  if mem TNumber then TypePlan (map snd (sd_del TInteger d))
  else match kw with
       | TyStr TInteger => TypePlan (map snd (sd_set TNumber SFracFloats d))
       | _ => TypePlan (map snd d)
       end.

(* region of the totality statement: number and integer are not both listed *)
Definition not_number_and_integer (kw : type_kw) : bool :=
  negb (type_in TNumber (types_of kw) && type_in TInteger (types_of kw)).

(* the minLength / maxLength negatives of cover_schema_iter (coverage.py:389-434) hand
   {**schema, minLength: n, maxLength: n} to the foreign generator with the DECLARED type keyword
   (new_schema.setdefault(type, string) only adds string when the keyword is absent): the drawn
   value may be of any class that conforms to that keyword; a length keyword constrains strings only *)
Definition length_request_type (declared : option type_kw) : type_kw :=
  match declared with Some kw => kw | None => TyStr TString end.
Definition length_applies (k : vclass) : bool := match k with KStr => true | _ => false end.
(* region: every listed name is string *)
Definition string_only (kw : type_kw) : bool := forallb (jtype_eqb TString) (types_of kw).

(* ====================================================================== *)
(* Part 7: magnitude - sentinel: the closest multiple through binary64     *)
(* ====================================================================== *)
(* closest_multiple_greater_than above is exact integer arithmetic (divmod), so it is right for integers of
   any size.  The sentinel below is the planner kernel written with TRUE division: x * math.ceil(y / x).
   Python int / int is the correctly rounded binary64 quotient (53 significant bits, round half to even);
   math.ceil of a float is exact.  Subnormal and overflowing quotients are outside the sentinel. *)

(* nearest integer to n / d for 0 < d, ties to even *)
Definition round_half_even (n d : Z) : Z :=
  let q := n / d in
  let r := n mod d in
  if 2 * r <? d then q else if d <? 2 * r then q + 1 else if Z.even q then q else q + 1.

(* math.ceil(y / x) for x <> 0: the quotient is sign * m * 2^e with 2^52 <= m <= 2^53 *)
Definition float53_quotient_ceil (y x : Z) : Z :=
  let sign := Z.sgn y * Z.sgn x in
  let a := Z.abs y in
  let b := Z.abs x in
  if a =? 0 then 0 else
  let num e := if 0 <=? e then a else a * 2 ^ (- e) in
  let den e := if 0 <=? e then b * 2 ^ e else b in
  let e0 := Z.log2 a - Z.log2 b - 52 in
  let e := if num e0 <? den e0 * 2 ^ 52 then e0 - 1 else e0 in
  let m := round_half_even (num e) (den e) in
  if 0 <=? e then sign * m * 2 ^ e else - ((- (sign * m)) / 2 ^ (- e)).

Definition closest_multiple_float53 (y x : Z) : Z := x * float53_quotient_ceil y x.

(* what the Minimum value needs from the kernel: the least multiple of x that is >= y *)
Definition least_multiple_at_least (y x r : Z) : bool :=
  (y <=? r) && (r <? y + x) && (r mod x =? 0).

Definition zrange (lo : Z) (n : nat) : list Z := map (fun i => lo + Z.of_nat i) (seq 0 n).

(* ---- which methods the "Unspecified HTTP method" cases may use (builder.py:507-509): the methods of the fixed universe
   (ALL_METHODS of the harness, sorted: delete get options patch post put trace = 0..6) that the RESOLVED path item does not
   document.  A path item is either written in place or is a `$ref` to a shared definition (OpenAPI allows both); its raw
   mapping has the method keys in the first case and the single key `$ref` in the second. ---- *)
Definition all_methods : list N := [0; 1; 2; 3; 4; 5; 6]%N.

Inductive path_item :=
| PInline (documented : list N)
| PRef (target_documented : list N).

Definition resolved_methods (p : path_item) : list N :=
  match p with PInline d => d | PRef d => d end.

(* the keys of the raw (not $ref-resolved) mapping that are method names *)
Definition raw_key_methods (p : path_item) : list N :=
  match p with PInline d => d | PRef _ => [] end.

Definition undocumented (d : list N) : list N :=
  filter (fun m => negb (existsb (N.eqb m) d)) all_methods.

Definition unspecified_methods (p : path_item) : list N := undocumented (resolved_methods p).
(* sentinel: the same through the raw keys *)
Definition unspecified_methods_raw (p : path_item) : list N := undocumented (raw_key_methods p).
