(* C03 property theorems only.  Each is closed by [exact] of a lemma of
   Proofs_C03 and followed by Print Assumptions. *)
From Coq Require Import List NArith ZArith Bool.
From Verif Require Import C03.Model_C03 C03.Proofs_C03.
Import ListNotations.
Open Scope Z_scope.

(* ---- numbers: every value of the positive plan that is not the author's own
   example/default conforms to the numeric keywords, outside three regions (the fourth, maximum 0,
   went away with the repair 0b606a31: no truthiness test of a 0 bound decides about a checked value
   any more - "not minimum and not maximum" only chooses whether the foreign default is drawn and
   "smaller > 0" only drops a value) ---- *)
Theorem C03_positive_numbers_valid_partial : forall s ok v d,
  numeric_exclusive s = true -> exclusive_dominates s = true ->
  multiple_satisfiable s = true ->
  In (Some v, d) (fst (positive_number_plan s ok)) -> authored d = false ->
  num_valid s v = true.
Proof. exact positive_numbers_valid_partial. Qed.
Print Assumptions C03_positive_numbers_valid_partial.

(* ... and each region is needed: the full statement is false of the code as it is *)
(* F1 (FIXED by 0b606a31) kept as a regression sentinel: the planner with the old guard
   "not maximum or larger <= maximum" yields 1 for minimum 0, maximum 0; the repaired planner does not *)
Theorem C03_legacy_max_zero_guard_refuted : exists s v d,
  In (Some v, d) (fst (positive_number_plan_legacy s true)) /\ authored d = false /\ num_valid s v = false
  /\ numeric_exclusive s = true /\ exclusive_dominates s = true /\ multiple_satisfiable s = true
  /\ max_not_zero_with_min s = false
  /\ fst (positive_number_plan s true) = [(None, DValid); (Some 0, DMinimum)].
Proof. exists w_zero, 1, DNear. exact legacy_max_zero_refuted. Qed.
Print Assumptions C03_legacy_max_zero_guard_refuted.

(* a 0 bound together with a step (minimum -1, maximum 0, multipleOf 5): the legacy planner yields 5,
   the repaired one only the valid 0 *)
Theorem C03_zero_bound_with_step_repaired : exists s,
  fst (positive_number_plan s true) = [(Some 0, DMinimum)] /\
  In (Some 5, DNear) (fst (positive_number_plan_legacy s true)).
Proof. exists w_zero_step. exact zero_bounds_now_valid. Qed.
Print Assumptions C03_zero_bound_with_step_repaired.

(* F2: minimum 5, exclusiveMinimum true (OpenAPI 3.0) yields 2 *)
Theorem C03_positive_numbers_valid_refuted_bool_exclusive : exists s v d,
  In (Some v, d) (fst (positive_number_plan s true)) /\ authored d = false /\ num_valid s v = false
  /\ multiple_satisfiable s = true.
Proof. exists w_bool, 2, DMinimum. exact refuted_bool. Qed.
Print Assumptions C03_positive_numbers_valid_refuted_bool_exclusive.

(* F2 again, inside every other region: minimum 2, exclusiveMinimum true yields 2 *)
Theorem C03_positive_numbers_valid_refuted_bool_exclusive_only : exists s v d,
  In (Some v, d) (fst (positive_number_plan s true)) /\ authored d = false /\ num_valid s v = false
  /\ exclusive_dominates s = true /\ multiple_satisfiable s = true.
Proof. exists w_bool2, 2, DMinimum. exact refuted_bool2. Qed.
Print Assumptions C03_positive_numbers_valid_refuted_bool_exclusive_only.

(* F3: 5..7 multipleOf 4 yields 8 (and 4) *)
Theorem C03_positive_numbers_valid_refuted_no_multiple : exists s v d,
  In (Some v, d) (fst (positive_number_plan s true)) /\ authored d = false /\ num_valid s v = false
  /\ numeric_exclusive s = true /\ exclusive_dominates s = true.
Proof. exists w_mult, 8, DMinimum. exact refuted_mult. Qed.
Print Assumptions C03_positive_numbers_valid_refuted_no_multiple.

(* F4: minimum 10, exclusiveMinimum 3 yields 4 *)
Theorem C03_positive_numbers_valid_refuted_both_bounds : exists s v d,
  In (Some v, d) (fst (positive_number_plan s true)) /\ authored d = false /\ num_valid s v = false
  /\ numeric_exclusive s = true /\ multiple_satisfiable s = true.
Proof. exists w_both, 4, DMinimum. exact refuted_both. Qed.
Print Assumptions C03_positive_numbers_valid_refuted_both_bounds.

Theorem C03_positive_numbers_hypotheses_satisfiable : exists s,
  numeric_exclusive s = true /\ exclusive_dominates s = true /\
  multiple_satisfiable s = true /\
  fst (positive_number_plan s true) = [(Some 4, DMinimum); (Some 8, DNear); (Some 20, DMaximum); (Some 16, DNear)].
Proof. exists w_good. exact good_hyps. Qed.
Print Assumptions C03_positive_numbers_hypotheses_satisfiable.

(* ---- numbers: every value yielded for a numeric key violates that key, for all
   key orders and all contents of the shared seen set ---- *)
Theorem C03_negative_numbers_invalid_partial : forall keys seen v d k,
  forallb numeric_key keys = true ->
  In (Some v, d, k) (negative_numbers keys seen) -> In k keys /\ violates k v = true.
Proof. exact negative_numbers_invalid_partial. Qed.
Print Assumptions C03_negative_numbers_invalid_partial.

Theorem C03_negative_numbers_invalid_refuted : exists keys v d k,
  In (Some v, d, k) (negative_numbers keys []) /\ violates k v = false.
Proof. exists [KMinimum 5; KExMin (PBool true)], (PBool true), NSmaller, (KExMin (PBool true)). exact negative_numbers_invalid_refuted. Qed.
Print Assumptions C03_negative_numbers_invalid_refuted.

(* ---- strings: every length range requested from the generator lies inside the
   declared [minLength, maxLength] and is non-empty, for satisfiable ranges ---- *)
Theorem C03_lengths_in_range_partial : forall s d lo hi,
  range_ok (s_min s) (s_max s) = true ->
  In (d, lo, hi) (string_plan s) -> within (s_min s) (s_max s) lo hi = true.
Proof. exact lengths_in_range_partial. Qed.
Print Assumptions C03_lengths_in_range_partial.

(* F3 for strings: minLength 3, maxLength 0 plans a string of length 3 *)
Theorem C03_lengths_in_range_refuted : exists s d lo hi,
  In (d, lo, hi) (string_plan s) /\ within (s_min s) (s_max s) lo hi = false.
Proof. exists w_str, SMinimum, (Some 3), (Some 3). exact lengths_in_range_refuted. Qed.
Print Assumptions C03_lengths_in_range_refuted.

Theorem C03_lengths_hypotheses_satisfiable : exists s,
  range_ok (s_min s) (s_max s) = true /\
  string_plan s = [(SMinimum, Some 2, Some 2); (SNear, Some 3, Some 3); (SMaximum, Some 5, Some 5); (SNear, Some 4, Some 4)].
Proof. exists w_str_ok. exact lengths_nonvacuous. Qed.
Print Assumptions C03_lengths_hypotheses_satisfiable.

(* the length requested for a negative string violates the bound it is described by *)
Theorem C03_negative_lengths_violate : forall v l,
  (negative_min_length v = Some l -> 0 <= l < v) /\ (negative_max_length v = Some l -> v < l).
Proof. exact negative_lengths_violate. Qed.
Print Assumptions C03_negative_lengths_violate.

(* ---- arrays: the same for sizes; L is the size of the template array drawn by
   the foreign generator, assumed inside the declared range ---- *)
Theorem C03_sizes_in_range_partial : forall s L d lo hi,
  range_ok (a_min s) (a_max s) = true ->
  within (a_min s) (a_max s) (Some L) (Some L) = true ->
  In (d, lo, hi) (array_plan s L) -> within (a_min s) (a_max s) lo hi = true.
Proof. exact sizes_in_range_partial. Qed.
Print Assumptions C03_sizes_in_range_partial.

(* the same for the arrays themselves, for ALL non-negative bounds (0/0, 0/n, n/n included): whatever size n the
   foreign generator returns for a planned request (contract: n lies in the request), minItems <= n <= maxItems *)
Theorem C03_positive_array_sizes_valid_partial : forall s L d lo hi n,
  range_ok (a_min s) (a_max s) = true ->
  arr_size_valid s L = true ->
  In (d, lo, hi) (array_plan s L) -> size_in_request lo hi n = true ->
  arr_size_valid s n = true.
Proof. exact positive_array_sizes_valid_partial. Qed.
Print Assumptions C03_positive_array_sizes_valid_partial.

(* maxItems 0, minItems absent or an explicit 0: only the (empty) template is planned *)
Theorem C03_sizes_max_zero_only_template : forall s,
  a_max s = Some 0 -> (a_min s = None \/ a_min s = Some 0) -> a_authored s = false ->
  array_plan s 0 = [(AValid, Some 0, Some 0)].
Proof. exact sizes_max_zero_only_template. Qed.
Print Assumptions C03_sizes_max_zero_only_template.

(* non-vacuity at the zero / equal bounds: minItems 0 maxItems 0 satisfies the hypotheses; 0/1, 2/2, 0/absent *)
Theorem C03_sizes_zero_bounds_examples : exists s s',
  a_min s = Some 0 /\ a_max s = Some 0 /\ a_min s' = None /\ a_max s' = Some 0 /\
  range_ok (a_min s) (a_max s) = true /\ arr_size_valid s 0 = true /\
  array_plan s 0 = [(AValid, Some 0, Some 0)] /\
  array_plan s' 0 = [(AValid, Some 0, Some 0)] /\
  array_plan {| a_min := Some 0; a_max := Some 1; a_authored := false |} 0 = [(AValid, Some 0, Some 0); (ANear, Some 1, Some 1)] /\
  array_plan {| a_min := Some 2; a_max := Some 2; a_authored := false |} 2 = [(AValid, Some 2, Some 2)] /\
  array_plan {| a_min := Some 0; a_max := None; a_authored := false |} 0 = [(AValid, Some 0, Some 0); (ANear, Some 1, Some 1)].
Proof. exists w_arr_zero, w_arr_zero_nomin. exact sizes_max_zero_examples. Qed.
Print Assumptions C03_sizes_zero_bounds_examples.

(* regression sentinel (seed C03_c): the planner with the truthiness guard "not max_items or larger <= max_items"
   requests a one-item array for minItems 0 / maxItems 0 (inside the hypotheses of the theorem above), which is
   outside the declared bounds; the code as it is (max_items is None) plans the template only; the two planners
   differ on maxItems 0 only *)
Theorem C03_array_falsy_max_guard_refuted : exists s L d lo hi n,
  In (d, lo, hi) (array_plan_falsy_max s L)
  /\ range_ok (a_min s) (a_max s) = true /\ arr_size_valid s L = true
  /\ size_in_request lo hi n = true /\ arr_size_valid s n = false
  /\ array_plan s L = [(AValid, Some 0, Some 0)].
Proof. exists w_arr_zero, 0, ANear, (Some 1), (Some 1), 1. exact array_falsy_max_guard_refuted. Qed.
Print Assumptions C03_array_falsy_max_guard_refuted.

Theorem C03_array_falsy_max_guard_differs_only_at_zero : forall s L,
  a_max s <> Some 0 -> array_plan_falsy_max s L = array_plan s L.
Proof. exact array_falsy_max_guard_differs_only_at_zero. Qed.
Print Assumptions C03_array_falsy_max_guard_differs_only_at_zero.

Theorem C03_sizes_in_range_refuted : exists s L d lo hi,
  In (d, lo, hi) (array_plan s L) /\ within (a_min s) (a_max s) lo hi = false.
Proof. exists w_arr, 3, AMaximum, (Some 1), (Some 1). exact sizes_in_range_refuted. Qed.
Print Assumptions C03_sizes_in_range_refuted.

Theorem C03_sizes_hypotheses_satisfiable : exists s,
  range_ok (a_min s) (a_max s) = true /\
  array_plan s 1 = [(AValid, Some 1, Some 1); (ANear, Some 2, Some 2); (AMaximum, Some 4, Some 4); (ANear, Some 3, Some 3)].
Proof. exists w_arr_ok. exact sizes_nonvacuous. Qed.
Print Assumptions C03_sizes_hypotheses_satisfiable.

(* ---- cases: the case is labelled negative exactly when one of the values it
   carries is negative or it is a missing-required / duplicate / unexpected-method
   case.  True when every value the template is built from is positive, except for
   the 2nd..n-th value of a body ... ---- *)
Theorem C03_case_label_iff_partial : forall sh c,
  In c (fst (coverage_cases sh)) ->
  is_body_tail (c_kind c) = false ->
  template_positive sh = true ->
  (c_mode c = Neg <-> (has_neg_part c = true \/ structural (c_kind c) = true)).
Proof. exact case_label_iff_partial. Qed.
Print Assumptions C03_case_label_iff_partial.

(* ... and for every case, body tails included, in negative-only generation *)
Theorem C03_case_label_iff_negative_only : forall sh c,
  In c (fst (coverage_cases sh)) ->
  all_modes_neg sh = true ->
  (c_mode c = Neg <-> (has_neg_part c = true \/ structural (c_kind c) = true)).
Proof. exact case_label_iff_negative_only. Qed.
Print Assumptions C03_case_label_iff_negative_only.

(* F5: the 2nd..n-th value of a body inherits the case label of the first value *)
Theorem C03_case_label_iff_refuted_body_tail : exists sh c,
  In c (fst (coverage_cases sh)) /\ template_positive sh = true /\
  c_mode c = Pos /\ has_neg_part c = true.
Proof. exists sh_tail, c_tail. exact case_label_refuted_body_tail. Qed.
Print Assumptions C03_case_label_iff_refuted_body_tail.

(* F6: a parameter whose first value is negative puts that value into every case *)
Theorem C03_case_label_iff_refuted_template : exists sh c,
  In c (fst (coverage_cases sh)) /\ is_body_tail (c_kind c) = false /\
  c_mode c = Pos /\ has_neg_part c = true.
Proof. exists sh_tmpl, c_tmpl. exact case_label_refuted_template. Qed.
Print Assumptions C03_case_label_iff_refuted_template.

Theorem C03_case_label_hypotheses_satisfiable : exists sh,
  template_positive sh = true /\ length (fst (coverage_cases sh)) = 10%nat /\ snd (coverage_cases sh) = Completed.
Proof. exists sh_ok. exact case_label_nonvacuous. Qed.
Print Assumptions C03_case_label_hypotheses_satisfiable.

Theorem C03_case_label_negative_only_satisfiable : exists sh,
  all_modes_neg sh = true /\ length (fst (coverage_cases sh)) = 6%nat.
Proof. exists sh_negonly. exact case_label_negative_only_nonvacuous. Qed.
Print Assumptions C03_case_label_negative_only_satisfiable.

(* the exact shape of F5: the j-th value (j >= 1) of the i-th body is sent in a case whose
   label is the label m0 of the first value, while the body component carries its own label mj *)
Theorem C03_body_tail_inherits_first : forall sh c i j,
  In c (fst (coverage_cases sh)) -> c_kind c = KBodyTail i j ->
  exists b m0 tl mj,
    nth_error (sh_bodies sh) i = Some b /\ b_modes b = m0 :: tl /\ (1 <= j)%nat /\ nth_error tl (j - 1) = Some mj /\
    c_mode c = m0 /\ comp_get CBody (c_comps c) = Some mj.
Proof. exact body_tail_inherits_first. Qed.
Print Assumptions C03_body_tail_inherits_first.

(* ---- anyOf / oneOf over numeric branches: a yielded value violates the branch it was derived
   from (for all branch lists, key orders and seen sets) ... ---- *)
Theorem C03_anyof_negative_partial : forall bs seen i v d k,
  forallb (forallb numeric_key) bs = true ->
  In (i, (Some v, d, k)) (anyof_negative_numbers bs seen) ->
  exists b, nth_error bs i = Some b /\ In k b /\ violates k v = true.
Proof. exact anyof_negative_partial. Qed.
Print Assumptions C03_anyof_negative_partial.

(* F7: ... but the sibling branches are not consulted: the value may conform to the anyOf *)
Theorem C03_anyof_negative_refuted : exists bs i v d k,
  In (i, (Some v, d, k)) (anyof_negative_numbers bs []) /\ existsb (fun b => conforms b v) bs = true.
Proof. exists [[KMinimum 5]; [KMaximum 10]], O, (PInt 4), NSmaller, (KMinimum 5). exact anyof_negative_refuted. Qed.
Print Assumptions C03_anyof_negative_refuted.

(* ---- positive values under anyOf / oneOf over numeric branches (each branch planned on its own, siblings not
   consulted): when every branch is inside the regions of the positive-number theorem, a non-authored value conforms
   to its own branch, hence to the anyOf; under oneOf it conforms when no sibling accepts it as well ---- *)
Theorem C03_anyof_positive_partial : forall bs ok i v d,
  forallb branch_in_regions bs = true ->
  In (i, (Some v, d)) (combined_positive_numbers bs ok) -> authored d = false ->
  anyof_valid bs v = true.
Proof. exact anyof_positive_partial. Qed.
Print Assumptions C03_anyof_positive_partial.

Theorem C03_oneof_positive_partial : forall bs ok i v d,
  forallb branch_in_regions bs = true ->
  In (i, (Some v, d)) (combined_positive_numbers bs ok) -> authored d = false ->
  others_reject bs i v = true ->
  oneof_valid bs v = true.
Proof. exact oneof_positive_partial. Qed.
Print Assumptions C03_oneof_positive_partial.

(* F10: ... and the hypothesis is needed: oneOf [minimum -5, maximum 0] [maximum -3] yields -5 as the positive
   Minimum value of the first branch although it conforms to both branches, i.e. not to the oneOf *)
Theorem C03_oneof_positive_refuted : exists bs i v d,
  In (i, (Some v, d)) (combined_positive_numbers bs true) /\ authored d = false
  /\ forallb branch_in_regions bs = true /\ oneof_valid bs v = false /\ anyof_valid bs v = true.
Proof. exists w_oneof, O, (-5), DMinimum. exact oneof_positive_refuted. Qed.
Print Assumptions C03_oneof_positive_refuted.

Theorem C03_oneof_positive_hypotheses_satisfiable : exists bs,
  forallb branch_in_regions bs = true /\
  combined_positive_numbers bs true =
    [(O, (Some 1, DMinimum)); (O, (Some 2, DNear)); (O, (Some 3, DMaximum));
     (1%nat, (Some 7, DMinimum)); (1%nat, (Some 8, DNear)); (1%nat, (Some 9, DMaximum))] /\
  forallb (fun x => match snd x with (Some v, _) => others_reject bs (fst x) v | _ => true end)
          (combined_positive_numbers bs true) = true.
Proof. exists w_oneof_ok. exact oneof_positive_nonvacuous. Qed.
Print Assumptions C03_oneof_positive_hypotheses_satisfiable.

(* ---- object / array wrappers (_negative_properties, _negative_pattern_properties, _negative_items,
   _negative_required, additionalProperties: false), for every context, every key order and all
   sub-schemas whose own generator respects the requested modes: whatever they yield as NegativeValue
   wraps a NEGATIVE value of the sub-schema or is a structural violation; nothing is yielded unless
   NEGATIVE is requested.  Labels of sub-values are never flipped. ---- *)
Theorem C03_object_wrappers_keep_labels : forall c template_ok keys it,
  forallb key_respects_modes keys = true ->
  In it (object_negatives c template_ok keys) ->
  snd c = true /\ oi_label it = Neg /\ (oi_sub it = Some Neg \/ oi_sub it = None).
Proof. exact object_wrappers_keep_labels. Qed.
Print Assumptions C03_object_wrappers_keep_labels.

(* the statement is about the context switch: iterating the sub-schema with the caller's context
   (both modes) wraps a positive sub-value as negative; and the theorem is not vacuous (8 items) *)
Theorem C03_object_wrappers_need_negative_context :
  In {| oi_label := Neg; oi_via := WPatternProperty 0; oi_sub := Some Pos |} (wrap_all_callers_ctx (true, true) WPatternProperty [sub_string])
  /\ sub_respects_modes sub_string = true
  /\ length (object_negatives (true, true) true [OKProperties [sub_string]; OKPatternProperties [sub_string]; OKRequired 1; OKAdditional AddlFalse]) = 8%nat.
Proof. exact callers_ctx_flips_labels. Qed.
Print Assumptions C03_object_wrappers_need_negative_context.

(* the "Object with unexpected properties" value is built exactly when additionalProperties is falsy
   in Python; unless it is the empty schema, that means additional properties are forbidden ... *)
Theorem C03_additional_negative_partial : forall c template_ok a it,
  a <> AddlEmptySchema -> In it (object_negatives c template_ok [OKAdditional a]) -> addl_forbids a = true.
Proof. exact additional_negative_partial. Qed.
Print Assumptions C03_additional_negative_partial.

(* F9: ... additionalProperties: {} allows everything and still gets the negative value *)
Theorem C03_additional_negative_refuted : exists c a it,
  In it (object_negatives c true [OKAdditional a]) /\ oi_label it = Neg /\ addl_forbids a = false.
Proof.
  exists (true, true), AddlEmptySchema, {| oi_label := Neg; oi_via := WAdditional; oi_sub := None |}.
  repeat split. left. reflexivity.
Qed.
Print Assumptions C03_additional_negative_refuted.

(* ---- _positive_object: the objects built by dropping optional properties keep at least
   minProperties properties when the required ones alone suffice ... ---- *)
Theorem C03_object_subset_sizes_partial : forall r o extra minp d n,
  (minp <= r)%nat -> In (d, n) (object_subset_sizes r o extra) -> (minp <= n)%nat.
Proof. exact object_subset_sizes_partial. Qed.
Print Assumptions C03_object_subset_sizes_partial.

(* F8: ... and not otherwise: minProperties is never consulted *)
Theorem C03_object_subset_sizes_refuted : exists r o minp d n,
  In (d, n) (object_subset_sizes r o false) /\ (n < minp)%nat.
Proof. exists 0%nat, 2%nat, 1%nat, OOnlyRequired, 0%nat. exact object_subset_sizes_refuted. Qed.
Print Assumptions C03_object_subset_sizes_refuted.

Theorem C03_object_subset_sizes_nonvacuous :
  object_subset_sizes 1 3 false = [(OOneOptional, 2%nat); (OOneOptional, 2%nat); (OOneOptional, 2%nat); (OSubset, 3%nat); (OOnlyRequired, 1%nat)].
Proof. exact object_subset_sizes_nonvacuous. Qed.
Print Assumptions C03_object_subset_sizes_nonvacuous.

(* ---- parameters are identified by (name, location): the subschemas of the combination blocks
   (_combination_schema, handed to _yield_negative) ---- *)
(* every subschema belongs to query, header or cookie; each of its properties carries the schema of a
   parameter DECLARED AT THAT LOCATION under that name, each required name is declared required there *)
Theorem C03_combo_subschemas_declared_at_location : forall (S : Type) pos neg (params : list (dparam S)) ss,
  In ss (combo_plan CacheNone pos neg params) ->
  (ss_loc ss = LQuery \/ ss_loc ss = LHeader \/ ss_loc ss = LCookie)
  /\ (forall n s, In (n, s) (ss_props ss) ->
        exists p, (In p params /\ dp_loc p = ss_loc ss /\ dp_name p = n) /\ dp_schema p = s)
  /\ (forall n, In n (ss_required ss) ->
        exists p, (In p params /\ dp_loc p = ss_loc ss /\ dp_name p = n) /\ dp_required p = true).
Proof. exact @combo_plan_declared. Qed.
Print Assumptions C03_combo_subschemas_declared_at_location.

(* the block of location l is a function of the parameters declared at l alone: two operations that
   agree at l (and differ anywhere else, same names included), after any earlier block *)
Theorem C03_combo_block_location_independent : forall (S : Type) pos neg (ps1 ps2 : list (dparam S)) l c1 c2,
  filter (at_loc l) ps1 = filter (at_loc l) ps2 ->
  fst (combo_subschemas_for CacheNone pos neg ps1 l c1) = fst (combo_subschemas_for CacheNone pos neg ps2 l c2).
Proof. exact @combo_block_location_independent. Qed.
Print Assumptions C03_combo_block_location_independent.

Theorem C03_combo_plan_by_location : forall (S : Type) pos neg (params : list (dparam S)),
  combo_plan CacheNone pos neg params
  = fst (combo_subschemas_for CacheNone pos neg (filter (at_loc LQuery) params) LQuery [])
    ++ fst (combo_subschemas_for CacheNone pos neg (filter (at_loc LHeader) params) LHeader [])
    ++ fst (combo_subschemas_for CacheNone pos neg (filter (at_loc LCookie) params) LCookie []).
Proof. exact @combo_plan_by_location. Qed.
Print Assumptions C03_combo_plan_by_location.

(* a cache keyed by the full identity (location, name) and shared by the three blocks changes nothing,
   as long as no identity is declared twice *)
Theorem C03_combo_cache_by_identity_safe_partial : forall (S : Type) pos neg (params : list (dparam S)),
  distinct_identities params = true ->
  combo_plan CacheByLocName pos neg params = combo_plan CacheNone pos neg params.
Proof. exact @combo_plan_locname_safe. Qed.
Print Assumptions C03_combo_cache_by_identity_safe_partial.

(* value level: every numeric negative of a combination case (Object with invalid ... value: Value
   greater than maximum / smaller than minimum) violates a keyword of the schema declared at
   (location of the block, that name), so the value does not conform to the declared schema *)
Theorem C03_combo_negative_values_violate_declared_partial :
  forall (S : Type) (keys_of : S -> list nkey) pos neg (params : list (dparam S)) ss name v d k,
  forallb (fun p => forallb numeric_key (keys_of (dp_schema p))) params = true ->
  In ss (combo_plan CacheNone pos neg params) ->
  In (name, (Some v, d, k)) (combo_negative_values keys_of ss) ->
  exists p, (In p params /\ dp_loc p = ss_loc ss /\ dp_name p = name)
            /\ In k (keys_of (dp_schema p)) /\ violates k v = true /\ conforms (keys_of (dp_schema p)) v = false.
Proof. exact @combo_negative_values_violate_declared. Qed.
Print Assumptions C03_combo_negative_values_violate_declared_partial.

(* regression sentinel (what the seeded change C03_d does): one cache keyed by the parameter NAME and
   shared by the three locations.  id is declared in query (maximum 10) and in header (no bound), no
   identity twice: the header block gets the query schema, yields 11 as Value greater than maximum for
   the header id, and 11 conforms to every schema declared for (header, id); the plan of the code does
   not contain that subschema *)
Theorem C03_combo_cache_by_name_refuted : exists (params : list (dparam (list nkey))) ss name s v d k,
  distinct_identities params = true
  /\ In ss (combo_plan CacheByName true true params)
  /\ In (name, s) (ss_props ss)
  /\ (forall p, (In p params /\ dp_loc p = ss_loc ss /\ dp_name p = name) -> dp_schema p <> s)
  /\ In (name, (Some v, d, k)) (combo_negative_values (fun s => s) ss)
  /\ (forall p, (In p params /\ dp_loc p = ss_loc ss /\ dp_name p = name) -> conforms (dp_schema p) v = true)
  /\ ~ In ss (combo_plan CacheNone true true params).
Proof.
  exists w_shared, w_shared_header_block, 0%N, [KMaximum 10], (PInt 11), NGreater, (KMaximum 10).
  exact combo_cache_by_name_refuted.
Qed.
Print Assumptions C03_combo_cache_by_name_refuted.

Theorem C03_combo_plan_hypotheses_satisfiable :
  map (fun ss => (ss_loc ss, ss_tag ss, ss_props ss, ss_required ss)) (combo_plan CacheNone true true w_shared)
  = [ (LQuery, OnlyRequired, [(0%N, [KMaximum 10])], [0%N]);
      (LQuery, OneOptional 1%N, [(0%N, [KMaximum 10]); (1%N, [KMinimum 1])], [0%N]);
      (LQuery, OneOptional 2%N, [(0%N, [KMaximum 10]); (2%N, [])], [0%N]);
      (LHeader, OnlyRequired, [(0%N, [])], [0%N]) ]
  /\ combo_plan CacheByLocName true true w_shared = combo_plan CacheNone true true w_shared
  /\ forallb (fun p => forallb numeric_key (dp_schema p)) w_shared = true
  /\ flat_map (combo_negative_values (fun s => s)) (combo_plan CacheNone true true w_shared)
     = [ (0%N, (Some (PInt 11), NGreater, KMaximum 10));
         (0%N, (Some (PInt 11), NGreater, KMaximum 10)); (1%N, (Some (PInt 0), NSmaller, KMinimum 1));
         (0%N, (Some (PInt 11), NGreater, KMaximum 10)) ].
Proof. exact combo_plan_nonvacuous. Qed.
Print Assumptions C03_combo_plan_hypotheses_satisfiable.

(* ---------------------------------------------------------------------- *)
(* _negative_type: the values presented as Incorrect type, for a type       *)
(* keyword that is a string or a list (type: [integer, null])               *)
(* ---------------------------------------------------------------------- *)

(* FULL: for every type keyword (string or list, any names, any order, repetitions), every class of
   value that any strategy consulted by _negative_type can return belongs to none of the listed types *)
Theorem C03_negative_type_values_violate :
  forall (kw : type_kw) (l : list strat) (s : strat) (k : vclass),
    negative_type_plan kw = TypePlan l -> In s l -> draws s k = true -> conforms_type kw k = false.
Proof. exact negative_type_values_violate. Qed.
Print Assumptions C03_negative_type_values_violate.

Theorem C03_negative_type_plan_depends_on_type_set :
  forall kw1 kw2 : type_kw,
    (forall t, type_in t (types_of kw1) = type_in t (types_of kw2)) ->
    negative_type_plan kw1 = negative_type_plan kw2.
Proof. exact negative_type_plan_same_set. Qed.
Print Assumptions C03_negative_type_plan_depends_on_type_set.

Theorem C03_negative_type_integer_listed_only_fractional_floats :
  forall (kw : type_kw) (l : list strat),
    type_in TInteger (types_of kw) = true -> negative_type_plan kw = TypePlan l ->
    In SFracFloats l /\ ~ In SNumeric l /\ ~ In SIntegers l.
Proof. exact negative_type_integer_listed. Qed.
Print Assumptions C03_negative_type_integer_listed_only_fractional_floats.

(* the generator ends with KeyError (del strategies[integer]) exactly when number and integer are both listed *)
Theorem C03_negative_type_plan_total_partial :
  forall kw : type_kw, not_number_and_integer kw = true <-> exists l, negative_type_plan kw = TypePlan l.
Proof. exact negative_type_plan_total. Qed.
Print Assumptions C03_negative_type_plan_total_partial.

(* regression sentinel: the float rule keyed on the raw keyword agrees with the code on every string ... *)
Theorem C03_negative_type_raw_keyword_agrees_on_strings :
  forall t : jtype, negative_type_plan_raw_keyword (TyStr t) = negative_type_plan (TyStr t).
Proof. exact raw_keyword_plan_agrees_on_strings. Qed.
Print Assumptions C03_negative_type_raw_keyword_agrees_on_strings.

(* ... and for type [integer, null] consults integers | floats: an int (0) is presented as Incorrect type *)
Theorem C03_negative_type_raw_keyword_refuted :
  exists (kw : type_kw) (l : list strat) (s : strat) (k : vclass),
    not_number_and_integer kw = true /\ negative_type_plan_raw_keyword kw = TypePlan l /\ In s l
    /\ draws s k = true /\ conforms_type kw k = true
    /\ negative_type_plan kw = TypePlan [SFracFloats; SBooleans; SText; SArrays; SObjects].
Proof. exact raw_keyword_plan_refuted_ex. Qed.
Print Assumptions C03_negative_type_raw_keyword_refuted.

Theorem C03_negative_type_hypotheses_satisfiable :
  negative_type_plan (TyStr TInteger) = TypePlan [SFracFloats; SBooleans; SNone; SText; SArrays; SObjects]
  /\ negative_type_plan (TyList [TInteger]) = TypePlan [SFracFloats; SBooleans; SNone; SText; SArrays; SObjects]
  /\ negative_type_plan (TyStr TNumber) = TypePlan [SBooleans; SNone; SText; SArrays; SObjects]
  /\ negative_type_plan (TyList [TNumber; TNull]) = TypePlan [SBooleans; SText; SArrays; SObjects]
  /\ negative_type_plan (TyList [TString; TInteger]) = TypePlan [SFracFloats; SBooleans; SNone; SArrays; SObjects]
  /\ negative_type_plan (TyList [TBoolean; TNull]) = TypePlan [SIntegers; SNumeric; SText; SArrays; SObjects]
  /\ negative_type_plan (TyList []) = TypePlan [SIntegers; SNumeric; SBooleans; SNone; SText; SArrays; SObjects]
  /\ negative_type_plan (TyList [TOther 7%N]) = TypePlan [SIntegers; SNumeric; SBooleans; SNone; SText; SArrays; SObjects]
  /\ negative_type_plan (TyList [TNumber; TInteger]) = TypeRaisesKeyError
  /\ negative_type_plan (TyList [TInteger; TNumber; TNull]) = TypeRaisesKeyError.
Proof. exact negative_type_plan_examples. Qed.
Print Assumptions C03_negative_type_hypotheses_satisfiable.

(* minLength / maxLength negatives under a type keyword: the foreign generator is asked for the DECLARED
   type(s); when only string is listed (or the keyword is absent) the drawn value is a string, so the
   requested wrong length (C03_negative_lengths_violate) makes it violate the keyword *)
Theorem C03_length_negative_is_string_partial :
  forall (declared : option type_kw) (k : vclass),
    string_only (length_request_type declared) = true ->
    conforms_type (length_request_type declared) k = true -> length_applies k = true.
Proof. exact length_negative_string_only. Qed.
Print Assumptions C03_length_negative_is_string_partial.

(* F11: type [string, null] with maxLength: the request admits null, which no length keyword constrains *)
Theorem C03_length_negative_type_list_refuted :
  exists (declared : option type_kw) (k : vclass),
    conforms_type (length_request_type declared) k = true /\ length_applies k = false
    /\ string_only (length_request_type declared) = false.
Proof. exact length_negative_type_list_refuted. Qed.
Print Assumptions C03_length_negative_type_list_refuted.

Theorem C03_length_negative_hypotheses_satisfiable : string_only (length_request_type None) = true.
Proof. exact length_negative_absent_type_is_string_only. Qed.
Print Assumptions C03_length_negative_hypotheses_satisfiable.

(* ---- magnitude: the integer kernel of the Minimum value is exact for integers of ANY size ---- *)

(* for every lower bound y and every positive step x (no bound on their size) the kernel returns the least multiple
   of x that is at least y: y <= r < y + x and r mod x = 0 *)
Theorem C03_closest_multiple_is_least_multiple_at_least :
  forall y x, 0 < x -> least_multiple_at_least y x (closest_multiple_greater_than y x) = true.
Proof. exact cmgt_least_multiple. Qed.
Print Assumptions C03_closest_multiple_is_least_multiple_at_least.

(* and it is the only such number: any kernel that meets the specification equals this one, at every magnitude *)
Theorem C03_closest_multiple_characterised :
  forall y x r, 0 < x -> (least_multiple_at_least y x r = true <-> r = closest_multiple_greater_than y x).
Proof. exact cmgt_characterised. Qed.
Print Assumptions C03_closest_multiple_characterised.

(* the Minimum value and the Near-boundary value one step above it are multiples at or above the lower bound *)
Theorem C03_minimum_value_valid_at_any_magnitude :
  forall minimum m, 0 < m ->
    let v := closest_multiple_greater_than minimum m in minimum <= v /\ v mod m = 0 /\ (v + m) mod m = 0.
Proof. exact cmgt_minimum_value_valid. Qed.
Print Assumptions C03_minimum_value_valid_at_any_magnitude.

(* sentinel: the same kernel through true (binary64) division, x * ceil(y / x): above 2^53 the quotient is rounded
   before the ceil and the result falls BELOW the lower bound (2^53 + 1 step 1; 10^18 + 1 step 10; 2^63 - 1 step 3)
   or far above it (- 2^63 + 1 step 3), where the exact kernel is right *)
Theorem C03_closest_multiple_float53_refuted :
  closest_multiple_float53 (2 ^ 53 + 1) 1 = 2 ^ 53
  /\ closest_multiple_float53 1000000000000000001 10 = 1000000000000000000
  /\ closest_multiple_float53 (2 ^ 63 - 1) 3 = 2 ^ 63 - 512
  /\ closest_multiple_float53 (- (2 ^ 63) + 1) 3 = - (2 ^ 63) + 512
  /\ least_multiple_at_least (2 ^ 53 + 1) 1 (closest_multiple_float53 (2 ^ 53 + 1) 1) = false
  /\ least_multiple_at_least 1000000000000000001 10 (closest_multiple_float53 1000000000000000001 10) = false
  /\ closest_multiple_greater_than (2 ^ 53 + 1) 1 = 2 ^ 53 + 1
  /\ closest_multiple_greater_than 1000000000000000001 10 = 1000000000000000010.
Proof. exact float53_refuted. Qed.
Print Assumptions C03_closest_multiple_float53_refuted.

(* the sentinel differs only at large magnitudes: equal on -400..400 x 1..60 and on the 41 integers just below
   2^53 / just above -2^53 with the steps 1, 3, 10, 2^20 (bounds in the statement, closed by computation) *)
Theorem C03_closest_multiple_float53_agrees_small :
  float53_agrees_on (zrange (-400) 801) (zrange 1 60) = true
  /\ float53_agrees_on (zrange (2 ^ 53 - 40) 41 ++ zrange (- (2 ^ 53)) 41) [1; 3; 10; 1048576] = true.
Proof. split; [exact float53_agrees_small_grid | exact float53_agrees_below_2_53]. Qed.
Print Assumptions C03_closest_multiple_float53_agrees_small.

(* ---- an "Unspecified HTTP method" case (labelled negative) uses a method that the RESOLVED path item does not document,
   whether the path item is written in place or shared through `$ref`; and every undocumented method of the universe gets
   such a case ---- *)
Theorem C03_unspecified_method_case_is_undocumented : forall T p c,
  In c (method_cases T (unspecified_methods p)) ->
  exists m, c_kind c = KMethod m /\ c_mode c = Neg /\ In m all_methods /\ ~ In m (resolved_methods p).
Proof. exact unspecified_method_case_undocumented. Qed.
Print Assumptions C03_unspecified_method_case_is_undocumented.

Theorem C03_unspecified_method_cases_complete : forall T p m,
  In m all_methods -> ~ In m (resolved_methods p) ->
  In (mk_case (KMethod m) Neg (unmodified T)) (method_cases T (unspecified_methods p)).
Proof. exact unspecified_method_case_complete. Qed.
Print Assumptions C03_unspecified_method_cases_complete.

(* sentinel: the documented set read off the RAW path item (whose only key is `$ref` when the item is shared): GET is
   documented and still counted as unspecified; on a path item written in place the two agree *)
Theorem C03_unspecified_method_raw_keys_refuted :
  In 1%N (resolved_methods (PRef [1; 5; 0]%N)) /\ In 1%N (unspecified_methods_raw (PRef [1; 5; 0]%N))
  /\ unspecified_methods (PRef [1; 5; 0]%N) = [2; 3; 4; 6]%N
  /\ unspecified_methods_raw (PInline [1; 5; 0]%N) = unspecified_methods (PInline [1; 5; 0]%N).
Proof. exact unspecified_method_raw_refuted. Qed.
Print Assumptions C03_unspecified_method_raw_keys_refuted.
