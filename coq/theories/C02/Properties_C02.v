(* C02 property theorems only.  Each is closed by [exact] of a lemma of Proofs_C02
   and followed by Print Assumptions.  Foreign code (Hypothesis draws, python-jsonschema on
   sub-schemas, canonicalish) enters as universally quantified arguments. *)
From Coq Require Import List NArith ZArith Bool.
From Verif Require Import Common.Str Common.Json C02.Model_C02 C02.Proofs_C02.
Import ListNotations.

(* ===== Part A: labels of openapi_cases ===== *)

(* a case produced in negative mode is labelled negative and has a component that is labelled
   negative and counts as generated (ValueContainer.is_generated) *)
Theorem C02_case_has_negative_part : forall modes i lbl,
  label_case Neg modes i = Case lbl ->
  case_mode lbl = Neg /\ exists p, In p (parts lbl) /\ p_label p = Some Neg /\ is_generated p = true.
Proof. exact case_has_negative_part. Qed.
Print Assumptions C02_case_has_negative_part.

(* ... and that component is present, unless the body was drawn as NOT_SET *)
Theorem C02_case_has_present_negative_part_partial : forall modes i lbl,
  body_value_present i = true -> label_case Neg modes i = Case lbl ->
  exists p, In p (parts lbl) /\ p_label p = Some Neg /\ p_present p = true.
Proof. exact case_has_present_negative_part. Qed.
Print Assumptions C02_case_has_present_negative_part_partial.

(* finding F2: an optional body drawn as NOT_SET is the negated value of a case in which nothing is present *)
Theorem C02_case_has_present_negative_part_refuted : exists i,
  draws_fit Neg i = true /\
  exists lbl, label_case Neg [Neg] i = Case lbl /\ case_mode lbl = Neg /\ forall p, In p (parts lbl) -> p_present p = false.
Proof. exists i_notset_body. exact case_has_present_negative_part_refuted. Qed.
Print Assumptions C02_case_has_present_negative_part_refuted.

(* every part labelled negative is present: when every location has parameters and the body is not NOT_SET *)
Theorem C02_negative_parts_present_partial : forall modes i lbl p,
  all_have_params i = true -> draws_fit Neg i = true -> body_value_present i = true ->
  label_case Neg modes i = Case lbl -> In p (parts lbl) -> p_label p = Some Neg -> p_present p = true.
Proof. exact negative_parts_present. Qed.
Print Assumptions C02_negative_parts_present_partial.

(* finding F1: locations without parameters are labelled negative although absent *)
Theorem C02_negative_parts_present_refuted_absent_location : exists i,
  draws_fit Neg i = true /\
  exists lbl, label_case Neg [Neg] i = Case lbl /\
    comp lbl CPath = Some Neg /\ present lbl CPath = false /\
    comp lbl CHeaders = Some Neg /\ present lbl CHeaders = false /\
    comp lbl CCookies = Some Neg /\ present lbl CCookies = false.
Proof. exists i_query_only. exact negative_parts_present_refuted_absent_location. Qed.
Print Assumptions C02_negative_parts_present_refuted_absent_location.

Theorem C02_negative_parts_present_refuted_notset_body : exists i,
  draws_fit Neg i = true /\ all_have_params i = false /\
  exists lbl, label_case Neg [Neg] i = Case lbl /\ comp lbl CBody = Some Neg /\ present lbl CBody = false.
Proof. exists i_notset_body. exact negative_parts_present_refuted_notset_body. Qed.
Print Assumptions C02_negative_parts_present_refuted_notset_body.

(* a part is labelled positive only if it was drawn from the positive strategy, never labelled negative if it was;
   a present part labelled negative was drawn from negative_schema(...).filter(not valid) *)
Theorem C02_labels_follow_strategy : forall modes i lbl p,
  label_case Neg modes i = Case lbl -> In p (parts lbl) ->
  (p_label p = Some Pos -> p_strategy p = SPos) /\
  (p_label p = Some Neg -> p_strategy p <> SPos) /\
  (draws_fit Neg i = true -> p_label p = Some Neg -> p_present p = true -> p_strategy p = SNeg).
Proof. exact labels_follow_strategy. Qed.
Print Assumptions C02_labels_follow_strategy.

(* with the contract of the foreign strategies (gen_valid k = the generated part of component k is valid for the
   schema its strategy was built from): present negative parts are invalid, positive parts valid, before serialisation *)
Theorem C02_labelled_parts_valid_as_labelled : forall (gen_valid : ckind -> bool) modes i lbl,
  label_case Neg modes i = Case lbl -> draws_fit Neg i = true ->
  (forall p, In p (parts lbl) -> p_strategy p = SNeg -> gen_valid (p_kind p) = false) ->
  (forall p, In p (parts lbl) -> p_strategy p = SPos -> gen_valid (p_kind p) = true) ->
  forall p, In p (parts lbl) ->
    (p_label p = Some Neg -> p_present p = true -> gen_valid (p_kind p) = false) /\
    (p_label p = Some Pos -> gen_valid (p_kind p) = true).
Proof. exact labelled_parts_valid_as_labelled. Qed.
Print Assumptions C02_labelled_parts_valid_as_labelled.

(* without explicit arguments: skipped (modes = [negative]) / rejected (mixed modes) exactly when nothing is
   negatable in the eyes of can_negate_path_parameters / can_negate_headers / can_negate, a case otherwise *)
Theorem C02_skip_iff_nothing_negatable : forall i,
  no_explicit i = true -> draws_fit Neg i = true -> body_serializable i = true ->
  (label_case Neg [Neg] i = Skip <-> negatable_shape i = false) /\
  (forall modes, modes_only_negative modes = false -> (label_case Neg modes i = Reject <-> negatable_shape i = false)) /\
  (forall modes, negatable_shape i = true -> exists lbl, label_case Neg modes i = Case lbl).
Proof. exact skip_iff_nothing_negatable. Qed.
Print Assumptions C02_skip_iff_nothing_negatable.

Theorem C02_skip_iff_hypotheses_satisfiable : exists i1 i2,
  (no_explicit i1 = true /\ draws_fit Neg i1 = true /\ body_serializable i1 = true /\ negatable_shape i1 = true) /\
  (no_explicit i2 = true /\ draws_fit Neg i2 = true /\ body_serializable i2 = true /\ negatable_shape i2 = false /\
   label_case Neg [Neg] i2 = Skip /\ label_case Neg [Pos; Neg] i2 = Reject).
Proof. exists i_query_only, i_string_header. exact skip_iff_nonvacuous. Qed.
Print Assumptions C02_skip_iff_hypotheses_satisfiable.

(* finding F6: with an explicit argument a negatable operation can be skipped *)
Theorem C02_negatable_gets_cases_refuted_explicit : exists i,
  draws_fit Neg i = true /\ body_serializable i = true /\ negatable_shape i = true /\
  strategy_of Neg LHeader (i_header i) = SNeg /\ label_case Neg [Neg] i = Skip.
Proof. exists i_explicit_empty. exact negatable_gets_cases_refuted_explicit. Qed.
Print Assumptions C02_negatable_gets_cases_refuted_explicit.

(* ===== Part B: the mutations, for every validity function of sub-schemas ===== *)

Theorem C02_negate_constraints_sound_partial : forall sub_valid c s ch m v,
  negate_constraints c false s ch = Some m -> negate_region s m = true ->
  valid sub_valid m v = true -> valid_kws sub_valid s v = false.
Proof. exact negate_constraints_sound. Qed.
Print Assumptions C02_negate_constraints_sound_partial.

(* additionalProperties moved under not loses its properties: the mutated schema accepts valid values *)
Theorem C02_negate_constraints_sound_refuted : exists c s ch m v,
  negate_constraints c false s ch = Some m /\ valid sv_true m v = true /\ valid_kws sv_true s v = true.
Proof. exists query_ctx, s_closed, ch_n0, m_closed_neg, v_a1. exact negate_constraints_sound_refuted_w. Qed.
Print Assumptions C02_negate_constraints_sound_refuted.

Theorem C02_change_type_sound_partial : forall sub_valid c m ch m' v,
  change_type c m ch = Some m' -> change_type_region m m' = true ->
  valid sub_valid m' v = true -> valid sub_valid m v = false.
Proof. exact change_type_sound. Qed.
Print Assumptions C02_change_type_sound_partial.

(* number can be changed to integer *)
Theorem C02_change_type_sound_refuted : exists c m ch m' v,
  change_type c m ch = Some m' /\ valid sv_true m' v = true /\ valid sv_true m v = true.
Proof. exists body_ctx, (plain [KType [TNum]]), ch_t2, (plain [KType [TInt]]), (JInt 1). exact change_type_sound_refuted_w. Qed.
Print Assumptions C02_change_type_sound_refuted.

Theorem C02_remove_required_sound_partial : forall sub_valid m ch m' v,
  remove_required_property m ch = Some m' -> closed_object m = true ->
  valid sub_valid m' v = true -> valid sub_valid m v = false.
Proof. exact remove_required_sound. Qed.
Print Assumptions C02_remove_required_sound_partial.

(* in an open object the removed property comes back as an additional one *)
Theorem C02_remove_required_sound_refuted : exists m ch m' v,
  remove_required_property m ch = Some m' /\ valid sv_true m' v = true /\ valid sv_true m v = true.
Proof. exists (plain s_open), ch_r0, (plain [KType [TObj]]), v_a1. exact remove_required_sound_refuted_w. Qed.
Print Assumptions C02_remove_required_sound_refuted.

Theorem C02_soundness_hypotheses_satisfiable :
  (exists m, negate_constraints body_ctx false s_bounded {| n_idx := 1; n_enabled := [] |} = Some m /\
     negate_region s_bounded m = true /\ valid sv_true m (JInt 10) = true /\ valid_kws sv_true s_bounded (JInt 10) = false) /\
  (exists m', change_type body_ctx (plain s_bounded) {| t_idx1 := 5; t_enabled := [TNull]; t_idx2 := 1 |} = Some m' /\
     change_type_region (plain s_bounded) m' = true /\ valid sv_true m' JNull = true) /\
  (exists m', remove_required_property (plain (KAddProps false :: s_open)) {| r_idx1 := 0; r_enabled := []; r_idx2 := 0 |} = Some m' /\
     closed_object (plain (KAddProps false :: s_open)) = true /\ valid sv_true m' (JObj []) = true).
Proof. exact soundness_nonvacuous. Qed.
Print Assumptions C02_soundness_hypotheses_satisfiable.

(* finding F4: a string path parameter is claimed negatable, the negative strategy is chosen, no mutation applies *)
Theorem C02_path_string_claimed_negatable_refuted :
  can_negate_path [(nm_id, PStrOnly)] = true /\
  (forall d, strategy_of Neg LPath {| l_params := [(nm_id, PStrOnly)]; l_explicit := ENotSet; l_draw := d |} = SNeg) /\
  (forall ch, negate_constraints path_ctx false s_path_string ch = None) /\
  (forall ch, change_type path_ctx (plain s_path_string) ch = None) /\
  (forall ch, remove_required_property (plain s_path_string) ch = None).
Proof. exact path_string_claimed_negatable_refuted. Qed.
Print Assumptions C02_path_string_claimed_negatable_refuted.

(* finding F5: a required string header is a skip although omitting it is a sound negation *)
Theorem C02_required_string_header_skipped_refuted :
  fallback LHeader [(nm_xa, PStrOnly)] = true /\
  no_explicit i_string_header = true /\ draws_fit Neg i_string_header = true /\
  label_case Neg [Neg] i_string_header = Skip /\
  exists m', remove_required_property (plain s_required_header) {| r_idx1 := 0; r_enabled := []; r_idx2 := 0 |} = Some m' /\
    valid sv_true m' (JObj []) = true /\
    forall sv v, valid sv m' v = true -> valid sv (plain s_required_header) v = false.
Proof. exact required_string_header_skipped_refuted. Qed.
Print Assumptions C02_required_string_header_skipped_refuted.

(* ===== Part C: the wire form ===== *)

(* a non-string value of the wrong type stays invalid as text; a string stays invalid iff it is outside the lexical space *)
Theorem C02_invalid_survives_coercion_partial : forall t v w,
  coercion_safe t v = true -> valid_prim t v = false -> coerce v = Some w -> wire_valid t w = false.
Proof. exact invalid_survives_coercion. Qed.
Print Assumptions C02_invalid_survives_coercion_partial.

(* finding F3 *)
Theorem C02_invalid_survives_coercion_refuted : exists t v w,
  valid_prim t v = false /\ coerce v = Some w /\ wire_valid t w = true.
Proof. exists PInt, (JStr [53%N]), [53%N]. exact invalid_survives_coercion_refuted_w. Qed.
Print Assumptions C02_invalid_survives_coercion_refuted.

Theorem C02_coercion_hypotheses_satisfiable :
  coercion_safe PInt (JBool true) = true /\ valid_prim PInt (JBool true) = false /\ coerce (JBool true) = Some s_true /\
  coercion_safe PBool (JInt (-12)) = true /\ coerce (JInt (-12)) = Some [45; 49; 50]%N /\ wire_valid PInt [45; 49; 50]%N = true.
Proof. exact coercion_nonvacuous. Qed.
Print Assumptions C02_coercion_hypotheses_satisfiable.

(* ===== exclusion of explicitly supplied parameters (get_parameters_strategy) ===== *)

(* after popping the explicit names from the location schema, neither required nor properties mention any of them,
   and every other name is required / declared exactly as before *)
Theorem C02_exclusion_clears_required : forall names s ns,
  required_of s = Some ns -> unique_strs ns = true ->
  exists ns', required_of (exclude_names names s) = Some ns' /\ unique_strs ns' = true /\
    (forall n, smem n names = true -> smem n ns' = false /\ assoc_mem n (props_of (exclude_names names s)) = false) /\
    (forall n, smem n names = false ->
       smem n ns' = smem n ns /\ assoc_mem n (props_of (exclude_names names s)) = assoc_mem n (props_of s)).
Proof. exact exclusion_clears. Qed.
Print Assumptions C02_exclusion_clears_required.

Theorem C02_exclusion_hypotheses_satisfiable :
  required_of s_filter_limit = Some [nm_filter] /\ unique_strs [nm_filter] = true /\
  exclude_names [nm_filter] s_filter_limit =
    [KProps [(nm_limit, JObj [(n_type, JStr n_integer)])]; KAddProps false; KType [TObj]; KRequired []] /\
  valid sub_valid_simple (plain (exclude_names [nm_filter] s_filter_limit)) (JObj [(nm_limit, JInt 0%Z)]) = true.
Proof. exact exclusion_nonvacuous. Qed.
Print Assumptions C02_exclusion_hypotheses_satisfiable.

(* ===== Part D: header / cookie negatability from the schema as declared
         (added after the seeded regression C02_c_string_headers_never_negatable) ===== *)

(* the class the label algebra uses for a header / cookie is PStrOnly exactly when the converted property schema
   (keyword filter, parameter-level examples, nullable, type file, default type string) is the dict {type: string} *)
Theorem C02_header_class_bare_iff : forall v2 decl exs,
  header_class v2 decl exs = PStrOnly <-> header_prop_schema v2 decl exs = bare_string.
Proof. exact header_class_bare_iff. Qed.
Print Assumptions C02_header_class_bare_iff.

(* whatever a text value can violate (a declared non-string type, enum, pattern, positive minLength, maxLength, format)
   is claimed negatable by can_negate_headers: for every declared schema, both dialects, any parameter-level examples *)
Theorem C02_violable_header_claimed_negatable : forall v2 decl exs,
  header_value_violable decl = true -> header_class v2 decl exs = POther.
Proof. exact violable_header_claimed_negatable. Qed.
Print Assumptions C02_violable_header_claimed_negatable.

(* the direction of the property the seed breaks: an operation one of whose headers (cookies) can be violated by a
   text value gets negative cases for every value of generation.modes - never Skip, never Reject - the location is
   drawn from the negative strategy, labelled negative and present; whatever else the operation contains *)
Theorem C02_violable_header_gets_negative_cases : forall k v2 hs i,
  is_header_location k = true ->
  l_params (i_loc k i) = header_params v2 hs ->
  existsb value_violable_h hs = true ->
  no_explicit i = true -> draws_fit Neg i = true -> body_serializable i = true ->
  strategy_of Neg k (i_loc k i) = SNeg /\
  forall modes, exists lbl, label_case Neg modes i = Case lbl /\
    comp lbl (ckind_of k) = Some Neg /\ present lbl (ckind_of k) = true.
Proof. exact violable_header_gets_negative_cases. Qed.
Print Assumptions C02_violable_header_gets_negative_cases.

Theorem C02_violable_header_hypotheses_satisfiable :
  (l_params (i_loc LHeader i_mode) = header_params false [hp nm_xmode d_enum true] /\
   existsb value_violable_h [hp nm_xmode d_enum true] = true /\
   no_explicit i_mode = true /\ draws_fit Neg i_mode = true /\ body_serializable i_mode = true) /\
  (l_params (i_loc LCookie i_theme) = header_params false [hp nm_theme d_pattern false] /\
   existsb value_violable_h [hp nm_theme d_pattern false] = true /\
   no_explicit i_theme = true /\ draws_fit Neg i_theme = true /\ body_serializable i_theme = true).
Proof. exact violable_header_nonvacuous. Qed.
Print Assumptions C02_violable_header_hypotheses_satisfiable.

(* inside the region plain_header the code own predicate and the independent reading coincide *)
Theorem C02_plain_header_class_iff : forall v2 decl,
  plain_header v2 decl = true ->
  (header_class v2 decl [] = PStrOnly <-> header_value_violable decl = false).
Proof. exact plain_header_class_iff. Qed.
Print Assumptions C02_plain_header_class_iff.

(* skip iff nothing can be violated, stated with the independent predicate header_violable (omission of a required
   parameter or a violable value), for operations made of headers and cookies only; region plain_hparam: plain declared
   schema, no parameter-level example, optional.  Outside the region: F5 (required) and F7 (kept annotation) *)
Theorem C02_skip_iff_no_violable_header_partial : forall v2 hs cs i,
  l_params (i_header i) = header_params v2 hs -> l_params (i_cookie i) = header_params v2 cs ->
  only_headers i = true -> forallb (plain_hparam v2) (hs ++ cs) = true ->
  no_explicit i = true -> draws_fit Neg i = true -> body_serializable i = true ->
  (label_case Neg [Neg] i = Skip <-> existsb header_violable (hs ++ cs) = false) /\
  (forall modes, modes_only_negative modes = false ->
     (label_case Neg modes i = Reject <-> existsb header_violable (hs ++ cs) = false)) /\
  (forall modes, existsb header_violable (hs ++ cs) = true -> exists lbl, label_case Neg modes i = Case lbl).
Proof. exact skip_iff_no_violable_header. Qed.
Print Assumptions C02_skip_iff_no_violable_header_partial.

Theorem C02_skip_iff_headers_hypotheses_satisfiable :
  (only_headers i_described = true /\ forallb (plain_hparam false) ([hp nm_xa d_described false] ++ [hp nm_theme d_bare false]) = true /\
   no_explicit i_described = true /\ draws_fit Neg i_described = true /\ body_serializable i_described = true /\
   existsb header_violable ([hp nm_xa d_described false] ++ [hp nm_theme d_bare false]) = false /\
   label_case Neg [Neg] i_described = Skip /\ label_case Neg [Pos; Neg] i_described = Reject) /\
  (only_headers i_theme = true /\ forallb (plain_hparam false) ([] ++ [hp nm_theme d_pattern false]) = true /\
   existsb header_violable ([] ++ [hp nm_theme d_pattern false]) = true /\
   exists lbl, label_case Neg [Neg] i_theme = Case lbl /\ comp lbl CCookies = Some Neg).
Proof. exact skip_iff_headers_nonvacuous. Qed.
Print Assumptions C02_skip_iff_headers_hypotheses_satisfiable.

(* finding F7: a string header carrying only an annotation that the converter keeps (example) cannot be violated, yet it
   is claimed negatable: the negative strategy is chosen, the operation is never a skip, and at the level of the location
   schema neither negate_constraints nor remove_required_property applies (the run ends in Unsatisfiable) *)
Theorem C02_skip_iff_no_violable_header_refuted_annotation :
  header_violable (hp nm_xa d_example false) = false /\
  header_class false d_example [] = POther /\ header_class true d_example [] = POther /\
  header_class false d_bare [JStr [120%N]] = POther /\
  only_headers (i_example DNone) = true /\ no_explicit (i_example DNone) = true /\
  (forall d, strategy_of Neg LHeader (i_header (i_example d)) = SNeg) /\
  (forall d, draws_fit Neg (i_example d) = true ->
     label_case Neg [Neg] (i_example d) <> Skip /\ exists lbl, label_case Neg [Neg] (i_example d) = Case lbl) /\
  (forall ch, negate_constraints header_ctx false s_example_location ch = None) /\
  (forall ch, remove_required_property (plain s_example_location) ch = None).
Proof. exact annotated_header_not_skipped_refuted. Qed.
Print Assumptions C02_skip_iff_no_violable_header_refuted_annotation.

(* ===== Part E: the query on the wire (containers; the guard is_non_empty_query of the query filter) ===== *)

(* the guard of the code is sound for every query dict: a value it lets through is sent with at least one key=value pair,
   after jsonify_python_specific_types, the empty-dict rewriting of the transport and the encoding of requests *)
Theorem C02_query_guard_sound : forall q, is_non_empty_query q = true -> wire_count q <> 0%nat.
Proof. exact query_guard_sound. Qed.
Print Assumptions C02_query_guard_sound.

(* it rejects exactly the values whose wire form is empty, where no top-level value is None or the empty dict ... *)
Theorem C02_query_guard_exact_partial : forall q, no_none_or_empty_dict q = true ->
  is_non_empty_query q = negb (Nat.eqb (wire_count q) 0).
Proof. exact query_guard_exact. Qed.
Print Assumptions C02_query_guard_exact_partial.

(* ... and over-rejects those two (sent as a=null and a=, the guard reads the raw value): lost cases, not a wrong label *)
Theorem C02_query_guard_exact_refuted :
  is_non_empty_query q_top_none = false /\ wire_count q_top_none = 1%nat /\ query_wire q_top_none = Some [(k_a, s_null)] /\
  is_non_empty_query [(k_a, JObj [])] = false /\ query_wire [(k_a, JObj [])] = Some [(k_a, [])].
Proof. exact query_guard_exact_refuted. Qed.
Print Assumptions C02_query_guard_exact_refuted.

(* the property for the query location ON THE WIRE: a value that passes the filter of negative_schema (guard of the code,
   invalid for the location schema) and whose offending entries survive is sent with a non-empty query string that the
   declared schema, read by a server from the text, rejects *)
Theorem C02_negative_query_on_wire_partial : forall d q ps,
  passes_query_filter is_non_empty_query d q = true -> query_survives d q = true -> query_wire q = Some ps ->
  ps <> [] /\ wire_valid_query d ps = false.
Proof. exact negative_query_on_wire. Qed.
Print Assumptions C02_negative_query_on_wire_partial.

(* the number of pairs is the one the guard theorem speaks of *)
Theorem C02_query_wire_length : forall q ps, query_wire q = Some ps -> length ps = wire_count q.
Proof. exact query_wire_len. Qed.
Print Assumptions C02_query_wire_length.

(* scalar values inside the coercion region of Part C are inside the region *)
Theorem C02_scalar_query_survives : forall d q, scalar_query_safe d q = true -> query_survives d q = true.
Proof. exact scalar_query_survives. Qed.
Print Assumptions C02_scalar_query_survives.

(* finding F8: an undeclared name with an empty list (or a list of None) sends nothing; limit=5 alone is a valid query *)
Theorem C02_negative_query_on_wire_refuted_dropped_entry :
  passes_query_filter is_non_empty_query d_limit q_vanishing = true /\ entry_dropped q_vanishing = true /\
  query_wire q_vanishing = Some [(k_limit, [53%N])] /\ wire_valid_query d_limit [(k_limit, [53%N])] = true.
Proof. exact negative_query_on_wire_refuted_dropped. Qed.
Print Assumptions C02_negative_query_on_wire_refuted_dropped_entry.

(* finding F3 with containers: limit = [None, 1] is sent as limit=1 *)
Theorem C02_negative_query_on_wire_refuted_none_item :
  passes_query_filter is_non_empty_query d_limit q_none_and_one = true /\ entry_dropped q_none_and_one = false /\
  query_wire q_none_and_one = Some [(k_limit, [49%N])] /\ wire_valid_query d_limit [(k_limit, [49%N])] = true.
Proof. exact negative_query_on_wire_refuted_none_item. Qed.
Print Assumptions C02_negative_query_on_wire_refuted_none_item.

(* sentinel, NOT the code: a guard that counts every None as the text null lets limit = [None] through the filter;
   nothing is sent, and nothing is a valid query when limit is optional.  The guard of the code rejects it. *)
Theorem C02_query_guard_none_as_null_sentinel_refuted :
  passes_query_filter is_non_empty_query_none_as_null d_limit q_list_of_none = true /\
  query_wire q_list_of_none = Some [] /\ wire_valid_query d_limit [] = true /\
  passes_query_filter is_non_empty_query d_limit q_list_of_none = false.
Proof. exact none_as_null_guard_refuted. Qed.
Print Assumptions C02_query_guard_none_as_null_sentinel_refuted.

Theorem C02_query_on_wire_hypotheses_satisfiable :
  passes_query_filter is_non_empty_query d_two q_survivor = true /\ query_survives d_two q_survivor = true /\
  query_wire q_survivor = Some [(k_limit, [49%N]); (k_limit, [50%N]); (k_zz, [78; 111; 110; 101]%N); (k_a, s_true)] /\
  no_none_or_empty_dict q_survivor = true /\
  scalar_query_safe d_two [(k_limit, JBool false); (k_zz, JNull)] = true /\
  passes_query_filter is_non_empty_query d_two [(k_limit, JBool false); (k_zz, JNull)] = true.
Proof. exact query_on_wire_nonvacuous. Qed.
Print Assumptions C02_query_on_wire_hypotheses_satisfiable.

(* finding F9: C02_query_guard_sound is about parameters without a serializer.  For a declared object parameter with
   explode true the serializer extracted_object runs after the guard: the guard sees f=x, the members are sent instead,
   and x = [None] sends nothing: no query string at all *)
Theorem C02_query_guard_sound_refuted_exploded_object :
  is_non_empty_query q_exploded = true /\ extracted_object k_f q_exploded = [(k_x, JArr [JNull])] /\
  wire_count (extracted_object k_f q_exploded) = 0%nat /\ query_wire (extracted_object k_f q_exploded) = Some [] /\
  wire_count q_exploded = 1%nat.
Proof. exact query_guard_sound_refuted_exploded. Qed.
Print Assumptions C02_query_guard_sound_refuted_exploded_object.

(* ===== Part F: the validator behind the guard of negative_schema reads the schema as Draft 4 (boolean exclusives) ===== *)
(* inside the numeric fragment (type, integer minimum / maximum, BOOLEAN exclusiveMinimum / exclusiveMaximum in any
   combination and key order, annotations) the keyword dispatch of the validator of the code is the validity of the
   schema as declared (OpenAPI 2.0 / 3.0 = Draft 4: the exclusive flags modify their bound, false = absent, a flag
   without its bound says nothing) *)
Theorem C02_guard_validator_is_draft4 : forall schema v,
  num_fragment schema = true -> guard_is_valid Draft4 schema v = declared_valid schema v.
Proof. exact guard_validator_is_draft4. Qed.
Print Assumptions C02_guard_validator_is_draft4.

(* hence a value that passes the guard (is emitted, labelled negative) is invalid for the declared schema *)
Theorem C02_guard_kept_value_invalid : forall schema v,
  num_fragment schema = true -> guard_keeps Draft4 schema v = true -> declared_valid schema v = false.
Proof. exact guard_kept_value_invalid. Qed.
Print Assumptions C02_guard_kept_value_invalid.

(* the same for a parameter location (properties / required / additionalProperties false) whose members are in the fragment *)
Theorem C02_location_guard_kept_value_invalid : forall props req q,
  forallb (fun p => num_fragment (snd p)) props = true ->
  location_guard_keeps Draft4 props req q = true -> location_is_valid declared_valid props req q = false.
Proof. exact location_guard_kept_value_invalid. Qed.
Print Assumptions C02_location_guard_kept_value_invalid.

Theorem C02_guard_hypotheses_satisfiable :
  num_fragment s_ratio = true /\ guard_keeps Draft4 s_ratio (JInt 0) = true /\ guard_keeps Draft4 s_ratio (JInt 11) = true /\
  guard_keeps Draft4 s_ratio (JInt 10) = false /\ guard_keeps Draft4 s_ratio (JStr []) = true /\
  num_fragment s_limit = true /\ guard_keeps Draft4 s_limit (JInt 51) = true /\ guard_keeps Draft4 s_limit (JInt 0) = false /\
  forallb (fun p => num_fragment (snd p)) [(k_limit, s_limit)] = true /\
  location_guard_keeps Draft4 [(k_limit, s_limit)] [k_limit] [(k_limit, JInt (-1))] = true /\
  location_guard_keeps Draft4 [(k_limit, s_limit)] [k_limit] [] = true.
Proof. exact guard_draft4_nonvacuous. Qed.
Print Assumptions C02_guard_hypotheses_satisfiable.

(* sentinel, NOT the code: a validator of a later draft (numeric exclusive keywords, True / False compared as 1 / 0)
   keeps values that are valid for the declared schema: 0 for maximum 100 + exclusiveMaximum false, 1 for
   minimum 0 + exclusiveMinimum true, limit = 26 for the query location; the Draft 4 guard of the code rejects all three *)
Theorem C02_guard_draft7_sentinel_refuted :
  num_fragment s_max_false = true /\ guard_keeps Draft7 s_max_false (JInt 0) = true /\
  declared_valid s_max_false (JInt 0) = true /\ guard_keeps Draft4 s_max_false (JInt 0) = false /\
  num_fragment s_ratio = true /\ guard_keeps Draft7 s_ratio (JInt 1) = true /\
  declared_valid s_ratio (JInt 1) = true /\ guard_keeps Draft4 s_ratio (JInt 1) = false /\
  location_guard_keeps Draft7 [(k_limit, s_limit)] [k_limit] [(k_limit, JInt 26)] = true /\
  location_is_valid declared_valid [(k_limit, s_limit)] [k_limit] [(k_limit, JInt 26)] = true /\
  location_guard_keeps Draft4 [(k_limit, s_limit)] [k_limit] [(k_limit, JInt 26)] = false.
Proof. exact guard_draft7_sentinel_refuted. Qed.
Print Assumptions C02_guard_draft7_sentinel_refuted.
