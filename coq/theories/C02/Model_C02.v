(* C02 model.  Executable definitions only.
   Part A: the label algebra of openapi_cases (specs/openapi/_hypothesis.py) as a total
           function from an abstract operation shape + the values returned by draw to
           outcome + labels.
   Part B: negate_constraints / change_type / remove_required_property of
           specs/openapi/negative/mutations.py on a Draft-4 fragment, with a validity function.
   Part C: string coercion of non-body parameter values (the wire form). *)
From Coq Require Import List NArith ZArith Bool.
From Verif Require Import Common.Str Common.Json.
Import ListNotations.

(* =====================================================================================
   Part A.  openapi_cases
   ===================================================================================== *)
Inductive gmode := Pos | Neg.
Definition gmode_eqb (a b : gmode) : bool :=
  match a, b with Pos, Pos | Neg, Neg => true | _, _ => false end.

(* class of one parameter schema as the two can_negate_* predicates see it:
   PTop      canonicalish(schema) == {}   (can_negate(schema) is False)
   PStrOnly  schema == {type: string} exactly
   POther    anything else *)
Inductive pclass := PTop | PStrOnly | POther.
Definition is_top (c : pclass) : bool := match c with PTop => true | _ => false end.
Definition is_stronly (c : pclass) : bool := match c with PStrOnly => true | _ => false end.

Inductive lkind := LPath | LHeader | LCookie | LQuery.
Definition is_header_location (k : lkind) : bool :=
  match k with LHeader | LCookie => true | _ => false end.

(* a dict of parameter values; values are abstract identifiers (equal ids = equal values) *)
Definition dict := list (str * N).
Inductive explicit := ENotSet | EDict (d : dict).
Inductive draw := DNone | DDict (d : dict).       (* what draw(strategy) returned *)
Inductive value := VNone | VDict (d : dict).

Record loc_in := { l_params : list (str * pclass); l_explicit : explicit; l_draw : draw }.
(* l_params: name and class of every parameter of the location, in declaration order (names unique) *)

(* Python dict == dict (keys unique) *)
Definition dict_eqb (a b : dict) : bool :=
  Nat.eqb (length a) (length b)
  && forallb (fun kv => match assoc_get (fst kv) b with Some v => N.eqb v (snd kv) | None => false end) a.

(* _hypothesis.py:301 can_negate_path_parameters, :311 can_negate_headers *)
Definition can_negate_path (ps : list (str * pclass)) : bool :=
  match ps with [] => true | _ => existsb (fun p => negb (is_top (snd p))) ps end.
Definition can_negate_headers (ps : list (str * pclass)) : bool :=
  match ps with [] => true | _ => existsb (fun p => negb (is_stronly (snd p))) ps end.

(* _hypothesis.py:280-287 the fallback test of generate_parameter *)
Definition fallback (k : lkind) (ps : list (str * pclass)) : bool :=
  match k with
  | LPath => negb (can_negate_path ps)
  | LHeader | LCookie => negb (can_negate_headers ps)
  | LQuery => false
  end.

Definition generator_of (mode : gmode) (k : lkind) (l : loc_in) : gmode :=
  match mode with Pos => Pos | Neg => if fallback k (l_params l) then Pos else Neg end.

Inductive strat := SNone | SPos | SNeg.

(* get_parameters_value:228 passes exclude=value.keys() only for a non-empty explicit dict *)
Definition exclude_keys (e : explicit) : list str :=
  match e with ENotSet => [] | EDict d => map fst d end.
Definition remaining (ps : list (str * pclass)) (keys : list str) : list (str * pclass) :=
  filter (fun p => negb (existsb (str_eqb (fst p)) keys)) ps.

(* get_parameters_strategy:334-383 : which strategy draw() is given *)
Definition strategy_of (mode : gmode) (k : lkind) (l : loc_in) : strat :=
  match l_params l with
  | [] => SNone
  | ps =>
    match remaining ps (exclude_keys (l_explicit l)), generator_of mode k l with
    | [], Neg => SNone
    | _, Neg => SNeg
    | _, Pos => SPos
    end
  end.

(* get_parameters_value:213-239 *)
Definition value_of (l : loc_in) : value :=
  match l_explicit l with
  | ENotSet | EDict [] => match l_draw l with DNone => VNone | DDict d => VDict d end
  | EDict e => match l_draw l with DNone => VDict e | DDict n => VDict (assoc_update e n) end
  end.

(* value == explicit at :294 (None and NOT_SET are equal to nothing else) *)
Definition value_eq_explicit (v : value) (e : explicit) : bool :=
  match e, v with EDict e, VDict d => dict_eqb d e | _, _ => false end.

Inductive ckind := CQuery | CPath | CHeaders | CCookies | CBody.
Definition ckind_eqb (a b : ckind) : bool :=
  match a, b with
  | CQuery, CQuery | CPath, CPath | CHeaders, CHeaders | CCookies, CCookies | CBody, CBody => true
  | _, _ => false
  end.

(* one ValueContainer + what the model knows about how it was made *)
Record part := {
  p_kind : ckind;
  p_label : option gmode;      (* ValueContainer.generator *)
  p_present : bool;            (* value is not None (parameters) / is not NOT_SET (body) *)
  p_strategy : strat           (* the strategy the value was drawn from *)
}.

Definition ckind_of (k : lkind) : ckind :=
  match k with LPath => CPath | LHeader => CHeaders | LCookie => CCookies | LQuery => CQuery end.

(* generate_parameter:266-298 *)
Definition loc_part (mode : gmode) (k : lkind) (l : loc_in) : part :=
  let v := value_of l in
  {| p_kind := ckind_of k;
     p_label := if value_eq_explicit v (l_explicit l) then None else Some (generator_of mode k l);
     p_present := match v with VNone => false | VDict _ => true end;
     p_strategy := strategy_of mode k l |}.

(* ---- body ---- *)
Record alt := { a_can_negate : bool; a_required : bool }.
Record body_in := {
  b_explicit : bool;          (* the body argument is not NOT_SET *)
  b_custom_nonbytes : bool;   (* explicit non-bytes body for a media type with a registered custom strategy *)
  b_alts : list alt;          (* operation.body.items *)
  b_choice : nat;             (* index drawn by sampled_from(candidates) *)
  b_media_ok : bool;          (* the transport has a serializer matching the drawn alternative *)
  b_other_media_ok : bool;    (* some declared media type has a serializer *)
  b_drawn_notset : bool       (* the drawn body is NOT_SET (strategy |= just(NOT_SET) for optional bodies) *)
}.

Inductive body_res := BOk (p : part) | BReject | BRaise.

Definition body_candidates (mode : gmode) (alts : list alt) : list alt * gmode :=
  match mode with
  | Pos => (alts, Pos)
  | Neg => match filter a_can_negate alts with
           | [] => (alts, Pos)
           | cs => (cs, Neg)
           end
  end.

(* openapi_cases:92-140 *)
Definition body_part (mode : gmode) (b : body_in) : body_res :=
  if b_explicit b then
    if b_custom_nonbytes b then BRaise
    else BOk {| p_kind := CBody; p_label := None; p_present := true; p_strategy := SNone |}
  else match b_alts b with
  | [] => BOk {| p_kind := CBody; p_label := None; p_present := false; p_strategy := SNone |}
  | alts =>
    let g := snd (body_candidates mode alts) in
    if negb (b_media_ok b) then (if b_other_media_ok b then BReject else BRaise)
    else BOk {| p_kind := CBody; p_label := Some g; p_present := negb (b_drawn_notset b);
                p_strategy := match g with Pos => SPos | Neg => SNeg end |}
  end.

Record op_in := { i_path : loc_in; i_header : loc_in; i_cookie : loc_in; i_query : loc_in; i_body : body_in }.

Record labels := { case_mode : gmode; parts : list part }.
Inductive outcome := Case (l : labels) | Skip | Reject | RaisesSerialization.

(* ValueContainer.is_generated:256, any_negated_values:261 *)
Definition is_generated (p : part) : bool :=
  match p_label p with
  | None => false
  | Some _ => ckind_eqb (p_kind p) CBody || p_present p
  end.
Definition is_neg_label (p : part) : bool :=
  match p_label p with Some Neg => true | _ => false end.
Definition any_negated (ps : list part) : bool :=
  existsb (fun p => is_generated p && is_neg_label p) ps.

Definition modes_only_negative (modes : list gmode) : bool :=
  match modes with [Neg] => true | _ => false end.

(* openapi_cases:76-186; the list is in the order of the components dict at :168-177 *)
Definition label_case (mode : gmode) (modes : list gmode) (i : op_in) : outcome :=
  match body_part mode (i_body i) with
  | BRaise => RaisesSerialization
  | BReject => Reject
  | BOk bp =>
    let ps := [loc_part mode LQuery (i_query i); loc_part mode LPath (i_path i);
               loc_part mode LHeader (i_header i); loc_part mode LCookie (i_cookie i); bp] in
    if gmode_eqb mode Neg && negb (any_negated ps) then
      (if modes_only_negative modes then Skip else Reject)
    else Case {| case_mode := mode; parts := ps |}
  end.

(* CaseMetadata.components : only containers whose generator is not None *)
Definition components (l : labels) : list (ckind * gmode) :=
  flat_map (fun p => match p_label p with Some g => [(p_kind p, g)] | None => [] end) (parts l).
Definition comp (l : labels) (k : ckind) : option gmode :=
  match find (fun p => ckind_eqb (p_kind p) k) (parts l) with Some p => p_label p | None => None end.
Definition present (l : labels) (k : ckind) : bool :=
  match find (fun p => ckind_eqb (p_kind p) k) (parts l) with Some p => p_present p | None => false end.

(* ---- region predicates (executable) ---- *)
(* contract on Hypothesis: none() returns None, an object strategy returns a dict;
   the body is NOT_SET only when the drawn alternative is optional *)
Fixpoint unique_strs (l : list str) : bool :=
  match l with [] => true | x :: r => negb (existsb (str_eqb x) r) && unique_strs r end.
Definition explicit_wf (e : explicit) : bool :=
  match e with ENotSet => true | EDict d => unique_strs (map fst d) end.
Definition draw_fits (mode : gmode) (k : lkind) (l : loc_in) : bool :=
  explicit_wf (l_explicit l) &&
  match strategy_of mode k l, l_draw l with
  | SNone, DNone => true
  | SPos, DDict _ | SNeg, DDict _ => true
  | _, _ => false
  end.
Definition body_draw_fits (mode : gmode) (b : body_in) : bool :=
  if b_explicit b then negb (b_drawn_notset b)
  else match b_alts b with
  | [] => negb (b_drawn_notset b)
  | alts => match nth_error (fst (body_candidates mode alts)) (b_choice b) with
            | Some a => negb (b_drawn_notset b) || negb (a_required a)
            | None => false
            end
  end.
Definition draws_fit (mode : gmode) (i : op_in) : bool :=
  draw_fits mode LPath (i_path i) && draw_fits mode LHeader (i_header i)
  && draw_fits mode LCookie (i_cookie i) && draw_fits mode LQuery (i_query i)
  && body_draw_fits mode (i_body i).

(* the drawn dict re-uses a name of the explicit dict (copied.update(new) overwrites the caller value) *)
Definition draw_overwrites_explicit (l : loc_in) : bool :=
  match l_explicit l, l_draw l with
  | EDict e, DDict d => existsb (fun kv => existsb (str_eqb (fst kv)) (map fst e)) d
  | _, _ => false
  end.

Definition has_params (l : loc_in) : bool := match l_params l with [] => false | _ => true end.
Definition all_have_params (i : op_in) : bool :=
  has_params (i_path i) && has_params (i_header i) && has_params (i_cookie i) && has_params (i_query i).
Definition body_value_present (i : op_in) : bool := negb (b_drawn_notset (i_body i)).

Definition not_set (l : loc_in) : bool := match l_explicit l with ENotSet => true | _ => false end.
Definition no_explicit (i : op_in) : bool :=
  not_set (i_path i) && not_set (i_header i) && not_set (i_cookie i) && not_set (i_query i)
  && negb (b_explicit (i_body i)).

Definition body_serializable (i : op_in) : bool :=
  match b_alts (i_body i) with [] => true | _ => b_media_ok (i_body i) end.

(* the operation shape is negatable in the eyes of the code own predicates *)
Definition loc_negatable (k : lkind) (l : loc_in) : bool :=
  has_params l && negb (fallback k (l_params l)).
Definition negatable_shape (i : op_in) : bool :=
  loc_negatable LPath (i_path i) || loc_negatable LHeader (i_header i)
  || loc_negatable LCookie (i_cookie i) || loc_negatable LQuery (i_query i)
  || existsb a_can_negate (b_alts (i_body i)).

(* =====================================================================================
   Part B.  Schema fragment, validity, three mutations
   ===================================================================================== *)
Inductive jtype := TNull | TBool | TInt | TNum | TStr | TArr | TObj.
Definition jtype_eqb (a b : jtype) : bool :=
  match a, b with
  | TNull, TNull | TBool, TBool | TInt, TInt | TNum, TNum | TStr, TStr | TArr, TArr | TObj, TObj => true
  | _, _ => false
  end.
Definition tmem (t : jtype) (ts : list jtype) : bool := existsb (jtype_eqb t) ts.

(* Sub-schemas under properties / items are carried as raw JSON: the three mutations never
   look inside them, and validity takes the validity of sub-schemas as an argument. *)
Inductive kw :=
| KType (ts : list jtype)
| KEnum (vs : list json)
| KMin (z : Z)
| KMax (z : Z)
| KMinLen (n : N)
| KMaxLen (n : N)
| KRequired (names : list str)
| KProps (ps : list (str * json))
| KAddProps (b : bool)
| KItems (s : json)
| KMinItems (n : N).

Inductive kname := NType | NEnum | NMin | NMax | NMinLen | NMaxLen | NRequired | NProps | NAddProps | NItems | NMinItems.
Definition kname_of (k : kw) : kname :=
  match k with
  | KType _ => NType | KEnum _ => NEnum | KMin _ => NMin | KMax _ => NMax | KMinLen _ => NMinLen
  | KMaxLen _ => NMaxLen | KRequired _ => NRequired | KProps _ => NProps | KAddProps _ => NAddProps
  | KItems _ => NItems | KMinItems _ => NMinItems
  end.
Definition kname_eqb (a b : kname) : bool :=
  match a, b with
  | NType, NType | NEnum, NEnum | NMin, NMin | NMax, NMax | NMinLen, NMinLen | NMaxLen, NMaxLen
  | NRequired, NRequired | NProps, NProps | NAddProps, NAddProps | NItems, NItems | NMinItems, NMinItems => true
  | _, _ => false
  end.

Definition schema := list kw.                       (* insertion-ordered dict of keywords *)
(* a schema after mutation: top-level keywords + the keywords under "not" ([] = no "not" key) *)
Record mschema := { kept : list kw; negated : list kw }.
Definition plain (s : schema) : mschema := {| kept := s; negated := [] |}.

Definition has_type (t : jtype) (v : json) : bool :=
  match t, v with
  | TNull, JNull | TBool, JBool _ | TInt, JInt _ | TNum, JInt _ | TStr, JStr _ | TArr, JArr _ | TObj, JObj _ => true
  | _, _ => false
  end.

Definition props_of (ctx : list kw) : list (str * json) :=
  match find (fun k => kname_eqb (kname_of k) NProps) ctx with Some (KProps ps) => ps | _ => [] end.

Section Validity.
  (* validity of a value against a sub-schema given as raw JSON (python-jsonschema, recursively) *)
  Variable sub_valid : json -> json -> bool.

  (* one keyword, in the context of its sibling keywords (additionalProperties reads properties) *)
  Definition kw_valid (ctx : list kw) (k : kw) (v : json) : bool :=
    match k with
    | KType ts => existsb (fun t => has_type t v) ts
    | KEnum vs => existsb (json_eqb v) vs
    | KMin z => match v with JInt x => (z <=? x)%Z | _ => true end
    | KMax z => match v with JInt x => (x <=? z)%Z | _ => true end
    | KMinLen n => match v with JStr s => (n <=? N.of_nat (length s))%N | _ => true end
    | KMaxLen n => match v with JStr s => (N.of_nat (length s) <=? n)%N | _ => true end
    | KRequired names => match v with JObj kvs => forallb (fun n => assoc_mem n kvs) names | _ => true end
    | KProps ps =>
        match v with
        | JObj kvs => forallb (fun kv => match assoc_get (fst kv) ps with Some s => sub_valid s (snd kv) | None => true end) kvs
        | _ => true
        end
    | KAddProps b =>
        b || match v with
             | JObj kvs => forallb (fun kv => assoc_mem (fst kv) (props_of ctx)) kvs
             | _ => true
             end
    | KItems s => match v with JArr l => forallb (sub_valid s) l | _ => true end
    | KMinItems n => match v with JArr l => (n <=? N.of_nat (length l))%N | _ => true end
    end.

  Definition valid_kws (kws : list kw) (v : json) : bool := forallb (fun k => kw_valid kws k v) kws.
  Definition valid (m : mschema) (v : json) : bool :=
    valid_kws (kept m) v && match negated m with [] => true | ng => negb (valid_kws ng v) end.
End Validity.


(* a concrete validity of sub-schemas for evaluation: {} and {type: name} only (anything else counts as valid) *)
Definition n_null : str := [110; 117; 108; 108]%N.
Definition n_boolean : str := [98; 111; 111; 108; 101; 97; 110]%N.
Definition n_integer : str := [105; 110; 116; 101; 103; 101; 114]%N.
Definition n_number : str := [110; 117; 109; 98; 101; 114]%N.
Definition n_string : str := [115; 116; 114; 105; 110; 103]%N.
Definition n_array : str := [97; 114; 114; 97; 121]%N.
Definition n_object : str := [111; 98; 106; 101; 99; 116]%N.
Definition n_type : str := [116; 121; 112; 101]%N.
Definition jtype_of_name (s : str) : option jtype :=
  if str_eqb s n_null then Some TNull else
  if str_eqb s n_boolean then Some TBool else
  if str_eqb s n_integer then Some TInt else
  if str_eqb s n_number then Some TNum else
  if str_eqb s n_string then Some TStr else
  if str_eqb s n_array then Some TArr else
  if str_eqb s n_object then Some TObj else None.
Definition sub_valid_simple (s v : json) : bool :=
  match s with
  | JObj [(k, JStr name)] =>
      if str_eqb k n_type then match jtype_of_name name with Some t => has_type t v | None => true end else true
  | _ => true
  end.

(* ---- mutation context ---- *)
Inductive mloc := MBody | MQuery | MPath | MHeader | MCookie.
Record mctx := { c_loc : mloc; c_form : bool (* media_type == application/x-www-form-urlencoded *) }.
Definition m_is_header (c : mctx) : bool := match c_loc c with MHeader | MCookie => true | _ => false end.
Definition m_is_path (c : mctx) : bool := match c_loc c with MPath => true | _ => false end.
Definition m_is_query (c : mctx) : bool := match c_loc c with MQuery => true | _ => false end.

(* ---- negate_constraints (mutations.py:364-411) ---- *)
Definition is_candidate (c : mctx) (k : kw) : bool :=
  match k with
  | KRequired names => match names with [] => false | _ => true end
  | KMinLen n => negb (m_is_path c && N.eqb n 1%N)
  | KType _ | KProps _ | KItems _ | KMinItems _ => false
  | KAddProps _ => negb (m_is_header c)
  | _ => true
  end.

(* the draws: index for sampled_from(candidates), and the keyword FeatureStrategy *)
Record nchoice := { n_idx : nat; n_enabled : list kname }.
Definition enabled (l : list kname) (n : kname) : bool := existsb (kname_eqb n) l.

(* cantop = (canonicalish(schema) == {}), computed by hypothesis-jsonschema *)
Definition negate_constraints (c : mctx) (cantop : bool) (s : schema) (ch : nchoice) : option mschema :=
  if cantop then None else
  match filter (is_candidate c) s with
  | [] => None
  | cands =>
    match nth_error cands (Nat.modulo (n_idx ch) (length cands)) with
    | None => None
    | Some chosen =>
      Some {| kept := filter (fun k => negb (is_candidate c k)) s;
              negated := filter (fun k => is_candidate c k
                                   && (kname_eqb (kname_of k) (kname_of chosen) || enabled (n_enabled ch) (kname_of k))) s |}
    end
  end.

(* ---- change_type (mutations.py:202-259) ---- *)
Definition all_types : list jtype := [TNull; TBool; TInt; TNum; TStr; TArr; TObj].
(* sorted() of the type names: array boolean integer null number object string *)
Definition alpha_types : list jtype := [TArr; TBool; TInt; TNull; TNum; TObj; TStr].

Definition get_type (kws : list kw) : list jtype :=
  match find (fun k => kname_eqb (kname_of k) NType) kws with Some (KType ts) => ts | _ => all_types end.
Definition has_type_kw (kws : list kw) : bool :=
  match find (fun k => kname_eqb (kname_of k) NType) kws with Some _ => true | None => false end.

Definition type_candidates (c : mctx) (ts : list jtype) : list jtype :=
  let base := if m_is_path c then [TBool; TInt; TNull; TNum; TStr] else alpha_types in
  let cs := filter (fun t => negb (tmem t ts)) base in
  if tmem TInt ts then filter (fun t => negb (jtype_eqb t TNum)) cs else cs.

(* TYPE_SPECIFIC_KEYS / ANY_TYPE_KEYS restricted to the fragment *)
Definition keeps (t : jtype) (k : kw) : bool :=
  match k with
  | KType _ | KEnum _ => true
  | KMin _ | KMax _ => match t with TInt | TNum => true | _ => false end
  | KMinLen _ | KMaxLen _ => match t with TStr => true | _ => false end
  | KItems _ | KMinItems _ => match t with TArr => true | _ => false end
  | KRequired _ | KProps _ | KAddProps _ => match t with TObj => true | _ => false end
  end.

Definition set_type (t : jtype) (kws : list kw) : list kw :=
  if has_type_kw kws then map (fun k => match k with KType _ => KType [t] | _ => k end) kws
  else kws ++ [KType [t]].

Definition prevent_unsat (t : jtype) (m : mschema) : mschema :=
  {| kept := filter (keeps t) (kept m); negated := filter (keeps t) (negated m) |}.

Record tchoice := { t_idx1 : nat; t_enabled : list jtype; t_idx2 : nat }.

Definition change_type (c : mctx) (m : mschema) (ch : tchoice) : option mschema :=
  if negb (has_type_kw (kept m)) then None else
  if c_form c then None else
  let ts := get_type (kept m) in
  if tmem TStr ts && (m_is_header c || m_is_path c || m_is_query c) then None else
  match type_candidates c ts with
  | [] => None
  | [t] => Some (prevent_unsat t {| kept := set_type t (kept m); negated := negated m |})
  | cands =>
    match nth_error cands (Nat.modulo (t_idx1 ch) (length cands)) with
    | None => None
    | Some cand =>
      let rest := filter (fun t => negb (jtype_eqb t cand) && tmem t (t_enabled ch)) cands in
      let remaining_c := cand :: rest in
      match nth_error remaining_c (Nat.modulo (t_idx2 ch) (length remaining_c)) with
      | None => None
      | Some t => Some (prevent_unsat t {| kept := set_type t (kept m); negated := negated m |})
      end
    end
  end.

(* the type change_type ended up with *)
Definition new_type_of (m : mschema) : option jtype :=
  match find (fun k => kname_eqb (kname_of k) NType) (kept m) with Some (KType [t]) => Some t | _ => None end.

(* ---- remove_required_property (mutations.py:168-199) ---- *)
Fixpoint str_ltb (a b : str) : bool :=
  match a, b with
  | [], [] => false
  | [], _ :: _ => true
  | _ :: _, [] => false
  | x :: a', y :: b' => if N.ltb x y then true else if N.eqb x y then str_ltb a' b' else false
  end.
Fixpoint insert_sorted (x : str) (l : list str) : list str :=
  match l with
  | [] => [x]
  | y :: r => if str_ltb y x then y :: insert_sorted x r else x :: l
  end.
Definition sort_strs (l : list str) : list str := fold_right insert_sorted [] l.

Fixpoint remove_first (x : str) (l : list str) : list str :=
  match l with [] => [] | y :: r => if str_eqb x y then r else y :: remove_first x r end.

Definition required_of (kws : list kw) : option (list str) :=
  match find (fun k => kname_eqb (kname_of k) NRequired) kws with Some (KRequired ns) => Some ns | _ => None end.

Record rchoice := { r_idx1 : nat; r_enabled : list str; r_idx2 : nat }.

Definition pick_required (names : list str) (ch : rchoice) : option str :=
  match names with
  | [] => None
  | [x] => Some x
  | _ =>
    let sorted := sort_strs names in
    match nth_error sorted (Nat.modulo (r_idx1 ch) (length sorted)) with
    | None => None
    | Some cand =>
      let cs := cand :: sort_strs (filter (fun p => existsb (str_eqb p) (r_enabled ch)) names) in
      nth_error cs (Nat.modulo (r_idx2 ch) (length cs))
    end
  end.

(* required.remove(name); del if empty;  properties.pop(name); pop properties if {};  type = object *)
Definition drop_required (name : str) (kws : list kw) : list kw :=
  flat_map (fun k => match k with
                     | KRequired ns => match remove_first name ns with [] => [] | ns' => [KRequired ns'] end
                     | KProps ps => match assoc_remove name ps with [] => [] | ps' => [KProps ps'] end
                     | _ => [k]
                     end) kws.

Definition remove_required_property (m : mschema) (ch : rchoice) : option mschema :=
  if negb (tmem TObj (get_type (kept m))) then None else
  match required_of (kept m) with
  | None => None
  | Some names =>
    match pick_required names ch with
    | None => None
    | Some name => Some {| kept := set_type TObj (drop_required name (kept m)); negated := negated m |}
    end
  end.

(* ---- exclusion of explicitly supplied names from the location schema (_hypothesis.py:349-354):
        schema[properties].pop(name, None); suppress(ValueError): schema[required].remove(name) ---- *)
Definition exclude_one (name : str) (kws : list kw) : list kw :=
  map (fun k => match k with
                | KProps ps => KProps (assoc_remove name ps)
                | KRequired ns => KRequired (remove_first name ns)
                | _ => k
                end) kws.
Definition exclude_names (names : list str) (kws : list kw) : list kw :=
  fold_left (fun acc n => exclude_one n acc) names kws.
Definition smem (n : str) (l : list str) : bool := existsb (str_eqb n) l.

(* ---- region predicates of the soundness theorems ---- *)
Definition is_ap_false (k : kw) : bool := match k with KAddProps false => true | _ => false end.
(* negate_constraints: the additionalProperties keyword was not moved away from its properties *)
Definition negate_region (s : schema) (m : mschema) : bool :=
  negb (existsb is_ap_false (negated m)) || match props_of s with [] => true | _ => false end.
(* change_type: number was not narrowed to integer *)
Definition change_type_region (m m' : mschema) : bool :=
  negb (tmem TNum (get_type (kept m)) && match new_type_of m' with Some TInt => true | _ => false end).
(* remove_required_property: the object is closed (the removed name cannot come back as an additional property)
   and keywords are unique as in a Python dict *)
Definition closed_object (m : mschema) : bool := existsb is_ap_false (kept m).
Fixpoint unique_keys (kws : list kw) : bool :=
  match kws with
  | [] => true
  | k :: r => negb (existsb (fun k' => kname_eqb (kname_of k) (kname_of k')) r) && unique_keys r
  end.

(* no mutation of the three applies (what makes the strategy empty) *)
Definition mutation_possible (c : mctx) (cantop : bool) (s : schema) : bool :=
  match negate_constraints c cantop s {| n_idx := 0; n_enabled := [] |} with Some _ => true | None =>
  match change_type c (plain s) {| t_idx1 := 0; t_enabled := []; t_idx2 := 0 |} with Some _ => true | None =>
  match remove_required_property (plain s) {| r_idx1 := 0; r_enabled := []; r_idx2 := 0 |} with Some _ => true | None => false
  end end end.

(* =====================================================================================
   Part C.  Coercion of parameter values to their wire form
   ===================================================================================== *)
Open Scope N_scope.
Fixpoint digits_fuel (fuel : nat) (n : N) (acc : str) : str :=
  match fuel with
  | O => acc
  | S f => let acc' := (48 + N.modulo n 10) :: acc in
           if N.ltb n 10 then acc' else digits_fuel f (N.div n 10) acc'
  end.
Definition show_N (n : N) : str := digits_fuel (S (N.to_nat (N.log2 n))) n [].
Definition show_Z (z : Z) : str :=
  match z with
  | Z0 => [48]
  | Zpos p => show_N (Npos p)
  | Zneg p => 45 :: show_N (Npos p)
  end.

Definition s_true : str := [116; 114; 117; 101].
Definition s_false : str := [102; 97; 108; 115; 101].
Definition s_null : str := [110; 117; 108; 108].

(* jsonify_python_specific_types + str() done by the transport, for scalar values *)
Definition coerce (v : json) : option str :=
  match v with
  | JNull => Some s_null
  | JBool b => Some (if b then s_true else s_false)
  | JInt z => Some (show_Z z)
  | JStr s => Some s
  | _ => None
  end.

Inductive prim := PInt | PBool | PNull | PString.
Definition valid_prim (t : prim) (v : json) : bool :=
  match t, v with
  | PInt, JInt _ | PBool, JBool _ | PNull, JNull | PString, JStr _ => true
  | _, _ => false
  end.

Definition is_int_literal (s : str) : bool :=
  match s with
  | [] => false
  | c :: r => if N.eqb c 45 then (match r with [] => false | _ => forallb is_digit r end) else forallb is_digit s
  end.
(* what a server reading the text as the declared type accepts *)
Definition wire_valid (t : prim) (s : str) : bool :=
  match t with
  | PInt => is_int_literal s
  | PBool => str_eqb s s_true || str_eqb s s_false
  | PNull => str_eqb s s_null
  | PString => true
  end.

(* region: the value is not a string and the declared type is not string *)
Definition coercion_safe (t : prim) (v : json) : bool :=
  match v with
  | JStr s => negb (wire_valid t s)
  | _ => match t with PString => false | _ => true end
  end.

(* =====================================================================================
   Part D.  The class of a header / cookie parameter, computed from the schema AS DECLARED
            (specs/openapi/parameters.py as_json_schema:58, from_open_api_to_json_schema:87,
            transform_keywords:73, converter.py to_json_schema:11, then the comparison
            header != {type: string} of can_negate_headers, _hypothesis.py:311-319),
            and an independent reading of the declared schema: can a text value violate it.
   ===================================================================================== *)
Definition k_ref : str := [36; 114; 101; 102].
Definition k_multipleOf : str := [109; 117; 108; 116; 105; 112; 108; 101; 79; 102].
Definition k_maximum : str := [109; 97; 120; 105; 109; 117; 109].
Definition k_exclusiveMaximum : str := [101; 120; 99; 108; 117; 115; 105; 118; 101; 77; 97; 120; 105; 109; 117; 109].
Definition k_minimum : str := [109; 105; 110; 105; 109; 117; 109].
Definition k_exclusiveMinimum : str := [101; 120; 99; 108; 117; 115; 105; 118; 101; 77; 105; 110; 105; 109; 117; 109].
Definition k_maxLength : str := [109; 97; 120; 76; 101; 110; 103; 116; 104].
Definition k_minLength : str := [109; 105; 110; 76; 101; 110; 103; 116; 104].
Definition k_pattern : str := [112; 97; 116; 116; 101; 114; 110].
Definition k_maxItems : str := [109; 97; 120; 73; 116; 101; 109; 115].
Definition k_minItems : str := [109; 105; 110; 73; 116; 101; 109; 115].
Definition k_uniqueItems : str := [117; 110; 105; 113; 117; 101; 73; 116; 101; 109; 115].
Definition k_maxProperties : str := [109; 97; 120; 80; 114; 111; 112; 101; 114; 116; 105; 101; 115].
Definition k_minProperties : str := [109; 105; 110; 80; 114; 111; 112; 101; 114; 116; 105; 101; 115].
Definition k_required : str := [114; 101; 113; 117; 105; 114; 101; 100].
Definition k_enum : str := [101; 110; 117; 109].
Definition k_type : str := [116; 121; 112; 101].
Definition k_allOf : str := [97; 108; 108; 79; 102].
Definition k_oneOf : str := [111; 110; 101; 79; 102].
Definition k_anyOf : str := [97; 110; 121; 79; 102].
Definition k_not : str := [110; 111; 116].
Definition k_items : str := [105; 116; 101; 109; 115].
Definition k_properties : str := [112; 114; 111; 112; 101; 114; 116; 105; 101; 115].
Definition k_additionalProperties : str := [97; 100; 100; 105; 116; 105; 111; 110; 97; 108; 80; 114; 111; 112; 101; 114; 116; 105; 101; 115].
Definition k_format : str := [102; 111; 114; 109; 97; 116].
Definition k_example : str := [101; 120; 97; 109; 112; 108; 101].
Definition k_examples : str := [101; 120; 97; 109; 112; 108; 101; 115].
Definition k_nullable : str := [110; 117; 108; 108; 97; 98; 108; 101].
Definition k_xnullable : str := [120; 45; 110; 117; 108; 108; 97; 98; 108; 101].
Definition k_null : str := [110; 117; 108; 108].
Definition k_string : str := [115; 116; 114; 105; 110; 103].
Definition k_file : str := [102; 105; 108; 101].
Definition k_binary : str := [98; 105; 110; 97; 114; 121].
Definition k_xdash : str := [120; 45].
(* OpenAPI30Parameter.supported_jsonschema_keywords / OpenAPI20Parameter.supported_jsonschema_keywords *)
Definition supported_30 : list str :=
  [k_ref; k_multipleOf; k_maximum; k_exclusiveMaximum; k_minimum; k_exclusiveMinimum; k_maxLength; k_minLength; k_pattern;
   k_maxItems; k_minItems; k_uniqueItems; k_maxProperties; k_minProperties; k_required; k_enum; k_type; k_allOf; k_oneOf;
   k_anyOf; k_not; k_items; k_properties; k_additionalProperties; k_format; k_example; k_examples].
Definition supported_20 : list str :=
  [k_ref; k_type; k_format; k_items; k_maximum; k_exclusiveMaximum; k_minimum; k_exclusiveMinimum; k_maxLength; k_minLength;
   k_pattern; k_maxItems; k_minItems; k_uniqueItems; k_enum; k_multipleOf; k_example; k_examples].

Definition jdict := list (str * json).          (* a schema object as written in the document *)
Definition nullable_name (v2 : bool) : str := if v2 then k_xnullable else k_nullable.

(* from_open_api_to_json_schema:87-93 : supported keywords, vendor extensions and the nullable field survive.
   v2 = Swagger 2.0: the dict is the parameter object itself (name, in, required, description are dropped here) *)
Definition keep_keyword (v2 : bool) (k : str) : bool :=
  smem k (if v2 then supported_20 else supported_30) || starts_with k_xdash k || str_eqb k (nullable_name v2).

(* as_json_schema + transform_keywords for a header / cookie parameter.  exs = the values collected from the
   parameter-level example(s) fields (as_json_schema:61-70).  Not modelled (region hdr_exact below): the quantifier
   rewriting of pattern + minLength/maxLength (update_pattern_in_schema keeps the pattern key) and the readOnly
   rewriting of object schemas; neither changes whether the result equals {type: string}. *)
Definition hp_filter (v2 : bool) (decl : jdict) : jdict := filter (fun kv => keep_keyword v2 (fst kv)) decl.
Definition hp_examples (exs : list json) (s : jdict) : jdict :=
  match exs with [] => s | _ => assoc_set k_examples (JArr exs) s end.
(* to_json_schema:29-32 *)
Definition hp_file (s : jdict) : jdict :=
  match assoc_get k_type s with
  | Some (JStr t) => if str_eqb t k_file then assoc_set k_format (JStr k_binary) (assoc_set k_type (JStr k_string) s) else s
  | _ => s
  end.
(* to_json_schema:26-28; transform (core/transforms.py:69) then converts the wrapped schema again (type file).
   Deeper sub-schemas (items, ...) are carried unchanged: their conversion never touches the top-level keys *)
Definition hp_nullable (v2 : bool) (s : jdict) : jdict :=
  match assoc_get (nullable_name v2) s with
  | Some (JBool true) =>
      [(k_anyOf, JArr [JObj (hp_file (assoc_remove (nullable_name v2) s)); JObj [(k_type, JStr k_null)]])]
  | _ => s
  end.
(* transform_keywords:83-84 definition.setdefault(type, string) *)
Definition hp_default_type (s : jdict) : jdict :=
  if assoc_mem k_type s then s else s ++ [(k_type, JStr k_string)].
Definition header_prop_schema (v2 : bool) (decl : jdict) (exs : list json) : jdict :=
  hp_default_type (hp_file (hp_nullable v2 (hp_examples exs (hp_filter v2 decl)))).

(* header != {type: string} : Python dict equality against the one-entry dict *)
Definition bare_string : jdict := [(k_type, JStr k_string)].
Definition is_bare_string (s : jdict) : bool := json_eqb (JObj s) (JObj bare_string).
Definition header_class (v2 : bool) (decl : jdict) (exs : list json) : pclass :=
  if is_bare_string (header_prop_schema v2 decl exs) then PStrOnly else POther.

Record hparam := { h_name : str; h_decl : jdict; h_examples : list json; h_required : bool }.
Definition header_params (v2 : bool) (hs : list hparam) : list (str * pclass) :=
  map (fun h => (h_name h, header_class v2 (h_decl h) (h_examples h))) hs.

(* where the model compares the converted schema itself (not only its class) with the code *)
Definition hdr_exact (decl : jdict) : bool :=
  negb (assoc_mem k_pattern decl && (assoc_mem k_minLength decl || assoc_mem k_maxLength decl))
  && negb (match assoc_get k_type decl with Some (JStr t) => str_eqb t n_object | _ => false end).

(* ---- the independent reading: is there a TEXT value that violates the schema as declared?
        (every header / cookie value is text on the wire, so a bare type string cannot be violated by a value;
        a declared non-string type can: text outside its lexical space) ---- *)
Definition constraint_keys : list str := [k_enum; k_pattern; k_maxLength; k_format].
Definition entry_violable (kv : str * json) : bool :=
  let k := fst kv in
  if str_eqb k k_type then negb (json_eqb (snd kv) (JStr k_string))
  else if smem k constraint_keys then true
  else if str_eqb k k_minLength then match snd kv with JInt z => (0 <? z)%Z | _ => false end
  else false.
Definition header_value_violable (decl : jdict) : bool := existsb entry_violable decl.
(* omission violates a required parameter *)
Definition header_violable (h : hparam) : bool := h_required h || header_value_violable (h_decl h).

(* region of the converse: the declared schema is made of type, the five string constraints (minLength positive)
   and keys the converter drops (title, description, default, deprecated, ...); keys unique as in a Python dict *)
Definition plain_entry (v2 : bool) (kv : str * json) : bool :=
  let k := fst kv in
  if str_eqb k k_type then true
  else if smem k constraint_keys then true
  else if str_eqb k k_minLength then match snd kv with JInt z => (0 <? z)%Z | _ => false end
  else negb (keep_keyword v2 k).
Definition plain_header (v2 : bool) (decl : jdict) : bool :=
  forallb (plain_entry v2) decl && unique_strs (map fst decl).

Definition is_nil {A} (l : list A) : bool := match l with [] => true | _ => false end.
Definition value_violable_h (h : hparam) : bool := header_value_violable (h_decl h).
(* region of the converse, per parameter: plain declared schema, no parameter-level example, optional *)
Definition plain_hparam (v2 : bool) (h : hparam) : bool :=
  plain_header v2 (h_decl h) && is_nil (h_examples h) && negb (h_required h).

Definition i_loc (k : lkind) (i : op_in) : loc_in :=
  match k with LPath => i_path i | LHeader => i_header i | LCookie => i_cookie i | LQuery => i_query i end.

(* an operation whose only inputs are headers and cookies *)
Definition only_headers (i : op_in) : bool :=
  negb (has_params (i_path i)) && negb (has_params (i_query i))
  && match b_alts (i_body i) with [] => true | _ => false end.

(* =====================================================================================
   Part E.  The query ON THE WIRE: what the transport really sends for a query dict, containers included.
            jsonify_python_specific_types (_hypothesis.py:386), RequestsTransport.serialize_case
            (transport/requests.py:59-66: a value equal to the empty dict is sent as the empty text),
            requests RequestEncodingMixin._encode_params + urllib.parse.urlencode(doseq=True),
            and the guard is_non_empty_query of the query filter of negative_schema
            (negative/__init__.py:94-109), which repeats the loop of _encode_params on the RAW value
            (before the serializer and before jsonify).
            Parameters without a serializer (declared integer / boolean / string / no type, or an array with
            the default explode): get_parameter_serializer returns None for them.
   ===================================================================================== *)
Definition jq := list (str * json).

(* jsonify_python_specific_types: the stack only ever receives dicts (the branch for a list value pushes the KEYS of the
   enclosing dict, which are ignored), so booleans and None are rewritten at the top level and inside nested dicts, never
   inside lists *)
Fixpoint jsonify_val (v : json) : json :=
  match v with
  | JBool b => JStr (if b then s_true else s_false)
  | JNull => JStr s_null
  | JObj kvs => JObj ((fix go (l : list (str * json)) : list (str * json) :=
                         match l with [] => [] | (k, x) :: r => (k, jsonify_val x) :: go r end) kvs)
  | _ => v
  end.
Definition jsonify_query (q : jq) : jq := map (fun kv => (fst kv, jsonify_val (snd kv))) q.

(* serialize_case: if value == {} then the empty text *)
Definition empty_dict_to_text (v : json) : json := match v with JObj [] => JStr [] | _ => v end.
Definition prepare_query (q : jq) : jq := map (fun kv => (fst kv, empty_dict_to_text (snd kv))) q.

(* _encode_params: a str or a value without __iter__ is wrapped in a list; a list gives its items, a dict its keys *)
Definition iter_values (v : json) : list json :=
  match v with
  | JArr l => l
  | JObj kvs => map (fun kv => JStr (fst kv)) kvs
  | _ => [v]
  end.
Definition is_none (v : json) : bool := match v with JNull => true | _ => false end.
(* the loop shared by _encode_params and is_non_empty_query: None items are skipped.
   none_as_null = true is NOT the code: it is the variant that counts every None as the text null (sentinel) *)
Definition entry_loop (none_as_null : bool) (kv : str * json) : list (str * json) :=
  flat_map (fun v => if is_none v then (if none_as_null then [(fst kv, JStr s_null)] else []) else [(fst kv, v)])
           (iter_values (snd kv)).
Definition encode_loop (none_as_null : bool) (q : jq) : list (str * json) := flat_map (entry_loop none_as_null) q.

(* urlencode(result, doseq=True): a str gives one pair; a value without len() one pair str(v); a sequence one pair per
   element (a dict: per key), none for an empty one.  Every pair is the non-empty text k=v. *)
Definition doseq_len (v : json) : nat :=
  match v with JArr l => length l | JObj kvs => length kvs | _ => 1%nat end.
Definition urlencode_count (r : list (str * json)) : nat := fold_right (fun kv n => (doseq_len (snd kv) + n)%nat) 0%nat r.
Definition urlencode_nonempty (r : list (str * json)) : bool := negb (Nat.eqb (urlencode_count r) 0).

(* the guard AS IN THE CODE, and the sentinel variant *)
Definition is_non_empty_query (q : jq) : bool := urlencode_nonempty (encode_loop false q).
Definition is_non_empty_query_none_as_null (q : jq) : bool := urlencode_nonempty (encode_loop true q).

(* what requests is given, and the number of key=value pairs of the query string it builds *)
Definition wire_result (q : jq) : list (str * json) := encode_loop false (prepare_query (jsonify_query q)).
Definition wire_count (q : jq) : nat := urlencode_count (wire_result q).
Definition entry_count (v : json) : nat :=
  urlencode_count (entry_loop false ([], empty_dict_to_text (jsonify_val v))).

(* Python str() of an element: repr() inside containers.  repr of a string is modelled for printable ASCII without
   quote and backslash (None otherwise: not modelled) *)
Definition simple_char (c : N) : bool := (32 <=? c) && (c <=? 126) && negb (c =? 39) && negb (c =? 92).
Definition py_repr_str (s : str) : option str := if forallb simple_char s then Some (39 :: s ++ [39]) else None.
Fixpoint all_some {A} (l : list (option A)) : option (list A) :=
  match l with
  | [] => Some []
  | Some x :: r => match all_some r with Some r' => Some (x :: r') | None => None end
  | None :: _ => None
  end.
Definition sep_comma : str := [44; 32].
Definition s_None : str := [78; 111; 110; 101].
Definition s_True : str := [84; 114; 117; 101].
Definition s_False : str := [70; 97; 108; 115; 101].
Fixpoint py_repr (v : json) : option str :=
  match v with
  | JNull => Some s_None
  | JBool b => Some (if b then s_True else s_False)
  | JInt z => Some (show_Z z)
  | JStr s => py_repr_str s
  | JArr l =>
      match all_some ((fix go (l : list json) : list (option str) :=
                         match l with [] => [] | x :: r => py_repr x :: go r end) l) with
      | Some ts => Some (91 :: join sep_comma ts ++ [93])
      | None => None
      end
  | JObj kvs =>
      match all_some ((fix go (l : list (str * json)) : list (option str) :=
                         match l with
                         | [] => []
                         | (k, x) :: r => (match py_repr_str k, py_repr x with
                                           | Some a, Some b => Some (a ++ [58; 32] ++ b)
                                           | _, _ => None
                                           end) :: go r
                         end) kvs) with
      | Some ts => Some (123 :: join sep_comma ts ++ [125])
      | None => None
      end
  end.
Definition py_str (v : json) : option str := match v with JStr s => Some s | _ => py_repr v end.

(* the texts urlencode emits for one value of the result list *)
Definition doseq_texts (v : json) : option (list str) :=
  match v with
  | JStr s => Some [s]
  | JArr l => all_some (map py_str l)
  | JObj kvs => Some (map fst kvs)
  | _ => match py_str v with Some t => Some [t] | None => None end
  end.
Fixpoint urlencode_pairs (r : list (str * json)) : option (list (str * str)) :=
  match r with
  | [] => Some []
  | (k, v) :: r' =>
      match doseq_texts v, urlencode_pairs r' with
      | Some ts, Some ps => Some (map (fun t => (k, t)) ts ++ ps)
      | _, _ => None
      end
  end.
(* the decoded key=value pairs the server receives, in order (percent-encoding is undone by the server) *)
Definition query_wire (q : jq) : option (list (str * str)) := urlencode_pairs (wire_result q).
(* the texts sent under the name of one entry *)
Definition entry_wire (v : json) : option (list str) :=
  match urlencode_pairs (entry_loop false ([], empty_dict_to_text (jsonify_val v))) with
  | Some ps => Some (map snd ps)
  | None => None
  end.

(* ---- the declared query: name -> (type, required); the location schema parameters_to_json_schema builds is
        type object, these properties, required, additionalProperties false ---- *)
Record qparam := { q_type : prim; q_required : bool }.
Definition qdecl := list (str * qparam).
Definition valid_query (d : qdecl) (q : jq) : bool :=
  forallb (fun kv => match assoc_get (fst kv) d with Some p => valid_prim (q_type p) (snd kv) | None => false end) q
  && forallb (fun kp => negb (q_required (snd kp)) || assoc_mem (fst kp) q) d.
(* what a server accepts that decodes the query string and reads each text as the declared type: every name declared,
   sent once, its text in the lexical space of the type, every required name there *)
Definition count_key (k : str) (ps : list (str * str)) : nat := length (filter (fun p => str_eqb (fst p) k) ps).
Definition has_key (k : str) (ps : list (str * str)) : bool := existsb (fun p => str_eqb (fst p) k) ps.
Definition wire_valid_query (d : qdecl) (ps : list (str * str)) : bool :=
  forallb (fun p => match assoc_get (fst p) d with
                    | Some qp => wire_valid (q_type qp) (snd p) && Nat.eqb (count_key (fst p) ps) 1
                    | None => false
                    end) ps
  && forallb (fun kp => negb (q_required (snd kp)) || has_key (fst kp) ps) d.

(* the filter of negative_schema for the query location; gd = the guard used *)
Definition passes_query_filter (gd : jq -> bool) (d : qdecl) (q : jq) : bool := gd q && negb (valid_query d q).

(* ---- regions ---- *)
(* the guard rejects exactly the empty wire forms where no value is None or the empty dict at the top level
   (those two are sent as the texts null and empty, the guard looks at the raw value and sees nothing) *)
Definition no_none_or_empty_dict (q : jq) : bool :=
  forallb (fun kv => match snd kv with JNull | JObj [] => false | _ => true end) q.
(* every entry that makes the value invalid is still a violation in what its name carries on the wire:
   an undeclared name sends at least one pair; a declared name with a value of the wrong type sends its name twice or
   more, or once with a text outside the lexical space of the declared type *)
Definition entry_survives (d : qdecl) (kv : str * json) : bool :=
  match assoc_get (fst kv) d with
  | None => Nat.leb 1 (entry_count (snd kv))
  | Some p =>
      valid_prim (q_type p) (snd kv)
      || Nat.leb 2 (entry_count (snd kv))
      || match entry_wire (snd kv) with Some [w] => negb (wire_valid (q_type p) w) | _ => false end
  end.
Definition query_survives (d : qdecl) (q : jq) : bool := forallb (entry_survives d) q.
(* a sufficient syntactic condition: scalar values only, each declared one inside the coercion_safe region of Part C *)
Definition is_container (v : json) : bool := match v with JArr _ | JObj _ => true | _ => false end.
Definition scalar_query_safe (d : qdecl) (q : jq) : bool :=
  forallb (fun kv => negb (is_container (snd kv)) &&
                     match assoc_get (fst kv) d with
                     | Some p => valid_prim (q_type p) (snd kv) || coercion_safe (q_type p) (snd kv)
                     | None => true
                     end) q.
(* the class of finding F8: some entry sends nothing at all *)
Definition entry_dropped (q : jq) : bool := existsb (fun kv => Nat.eqb (entry_count (snd kv)) 0) q.

(* ---- the one query serializer that can remove what the guard saw: serialization.py extracted_object (a declared
        object parameter with style form and explode true).  get_parameters_strategy applies the serializer AFTER the
        filter of negative_schema: item.pop(name); a non-empty dict is merged into the query (item.update), anything
        else leaves the name with the empty text (appended: the key was popped) ---- *)
Definition extracted_object (name : str) (q : jq) : jq :=
  match assoc_get name q with
  | None => q
  | Some (JObj ((_ :: _) as kvs)) => assoc_update (assoc_remove name q) kvs
  | Some _ => assoc_set name (JStr []) (assoc_remove name q)
  end.

(* =====================================================================================
   Part F.  The validator behind the guard of negative_schema (negative/__init__.py get_validator :36-40,
   filter_values :77-85: a mutated value is kept only when not validator.is_valid(value)) on numeric schemas
   with the Draft 4 BOOLEAN form of exclusiveMinimum / exclusiveMaximum (OpenAPI 2.0 / 3.0).
   python-jsonschema validates by keyword dispatch: for every key of the schema dict, in order, the function the
   draft registers for that key is run; keys without a function are ignored.  Draft 4 registers minimum / maximum
   = minimum_draft3_draft4 / maximum_draft3_draft4 (_legacy_keywords.py :138-167: they read the sibling
   schema.get(exclusiveMinimum, False) by truthiness) and nothing for the exclusive keys; Draft 6 and later
   register the plain minimum / maximum and numeric exclusiveMinimum / exclusiveMaximum (_keywords.py :127-164),
   which compare the instance with the argument whatever it is - Python True and False compare as 1 and 0.
   Values are integers (json has no floats).
   ===================================================================================== *)
Inductive draft := Draft4 | Draft7.

(* truthiness of schema.get(name, False) *)
Definition py_truthy (o : option json) : bool :=
  match o with
  | None | Some JNull => false
  | Some (JBool b) => b
  | Some (JInt z) => negb (z =? 0)%Z
  | Some (JStr s) => negb (is_nil s)
  | Some (JArr l) => negb (is_nil l)
  | Some (JObj l) => negb (is_nil l)
  end.
(* the argument of a numeric keyword as Python compares it: bool is a subclass of int *)
Definition py_bound (a : json) : option Z :=
  match a with JInt z => Some z | JBool b => Some (if b then 1 else 0)%Z | _ => None end.

Definition type_name_ok (a v : json) : bool :=
  match a with
  | JStr name => match jtype_of_name name with Some t => has_type t v | None => true end
  | _ => true
  end.
(* the keyword type: one name or a list of names *)
Definition type_arg_ok (a v : json) : bool :=
  match a with
  | JArr names => existsb (fun n => type_name_ok n v) names
  | _ => type_name_ok a v
  end.
(* instance < bound fails (strict: instance <= bound fails); not a number: ignored *)
Definition low_ok (strict : bool) (a v : json) : bool :=
  match v, py_bound a with
  | JInt x, Some m => if strict then (m <? x)%Z else (m <=? x)%Z
  | _, _ => true
  end.
Definition high_ok (strict : bool) (a v : json) : bool :=
  match v, py_bound a with
  | JInt x, Some m => if strict then (x <? m)%Z else (x <=? m)%Z
  | _, _ => true
  end.

(* the function registered for key k in draft d, applied to argument a, instance v, inside the schema dict *)
Definition guard_keyword (d : draft) (schema : jdict) (k : str) (a v : json) : bool :=
  if str_eqb k k_type then type_arg_ok a v
  else if str_eqb k k_minimum then
    low_ok (match d with Draft4 => py_truthy (assoc_get k_exclusiveMinimum schema) | Draft7 => false end) a v
  else if str_eqb k k_maximum then
    high_ok (match d with Draft4 => py_truthy (assoc_get k_exclusiveMaximum schema) | Draft7 => false end) a v
  else if str_eqb k k_exclusiveMinimum then match d with Draft4 => true | Draft7 => low_ok true a v end
  else if str_eqb k k_exclusiveMaximum then match d with Draft4 => true | Draft7 => high_ok true a v end
  else true.
Definition guard_is_valid (d : draft) (schema : jdict) (v : json) : bool :=
  forallb (fun kv => guard_keyword d schema (fst kv) (snd kv) v) schema.
(* filter_values for a body / path / header / cookie value: kept = emitted as negative data *)
Definition guard_keeps (d : draft) (schema : jdict) (v : json) : bool := negb (guard_is_valid d schema v).

(* ---- the reference semantics of the property (DESIGN section 1: Draft 4 for OpenAPI 2.0 / 3.0), written as the
        specification reads, by looking keywords up: exclusiveMinimum true turns minimum into a strict bound, an
        exclusive keyword without its bound says nothing, false is the same as absent ---- *)
Definition excl_flag (name : str) (schema : jdict) : bool :=
  match assoc_get name schema with Some (JBool true) => true | _ => false end.
Definition declared_valid (schema : jdict) (v : json) : bool :=
  match assoc_get k_type schema with Some a => type_arg_ok a v | None => true end
  && match assoc_get k_minimum schema with Some a => low_ok (excl_flag k_exclusiveMinimum schema) a v | None => true end
  && match assoc_get k_maximum schema with Some a => high_ok (excl_flag k_exclusiveMaximum schema) a v | None => true end.

(* region: the numeric fragment with boolean exclusives - keys unique (a Python dict), type, integer bounds,
   boolean exclusive flags, annotations; where the model claims to be python-jsonschema *)
Definition k_description : str := [100; 101; 115; 99; 114; 105; 112; 116; 105; 111; 110].
Definition k_title : str := [116; 105; 116; 108; 101].
Definition num_entry (kv : str * json) : bool :=
  let k := fst kv in
  if str_eqb k k_type then true
  else if str_eqb k k_minimum || str_eqb k k_maximum then match snd kv with JInt _ => true | _ => false end
  else if str_eqb k k_exclusiveMinimum || str_eqb k k_exclusiveMaximum then match snd kv with JBool _ => true | _ => false end
  else str_eqb k k_description || str_eqb k k_title.
Definition num_fragment (schema : jdict) : bool := forallb num_entry schema && unique_strs (map fst schema).

(* ---- a parameter location: the object schema parameters_to_json_schema builds (properties, required,
        additionalProperties false), validated property by property with a given validity of the members ---- *)
Definition location_is_valid (vf : jdict -> json -> bool) (props : list (str * jdict)) (req : list str) (q : jq) : bool :=
  forallb (fun kv => match assoc_get (fst kv) props with Some s => vf s (snd kv) | None => false end) q
  && forallb (fun n => assoc_mem n q) req.
Definition location_guard_keeps (d : draft) (props : list (str * jdict)) (req : list str) (q : jq) : bool :=
  negb (location_is_valid (guard_is_valid d) props req q).
