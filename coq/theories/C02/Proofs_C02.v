(* C02 proofs.  Part A: label algebra.  Part B: mutation soundness.  Part C: coercion. *)
From Coq Require Import List NArith ZArith Bool Lia.
From Verif Require Import Common.Str Common.Json C02.Model_C02.
Import ListNotations.

(* ---------- Part A ---------- *)
Lemma any_negated_exists ps : any_negated ps = true ->
  exists p, In p ps /\ p_label p = Some Neg /\ is_generated p = true.
Proof.
  unfold any_negated. intros H. apply existsb_exists in H. destruct H as [p [Hin Hp]].
  apply andb_true_iff in Hp. destruct Hp as [Hg Hn]. exists p. repeat split; auto.
  unfold is_neg_label in Hn. destruct (p_label p) as [[]|]; try discriminate; reflexivity.
Qed.

Lemma case_has_negative_part modes i lbl :
  label_case Neg modes i = Case lbl ->
  case_mode lbl = Neg /\ exists p, In p (parts lbl) /\ p_label p = Some Neg /\ is_generated p = true.
Proof.
  unfold label_case. destruct (body_part Neg (i_body i)) as [bp| |]; try discriminate.
  cbn [gmode_eqb andb].
  destruct (any_negated _) eqn:E; cbn [negb].
  - intros H. injection H as <-. cbn [case_mode parts]. split; [reflexivity|]. apply any_negated_exists. exact E.
  - destruct (modes_only_negative modes); discriminate.
Qed.

(* kinds of the four parameter parts are never CBody *)
Lemma loc_part_kind mode k l : ckind_eqb (p_kind (loc_part mode k l)) CBody = false.
Proof. destruct k; reflexivity. Qed.

Lemma body_part_kind mode b bp : body_part mode b = BOk bp -> p_kind bp = CBody.
Proof.
  unfold body_part. destruct (b_explicit b).
  - destruct (b_custom_nonbytes b); [discriminate|]. intros H; injection H as <-; reflexivity.
  - destruct (b_alts b); [intros H; injection H as <-; reflexivity|].
    destruct (negb (b_media_ok b)); [destruct (b_other_media_ok b); discriminate|].
    intros H; injection H as <-; reflexivity.
Qed.

Lemma body_part_present mode b bp g : body_part mode b = BOk bp -> p_label bp = Some g ->
  p_present bp = negb (b_drawn_notset b).
Proof.
  unfold body_part. destruct (b_explicit b).
  - destruct (b_custom_nonbytes b); [discriminate|]. intros H; injection H as <-; discriminate.
  - destruct (b_alts b); [intros H; injection H as <-; discriminate|].
    destruct (negb (b_media_ok b)); [destruct (b_other_media_ok b); discriminate|].
    intros H; injection H as <-; reflexivity.
Qed.

Lemma body_part_strategy mode b bp g : body_part mode b = BOk bp -> p_label bp = Some g ->
  p_strategy bp = match g with Pos => SPos | Neg => SNeg end.
Proof.
  unfold body_part. destruct (b_explicit b).
  - destruct (b_custom_nonbytes b); [discriminate|]. intros H; injection H as <-; discriminate.
  - destruct (b_alts b); [intros H; injection H as <-; discriminate|].
    destruct (negb (b_media_ok b)); [destruct (b_other_media_ok b); discriminate|].
    intros H; injection H as <-. cbn [p_label p_strategy]. intros E; injection E as <-. reflexivity.
Qed.

(* the parts of a Case outcome *)
Lemma case_parts mode modes i lbl : label_case mode modes i = Case lbl ->
  exists bp, body_part mode (i_body i) = BOk bp /\ case_mode lbl = mode /\
    parts lbl = [loc_part mode LQuery (i_query i); loc_part mode LPath (i_path i);
                 loc_part mode LHeader (i_header i); loc_part mode LCookie (i_cookie i); bp].
Proof.
  unfold label_case. destruct (body_part mode (i_body i)) as [bp| |]; try discriminate.
  destruct (gmode_eqb mode Neg && negb (any_negated _)).
  - destruct (modes_only_negative modes); discriminate.
  - intros H; injection H as <-. exists bp. repeat split.
Qed.

Lemma in_parts mode i bp p :
  In p [loc_part mode LQuery (i_query i); loc_part mode LPath (i_path i);
        loc_part mode LHeader (i_header i); loc_part mode LCookie (i_cookie i); bp] ->
  (exists k l, p = loc_part mode k l /\
     ((k = LQuery /\ l = i_query i) \/ (k = LPath /\ l = i_path i) \/ (k = LHeader /\ l = i_header i) \/ (k = LCookie /\ l = i_cookie i)))
  \/ p = bp.
Proof.
  cbn [In]. intros [H|[H|[H|[H|[H|[]]]]]]; subst; [left|left|left|left|right; reflexivity].
  - exists LQuery, (i_query i); auto.
  - exists LPath, (i_path i); auto 6.
  - exists LHeader, (i_header i); auto 6.
  - exists LCookie, (i_cookie i); auto 6.
Qed.

Lemma case_has_present_negative_part modes i lbl :
  body_value_present i = true -> label_case Neg modes i = Case lbl ->
  exists p, In p (parts lbl) /\ p_label p = Some Neg /\ p_present p = true.
Proof.
  intros Hb H. destruct (case_has_negative_part _ _ _ H) as [_ [p [Hin [Hl Hg]]]].
  exists p. repeat split; auto.
  destruct (case_parts _ _ _ _ H) as [bp [Hbp [_ Hps]]]. rewrite Hps in Hin.
  unfold is_generated in Hg. rewrite Hl in Hg. apply orb_true_iff in Hg. destruct Hg as [Hg|Hg]; [|exact Hg].
  destruct (in_parts _ _ _ _ Hin) as [[k [l [-> _]]]| -> ].
  - rewrite loc_part_kind in Hg. discriminate.
  - rewrite (body_part_present _ _ _ _ Hbp Hl). exact Hb.
Qed.

(* witness: only an optional negatable body, drawn as NOT_SET *)
Definition loc_empty : loc_in := {| l_params := []; l_explicit := ENotSet; l_draw := DNone |}.
Definition body_none : body_in :=
  {| b_explicit := false; b_custom_nonbytes := false; b_alts := []; b_choice := 0; b_media_ok := true;
     b_other_media_ok := true; b_drawn_notset := false |}.
Definition i_notset_body : op_in :=
  {| i_path := loc_empty; i_header := loc_empty; i_cookie := loc_empty; i_query := loc_empty;
     i_body := {| b_explicit := false; b_custom_nonbytes := false;
                  b_alts := [{| a_can_negate := true; a_required := false |}]; b_choice := 0;
                  b_media_ok := true; b_other_media_ok := true; b_drawn_notset := true |} |}.

Lemma case_has_present_negative_part_refuted :
  draws_fit Neg i_notset_body = true /\
  exists lbl, label_case Neg [Neg] i_notset_body = Case lbl /\ case_mode lbl = Neg /\
    forall p, In p (parts lbl) -> p_present p = false.
Proof.
  split; [reflexivity|]. eexists. split; [reflexivity|]. split; [reflexivity|].
  cbn. intros p [H|[H|[H|[H|[H|[]]]]]]; subst; reflexivity.
Qed.

(* ---- presence ---- *)
Lemma remaining_nil ps : remaining ps [] = ps.
Proof. unfold remaining. induction ps as [|p r IH]; [reflexivity|]. cbn [filter existsb negb]. f_equal. exact IH. Qed.

Lemma loc_present mode k l : has_params l = true -> draw_fits mode k l = true ->
  p_present (loc_part mode k l) = true.
Proof.
  unfold has_params, draw_fits, loc_part, value_of, strategy_of. cbn [p_present].
  destruct (l_params l) as [|p ps] eqn:Eps; [discriminate|]. intros _ H.
  apply andb_true_iff in H. destruct H as [_ H].
  destruct (l_explicit l) as [|[|kv e]]; cbn [exclude_keys map] in H.
  - rewrite remaining_nil in H. destruct (generator_of mode k l), (l_draw l); try discriminate; reflexivity.
  - rewrite remaining_nil in H. destruct (generator_of mode k l), (l_draw l); try discriminate; reflexivity.
  - destruct (l_draw l); reflexivity.
Qed.

Lemma draws_fit_split mode i : draws_fit mode i = true ->
  draw_fits mode LPath (i_path i) = true /\ draw_fits mode LHeader (i_header i) = true /\
  draw_fits mode LCookie (i_cookie i) = true /\ draw_fits mode LQuery (i_query i) = true /\
  body_draw_fits mode (i_body i) = true.
Proof.
  unfold draws_fit. intros H.
  apply andb_true_iff in H. destruct H as [H H5]. apply andb_true_iff in H. destruct H as [H H4].
  apply andb_true_iff in H. destruct H as [H H3]. apply andb_true_iff in H. destruct H as [H1 H2]. auto.
Qed.

Lemma draws_fit_loc mode i k l : draws_fit mode i = true ->
  (k = LQuery /\ l = i_query i) \/ (k = LPath /\ l = i_path i) \/ (k = LHeader /\ l = i_header i) \/ (k = LCookie /\ l = i_cookie i) ->
  draw_fits mode k l = true.
Proof.
  intros H Hk. destruct (draws_fit_split _ _ H) as [A [B [C [D _]]]].
  destruct Hk as [[-> ->]|[[-> ->]|[[-> ->]|[-> ->]]]]; assumption.
Qed.

Lemma negative_parts_present modes i lbl p :
  all_have_params i = true -> draws_fit Neg i = true -> body_value_present i = true ->
  label_case Neg modes i = Case lbl -> In p (parts lbl) -> p_label p = Some Neg -> p_present p = true.
Proof.
  intros Hall Hfit Hb H Hin Hl.
  destruct (case_parts _ _ _ _ H) as [bp [Hbp [_ Hps]]]. rewrite Hps in Hin.
  unfold all_have_params in Hall.
  repeat (apply andb_true_iff in Hall; destruct Hall as [Hall ?]).
  destruct (in_parts _ _ _ _ Hin) as [[k [l [-> Hk]]]| -> ].
  - apply loc_present; [|eapply draws_fit_loc; eauto].
    destruct Hk as [[-> ->]|[[-> ->]|[[-> ->]|[-> ->]]]]; assumption.
  - rewrite (body_part_present _ _ _ _ Hbp Hl). exact Hb.
Qed.

(* witness: one integer query parameter, nothing else *)
Definition nm_q : str := [113].
Definition i_query_only : op_in :=
  {| i_path := loc_empty; i_header := loc_empty; i_cookie := loc_empty;
     i_query := {| l_params := [(nm_q, POther)]; l_explicit := ENotSet; l_draw := DDict [(nm_q, 0%N)] |};
     i_body := body_none |}.

Lemma negative_parts_present_refuted_absent_location :
  draws_fit Neg i_query_only = true /\
  exists lbl, label_case Neg [Neg] i_query_only = Case lbl /\
    comp lbl CPath = Some Neg /\ present lbl CPath = false /\
    comp lbl CHeaders = Some Neg /\ present lbl CHeaders = false /\
    comp lbl CCookies = Some Neg /\ present lbl CCookies = false.
Proof. split; [reflexivity|]. eexists. split; [reflexivity|]. repeat split. Qed.

Lemma negative_parts_present_refuted_notset_body :
  draws_fit Neg i_notset_body = true /\ all_have_params i_notset_body = false /\
  exists lbl, label_case Neg [Neg] i_notset_body = Case lbl /\ comp lbl CBody = Some Neg /\ present lbl CBody = false.
Proof. split; [reflexivity|]. split; [reflexivity|]. eexists. split; [reflexivity|]. split; reflexivity. Qed.

(* ---- labels follow the strategy ---- *)
Lemma fallback_nil k : fallback k [] = false.
Proof. destruct k; reflexivity. Qed.

Lemma loc_label_generator mode k l g : p_label (loc_part mode k l) = Some g -> g = generator_of mode k l.
Proof.
  unfold loc_part. cbn [p_label]. destruct (value_eq_explicit _ _); [discriminate|]. intros H; injection H as <-; reflexivity.
Qed.

Lemma loc_strategy_pos k l : generator_of Neg k l = Pos -> strategy_of Neg k l = SPos.
Proof.
  unfold strategy_of, generator_of. destruct (l_params l) as [|p ps] eqn:E.
  - rewrite fallback_nil. discriminate.
  - destruct (fallback k (p :: ps)); [|discriminate]. intros _. destruct (remaining _ _); reflexivity.
Qed.

Lemma loc_strategy_neg k l : generator_of Neg k l = Neg -> strategy_of Neg k l <> SPos.
Proof.
  unfold strategy_of. intros ->. destruct (l_params l); [discriminate|]. destruct (remaining _ _); discriminate.
Qed.

Lemma unique_assoc_get (e : dict) : unique_strs (map fst e) = true ->
  forall kv, In kv e -> assoc_get (fst kv) e = Some (snd kv).
Proof.
  induction e as [|[k v] r IH]; cbn [map fst unique_strs]; [intros _ kv []|].
  intros H kv Hin. apply andb_true_iff in H. destruct H as [Hk Hr]. cbn [assoc_get].
  destruct Hin as [<-|Hin]; cbn [fst snd].
  - rewrite str_eqb_refl. reflexivity.
  - destruct (str_eqb (fst kv) k) eqn:E.
    + apply str_eqb_spec in E. subst k. exfalso.
      apply negb_true_iff in Hk. assert (X : existsb (str_eqb (fst kv)) (map fst r) = true).
      { apply existsb_exists. exists (fst kv). split; [apply in_map; exact Hin | apply str_eqb_refl]. }
      rewrite X in Hk. discriminate.
    + apply IH; assumption.
Qed.

Lemma dict_eqb_refl e : unique_strs (map fst e) = true -> dict_eqb e e = true.
Proof.
  intros H. unfold dict_eqb. rewrite Nat.eqb_refl. cbn [andb]. apply forallb_forall. intros kv Hin.
  rewrite (unique_assoc_get e H kv Hin). apply N.eqb_refl.
Qed.

Lemma loc_present_neg_strategy k l :
  draw_fits Neg k l = true -> p_label (loc_part Neg k l) = Some Neg -> p_present (loc_part Neg k l) = true ->
  strategy_of Neg k l = SNeg.
Proof.
  intros Hfit Hl Hp. pose proof (loc_label_generator _ _ _ _ Hl) as Hg. symmetry in Hg.
  pose proof (loc_strategy_neg _ _ Hg) as Hne.
  destruct (strategy_of Neg k l) eqn:Es; [|congruence|reflexivity]. exfalso.
  unfold draw_fits in Hfit. rewrite Es in Hfit. apply andb_true_iff in Hfit. destruct Hfit as [Hwf Hd].
  destruct (l_draw l) eqn:Ed; [|discriminate].
  unfold loc_part in Hl, Hp. cbn [p_label p_present] in Hl, Hp. unfold value_of in Hl, Hp. rewrite Ed in Hl, Hp.
  destruct (l_explicit l) as [|[|kv e]] eqn:Ee; try discriminate.
  cbn [value_eq_explicit] in Hl. cbn [explicit_wf] in Hwf. rewrite (dict_eqb_refl _ Hwf) in Hl. discriminate.
Qed.

Lemma labels_follow_strategy modes i lbl p :
  label_case Neg modes i = Case lbl -> In p (parts lbl) ->
  (p_label p = Some Pos -> p_strategy p = SPos) /\
  (p_label p = Some Neg -> p_strategy p <> SPos) /\
  (draws_fit Neg i = true -> p_label p = Some Neg -> p_present p = true -> p_strategy p = SNeg).
Proof.
  intros H Hin. destruct (case_parts _ _ _ _ H) as [bp [Hbp [_ Hps]]]. rewrite Hps in Hin.
  destruct (in_parts _ _ _ _ Hin) as [[k [l [-> Hk]]]| -> ].
  - split; [|split].
    + intros Hl. apply loc_label_generator in Hl. symmetry in Hl. apply loc_strategy_pos. exact Hl.
    + intros Hl. apply loc_label_generator in Hl. symmetry in Hl. apply loc_strategy_neg. exact Hl.
    + intros Hfit Hl Hp. change (p_strategy (loc_part Neg k l)) with (strategy_of Neg k l).
      apply loc_present_neg_strategy; auto. eapply draws_fit_loc; eauto.
  - split; [|split]; intros; try rewrite (body_part_strategy _ _ _ _ Hbp H0); try rewrite (body_part_strategy _ _ _ _ Hbp H1);
      try reflexivity; discriminate.
Qed.

(* with the contract on the foreign strategies: what came from the negative strategy is invalid for the schema
   the strategy was built from, what came from the positive strategy is valid *)
Lemma labelled_parts_valid_as_labelled (gen_valid : ckind -> bool) modes i lbl :
  label_case Neg modes i = Case lbl -> draws_fit Neg i = true ->
  (forall p, In p (parts lbl) -> p_strategy p = SNeg -> gen_valid (p_kind p) = false) ->
  (forall p, In p (parts lbl) -> p_strategy p = SPos -> gen_valid (p_kind p) = true) ->
  forall p, In p (parts lbl) ->
    (p_label p = Some Neg -> p_present p = true -> gen_valid (p_kind p) = false) /\
    (p_label p = Some Pos -> gen_valid (p_kind p) = true).
Proof.
  intros H Hfit Hneg Hpos p Hin. destruct (labels_follow_strategy _ _ _ _ H Hin) as [A [_ C]]. split.
  - intros Hl Hp. apply Hneg; auto.
  - intros Hl. apply Hpos; auto.
Qed.

(* ---- skip / reject / case as a function of the shape ---- *)
Lemma loc_negated_iff k l : not_set l = true -> draw_fits Neg k l = true ->
  is_generated (loc_part Neg k l) && is_neg_label (loc_part Neg k l) = loc_negatable k l.
Proof.
  unfold not_set, draw_fits, loc_negatable, has_params, is_generated, is_neg_label, loc_part, value_of, strategy_of, generator_of.
  cbn [p_label p_present p_kind].
  destruct (l_explicit l); [|discriminate]. intros _. cbn [explicit_wf exclude_keys value_eq_explicit andb].
  destruct (l_params l) as [|p ps] eqn:Eps.
  - rewrite fallback_nil. destruct (l_draw l); [|discriminate]. intros _. destruct k; reflexivity.
  - rewrite remaining_nil. destruct (fallback k (p :: ps)); destruct (l_draw l); try discriminate; intros _; destruct k; reflexivity.
Qed.

Lemma body_negated_iff i bp : b_explicit (i_body i) = false -> body_serializable i = true ->
  body_part Neg (i_body i) = BOk bp ->
  is_generated bp && is_neg_label bp = existsb a_can_negate (b_alts (i_body i)).
Proof.
  unfold body_serializable, body_part. intros -> Hs.
  destruct (b_alts (i_body i)) as [|a r] eqn:Ea.
  - intros H; injection H as <-. reflexivity.
  - rewrite Hs. cbn [negb]. unfold body_candidates.
    remember (filter a_can_negate (a :: r)) as f eqn:Ef.
    assert (Hex : existsb a_can_negate (a :: r) = match f with [] => false | _ => true end).
    { destruct f as [|a0 f'].
      - apply not_true_is_false. intros Hex. apply existsb_exists in Hex.
        destruct Hex as [x [Hin Hx]]. assert (X : In x (filter a_can_negate (a :: r))) by (apply filter_In; auto).
        rewrite <- Ef in X. destruct X.
      - apply existsb_exists. exists a0.
        assert (X : In a0 (filter a_can_negate (a :: r))) by (rewrite <- Ef; left; reflexivity).
        apply filter_In in X. exact X. }
    rewrite Hex. intros H; injection H as <-.
    unfold is_generated, is_neg_label. cbn [p_label p_kind ckind_eqb orb].
    destruct f; reflexivity.
Qed.

Lemma body_part_ok i mode : b_explicit (i_body i) = false -> body_serializable i = true ->
  exists bp, body_part mode (i_body i) = BOk bp.
Proof.
  unfold body_serializable, body_part. intros -> Hs. destruct (b_alts (i_body i)); [eexists; reflexivity|].
  rewrite Hs. eexists; reflexivity.
Qed.

Lemma any_negated_shape i bp : no_explicit i = true -> draws_fit Neg i = true -> body_serializable i = true ->
  body_part Neg (i_body i) = BOk bp ->
  any_negated [loc_part Neg LQuery (i_query i); loc_part Neg LPath (i_path i);
               loc_part Neg LHeader (i_header i); loc_part Neg LCookie (i_cookie i); bp] = negatable_shape i.
Proof.
  intros Hne Hfit Hs Hbp. unfold no_explicit in Hne.
  apply andb_true_iff in Hne. destruct Hne as [Hne Hb]. apply negb_true_iff in Hb.
  apply andb_true_iff in Hne. destruct Hne as [Hne Hq]. apply andb_true_iff in Hne. destruct Hne as [Hne Hc].
  apply andb_true_iff in Hne. destruct Hne as [Hp Hh].
  destruct (draws_fit_split _ _ Hfit) as [Fp [Fh [Fc [Fq _]]]].
  unfold any_negated. cbn [existsb].
  rewrite (loc_negated_iff _ _ Hq Fq), (loc_negated_iff _ _ Hp Fp), (loc_negated_iff _ _ Hh Fh), (loc_negated_iff _ _ Hc Fc).
  rewrite (body_negated_iff _ _ Hb Hs Hbp). unfold negatable_shape.
  destruct (loc_negatable LQuery (i_query i)), (loc_negatable LPath (i_path i)), (loc_negatable LHeader (i_header i)),
    (loc_negatable LCookie (i_cookie i)), (existsb a_can_negate (b_alts (i_body i))); reflexivity.
Qed.

Lemma skip_iff_nothing_negatable i :
  no_explicit i = true -> draws_fit Neg i = true -> body_serializable i = true ->
  (label_case Neg [Neg] i = Skip <-> negatable_shape i = false) /\
  (forall modes, modes_only_negative modes = false -> (label_case Neg modes i = Reject <-> negatable_shape i = false)) /\
  (forall modes, negatable_shape i = true -> exists lbl, label_case Neg modes i = Case lbl).
Proof.
  intros Hne Hfit Hs.
  assert (Hb : b_explicit (i_body i) = false).
  { unfold no_explicit in Hne. apply andb_true_iff in Hne. destruct Hne as [_ Hb]. apply negb_true_iff in Hb. exact Hb. }
  destruct (body_part_ok i Neg Hb Hs) as [bp Hbp].
  pose proof (any_negated_shape i bp Hne Hfit Hs Hbp) as Hany.
  unfold label_case. rewrite Hbp. cbn [gmode_eqb andb]. rewrite Hany.
  split; [|split].
  - cbn [modes_only_negative]. destruct (negatable_shape i); cbn [negb]; split; intros H; try reflexivity; discriminate.
  - intros modes Hm. rewrite Hm. destruct (negatable_shape i); cbn [negb]; split; intros H; try reflexivity; discriminate.
  - intros modes Hn. rewrite Hn. cbn [negb]. eexists; reflexivity.
Qed.

(* non-vacuity of the hypotheses: both sides of the iff are inhabited *)
Definition nm_xa : str := [88; 45; 65].
Definition i_string_header : op_in :=
  {| i_path := loc_empty;
     i_header := {| l_params := [(nm_xa, PStrOnly)]; l_explicit := ENotSet; l_draw := DDict [(nm_xa, 0%N)] |};
     i_cookie := loc_empty; i_query := loc_empty; i_body := body_none |}.
Lemma skip_iff_nonvacuous :
  (no_explicit i_query_only = true /\ draws_fit Neg i_query_only = true /\ body_serializable i_query_only = true /\
   negatable_shape i_query_only = true) /\
  (no_explicit i_string_header = true /\ draws_fit Neg i_string_header = true /\ body_serializable i_string_header = true /\
   negatable_shape i_string_header = false /\ label_case Neg [Neg] i_string_header = Skip /\
   label_case Neg [Pos; Neg] i_string_header = Reject).
Proof. repeat split. Qed.

(* with an explicit argument the draw may equal it: nothing counts as generated and the operation is skipped *)
Definition nm_xq : str := [88; 45; 81].
Definition i_explicit_empty : op_in :=
  {| i_path := loc_empty;
     i_header := {| l_params := [(nm_xq, POther)]; l_explicit := EDict []; l_draw := DDict [] |};
     i_cookie := loc_empty; i_query := loc_empty; i_body := body_none |}.
Lemma negatable_gets_cases_refuted_explicit :
  draws_fit Neg i_explicit_empty = true /\ body_serializable i_explicit_empty = true /\
  negatable_shape i_explicit_empty = true /\ strategy_of Neg LHeader (i_header i_explicit_empty) = SNeg /\
  label_case Neg [Neg] i_explicit_empty = Skip.
Proof. repeat split. Qed.

(* ---------- Part B : mutation soundness ---------- *)
Lemma forallb_false_exists {A} (f : A -> bool) l : forallb f l = false -> exists x, In x l /\ f x = false.
Proof.
  induction l as [|a r IH]; cbn [forallb]; [discriminate|]. intros H. apply andb_false_iff in H. destruct H as [H|H].
  - exists a. split; [left; reflexivity | exact H].
  - destruct (IH H) as [x [Hin Hx]]. exists x. split; [right; exact Hin | exact Hx].
Qed.

Lemma forallb_false_intro {A} (f : A -> bool) l x : In x l -> f x = false -> forallb f l = false.
Proof.
  intros Hin Hx. destruct (forallb f l) eqn:E; [|reflexivity].
  rewrite forallb_forall in E. rewrite (E x Hin) in Hx. discriminate.
Qed.

Section Soundness.
  Variable sub_valid : json -> json -> bool.

  (* only additionalProperties reads its sibling keywords *)
  Lemma kw_valid_ctx c1 c2 k v : (forall b, k <> KAddProps b) -> kw_valid sub_valid c1 k v = kw_valid sub_valid c2 k v.
  Proof. intros H. destruct k; try reflexivity. exfalso. apply (H b). reflexivity. Qed.

  Lemma props_of_no_props ctx : (forall k, In k ctx -> kname_of k <> NProps) -> props_of ctx = [].
  Proof.
    intros H. unfold props_of.
    destruct (find (fun k => kname_eqb (kname_of k) NProps) ctx) eqn:E; [|reflexivity].
    apply find_some in E. destruct E as [Hin Hk]. exfalso. apply (H k Hin). destruct k; try discriminate. reflexivity.
  Qed.

  Lemma candidate_not_props c k : is_candidate c k = true -> kname_of k <> NProps.
  Proof. destruct k; cbn; try discriminate. Qed.

  Lemma invalid_kw_invalid_schema s k v : In k s -> kw_valid sub_valid s k v = false -> valid_kws sub_valid s v = false.
  Proof. intros Hin Hk. unfold valid_kws. eapply forallb_false_intro; eauto. Qed.

  Lemma negate_constraints_sound c s ch m v :
    negate_constraints c false s ch = Some m -> negate_region s m = true ->
    valid sub_valid m v = true -> valid_kws sub_valid s v = false.
  Proof.
    unfold negate_constraints.
    destruct (filter (is_candidate c) s) as [|c0 cs] eqn:Ec; [discriminate|].
    destruct (nth_error (c0 :: cs) _) as [chosen|] eqn:En; [|discriminate].
    intros H; injection H as <-. unfold negate_region, valid. cbn [kept negated].
    set (negd := filter _ s). intros Hreg Hv.
    assert (Hchosen : In chosen negd).
    { apply nth_error_In in En. rewrite <- Ec in En. apply filter_In in En. destruct En as [Hin Hc].
      unfold negd. apply filter_In. split; [exact Hin|]. rewrite Hc. cbn [andb].
      destruct (kname_of chosen); reflexivity. }
    apply andb_true_iff in Hv. destruct Hv as [_ Hn].
    destruct negd as [|n0 nr] eqn:En0; [destruct Hchosen|]. rewrite <- En0 in *. clear En0 n0 nr.
    apply negb_true_iff in Hn. apply forallb_false_exists in Hn. destruct Hn as [k [Hk Hkv]].
    assert (Hks : In k s) by (unfold negd in Hk; apply filter_In in Hk; tauto).
    apply (invalid_kw_invalid_schema s k v Hks).
    assert (Hnp : props_of negd = []).
    { apply props_of_no_props. intros k' Hk'. unfold negd in Hk'. apply filter_In in Hk'. destruct Hk' as [_ Hc].
      apply andb_true_iff in Hc. destruct Hc as [Hc _]. eapply candidate_not_props; eauto. }
    destruct k; try exact Hkv.
    (* additionalProperties *)
    destruct b; [cbn in Hkv; discriminate|].
    assert (Hex : existsb is_ap_false negd = true) by (apply existsb_exists; exists (KAddProps false); auto).
    rewrite Hex in Hreg. cbn [negb orb] in Hreg.
    destruct (props_of s) eqn:Eps; [|discriminate].
    cbn [kw_valid] in *. rewrite Hnp in Hkv. rewrite Eps. exact Hkv.
  Qed.

  (* ---- change_type ---- *)
  Lemma type_candidates_spec c ts t : In t (type_candidates c ts) ->
    tmem t ts = false /\ (tmem TInt ts = true -> t <> TNum).
  Proof.
    unfold type_candidates. intros H.
    assert (H1 : tmem t ts = false /\ (tmem TInt ts = true -> t <> TNum)).
    { destruct (tmem TInt ts) eqn:Ei.
      - apply filter_In in H. destruct H as [H Hn]. apply filter_In in H. destruct H as [_ Hm].
        apply negb_true_iff in Hm. split; [exact Hm|]. intros _ ->. discriminate.
      - apply filter_In in H. destruct H as [_ Hm]. apply negb_true_iff in Hm. split; [exact Hm|discriminate]. }
    exact H1.
  Qed.

  Lemma change_type_some c m ch m' : change_type c m ch = Some m' ->
    has_type_kw (kept m) = true /\ exists t, In t (type_candidates c (get_type (kept m))) /\
      m' = prevent_unsat t {| kept := set_type t (kept m); negated := negated m |}.
  Proof.
    unfold change_type. destruct (has_type_kw (kept m)) eqn:Eh; cbn [negb]; [|discriminate].
    destruct (c_form c); [discriminate|].
    destruct (tmem TStr (get_type (kept m)) && _); [discriminate|].
    set (cands := type_candidates c (get_type (kept m))).
    destruct cands as [|t0 [|t1 r]] eqn:Ec; [discriminate| |].
    - intros H; injection H as <-. split; [reflexivity|]. exists t0. split; [left; reflexivity|reflexivity].
    - destruct (nth_error (t0 :: t1 :: r) _) as [cand|] eqn:E1; [|discriminate].
      destruct (nth_error (cand :: _) _) as [t|] eqn:E2; [|discriminate].
      intros H; injection H as <-. split; [reflexivity|]. exists t. split; [|reflexivity].
      apply nth_error_In in E2. destruct E2 as [<-|E2].
      + eapply nth_error_In; eauto.
      + apply filter_In in E2. tauto.
  Qed.

  Lemma has_type_kw_find kws : has_type_kw kws = true -> exists ts, In (KType ts) kws /\ get_type kws = ts.
  Proof.
    unfold has_type_kw, get_type. destruct (find _ kws) as [k|] eqn:E; [|discriminate]. intros _.
    apply find_some in E. destruct E as [Hin Hk]. destruct k; try discriminate. exists ts. auto.
  Qed.

  Lemma set_type_has t kws : has_type_kw kws = true -> In (KType [t]) (set_type t kws).
  Proof.
    intros H. unfold set_type. rewrite H. destruct (has_type_kw_find kws H) as [ts [Hin _]].
    apply in_map_iff. exists (KType ts). split; [reflexivity|exact Hin].
  Qed.

  Lemma set_type_first t kws : has_type_kw kws = true ->
    find (fun k => kname_eqb (kname_of k) NType) (filter (keeps t) (set_type t kws)) = Some (KType [t]).
  Proof.
    intros H. unfold set_type. rewrite H. revert H. unfold has_type_kw.
    induction kws as [|k r IH]; cbn [map filter find]; [discriminate|].
    destruct k; cbn [kname_of kname_eqb keeps]; try (intros _; reflexivity);
      intros H; destruct t; cbn [filter find kname_of kname_eqb]; apply IH; exact H.
  Qed.

  Lemma has_type_overlap t t' v : has_type t v = true -> has_type t' v = true ->
    t = t' \/ (t = TInt /\ t' = TNum) \/ (t = TNum /\ t' = TInt).
  Proof. destruct t, t', v; cbn; intros; try discriminate; auto. Qed.
End Soundness.

Section Soundness2.
  Variable sub_valid : json -> json -> bool.

  Lemma valid_kws_in s k v : valid_kws sub_valid s v = true -> In k s -> kw_valid sub_valid s k v = true.
  Proof. unfold valid_kws. rewrite forallb_forall. auto. Qed.

  Lemma tmem_in t ts : In t ts -> tmem t ts = true.
  Proof. intros H. apply existsb_exists. exists t. split; [exact H|]. destruct t; reflexivity. Qed.

  Lemma change_type_sound c m ch m' v :
    change_type c m ch = Some m' -> change_type_region m m' = true ->
    valid sub_valid m' v = true -> valid sub_valid m v = false.
  Proof.
    intros H Hreg Hv. destruct (change_type_some _ _ _ _ H) as [Hh [t [Hc ->]]].
    destruct (type_candidates_spec _ _ _ Hc) as [Hnot Hnum].
    destruct (has_type_kw_find _ Hh) as [ts [Hin Hts]]. rewrite Hts in *.
    unfold valid in Hv. apply andb_true_iff in Hv. destruct Hv as [Hv _]. cbn [prevent_unsat kept] in Hv.
    assert (Ht : has_type t v = true).
    { assert (X : In (KType [t]) (filter (keeps t) (set_type t (kept m)))).
      { apply filter_In. split; [apply set_type_has; exact Hh | reflexivity]. }
      pose proof (valid_kws_in _ _ _ Hv X) as Y. cbn [kw_valid existsb] in Y. rewrite orb_false_r in Y. exact Y. }
    unfold valid. apply andb_false_iff. left.
    apply (invalid_kw_invalid_schema sub_valid (kept m) (KType ts) v Hin). cbn [kw_valid].
    apply not_true_is_false. intros Hex. apply existsb_exists in Hex. destruct Hex as [t' [Hin' Ht']].
    destruct (has_type_overlap t t' v Ht Ht') as [->|[[-> ->]|[-> ->]]].
    - rewrite (tmem_in _ _ Hin') in Hnot. discriminate.
    - (* number narrowed to integer: excluded by the region *)
      unfold change_type_region, new_type_of in Hreg. cbn [prevent_unsat kept] in Hreg.
      rewrite (set_type_first TInt _ Hh) in Hreg. rewrite Hts in Hreg. rewrite (tmem_in _ _ Hin') in Hreg. discriminate.
    - apply (Hnum (tmem_in _ _ Hin')). reflexivity.
  Qed.

  (* ---- remove_required_property ---- *)
  Lemma pick_required_in names ch name : pick_required names ch = Some name -> In name names.
  Proof.
    unfold pick_required. destruct names as [|x [|y r]]; [discriminate| |].
    - intros H; injection H as <-. left; reflexivity.
    - set (names := x :: y :: r).
      assert (Hsort : forall l z, In z (sort_strs l) -> In z l).
      { induction l as [|a l IH]; cbn [sort_strs fold_right]; [auto|]. intros z Hz.
        assert (Hins : forall u w l', In u (insert_sorted w l') -> u = w \/ In u l').
        { clear. intros u w l'. induction l' as [|b l' IH]; cbn [insert_sorted].
          - intros [<-|[]]; auto.
          - destruct (str_ltb b w).
            + intros [<-|Hu]; [right; left; reflexivity|]. destruct (IH Hu); [auto|right; right; assumption].
            + intros [<-|Hu]; auto. }
        destruct (Hins _ _ _ Hz) as [->|Hz']; [left; reflexivity|right; apply IH; exact Hz']. }
      destruct (nth_error (sort_strs names) _) as [cand|] eqn:E1; [|discriminate].
      intros E2. apply nth_error_In in E2. destruct E2 as [<-|E2].
      + apply Hsort. eapply nth_error_In; eauto.
      + apply Hsort in E2. apply filter_In in E2. tauto.
  Qed.

  Lemma assoc_mem_remove {A} name (ps : list (str * A)) : assoc_mem name (assoc_remove name ps) = false.
  Proof.
    unfold assoc_mem. induction ps as [|[k v] r IH]; cbn [assoc_remove assoc_get]; [reflexivity|].
    destruct (str_eqb name k) eqn:E; [exact IH|]. cbn [assoc_get]. rewrite E. exact IH.
  Qed.

  Lemma props_of_drop name t kws : assoc_mem name (props_of (set_type t (drop_required name kws))) = false.
  Proof.
    assert (G : forall l, (forall k, In k l -> forall ps, k = KProps ps -> assoc_mem name ps = false) ->
                assoc_mem name (props_of l) = false).
    { intros l Hl. unfold props_of. destruct (find _ l) as [k|] eqn:E; [|reflexivity].
      apply find_some in E. destruct E as [Hin _]. destruct k; try reflexivity. eapply Hl; eauto. }
    apply G. intros k Hin ps ->.
    assert (Hin' : In (KProps ps) (drop_required name kws)).
    { unfold set_type in Hin. destruct (has_type_kw _).
      - apply in_map_iff in Hin. destruct Hin as [k0 [Hk0 Hin]]. destruct k0; try discriminate; injection Hk0 as <-; exact Hin.
      - apply in_app_or in Hin. destruct Hin as [Hin|[Hin|[]]]; [exact Hin|discriminate]. }
    unfold drop_required in Hin'. apply in_flat_map in Hin'. destruct Hin' as [k0 [_ Hk0]].
    destruct k0; try (destruct Hk0 as [Hk0|[]]; discriminate).
    - destruct (remove_first name names); [destruct Hk0|destruct Hk0 as [Hk0|[]]; discriminate].
    - destruct (assoc_remove name ps0) eqn:Er; [destruct Hk0|]. destruct Hk0 as [Hk0|[]]. injection Hk0 as <-.
      rewrite <- Er. apply assoc_mem_remove.
  Qed.

  Lemma drop_required_keeps name k kws : In k kws -> (forall ns, k <> KRequired ns) -> (forall ps, k <> KProps ps) ->
    In k (drop_required name kws).
  Proof.
    intros Hin H1 H2. unfold drop_required. apply in_flat_map. exists k. split; [exact Hin|].
    destruct k; try (left; reflexivity). - exfalso; eapply H1; reflexivity. - exfalso; eapply H2; reflexivity.
  Qed.

  Lemma set_type_keeps t k kws : In k kws -> (forall ts, k <> KType ts) -> In k (set_type t kws).
  Proof.
    intros Hin H. unfold set_type. destruct (has_type_kw kws).
    - apply in_map_iff. exists k. split; [|exact Hin]. destruct k; try reflexivity. exfalso; eapply H; reflexivity.
    - apply in_or_app. left; exact Hin.
  Qed.

  Lemma set_type_obj kws : In (KType [TObj]) (set_type TObj kws).
  Proof.
    destruct (has_type_kw kws) eqn:E; [apply set_type_has; exact E|].
    unfold set_type. rewrite E. apply in_or_app. right. left. reflexivity.
  Qed.

  Lemma assoc_mem_in {A} name (kvs : list (str * A)) : assoc_mem name kvs = true -> exists v, In (name, v) kvs.
  Proof.
    unfold assoc_mem. induction kvs as [|[k v] r IH]; cbn [assoc_get]; [discriminate|].
    destruct (str_eqb name k) eqn:E.
    - apply str_eqb_spec in E. subst. intros _. exists v. left; reflexivity.
    - intros H. destruct (IH H) as [w Hw]. exists w. right; exact Hw.
  Qed.

  Lemma remove_required_sound m ch m' v :
    remove_required_property m ch = Some m' -> closed_object m = true ->
    valid sub_valid m' v = true -> valid sub_valid m v = false.
  Proof.
    unfold remove_required_property. destruct (negb (tmem TObj (get_type (kept m)))); [discriminate|].
    unfold required_of. destruct (find _ (kept m)) as [k|] eqn:Ef; [|discriminate].
    destruct k; try discriminate. apply find_some in Ef. destruct Ef as [Hreq _].
    destruct (pick_required names ch) as [name|] eqn:Ep; [|discriminate].
    intros H; injection H as <-. intros Hclosed Hv.
    apply pick_required_in in Ep.
    unfold valid in Hv. apply andb_true_iff in Hv. destruct Hv as [Hv _]. cbn [kept] in Hv.
    set (kws' := set_type TObj (drop_required name (kept m))) in *.
    (* the value is an object *)
    pose proof (valid_kws_in _ _ _ Hv (set_type_obj _)) as Hobj. cbn [kw_valid existsb] in Hobj. rewrite orb_false_r in Hobj.
    destruct v; try discriminate.
    (* additionalProperties: false is still there, and name is not a declared property any more *)
    unfold closed_object in Hclosed. apply existsb_exists in Hclosed. destruct Hclosed as [k [Hk Hap]].
    destruct k; try discriminate. destruct b; [discriminate|].
    assert (Hk' : In (KAddProps false) kws').
    { apply set_type_keeps; [|discriminate]. apply drop_required_keeps; [exact Hk|discriminate|discriminate]. }
    pose proof (valid_kws_in _ _ _ Hv Hk') as Hadd. cbn [kw_valid orb] in Hadd.
    assert (Hmissing : assoc_mem name kvs = false).
    { apply not_true_is_false. intros Hm. apply assoc_mem_in in Hm. destruct Hm as [w Hw].
      rewrite forallb_forall in Hadd. specialize (Hadd _ Hw). cbn [fst] in Hadd.
      unfold kws' in Hadd. rewrite props_of_drop in Hadd. discriminate. }
    unfold valid. apply andb_false_iff. left.
    apply (invalid_kw_invalid_schema sub_valid (kept m) (KRequired names) (JObj kvs) Hreq). cbn [kw_valid].
    eapply forallb_false_intro; eauto.
  Qed.
End Soundness2.

(* ---- the unrestricted soundness statements are false ---- *)
Definition sv_true : json -> json -> bool := fun _ _ => true.
Definition nm_a : str := [97].
Definition body_ctx : mctx := {| c_loc := MBody; c_form := false |}.
Definition query_ctx : mctx := {| c_loc := MQuery; c_form := false |}.

Definition s_closed : schema := [KProps [(nm_a, JObj [])]; KAddProps false; KType [TObj]].
Lemma negate_constraints_sound_refuted :
  exists m, negate_constraints query_ctx false s_closed {| n_idx := 0; n_enabled := [] |} = Some m /\
    negated m = [KAddProps false] /\
    valid sv_true m (JObj [(nm_a, JInt 1)]) = true /\ valid_kws sv_true s_closed (JObj [(nm_a, JInt 1)]) = true.
Proof. eexists. split; [reflexivity|]. repeat split. Qed.

Lemma change_type_sound_refuted :
  exists m', change_type body_ctx (plain [KType [TNum]]) {| t_idx1 := 2; t_enabled := []; t_idx2 := 0 |} = Some m' /\
    new_type_of m' = Some TInt /\
    valid sv_true m' (JInt 1) = true /\ valid sv_true (plain [KType [TNum]]) (JInt 1) = true.
Proof. eexists. split; [reflexivity|]. repeat split. Qed.

Definition s_open : schema := [KType [TObj]; KRequired [nm_a]; KProps [(nm_a, JObj [])]].
Lemma remove_required_sound_refuted :
  exists m', remove_required_property (plain s_open) {| r_idx1 := 0; r_enabled := []; r_idx2 := 0 |} = Some m' /\
    closed_object (plain s_open) = false /\
    valid sv_true m' (JObj [(nm_a, JInt 1)]) = true /\ valid sv_true (plain s_open) (JObj [(nm_a, JInt 1)]) = true.
Proof. eexists. split; [reflexivity|]. repeat split. Qed.

(* non-vacuity of the three soundness theorems *)
Definition s_bounded : schema := [KType [TInt]; KMin 3; KMax 9].
Lemma soundness_nonvacuous :
  (exists m, negate_constraints body_ctx false s_bounded {| n_idx := 1; n_enabled := [] |} = Some m /\
     negate_region s_bounded m = true /\ valid sv_true m (JInt 10) = true /\ valid_kws sv_true s_bounded (JInt 10) = false) /\
  (exists m', change_type body_ctx (plain s_bounded) {| t_idx1 := 5; t_enabled := [TNull]; t_idx2 := 1 |} = Some m' /\
     change_type_region (plain s_bounded) m' = true /\ valid sv_true m' JNull = true) /\
  (exists m', remove_required_property (plain (KAddProps false :: s_open)) {| r_idx1 := 0; r_enabled := []; r_idx2 := 0 |} = Some m' /\
     closed_object (plain (KAddProps false :: s_open)) = true /\ valid sv_true m' (JObj []) = true).
Proof. split; [|split]; eexists; repeat split. Qed.

(* ---- the code own predicates against what the mutations can do ---- *)
(* a string path parameter: can_negate_path_parameters says yes, the negative strategy is chosen, no mutation applies *)
Definition nm_id : str := [105; 100].
Definition path_ctx : mctx := {| c_loc := MPath; c_form := false |}.
Definition s_path_string : schema := [KType [TStr]; KMinLen 1].
Lemma path_string_claimed_negatable_refuted :
  can_negate_path [(nm_id, PStrOnly)] = true /\
  (forall d, strategy_of Neg LPath {| l_params := [(nm_id, PStrOnly)]; l_explicit := ENotSet; l_draw := d |} = SNeg) /\
  (forall ch, negate_constraints path_ctx false s_path_string ch = None) /\
  (forall ch, change_type path_ctx (plain s_path_string) ch = None) /\
  (forall ch, remove_required_property (plain s_path_string) ch = None).
Proof. repeat split. Qed.

(* a required string header: the fallback makes the operation a skip, although removing the header is a sound negation *)
Definition header_ctx : mctx := {| c_loc := MHeader; c_form := false |}.
Definition s_required_header : schema :=
  [KProps [(nm_xa, JObj [([116;121;112;101], JStr [115;116;114;105;110;103])])]; KAddProps false; KType [TObj]; KRequired [nm_xa]].
Lemma required_string_header_skipped_refuted :
  fallback LHeader [(nm_xa, PStrOnly)] = true /\
  no_explicit i_string_header = true /\ draws_fit Neg i_string_header = true /\
  label_case Neg [Neg] i_string_header = Skip /\
  exists m', remove_required_property (plain s_required_header) {| r_idx1 := 0; r_enabled := []; r_idx2 := 0 |} = Some m' /\
    valid sv_true m' (JObj []) = true /\
    forall sv v, valid sv m' v = true -> valid sv (plain s_required_header) v = false.
Proof.
  repeat split. eexists. split; [reflexivity|]. split; [reflexivity|].
  intros sv v. apply remove_required_sound with (ch := {| r_idx1 := 0; r_enabled := []; r_idx2 := 0 |}); reflexivity.
Qed.

(* ---------- Part C : coercion ---------- *)
Open Scope N_scope.
Lemma digit_char n : is_digit (48 + n mod 10) = true.
Proof.
  unfold is_digit. assert (H : n mod 10 < 10) by (apply N.mod_upper_bound; discriminate).
  revert H. generalize (n mod 10). intros m H. apply andb_true_iff. split; apply N.leb_le; lia.
Qed.

Lemma digits_fuel_head fuel n acc :
  (match acc with [] => True | c :: _ => is_digit c = true end) -> fuel <> O ->
  exists c r, digits_fuel fuel n acc = c :: r /\ is_digit c = true.
Proof.
  revert n acc. induction fuel as [|f IH]; intros n acc Hacc Hf; [congruence|]. cbn [digits_fuel].
  destruct (n <? 10).
  - eexists _, _. split; [reflexivity|apply digit_char].
  - destruct f as [|f'].
    + cbn [digits_fuel]. eexists _, _. split; [reflexivity|apply digit_char].
    + apply IH; [apply digit_char|discriminate].
Qed.

Lemma show_Z_head z : exists c r, show_Z z = c :: r /\ (c = 45 \/ is_digit c = true).
Proof.
  destruct z as [|p|p]; cbn [show_Z].
  - exists 48, []. split; [reflexivity|right; reflexivity].
  - destruct (digits_fuel_head (S (N.to_nat (N.log2 (N.pos p)))) (N.pos p) []) as [c [r [E D]]]; [exact I|discriminate|].
    exists c, r. unfold show_N. rewrite E. auto.
  - eexists 45, _. split; [reflexivity|left; reflexivity].
Qed.

Lemma show_Z_not_word z : str_eqb (show_Z z) s_true = false /\ str_eqb (show_Z z) s_false = false /\ str_eqb (show_Z z) s_null = false.
Proof.
  destruct (show_Z_head z) as [c [r [-> Hc]]]. unfold s_true, s_false, s_null. cbn [str_eqb].
  destruct Hc as [->|Hd]; [repeat split; reflexivity|].
  unfold is_digit in Hd. apply andb_true_iff in Hd. destruct Hd as [H1 H2]. apply N.leb_le in H1, H2.
  repeat split; (destruct (c =? _) eqn:E; [apply N.eqb_eq in E; lia|reflexivity]).
Qed.

Lemma invalid_survives_coercion t v w :
  coercion_safe t v = true -> valid_prim t v = false -> coerce v = Some w -> wire_valid t w = false.
Proof.
  destruct v; cbn [coerce coercion_safe]; intros Hs Hv Hw; try discriminate; injection Hw as <-.
  - destruct t; try discriminate; reflexivity.
  - destruct t, b; try discriminate; reflexivity.
  - destruct (show_Z_not_word z) as [A [B C]]. destruct t; try discriminate; cbn [wire_valid]; rewrite ?A, ?B, ?C; reflexivity.
  - apply negb_true_iff in Hs. exact Hs.
Qed.

Lemma invalid_survives_coercion_refuted :
  valid_prim PInt (JStr [53]) = false /\ coerce (JStr [53]) = Some [53] /\ wire_valid PInt [53] = true /\
  valid_prim PBool (JStr s_true) = false /\ coerce (JStr s_true) = Some s_true /\ wire_valid PBool s_true = true /\
  valid_prim PString (JInt 5) = false /\ coerce (JInt 5) = Some [53] /\ wire_valid PString [53] = true.
Proof. repeat split. Qed.

Lemma coercion_nonvacuous :
  coercion_safe PInt (JBool true) = true /\ valid_prim PInt (JBool true) = false /\ coerce (JBool true) = Some s_true /\
  coercion_safe PBool (JInt (-12)) = true /\ coerce (JInt (-12)) = Some [45; 49; 50] /\ wire_valid PInt [45; 49; 50] = true.
Proof. repeat split. Qed.

(* the refutation witnesses in the shape used by Properties_C02 *)
Definition ch_n0 : nchoice := {| n_idx := 0; n_enabled := [] |}.
Definition m_closed_neg : mschema := {| kept := [KProps [(nm_a, JObj [])]; KType [TObj]]; negated := [KAddProps false] |}.
Definition v_a1 : json := JObj [(nm_a, JInt 1)].
Lemma negate_constraints_sound_refuted_w :
  negate_constraints query_ctx false s_closed ch_n0 = Some m_closed_neg /\ valid sv_true m_closed_neg v_a1 = true /\
  valid_kws sv_true s_closed v_a1 = true.
Proof. repeat split. Qed.

Definition ch_t2 : tchoice := {| t_idx1 := 2; t_enabled := []; t_idx2 := 0 |}.
Lemma change_type_sound_refuted_w :
  change_type body_ctx (plain [KType [TNum]]) ch_t2 = Some (plain [KType [TInt]]) /\
  valid sv_true (plain [KType [TInt]]) (JInt 1) = true /\ valid sv_true (plain [KType [TNum]]) (JInt 1) = true.
Proof. repeat split. Qed.

Definition ch_r0 : rchoice := {| r_idx1 := 0; r_enabled := []; r_idx2 := 0 |}.
Lemma remove_required_sound_refuted_w :
  remove_required_property (plain s_open) ch_r0 = Some (plain [KType [TObj]]) /\
  valid sv_true (plain [KType [TObj]]) v_a1 = true /\ valid sv_true (plain s_open) v_a1 = true.
Proof. repeat split. Qed.

Lemma invalid_survives_coercion_refuted_w :
  valid_prim PInt (JStr [53%N]) = false /\ coerce (JStr [53%N]) = Some [53%N] /\ wire_valid PInt [53%N] = true.
Proof. repeat split. Qed.

(* ---------- exclusion of explicit names ---------- *)
Lemma find_map_kname (f : kw -> kw) n l : (forall k, kname_of (f k) = kname_of k) ->
  find (fun k => kname_eqb (kname_of k) n) (map f l) = option_map f (find (fun k => kname_eqb (kname_of k) n) l).
Proof.
  intros Hf. induction l as [|k r IH]; [reflexivity|]. cbn [map find]. rewrite Hf.
  destruct (kname_eqb (kname_of k) n); [reflexivity|exact IH].
Qed.

Lemma exclude_one_kname name k :
  kname_of (match k with KProps ps => KProps (assoc_remove name ps) | KRequired ns => KRequired (remove_first name ns) | _ => k end) = kname_of k.
Proof. destruct k; reflexivity. Qed.

Lemma required_of_exclude_one name s :
  required_of (exclude_one name s) = option_map (remove_first name) (required_of s).
Proof.
  unfold required_of, exclude_one. rewrite find_map_kname by (intros k; apply exclude_one_kname).
  destruct (find _ s) as [k|]; [|reflexivity]. destruct k; reflexivity.
Qed.

Lemma props_of_exclude_one name s : props_of (exclude_one name s) = assoc_remove name (props_of s).
Proof.
  unfold props_of, exclude_one. rewrite find_map_kname by (intros k; apply exclude_one_kname).
  destruct (find _ s) as [k|]; [|reflexivity]. destruct k; reflexivity.
Qed.

Lemma smem_remove_first_same name ns : unique_strs ns = true -> smem name (remove_first name ns) = false.
Proof.
  unfold smem. induction ns as [|x r IH]; [reflexivity|]. cbn [unique_strs remove_first]. intros H.
  apply andb_true_iff in H. destruct H as [Hx Hr]. destruct (str_eqb name x) eqn:E.
  - apply str_eqb_spec in E. subst. apply negb_true_iff in Hx. exact Hx.
  - cbn [existsb]. rewrite E. apply IH. exact Hr.
Qed.

Lemma smem_remove_first_other n name ns : str_eqb n name = false -> smem n (remove_first name ns) = smem n ns.
Proof.
  unfold smem. intros Hne. induction ns as [|x r IH]; [reflexivity|]. cbn [remove_first].
  destruct (str_eqb name x) eqn:E.
  - apply str_eqb_spec in E. subst. cbn [existsb]. rewrite Hne. reflexivity.
  - cbn [existsb]. rewrite IH. reflexivity.
Qed.

Lemma smem_remove_first_le n name ns : smem n ns = false -> smem n (remove_first name ns) = false.
Proof.
  unfold smem. induction ns as [|x r IH]; [reflexivity|]. cbn [remove_first existsb]. intros H.
  apply orb_false_iff in H. destruct H as [H1 H2]. destruct (str_eqb name x); [exact H2|].
  cbn [existsb]. rewrite H1. apply IH. exact H2.
Qed.

Lemma unique_remove_first name ns : unique_strs ns = true -> unique_strs (remove_first name ns) = true.
Proof.
  induction ns as [|x r IH]; [reflexivity|]. cbn [unique_strs remove_first]. intros H.
  apply andb_true_iff in H. destruct H as [Hx Hr]. destruct (str_eqb name x); [exact Hr|].
  cbn [unique_strs]. rewrite (IH Hr), andb_true_r. apply negb_true_iff. apply negb_true_iff in Hx.
  apply (smem_remove_first_le x name r Hx).
Qed.

Lemma assoc_mem_remove_le {A} n name (ps : list (str * A)) : assoc_mem n ps = false -> assoc_mem n (assoc_remove name ps) = false.
Proof.
  unfold assoc_mem. induction ps as [|[k v] r IH]; [reflexivity|]. cbn [assoc_get assoc_remove].
  destruct (str_eqb n k) eqn:E; [discriminate|]. intros H. destruct (str_eqb name k); [apply IH; exact H|].
  cbn [assoc_get]. rewrite E. apply IH. exact H.
Qed.

Lemma assoc_mem_remove_other {A} n name (ps : list (str * A)) : str_eqb n name = false ->
  assoc_mem n (assoc_remove name ps) = assoc_mem n ps.
Proof.
  unfold assoc_mem. intros Hne. induction ps as [|[k v] r IH]; [reflexivity|]. cbn [assoc_remove assoc_get].
  destruct (str_eqb name k) eqn:E.
  - apply str_eqb_spec in E. subst. rewrite Hne. exact IH.
  - cbn [assoc_get]. destruct (str_eqb n k); [reflexivity|exact IH].
Qed.

Lemma str_eqb_false_sym a b : str_eqb a b = false -> str_eqb b a = false.
Proof.
  intros H. destruct (str_eqb b a) eqn:E; [|reflexivity]. apply str_eqb_spec in E. subst. rewrite str_eqb_refl in H. discriminate.
Qed.

(* after the exclusion neither required nor properties mention an excluded name; other names are untouched *)
Lemma exclusion_clears names : forall s ns,
  required_of s = Some ns -> unique_strs ns = true ->
  exists ns', required_of (exclude_names names s) = Some ns' /\ unique_strs ns' = true /\
    (forall n, smem n names = true -> smem n ns' = false /\ assoc_mem n (props_of (exclude_names names s)) = false) /\
    (forall n, smem n names = false ->
       smem n ns' = smem n ns /\ assoc_mem n (props_of (exclude_names names s)) = assoc_mem n (props_of s)).
Proof.
  induction names as [|name r IH]; intros s ns Hreq Hu.
  - exists ns. cbn [exclude_names fold_left]. split; [exact Hreq|]. split; [exact Hu|]. split.
    + intros n0 H0. discriminate.
    + intros n0 _. split; reflexivity.
  - cbn [exclude_names fold_left]. fold (exclude_names r (exclude_one name s)).
    assert (Hreq1 : required_of (exclude_one name s) = Some (remove_first name ns)).
    { rewrite required_of_exclude_one, Hreq. reflexivity. }
    destruct (IH _ _ Hreq1 (unique_remove_first name ns Hu)) as [ns' [A [B [C D]]]].
    exists ns'. split; [exact A|]. split; [exact B|]. split.
    + intros n Hn. change (smem n (name :: r)) with (str_eqb n name || smem n r) in Hn. destruct (smem n r) eqn:Er.
      * apply C. exact Er.
      * destruct (D n Er) as [D1 D2]. rewrite D1, D2. rewrite orb_false_r in Hn. apply str_eqb_spec in Hn. subst n.
        split; [apply smem_remove_first_same; exact Hu|]. rewrite props_of_exclude_one. apply assoc_mem_remove.
    + intros n Hn. change (smem n (name :: r)) with (str_eqb n name || smem n r) in Hn. apply orb_false_iff in Hn. destruct Hn as [Hne Hr].
      destruct (D n Hr) as [D1 D2]. rewrite D1, D2. split.
      * apply smem_remove_first_other. exact Hne.
      * rewrite props_of_exclude_one. apply assoc_mem_remove_other. exact Hne.
Qed.

Definition nm_filter : str := [102; 105; 108; 116; 101; 114].
Definition nm_limit : str := [108; 105; 109; 105; 116].
Definition s_filter_limit : schema :=
  [KProps [(nm_filter, JObj []); (nm_limit, JObj [(n_type, JStr n_integer)])]; KAddProps false; KType [TObj]; KRequired [nm_filter]].
Lemma exclusion_nonvacuous :
  required_of s_filter_limit = Some [nm_filter] /\ unique_strs [nm_filter] = true /\
  exclude_names [nm_filter] s_filter_limit =
    [KProps [(nm_limit, JObj [(n_type, JStr n_integer)])]; KAddProps false; KType [TObj]; KRequired []] /\
  valid sub_valid_simple (plain (exclude_names [nm_filter] s_filter_limit)) (JObj [(nm_limit, JInt 0)]) = true.
Proof. repeat split. Qed.

(* ---------- Part D : the class of a header / cookie from the declared schema ---------- *)
Lemma is_bare_string_eq s : is_bare_string s = true <-> s = bare_string.
Proof.
  unfold is_bare_string. split.
  - intros H. apply json_eqb_eq in H. injection H as ->. reflexivity.
  - intros ->. apply json_eqb_refl.
Qed.

Lemma header_class_bare_iff v2 decl exs :
  header_class v2 decl exs = PStrOnly <-> header_prop_schema v2 decl exs = bare_string.
Proof.
  unfold header_class. destruct (is_bare_string _) eqn:E.
  - split; [intros _; apply is_bare_string_eq; exact E | reflexivity].
  - split; [discriminate|]. intros H. apply is_bare_string_eq in H. rewrite H in E. discriminate.
Qed.

Lemma header_class_other_iff v2 decl exs :
  header_class v2 decl exs = POther <-> header_prop_schema v2 decl exs <> bare_string.
Proof.
  unfold header_class. destruct (is_bare_string _) eqn:E.
  - apply is_bare_string_eq in E. split; [discriminate | intros H; contradiction].
  - split; [|reflexivity]. intros _ H. apply is_bare_string_eq in H. rewrite H in E. discriminate.
Qed.

Definition small (s : jdict) : Prop := s = [] \/ s = bare_string.

Lemma small_no_key k s : small s -> str_eqb k k_type = false -> assoc_mem k s = false.
Proof. intros [->| ->] H; [reflexivity|]. unfold assoc_mem, bare_string. cbn [assoc_get]. rewrite H. reflexivity. Qed.

Lemma assoc_mem_set_same {A} k (v : A) l : assoc_mem k (assoc_set k v l) = true.
Proof. unfold assoc_mem. rewrite assoc_get_set_same. reflexivity. Qed.

Lemma hp_default_small s : hp_default_type s = bare_string -> small s.
Proof.
  unfold hp_default_type. destruct (assoc_mem k_type s).
  - intros ->. right. reflexivity.
  - destruct s as [|a [|b r]]; [left; reflexivity| |]; cbn [app]; intros H; discriminate.
Qed.

Lemma hp_file_small s : small (hp_file s) -> small s.
Proof.
  unfold hp_file. destruct (assoc_get k_type s) as [[| | |t| |]|]; try (intros H; exact H).
  destruct (str_eqb t k_file); [|intros H; exact H].
  intros H. pose proof (small_no_key k_format _ H eq_refl) as X. rewrite assoc_mem_set_same in X. discriminate.
Qed.

Lemma hp_nullable_small v2 s : small (hp_nullable v2 s) -> small s.
Proof.
  unfold hp_nullable. destruct (assoc_get (nullable_name v2) s) as [[|[]| | | |]|]; try (intros H; exact H).
  intros [H|H]; discriminate.
Qed.

Lemma hp_examples_small exs s : small (hp_examples exs s) -> exs = [] /\ small s.
Proof.
  unfold hp_examples. destruct exs as [|e r]; [intros H; split; [reflexivity|exact H]|].
  intros H. pose proof (small_no_key k_examples _ H eq_refl) as X. rewrite assoc_mem_set_same in X. discriminate.
Qed.

Lemma header_prop_bare_inv v2 decl exs :
  header_prop_schema v2 decl exs = bare_string -> exs = [] /\ small (hp_filter v2 decl).
Proof.
  unfold header_prop_schema. intros H.
  apply hp_default_small, hp_file_small, hp_nullable_small, hp_examples_small in H. exact H.
Qed.

(* the keys the independent reading looks at all survive the keyword filter, in both dialects *)
Lemma entry_violable_kept v2 kv : entry_violable kv = true -> keep_keyword v2 (fst kv) = true.
Proof.
  unfold entry_violable. destruct kv as [k v]. cbn [fst snd].
  destruct (str_eqb k k_type) eqn:E1.
  { apply str_eqb_spec in E1. subst k. destruct v2; reflexivity. }
  destruct (smem k constraint_keys) eqn:E2.
  { intros _. unfold smem, constraint_keys in E2. cbn [existsb] in E2.
    repeat (apply orb_true_iff in E2; destruct E2 as [E2|E2]);
      try (apply str_eqb_spec in E2; subst k; destruct v2; reflexivity). discriminate. }
  destruct (str_eqb k k_minLength) eqn:E3; [|discriminate].
  apply str_eqb_spec in E3. subst k. intros _. destruct v2; reflexivity.
Qed.

Lemma entry_violable_not_bare kv : entry_violable kv = true -> kv <> (k_type, JStr k_string).
Proof. intros H ->. vm_compute in H. discriminate. Qed.

(* T2: whatever a text value can violate is claimed negatable by the code own predicate *)
Lemma violable_header_claimed_negatable v2 decl exs :
  header_value_violable decl = true -> header_class v2 decl exs = POther.
Proof.
  intros H. apply header_class_other_iff. intros Hb. apply header_prop_bare_inv in Hb. destruct Hb as [_ Hs].
  unfold header_value_violable in H. apply existsb_exists in H. destruct H as [kv [Hin Hv]].
  assert (X : In kv (hp_filter v2 decl)).
  { unfold hp_filter. apply filter_In. split; [exact Hin | apply entry_violable_kept; exact Hv]. }
  destruct Hs as [Hs|Hs]; rewrite Hs in X.
  - destruct X.
  - destruct X as [X|[]]. apply (entry_violable_not_bare kv Hv). symmetry. exact X.
Qed.

(* ---- the converse inside the region plain_header ---- *)
Lemma kept_is_bare v2 kv :
  plain_entry v2 kv = true -> entry_violable kv = false -> keep_keyword v2 (fst kv) = true -> kv = (k_type, JStr k_string).
Proof.
  unfold plain_entry, entry_violable. destruct kv as [k v]. cbn [fst snd].
  destruct (str_eqb k k_type) eqn:E1.
  - intros _ Hv _. apply str_eqb_spec in E1. subst k. apply negb_false_iff in Hv. apply json_eqb_eq in Hv. subst v. reflexivity.
  - destruct (smem k constraint_keys); [intros _ H; discriminate|].
    destruct (str_eqb k k_minLength).
    + intros H1 H2. rewrite H1 in H2. discriminate.
    + intros H1 _ H3. rewrite H3 in H1. discriminate.
Qed.

Lemma filter_none v2 l :
  (forall kv, In kv l -> keep_keyword v2 (fst kv) = true -> fst kv = k_type) ->
  existsb (str_eqb k_type) (map fst l) = false -> hp_filter v2 l = [].
Proof.
  unfold hp_filter. induction l as [|kv r IH]; [reflexivity|]. intros H Hn. cbn [map existsb] in Hn.
  apply orb_false_iff in Hn. destruct Hn as [Hk Hr]. cbn [filter].
  destruct (keep_keyword v2 (fst kv)) eqn:E.
  - rewrite (H kv (or_introl eq_refl) E) in Hk. rewrite str_eqb_refl in Hk. discriminate.
  - apply IH; [|exact Hr]. intros kv' Hin. apply H. right. exact Hin.
Qed.

Lemma plain_filter_small v2 decl :
  plain_header v2 decl = true -> header_value_violable decl = false -> small (hp_filter v2 decl).
Proof.
  unfold plain_header, header_value_violable. intros Hp Hv. apply andb_true_iff in Hp. destruct Hp as [Hp Hu].
  induction decl as [|kv r IH]; [left; reflexivity|].
  cbn [forallb] in Hp. apply andb_true_iff in Hp. destruct Hp as [Hp1 Hp2].
  cbn [existsb] in Hv. apply orb_false_iff in Hv. destruct Hv as [Hv1 Hv2].
  cbn [map unique_strs] in Hu. apply andb_true_iff in Hu. destruct Hu as [Hu1 Hu2]. apply negb_true_iff in Hu1.
  unfold hp_filter. cbn [filter]. fold (hp_filter v2 r).
  destruct (keep_keyword v2 (fst kv)) eqn:E.
  - pose proof (kept_is_bare v2 kv Hp1 Hv1 E) as ->. cbn [fst] in Hu1. right.
    rewrite (filter_none v2 r); [reflexivity| |exact Hu1].
    intros kv' Hin Hk.
    assert (P : plain_entry v2 kv' = true) by (rewrite forallb_forall in Hp2; apply Hp2; exact Hin).
    assert (V : entry_violable kv' = false).
    { destruct (entry_violable kv') eqn:EV; [|reflexivity].
      assert (X : existsb entry_violable r = true) by (apply existsb_exists; exists kv'; auto). rewrite X in Hv2. discriminate. }
    rewrite (kept_is_bare v2 kv' P V Hk). reflexivity.
  - apply IH; assumption.
Qed.

Lemma unviolable_plain_header_bare v2 decl :
  plain_header v2 decl = true -> header_value_violable decl = false -> header_class v2 decl [] = PStrOnly.
Proof.
  intros Hp Hv. apply header_class_bare_iff. unfold header_prop_schema. cbn [hp_examples].
  destruct (plain_filter_small v2 decl Hp Hv) as [-> | ->]; destruct v2; reflexivity.
Qed.

Lemma plain_header_class_iff v2 decl :
  plain_header v2 decl = true ->
  (header_class v2 decl [] = PStrOnly <-> header_value_violable decl = false).
Proof.
  intros Hp. split.
  - intros Hc. destruct (header_value_violable decl) eqn:E; [|reflexivity].
    rewrite (violable_header_claimed_negatable v2 decl [] E) in Hc. discriminate.
  - apply unviolable_plain_header_bare. exact Hp.
Qed.

(* ---- operation level ---- *)

Lemma existsb_map {A B} (f : B -> bool) (g : A -> B) l : existsb f (map g l) = existsb (fun x => f (g x)) l.
Proof. induction l as [|a r IH]; [reflexivity|]. cbn [map existsb]. rewrite IH. reflexivity. Qed.

Lemma existsb_ext_in {A} (f g : A -> bool) l : (forall x, In x l -> f x = g x) -> existsb f l = existsb g l.
Proof.
  induction l as [|a r IH]; [reflexivity|]. intros H. cbn [existsb]. rewrite (H a (or_introl eq_refl)), IH; [reflexivity|].
  intros x Hx. apply H. right. exact Hx.
Qed.

Lemma header_params_nonempty v2 hs : existsb value_violable_h hs = true -> exists p ps, header_params v2 hs = p :: ps.
Proof. destruct hs as [|h r]; [discriminate|]. intros _. eexists _, _. reflexivity. Qed.

Lemma can_negate_headers_violable v2 hs :
  existsb value_violable_h hs = true -> can_negate_headers (header_params v2 hs) = true.
Proof.
  intros H. destruct (header_params_nonempty v2 hs H) as [p [ps E]]. unfold can_negate_headers. rewrite E, <- E.
  unfold header_params. rewrite existsb_map. apply existsb_exists in H. destruct H as [h [Hin Hv]].
  apply existsb_exists. exists h. split; [exact Hin|]. cbn [snd]. unfold value_violable_h in Hv.
  rewrite (violable_header_claimed_negatable v2 _ _ Hv). reflexivity.
Qed.

Lemma fallback_header k ps : is_header_location k = true -> fallback k ps = negb (can_negate_headers ps).
Proof. destruct k; try discriminate; reflexivity. Qed.

Lemma not_set_i_loc k i : no_explicit i = true -> not_set (i_loc k i) = true.
Proof.
  unfold no_explicit. intros H. repeat (apply andb_true_iff in H; destruct H as [H ?]). destruct k; assumption.
Qed.

Lemma draw_fits_i_loc k i : draws_fit Neg i = true -> draw_fits Neg k (i_loc k i) = true.
Proof. intros H. destruct (draws_fit_split _ _ H) as [A [B [C [D _]]]]. destruct k; assumption. Qed.

Lemma negatable_shape_loc k i : loc_negatable k (i_loc k i) = true -> negatable_shape i = true.
Proof.
  unfold negatable_shape. destruct k; cbn [i_loc]; intros ->; rewrite ?orb_true_r; reflexivity.
Qed.

(* the direction the property asks for: an operation with a header / cookie a text value can violate gets negative
   cases (never a skip, never a reject), the location is drawn from the negative strategy and labelled negative *)
Lemma violable_header_gets_negative_cases k v2 hs i :
  is_header_location k = true ->
  l_params (i_loc k i) = header_params v2 hs ->
  existsb value_violable_h hs = true ->
  no_explicit i = true -> draws_fit Neg i = true -> body_serializable i = true ->
  strategy_of Neg k (i_loc k i) = SNeg /\
  forall modes, exists lbl, label_case Neg modes i = Case lbl /\
    comp lbl (ckind_of k) = Some Neg /\ present lbl (ckind_of k) = true.
Proof.
  intros Hk Hps Hv Hne Hfit Hs.
  pose proof (can_negate_headers_violable v2 hs Hv) as Hcan.
  destruct (header_params_nonempty v2 hs Hv) as [p [ps Eps]].
  assert (Hfb : fallback k (l_params (i_loc k i)) = false).
  { rewrite (fallback_header _ _ Hk), Hps, Hcan. reflexivity. }
  pose proof (not_set_i_loc k i Hne) as Hns. pose proof (draw_fits_i_loc k i Hfit) as Hdf.
  assert (Hstr : strategy_of Neg k (i_loc k i) = SNeg).
  { unfold strategy_of, generator_of. rewrite Hfb. unfold not_set in Hns.
    destruct (l_explicit (i_loc k i)); [|discriminate]. cbn [exclude_keys]. rewrite Hps, Eps. rewrite remaining_nil. reflexivity. }
  split; [exact Hstr|].
  assert (Hloc : loc_negatable k (i_loc k i) = true).
  { unfold loc_negatable, has_params. rewrite Hfb, Hps, Eps. reflexivity. }
  assert (Hlab : p_label (loc_part Neg k (i_loc k i)) = Some Neg /\ p_present (loc_part Neg k (i_loc k i)) = true).
  { unfold loc_part, value_of, generator_of. cbn [p_label p_present]. rewrite Hfb.
    unfold draw_fits in Hdf. rewrite Hstr in Hdf. unfold not_set in Hns.
    destruct (l_explicit (i_loc k i)); [|discriminate]. cbn [value_eq_explicit].
    destruct (l_draw (i_loc k i)); [rewrite andb_false_r in Hdf; discriminate|]. split; reflexivity. }
  destruct Hlab as [Hl Hp].
  assert (Hb : b_explicit (i_body i) = false).
  { unfold no_explicit in Hne. apply andb_true_iff in Hne. destruct Hne as [_ Hb]. apply negb_true_iff in Hb. exact Hb. }
  destruct (body_part_ok i Neg Hb Hs) as [bp Hbp].
  pose proof (any_negated_shape i bp Hne Hfit Hs Hbp) as Hany.
  rewrite (negatable_shape_loc k i Hloc) in Hany.
  intros modes. unfold label_case. rewrite Hbp. cbn [gmode_eqb andb]. rewrite Hany. cbn [negb].
  eexists. split; [reflexivity|].
  unfold comp, present. cbn [parts find].
  destruct k; try discriminate; cbn [i_loc ckind_of] in *; cbn [loc_part p_kind ckind_of ckind_eqb]; split; assumption.
Qed.

(* ---- skip iff nothing violable, for operations made of headers and cookies only, inside the region ---- *)
Lemma loc_negatable_headers k v2 hs l :
  is_header_location k = true -> l_params l = header_params v2 hs ->
  forallb (plain_hparam v2) hs = true ->
  loc_negatable k l = existsb header_violable hs.
Proof.
  intros Hk Hps Hr. unfold loc_negatable, has_params. rewrite (fallback_header _ _ Hk), Hps.
  destruct hs as [|h r]; [reflexivity|].
  change (header_params v2 (h :: r)) with ((h_name h, header_class v2 (h_decl h) (h_examples h)) :: header_params v2 r).
  cbn [andb]. rewrite negb_involutive. unfold can_negate_headers.
  change ((h_name h, header_class v2 (h_decl h) (h_examples h)) :: header_params v2 r) with (header_params v2 (h :: r)).
  unfold header_params. rewrite existsb_map. apply existsb_ext_in. intros x Hx. cbn [snd].
  rewrite forallb_forall in Hr. pose proof (Hr x Hx) as Hpx. unfold plain_hparam in Hpx.
  apply andb_true_iff in Hpx. destruct Hpx as [Hpx Hreq]. apply andb_true_iff in Hpx. destruct Hpx as [Hpl Hnil].
  apply negb_true_iff in Hreq. unfold header_violable. rewrite Hreq. cbn [orb].
  destruct (h_examples x); [|discriminate].
  destruct (header_value_violable (h_decl x)) eqn:E.
  - rewrite (violable_header_claimed_negatable v2 _ [] E). reflexivity.
  - rewrite (unviolable_plain_header_bare v2 _ Hpl E). reflexivity.
Qed.

Lemma skip_iff_no_violable_header v2 hs cs i :
  l_params (i_header i) = header_params v2 hs -> l_params (i_cookie i) = header_params v2 cs ->
  only_headers i = true -> forallb (plain_hparam v2) (hs ++ cs) = true ->
  no_explicit i = true -> draws_fit Neg i = true -> body_serializable i = true ->
  (label_case Neg [Neg] i = Skip <-> existsb header_violable (hs ++ cs) = false) /\
  (forall modes, modes_only_negative modes = false ->
     (label_case Neg modes i = Reject <-> existsb header_violable (hs ++ cs) = false)) /\
  (forall modes, existsb header_violable (hs ++ cs) = true -> exists lbl, label_case Neg modes i = Case lbl).
Proof.
  intros Hh Hc Ho Hr Hne Hfit Hs.
  rewrite forallb_app in Hr. apply andb_true_iff in Hr. destruct Hr as [Hrh Hrc].
  assert (E : negatable_shape i = existsb header_violable (hs ++ cs)).
  { unfold negatable_shape. rewrite existsb_app.
    rewrite (loc_negatable_headers LHeader v2 hs _ eq_refl Hh Hrh), (loc_negatable_headers LCookie v2 cs _ eq_refl Hc Hrc).
    unfold only_headers in Ho. apply andb_true_iff in Ho. destruct Ho as [Ho Hb]. apply andb_true_iff in Ho.
    destruct Ho as [Hp Hq]. apply negb_true_iff in Hp, Hq. unfold loc_negatable. rewrite Hp, Hq.
    destruct (b_alts (i_body i)); [|discriminate]. cbn [andb orb existsb]. rewrite ?orb_false_r. reflexivity. }
  rewrite <- E. apply skip_iff_nothing_negatable; assumption.
Qed.

(* ---- witnesses and non-vacuity ---- *)
Definition nm_xmode : str := [88; 45; 77; 111; 100; 101]%N.
Definition nm_theme : str := [116; 104; 101; 109; 101]%N.
Definition k_description : str := [100; 101; 115; 99; 114; 105; 112; 116; 105; 111; 110]%N.
Definition d_bare : jdict := [(k_type, JStr k_string)].
Definition d_enum : jdict := [(k_type, JStr k_string); (k_enum, JArr [JStr [102; 97; 115; 116]%N; JStr [115; 108; 111; 119]%N])].
Definition d_pattern : jdict := [(k_type, JStr k_string); (k_pattern, JStr [94; 91; 97; 45; 122; 93; 123; 51; 125; 36]%N)].
Definition d_minlen : jdict := [(k_minLength, JInt 3%Z)].
Definition d_maxlen : jdict := [(k_description, JStr [100]%N); (k_type, JStr k_string); (k_maxLength, JInt 3%Z)].
Definition d_format : jdict := [(k_format, JStr [100; 97; 116; 101]%N); (k_type, JStr k_string)].
Definition d_integer : jdict := [(k_type, JStr n_integer)].
Definition d_described : jdict := [(k_description, JStr [100]%N); (k_type, JStr k_string)].
Definition d_example : jdict := [(k_type, JStr k_string); (k_example, JStr [120]%N)].
Definition hp (name : str) (d : jdict) (req : bool) : hparam :=
  {| h_name := name; h_decl := d; h_examples := []; h_required := req |}.
Definition i_headers (hs cs : list hparam) (dh dc : draw) : op_in :=
  {| i_path := loc_empty;
     i_header := {| l_params := header_params false hs; l_explicit := ENotSet; l_draw := dh |};
     i_cookie := {| l_params := header_params false cs; l_explicit := ENotSet; l_draw := dc |};
     i_query := loc_empty; i_body := body_none |}.

Lemma header_class_examples :
  map (fun d => (header_value_violable d, header_class false d [], header_class true d [], plain_header false d))
      [d_bare; []; d_described; d_enum; d_pattern; d_minlen; d_maxlen; d_format; d_integer] =
  [(false, PStrOnly, PStrOnly, true); (false, PStrOnly, PStrOnly, true); (false, PStrOnly, PStrOnly, true);
   (true, POther, POther, true); (true, POther, POther, true); (true, POther, POther, true); (true, POther, POther, true);
   (true, POther, POther, true); (true, POther, POther, true)].
Proof. vm_compute. reflexivity. Qed.

(* the demo of the seeded regression: GET /mode with a required enum header, GET /theme with an optional pattern cookie *)
Definition i_mode : op_in := i_headers [hp nm_xmode d_enum true] [] (DDict []) DNone.
Definition i_theme : op_in := i_headers [] [hp nm_theme d_pattern false] DNone (DDict [(nm_theme, 0%N)]).
Lemma violable_header_nonvacuous :
  (l_params (i_loc LHeader i_mode) = header_params false [hp nm_xmode d_enum true] /\
   existsb value_violable_h [hp nm_xmode d_enum true] = true /\
   no_explicit i_mode = true /\ draws_fit Neg i_mode = true /\ body_serializable i_mode = true) /\
  (l_params (i_loc LCookie i_theme) = header_params false [hp nm_theme d_pattern false] /\
   existsb value_violable_h [hp nm_theme d_pattern false] = true /\
   no_explicit i_theme = true /\ draws_fit Neg i_theme = true /\ body_serializable i_theme = true).
Proof. repeat split. Qed.

Definition i_described : op_in := i_headers [hp nm_xa d_described false] [hp nm_theme d_bare false] (DDict [(nm_xa, 0%N)]) (DDict []).
Lemma skip_iff_headers_nonvacuous :
  (only_headers i_described = true /\ forallb (plain_hparam false) ([hp nm_xa d_described false] ++ [hp nm_theme d_bare false]) = true /\
   no_explicit i_described = true /\ draws_fit Neg i_described = true /\ body_serializable i_described = true /\
   existsb header_violable ([hp nm_xa d_described false] ++ [hp nm_theme d_bare false]) = false /\
   label_case Neg [Neg] i_described = Skip /\ label_case Neg [Pos; Neg] i_described = Reject) /\
  (only_headers i_theme = true /\ forallb (plain_hparam false) ([] ++ [hp nm_theme d_pattern false]) = true /\
   existsb header_violable ([] ++ [hp nm_theme d_pattern false]) = true /\
   exists lbl, label_case Neg [Neg] i_theme = Case lbl /\ comp lbl CCookies = Some Neg).
Proof. repeat split. eexists. split; reflexivity. Qed.

(* finding F7: a string header whose schema only carries an annotation the converter keeps (example / examples /
   a vendor extension, or a parameter-level example) cannot be violated by any text value, yet the code own predicate
   says negatable: the negative strategy is chosen, the operation is never a skip, and at the level of the location
   schema neither negate_constraints nor remove_required_property applies *)
Definition s_example_location : schema :=
  [KProps [(nm_xa, JObj d_example)]; KAddProps false; KType [TObj]].
Definition i_example (d : draw) : op_in := i_headers [hp nm_xa d_example false] [] d DNone.
Lemma annotated_header_not_skipped_refuted :
  header_violable (hp nm_xa d_example false) = false /\
  header_class false d_example [] = POther /\ header_class true d_example [] = POther /\
  header_class false d_bare [JStr [120]%N] = POther /\
  only_headers (i_example DNone) = true /\ no_explicit (i_example DNone) = true /\
  (forall d, strategy_of Neg LHeader (i_header (i_example d)) = SNeg) /\
  (forall d, draws_fit Neg (i_example d) = true ->
     label_case Neg [Neg] (i_example d) <> Skip /\ exists lbl, label_case Neg [Neg] (i_example d) = Case lbl) /\
  (forall ch, negate_constraints header_ctx false s_example_location ch = None) /\
  (forall ch, remove_required_property (plain s_example_location) ch = None).
Proof.
  repeat split.
  - destruct d as [|d]; [vm_compute in H; discriminate|]. intros Hl. vm_compute in Hl. discriminate.
  - destruct d as [|d]; [vm_compute in H; discriminate|]. eexists. vm_compute. reflexivity.
Qed.
(* ---------- Part E: the query on the wire ---------- *)
Definition keep1 (k : str) (v : json) : list (str * json) := if is_none v then [] else [(k, v)].
Definition prep (v : json) : json := empty_dict_to_text (jsonify_val v).

Lemma entry_loop_false k v : entry_loop false (k, v) = flat_map (keep1 k) (iter_values v).
Proof. reflexivity. Qed.

Lemma urlencode_count_app a b : urlencode_count (a ++ b) = (urlencode_count a + urlencode_count b)%nat.
Proof. induction a as [|x a IH]; cbn [app urlencode_count fold_right]; [reflexivity|]. fold (urlencode_count (a ++ b)). fold (urlencode_count a). rewrite IH. lia. Qed.

Lemma keep1_count_key k k' l : urlencode_count (flat_map (keep1 k) l) = urlencode_count (flat_map (keep1 k') l).
Proof.
  induction l as [|v l IH]; [reflexivity|]. cbn [flat_map]. rewrite !urlencode_count_app, IH. f_equal.
  unfold keep1. destruct (is_none v); reflexivity.
Qed.

Definition vcount (v : json) : nat := urlencode_count (flat_map (keep1 []) (iter_values v)).

Lemma entry_count_vcount v : entry_count v = vcount (prep v).
Proof. reflexivity. Qed.

Lemma encode_loop_count q : urlencode_count (encode_loop false q) = fold_right (fun kv n => (vcount (snd kv) + n)%nat) 0%nat q.
Proof.
  induction q as [|[k v] q IH]; [reflexivity|]. unfold encode_loop in *. cbn [flat_map fold_right snd].
  rewrite urlencode_count_app, IH, entry_loop_false. unfold vcount. rewrite (keep1_count_key k []). reflexivity.
Qed.

Lemma wire_count_sum q : wire_count q = fold_right (fun kv n => (entry_count (snd kv) + n)%nat) 0%nat q.
Proof.
  unfold wire_count, wire_result. rewrite encode_loop_count. unfold prepare_query, jsonify_query.
  induction q as [|[k v] q IH]; [reflexivity|]. cbn [map fold_right fst snd]. rewrite IH. reflexivity.
Qed.

Lemma jsonify_obj_keys kvs :
  map fst ((fix go (l : list (str * json)) : list (str * json) :=
              match l with [] => [] | (k, x) :: r => (k, jsonify_val x) :: go r end) kvs) = map fst kvs.
Proof. induction kvs as [|[k x] r IH]; [reflexivity|]. cbn [map fst]. f_equal. exact IH. Qed.

Lemma iter_values_obj kvs : iter_values (JObj kvs) = map (fun k => JStr k) (map fst kvs).
Proof. cbn [iter_values]. rewrite map_map. reflexivity. Qed.

(* the raw value never sends more than the prepared one; the same unless it is None or the empty dict *)
Lemma vcount_prep_le v : (vcount v <= vcount (prep v))%nat.
Proof.
  destruct v as [| b | z | s | l | kvs]; unfold prep; cbn [jsonify_val empty_dict_to_text].
  - vm_compute; lia.
  - destruct b; vm_compute; lia.
  - lia.
  - lia.
  - lia.
  - destruct kvs as [|[k x] r]; [vm_compute; lia|].
    cbn [empty_dict_to_text]. unfold vcount. rewrite !iter_values_obj.
    change ((k, jsonify_val x) :: _) with ((fix go (l : list (str * json)) : list (str * json) :=
              match l with [] => [] | (k, x) :: r => (k, jsonify_val x) :: go r end) ((k, x) :: r)).
    rewrite jsonify_obj_keys. lia.
Qed.

Lemma vcount_prep_eq v : match v with JNull | JObj [] => false | _ => true end = true -> vcount (prep v) = vcount v.
Proof.
  destruct v as [| b | z | s | l | kvs]; unfold prep; cbn [jsonify_val empty_dict_to_text]; intros H.
  - discriminate.
  - destruct b; reflexivity.
  - reflexivity.
  - reflexivity.
  - reflexivity.
  - destruct kvs as [|[k x] r]; [discriminate|].
    cbn [empty_dict_to_text]. unfold vcount. rewrite !iter_values_obj.
    change ((k, jsonify_val x) :: _) with ((fix go (l : list (str * json)) : list (str * json) :=
              match l with [] => [] | (k, x) :: r => (k, jsonify_val x) :: go r end) ((k, x) :: r)).
    rewrite jsonify_obj_keys. reflexivity.
Qed.

Lemma guard_count_le_wire q : (urlencode_count (encode_loop false q) <= wire_count q)%nat.
Proof.
  rewrite encode_loop_count, wire_count_sum.
  induction q as [|[k v] q IH]; cbn [fold_right snd]; [lia|]. rewrite entry_count_vcount. pose proof (vcount_prep_le v). lia.
Qed.

(* T1 *)
Lemma query_guard_sound q : is_non_empty_query q = true -> wire_count q <> 0%nat.
Proof.
  unfold is_non_empty_query, urlencode_nonempty. intros H. apply negb_true_iff in H. apply Nat.eqb_neq in H.
  pose proof (guard_count_le_wire q). lia.
Qed.

(* T2 *)
Lemma query_guard_exact q : no_none_or_empty_dict q = true ->
  is_non_empty_query q = negb (Nat.eqb (wire_count q) 0).
Proof.
  intros H. unfold is_non_empty_query, urlencode_nonempty. f_equal. f_equal.
  rewrite encode_loop_count, wire_count_sum. unfold no_none_or_empty_dict in H.
  induction q as [|[k v] q IH]; [reflexivity|]. cbn [forallb snd] in H. apply andb_true_iff in H. destruct H as [Hv Hq].
  cbn [fold_right snd]. rewrite entry_count_vcount, (vcount_prep_eq v Hv), (IH Hq). reflexivity.
Qed.

(* ---- the pairs ---- *)
Fixpoint texts (l : list json) : option (list str) :=
  match l with
  | [] => Some []
  | v :: r => if is_none v then texts r else
              match doseq_texts v, texts r with Some a, Some b => Some (a ++ b) | _, _ => None end
  end.

Lemma urlencode_pairs_app a b :
  urlencode_pairs (a ++ b) = match urlencode_pairs a, urlencode_pairs b with Some x, Some y => Some (x ++ y) | _, _ => None end.
Proof.
  induction a as [|[k v] a IH]; cbn [app urlencode_pairs].
  - destruct (urlencode_pairs b); reflexivity.
  - rewrite IH. destruct (doseq_texts v); [|reflexivity]. destruct (urlencode_pairs a); [|reflexivity].
    destruct (urlencode_pairs b); [|reflexivity]. rewrite app_assoc. reflexivity.
Qed.

Lemma pairs_keep1 k l :
  urlencode_pairs (flat_map (keep1 k) l) = match texts l with Some ts => Some (map (fun t => (k, t)) ts) | None => None end.
Proof.
  induction l as [|v l IH]; [reflexivity|]. cbn [flat_map texts]. rewrite urlencode_pairs_app, IH. unfold keep1.
  destruct (is_none v).
  - cbn [urlencode_pairs]. destruct (texts l); reflexivity.
  - cbn [urlencode_pairs]. destruct (doseq_texts v); [|reflexivity]. destruct (texts l); [|reflexivity].
    rewrite app_nil_r, map_app. reflexivity.
Qed.

Lemma all_some_len {A} (l : list (option A)) ts : all_some l = Some ts -> length ts = length l.
Proof.
  revert ts. induction l as [|[x|] l IH]; cbn [all_some]; intros ts H; try discriminate.
  - injection H as <-. reflexivity.
  - destruct (all_some l); [|discriminate]. injection H as <-. cbn [length]. f_equal. apply IH. reflexivity.
Qed.

Lemma doseq_texts_len v ts : doseq_texts v = Some ts -> length ts = doseq_len v.
Proof.
  destruct v as [| b | z | s | l | kvs]; cbn [doseq_texts doseq_len py_str py_repr]; intros H.
  - injection H as <-. reflexivity.
  - injection H as <-. reflexivity.
  - injection H as <-. reflexivity.
  - injection H as <-. reflexivity.
  - apply all_some_len in H. rewrite map_length in H. exact H.
  - injection H as <-. apply map_length.
Qed.

Lemma texts_len k l ts : texts l = Some ts -> length ts = urlencode_count (flat_map (keep1 k) l).
Proof.
  revert ts. induction l as [|v l IH]; cbn [texts flat_map]; intros ts H.
  - injection H as <-. reflexivity.
  - rewrite urlencode_count_app. unfold keep1 at 1. destruct (is_none v).
    + cbn [urlencode_count fold_right]. apply IH. exact H.
    + destruct (doseq_texts v) as [a|] eqn:Ea; [|discriminate]. destruct (texts l) as [b|]; [|discriminate].
      injection H as <-. rewrite app_length, (IH b eq_refl). cbn [urlencode_count fold_right snd].
      rewrite (doseq_texts_len _ _ Ea). lia.
Qed.

Definition vtexts (v : json) : option (list str) := texts (iter_values (prep v)).

Lemma entry_wire_vtexts v : entry_wire v = vtexts v.
Proof.
  unfold entry_wire, vtexts, prep. rewrite entry_loop_false, pairs_keep1.
  destruct (texts _) as [ts|]; [|reflexivity]. rewrite map_map. cbn [snd]. rewrite map_id. reflexivity.
Qed.

Lemma vtexts_len v ts : vtexts v = Some ts -> length ts = entry_count v.
Proof. intros H. rewrite entry_count_vcount. unfold vcount. apply texts_len. exact H. Qed.

Fixpoint qpairs (q : jq) : option (list (str * str)) :=
  match q with
  | [] => Some []
  | kv :: r => match vtexts (snd kv), qpairs r with
               | Some ts, Some ps => Some (map (fun t => (fst kv, t)) ts ++ ps)
               | _, _ => None
               end
  end.

Lemma query_wire_qpairs q : query_wire q = qpairs q.
Proof.
  unfold query_wire, wire_result, prepare_query, jsonify_query, encode_loop.
  induction q as [|[k v] q IH]; [reflexivity|]. cbn [map flat_map fst snd qpairs].
  rewrite urlencode_pairs_app, IH, entry_loop_false, pairs_keep1. unfold vtexts, prep.
  destruct (texts _); [|reflexivity]. destruct (qpairs q); reflexivity.
Qed.

Lemma count_key_app k a b : count_key k (a ++ b) = (count_key k a + count_key k b)%nat.
Proof. unfold count_key. rewrite filter_app, app_length. reflexivity. Qed.

Lemma count_key_same k ts : count_key k (map (fun t => (k, t)) ts) = length ts.
Proof.
  unfold count_key. induction ts as [|t ts IH]; [reflexivity|]. cbn [map filter fst]. rewrite str_eqb_refl. cbn [length]. f_equal. exact IH.
Qed.

(* every pair carries the name of an entry; an entry sends its texts under its name *)
Lemma qpairs_keys q ps k t : qpairs q = Some ps -> In (k, t) ps -> In k (map fst q).
Proof.
  revert ps. induction q as [|[k0 v] q IH]; cbn [qpairs fst snd]; intros ps H Hin.
  - injection H as <-. destruct Hin.
  - destruct (vtexts v) as [ts|]; [|discriminate]. destruct (qpairs q) as [ps'|]; [|discriminate]. injection H as <-.
    apply in_app_or in Hin. destruct Hin as [Hin|Hin].
    + apply in_map_iff in Hin. destruct Hin as [t' [E _]]. injection E as <- _. left. reflexivity.
    + right. eapply IH; [reflexivity|exact Hin].
Qed.

Lemma qpairs_entry q ps k v : qpairs q = Some ps -> In (k, v) q ->
  exists ts, vtexts v = Some ts /\ (forall t, In t ts -> In (k, t) ps) /\ (length ts <= count_key k ps)%nat.
Proof.
  revert ps. induction q as [|[k0 v0] q IH]; cbn [qpairs fst snd]; intros ps H Hin; [destruct Hin|].
  destruct (vtexts v0) as [ts0|] eqn:E0; [|discriminate]. destruct (qpairs q) as [ps'|]; [|discriminate]. injection H as <-.
  destruct Hin as [Hin|Hin].
  - injection Hin as -> ->. exists ts0. split; [exact E0|]. split.
    + intros t Ht. apply in_or_app. left. apply in_map_iff. exists t. split; [reflexivity|exact Ht].
    + rewrite count_key_app, count_key_same. lia.
  - destruct (IH ps' eq_refl Hin) as [ts [A [B C]]]. exists ts. split; [exact A|]. split.
    + intros t Ht. apply in_or_app. right. apply B. exact Ht.
    + rewrite count_key_app. lia.
Qed.

Lemma forallb_false_of {A} (f : A -> bool) l x : In x l -> f x = false -> forallb f l = false.
Proof.
  intros Hin Hf. destruct (forallb f l) eqn:E; [|reflexivity].
  rewrite forallb_forall in E. rewrite (E x Hin) in Hf. discriminate.
Qed.

Lemma forallb_false_ex {A} (f : A -> bool) l : forallb f l = false -> exists x, In x l /\ f x = false.
Proof.
  induction l as [|a l IH]; cbn [forallb]; intros H; [discriminate|].
  destruct (f a) eqn:E.
  - cbn [andb] in H. destruct (IH H) as [x [Hin Hx]]. exists x. split; [right; exact Hin|exact Hx].
  - exists a. split; [left; reflexivity|exact E].
Qed.

Lemma assoc_mem_false_not_in {A} k (q : list (str * A)) : assoc_mem k q = false -> ~ In k (map fst q).
Proof.
  unfold assoc_mem. induction q as [|[k0 v] q IH]; cbn [assoc_get map fst]; intros H Hin; [destruct Hin|].
  destruct (str_eqb k k0) eqn:E; [discriminate|]. destruct Hin as [Hin|Hin].
  - subst k0. rewrite str_eqb_refl in E. discriminate.
  - exact (IH H Hin).
Qed.

Lemma has_key_false k ps : (forall t, ~ In (k, t) ps) -> has_key k ps = false.
Proof.
  intros H. unfold has_key. destruct (existsb _ ps) eqn:E; [|reflexivity].
  apply existsb_exists in E. destruct E as [[k' t] [Hin Hk]]. cbn [fst] in Hk. apply str_eqb_spec in Hk. subst k'.
  exfalso. exact (H t Hin).
Qed.

(* T4: an invalid query whose offending entries survive is invalid on the wire *)
Lemma invalid_query_invalid_on_wire d q ps :
  valid_query d q = false -> query_survives d q = true -> query_wire q = Some ps -> wire_valid_query d ps = false.
Proof.
  intros Hv Hs Hw. rewrite query_wire_qpairs in Hw. unfold wire_valid_query.
  unfold valid_query in Hv. apply andb_false_iff in Hv. destruct Hv as [Hv|Hv].
  - apply forallb_false_ex in Hv. destruct Hv as [[k v] [Hin Hbad]]. cbn [fst snd] in Hbad.
    unfold query_survives in Hs. rewrite forallb_forall in Hs. specialize (Hs _ Hin). unfold entry_survives in Hs. cbn [fst snd] in Hs.
    destruct (qpairs_entry _ _ _ _ Hw Hin) as [ts [Ht [Hall Hcnt]]]. pose proof (vtexts_len _ _ Ht) as Hlen.
    apply andb_false_iff. left.
    destruct (assoc_get k d) as [p|] eqn:Ed.
    + rewrite Hbad in Hs. cbn [orb] in Hs. apply orb_true_iff in Hs. destruct Hs as [Hs|Hs].
      * apply Nat.leb_le in Hs. destruct ts as [|t ts']; [cbn [length] in Hlen; lia|].
        apply (forallb_false_of _ _ (k, t)); [apply Hall; left; reflexivity|]. cbn [fst snd]. rewrite Ed.
        apply andb_false_iff. right. apply Nat.eqb_neq. lia.
      * rewrite entry_wire_vtexts, Ht in Hs. destruct ts as [|w [|w' ts']]; try discriminate.
        apply (forallb_false_of _ _ (k, w)); [apply Hall; left; reflexivity|]. cbn [fst snd]. rewrite Ed.
        apply negb_true_iff in Hs. rewrite Hs. reflexivity.
    + apply Nat.leb_le in Hs. destruct ts as [|t ts']; [cbn [length] in Hlen; lia|].
      apply (forallb_false_of _ _ (k, t)); [apply Hall; left; reflexivity|]. cbn [fst snd]. rewrite Ed. reflexivity.
  - apply forallb_false_ex in Hv. destruct Hv as [[k p] [Hin Hbad]]. cbn [fst snd] in Hbad.
    apply orb_false_iff in Hbad. destruct Hbad as [Hreq Hmem].
    apply andb_false_iff. right. apply (forallb_false_of _ _ (k, p) Hin). cbn [fst snd]. rewrite Hreq. cbn [orb].
    apply has_key_false. intros t Hint. apply (assoc_mem_false_not_in _ _ Hmem). eapply qpairs_keys; [exact Hw|exact Hint].
Qed.

Lemma query_wire_len q ps : query_wire q = Some ps -> length ps = wire_count q.
Proof.
  rewrite query_wire_qpairs, wire_count_sum. revert ps.
  induction q as [|[k v] q IH]; cbn [qpairs fold_right fst snd]; intros ps H.
  - injection H as <-. reflexivity.
  - destruct (vtexts v) as [ts|] eqn:E; [|discriminate]. destruct (qpairs q) as [ps'|]; [|discriminate]. injection H as <-.
    rewrite app_length, map_length, (vtexts_len _ _ E), (IH ps' eq_refl). reflexivity.
Qed.

(* the theorem of the property for the query location, with the guard of the code *)
Lemma negative_query_on_wire d q ps :
  passes_query_filter is_non_empty_query d q = true -> query_survives d q = true -> query_wire q = Some ps ->
  ps <> [] /\ wire_valid_query d ps = false.
Proof.
  unfold passes_query_filter. intros Hp Hs Hw. apply andb_true_iff in Hp. destruct Hp as [Hg Hv]. apply negb_true_iff in Hv.
  split.
  - intros ->. apply query_guard_sound in Hg. apply query_wire_len in Hw. cbn [length] in Hw. congruence.
  - eapply invalid_query_invalid_on_wire; eassumption.
Qed.

(* T5: scalar values inside the coercion region survive *)
Lemma scalar_entry_wire v : is_container v = false -> entry_count v = 1%nat /\ entry_wire v = match coerce v with Some w => Some [w] | None => None end.
Proof. destruct v as [| b | z | s | l | kvs]; intros H; try discriminate; split; reflexivity. Qed.

Lemma scalar_query_survives d q : scalar_query_safe d q = true -> query_survives d q = true.
Proof.
  unfold scalar_query_safe, query_survives. rewrite !forallb_forall. intros H [k v] Hin. specialize (H _ Hin). cbn [fst snd] in H.
  apply andb_true_iff in H. destruct H as [Hc Hd]. apply negb_true_iff in Hc. destruct (scalar_entry_wire v Hc) as [Hn Hw].
  unfold entry_survives. cbn [fst snd]. rewrite Hn, Hw. destruct (assoc_get k d) as [p|]; [|reflexivity].
  destruct (valid_prim (q_type p) v) eqn:Ev; [reflexivity|]. cbn [orb] in Hd |- *.
  destruct (coerce v) as [w|] eqn:Ew.
  - rewrite (invalid_survives_coercion _ _ _ Hd Ev Ew). reflexivity.
  - destruct v; try discriminate.
Qed.

(* ---- witnesses ---- *)
Definition k_limit : str := [108; 105; 109; 105; 116]%N.
Definition k_zz : str := [122; 122]%N.
Definition k_a : str := [97]%N.
Definition d_limit : qdecl := [(k_limit, {| q_type := PInt; q_required := false |})].
Definition q_list_of_none : jq := [(k_limit, JArr [JNull])].
Definition q_vanishing : jq := [(k_limit, JInt 5); (k_zz, JArr [])].
Definition q_none_and_one : jq := [(k_limit, JArr [JNull; JInt 1])].
Definition q_top_none : jq := [(k_a, JNull)].

(* the sentinel: a guard that counts None as the text null lets the list of None through; nothing is sent *)
Lemma none_as_null_guard_refuted :
  passes_query_filter is_non_empty_query_none_as_null d_limit q_list_of_none = true /\
  query_wire q_list_of_none = Some [] /\ wire_valid_query d_limit [] = true /\
  passes_query_filter is_non_empty_query d_limit q_list_of_none = false.
Proof. repeat split. Qed.

(* F8: with the guard of the code: the offending entry sends nothing, the rest is a valid query *)
Lemma negative_query_on_wire_refuted_dropped :
  passes_query_filter is_non_empty_query d_limit q_vanishing = true /\ entry_dropped q_vanishing = true /\
  query_wire q_vanishing = Some [(k_limit, [53%N])] /\ wire_valid_query d_limit [(k_limit, [53%N])] = true.
Proof. repeat split. Qed.

(* F3 with containers: None items are dropped, the single remaining item is sent as its text *)
Lemma negative_query_on_wire_refuted_none_item :
  passes_query_filter is_non_empty_query d_limit q_none_and_one = true /\ entry_dropped q_none_and_one = false /\
  query_wire q_none_and_one = Some [(k_limit, [49%N])] /\ wire_valid_query d_limit [(k_limit, [49%N])] = true.
Proof. repeat split. Qed.

(* the guard over-rejects a top-level None (and the empty dict): sent as a=null (a=), seen as nothing *)
Lemma query_guard_exact_refuted :
  is_non_empty_query q_top_none = false /\ wire_count q_top_none = 1%nat /\ query_wire q_top_none = Some [(k_a, s_null)] /\
  is_non_empty_query [(k_a, JObj [])] = false /\ query_wire [(k_a, JObj [])] = Some [(k_a, [])].
Proof. repeat split. Qed.

(* non-vacuity: containers inside the region; the hypotheses of the main statement hold for them *)
Definition d_two : qdecl := [(k_limit, {| q_type := PInt; q_required := false |}); (k_a, {| q_type := PBool; q_required := true |})].
Definition q_survivor : jq := [(k_limit, JArr [JNull; JInt 1; JInt 2]); (k_zz, JArr [JArr [JNull]]); (k_a, JBool true)].
Lemma query_on_wire_nonvacuous :
  passes_query_filter is_non_empty_query d_two q_survivor = true /\ query_survives d_two q_survivor = true /\
  query_wire q_survivor = Some [(k_limit, [49%N]); (k_limit, [50%N]); (k_zz, [78; 111; 110; 101]%N); (k_a, s_true)] /\
  no_none_or_empty_dict q_survivor = true /\
  scalar_query_safe d_two [(k_limit, JBool false); (k_zz, JNull)] = true /\
  passes_query_filter is_non_empty_query d_two [(k_limit, JBool false); (k_zz, JNull)] = true.
Proof. repeat split. Qed.

(* F9: the guard runs before the serializer.  f = {x: [None]} is seen by the guard as the pair f=x; extracted_object
   replaces f by its members, x = [None] sends nothing *)
Definition k_f : str := [102]%N.
Definition k_x : str := [120]%N.
Definition q_exploded : jq := [(k_f, JObj [(k_x, JArr [JNull])])].
Lemma query_guard_sound_refuted_exploded :
  is_non_empty_query q_exploded = true /\ extracted_object k_f q_exploded = [(k_x, JArr [JNull])] /\
  wire_count (extracted_object k_f q_exploded) = 0%nat /\ query_wire (extracted_object k_f q_exploded) = Some [] /\
  wire_count q_exploded = 1%nat.
Proof. repeat split. Qed.
(* ---------- Part F: the validator of the guard ---------- *)
Lemma unique_assoc_get_gen {A} (e : list (str * A)) : unique_strs (map fst e) = true ->
  forall kv, In kv e -> assoc_get (fst kv) e = Some (snd kv).
Proof.
  induction e as [|[k v] r IH]; cbn [map fst unique_strs]; [intros _ kv []|].
  intros H kv Hin. apply andb_true_iff in H. destruct H as [Hk Hr]. cbn [assoc_get].
  destruct Hin as [<-|Hin]; cbn [fst snd].
  - rewrite str_eqb_refl. reflexivity.
  - destruct (str_eqb (fst kv) k) eqn:E.
    + apply str_eqb_spec in E. subst k. exfalso.
      apply negb_true_iff in Hk. assert (X : existsb (str_eqb (fst kv)) (map fst r) = true).
      { apply existsb_exists. exists (fst kv). split; [apply in_map; exact Hin | apply str_eqb_refl]. }
      rewrite X in Hk. discriminate.
    + apply IH; assumption.
Qed.

Lemma assoc_get_In {A} k (a : A) e : assoc_get k e = Some a -> In (k, a) e.
Proof.
  induction e as [|[k' v] r IH]; cbn [assoc_get]; [discriminate|].
  destruct (str_eqb k k') eqn:E.
  - apply str_eqb_spec in E. subst k'. intros H. injection H as ->. left. reflexivity.
  - intros H. right. apply IH. exact H.
Qed.

(* keyword dispatch over a dict with unique keys = looking every key up *)
Lemma dispatch_lookup (f : str -> json -> bool) (e : jdict) : unique_strs (map fst e) = true ->
  (forallb (fun kv => f (fst kv) (snd kv)) e = true <-> forall k a, assoc_get k e = Some a -> f k a = true).
Proof.
  intros U. rewrite forallb_forall. split.
  - intros H k a G. apply (H (k, a)). apply assoc_get_In. exact G.
  - intros H [k a] Hin. cbn [fst snd]. apply H. apply (unique_assoc_get_gen e U (k, a) Hin).
Qed.

Lemma num_entry_lookup schema k a : forallb num_entry schema = true -> assoc_get k schema = Some a -> num_entry (k, a) = true.
Proof.
  intros F G. apply assoc_get_In in G. rewrite forallb_forall in F. apply F. exact G.
Qed.

(* inside the fragment the truthiness Draft 4 reads is the boolean flag of the specification *)
Lemma truthy_is_flag schema name :
  (name = k_exclusiveMinimum \/ name = k_exclusiveMaximum) -> forallb num_entry schema = true ->
  py_truthy (assoc_get name schema) = excl_flag name schema.
Proof.
  intros Hn F. unfold excl_flag. destruct (assoc_get name schema) as [a|] eqn:G; [|reflexivity].
  pose proof (num_entry_lookup _ _ _ F G) as E. destruct Hn as [-> | ->]; vm_compute in E; destruct a as [|[]| | | |]; try discriminate; reflexivity.
Qed.

Lemma andb3_true a b c : a && b && c = true <-> a = true /\ b = true /\ c = true.
Proof. rewrite !andb_true_iff. tauto. Qed.

Lemma guard_validator_is_draft4 schema v : num_fragment schema = true ->
  guard_is_valid Draft4 schema v = declared_valid schema v.
Proof.
  unfold num_fragment. intros H. apply andb_true_iff in H. destruct H as [F U].
  apply eq_true_iff_eq. unfold guard_is_valid.
  rewrite (dispatch_lookup (fun k a => guard_keyword Draft4 schema k a v) schema U).
  unfold declared_valid. rewrite andb3_true.
  rewrite <- (truthy_is_flag schema k_exclusiveMinimum (or_introl eq_refl) F).
  rewrite <- (truthy_is_flag schema k_exclusiveMaximum (or_intror eq_refl) F).
  split.
  - intros H. repeat split.
    + destruct (assoc_get k_type schema) as [a|] eqn:G; [|reflexivity]. apply (H _ _ G).
    + destruct (assoc_get k_minimum schema) as [a|] eqn:G; [|reflexivity]. apply (H _ _ G).
    + destruct (assoc_get k_maximum schema) as [a|] eqn:G; [|reflexivity]. apply (H _ _ G).
  - intros [Ht [Hlo Hhi]] k a G. unfold guard_keyword.
    destruct (str_eqb k k_type) eqn:E1.
    { apply str_eqb_spec in E1. subst k. rewrite G in Ht. exact Ht. }
    destruct (str_eqb k k_minimum) eqn:E2.
    { apply str_eqb_spec in E2. subst k. rewrite G in Hlo. exact Hlo. }
    destruct (str_eqb k k_maximum) eqn:E3.
    { apply str_eqb_spec in E3. subst k. rewrite G in Hhi. exact Hhi. }
    destruct (str_eqb k k_exclusiveMinimum); [reflexivity|].
    destruct (str_eqb k k_exclusiveMaximum); reflexivity.
Qed.

Lemma guard_kept_value_invalid schema v : num_fragment schema = true ->
  guard_keeps Draft4 schema v = true -> declared_valid schema v = false.
Proof.
  intros F K. unfold guard_keeps in K. apply negb_true_iff in K.
  rewrite <- (guard_validator_is_draft4 schema v F). exact K.
Qed.

(* locations *)
Lemma forallb_ext_in {A} (f g : A -> bool) l : (forall x, In x l -> f x = g x) -> forallb f l = forallb g l.
Proof.
  induction l as [|x r IH]; [reflexivity|]. intros H. cbn [forallb].
  rewrite (H x (or_introl eq_refl)), IH; [reflexivity|]. intros y Hy. apply H. right. exact Hy.
Qed.

Lemma location_guard_is_draft4 props req q :
  forallb (fun p => num_fragment (snd p)) props = true ->
  location_is_valid (guard_is_valid Draft4) props req q = location_is_valid declared_valid props req q.
Proof.
  intros F. unfold location_is_valid. f_equal. apply forallb_ext_in. intros [k v] _. cbn [fst snd].
  destruct (assoc_get k props) as [s|] eqn:G; [|reflexivity].
  apply guard_validator_is_draft4. apply assoc_get_In in G. rewrite forallb_forall in F. apply (F (k, s) G).
Qed.

Lemma location_guard_kept_value_invalid props req q :
  forallb (fun p => num_fragment (snd p)) props = true ->
  location_guard_keeps Draft4 props req q = true -> location_is_valid declared_valid props req q = false.
Proof.
  intros F K. unfold location_guard_keeps in K. apply negb_true_iff in K.
  rewrite <- (location_guard_is_draft4 props req q F). exact K.
Qed.

(* witnesses *)
(* type number, maximum 100, exclusiveMaximum false *)
Definition s_max_false : jdict := [(k_type, JStr n_number); (k_maximum, JInt 100); (k_exclusiveMaximum, JBool false)].
(* type number, minimum 0, exclusiveMinimum true, maximum 10 *)
Definition s_ratio : jdict := [(k_type, JStr n_number); (k_minimum, JInt 0); (k_exclusiveMinimum, JBool true); (k_maximum, JInt 10)].
(* type integer, minimum 0 and maximum 50, both exclusive flags false *)
Definition s_limit : jdict :=
  [(k_type, JStr n_integer); (k_minimum, JInt 0); (k_exclusiveMinimum, JBool false); (k_maximum, JInt 50); (k_exclusiveMaximum, JBool false)].

(* sentinel, NOT the code: the later-draft reading of the same schema keeps the valid value 0 (0 >= False) *)
Lemma guard_draft7_sentinel_refuted :
  num_fragment s_max_false = true /\ guard_keeps Draft7 s_max_false (JInt 0) = true /\
  declared_valid s_max_false (JInt 0) = true /\ guard_keeps Draft4 s_max_false (JInt 0) = false /\
  num_fragment s_ratio = true /\ guard_keeps Draft7 s_ratio (JInt 1) = true /\
  declared_valid s_ratio (JInt 1) = true /\ guard_keeps Draft4 s_ratio (JInt 1) = false /\
  location_guard_keeps Draft7 [(k_limit, s_limit)] [k_limit] [(k_limit, JInt 26)] = true /\
  location_is_valid declared_valid [(k_limit, s_limit)] [k_limit] [(k_limit, JInt 26)] = true /\
  location_guard_keeps Draft4 [(k_limit, s_limit)] [k_limit] [(k_limit, JInt 26)] = false.
Proof. vm_compute. repeat split. Qed.

(* non-vacuity: the guard of the code does keep values, exactly at the declared bounds *)
Lemma guard_draft4_nonvacuous :
  num_fragment s_ratio = true /\ guard_keeps Draft4 s_ratio (JInt 0) = true /\ guard_keeps Draft4 s_ratio (JInt 11) = true /\
  guard_keeps Draft4 s_ratio (JInt 10) = false /\ guard_keeps Draft4 s_ratio (JStr []) = true /\
  num_fragment s_limit = true /\ guard_keeps Draft4 s_limit (JInt 51) = true /\ guard_keeps Draft4 s_limit (JInt 0) = false /\
  forallb (fun p => num_fragment (snd p)) [(k_limit, s_limit)] = true /\
  location_guard_keeps Draft4 [(k_limit, s_limit)] [k_limit] [(k_limit, JInt (-1))] = true /\
  location_guard_keeps Draft4 [(k_limit, s_limit)] [k_limit] [] = true.
Proof. vm_compute. repeat split. Qed.
