(* ExecutionPlan.execute (engine/core.py) with interruptions that escape a phase: a phase generator either finishes
   (its own PhaseFinished last) or lets a KeyboardInterrupt escape - before its PhaseFinished (e.g. Ctrl-C while the
   probing request is in flight: probes.execute has no handler of its own) or after it.  `fix_` = true is the code as it is
   now (the plan closes the phase it has announced); false is the code before the repair (regression sentinel).
   Executable definitions only. *)
From Coq Require Import List Bool Arith.
From Verif Require Import C11.Model_C11.
Import ListNotations.

Inductive ki := KiNone | KiBeforeFinish | KiAfterFinish.

Record ephase := {
  e_enabled : bool;
  e_body : nat;          (* events the phase yields before its PhaseFinished *)
  e_status : status;
  e_stop : bool;         (* engine.is_interrupted after the phase *)
  e_limit : bool;        (* has_reached_the_failure_limit after the phase *)
  e_ki : ki
}.

Inductive eev :=
| EvStart
| EvPhaseStart (p : nat)
| EvBody (p k : nat)
| EvPhaseFinish (p : nat) (st : status) (for_limit : bool)
| EvIntr
| EvFinish.

Definition ebody (p n : nat) : list eev := map (EvBody p) (seq 0 n).

Fixpoint eloop (fix_ : bool) (p : nat) (phases : list ephase) (stop0 limit0 : bool) : list eev :=
  match phases with
  | [] => []
  | ph :: rest =>
      if e_enabled ph && negb (stop0 || limit0) then
        match e_ki ph with
        | KiNone =>
            EvPhaseStart p :: ebody p (e_body ph) ++ EvPhaseFinish p (e_status ph) false
              :: (if e_stop ph then [] else eloop fix_ (S p) rest (e_stop ph) (e_limit ph))
        | KiBeforeFinish =>
            EvPhaseStart p :: ebody p (e_body ph) ++ EvIntr :: (if fix_ then [EvPhaseFinish p INTERRUPTED false] else [])
        | KiAfterFinish =>
            EvPhaseStart p :: ebody p (e_body ph) ++ [EvPhaseFinish p (e_status ph) false; EvIntr]
        end
      else
        EvPhaseStart p :: EvPhaseFinish p SKIP limit0 :: (if stop0 then [] else eloop fix_ (S p) rest stop0 limit0)
  end.

Definition eplan (fix_ : bool) (phases : list ephase) (stop0 : bool) : list eev :=
  if stop0 then [EvStart; EvFinish] else EvStart :: eloop fix_ 0 phases false false ++ [EvFinish].

(* reference automaton: one start first, one finish last, phases opened and closed once each, in order, body events
   inside their phase; an interruption notice may stand anywhere *)
Fixpoint ewf_body (next : nat) (open : option nat) (t : list eev) : bool :=
  match t with
  | [] => false
  | EvFinish :: r => match r, open with [], None => true | _, _ => false end
  | EvPhaseStart p :: r => match open with None => Nat.eqb p next && ewf_body (S next) (Some p) r | Some _ => false end
  | EvBody p _ :: r => match open with Some q => Nat.eqb p q && ewf_body next open r | None => false end
  | EvPhaseFinish p _ _ :: r => match open with Some q => Nat.eqb p q && ewf_body next None r | None => false end
  | EvIntr :: r => ewf_body next open r
  | EvStart :: _ => false
  end.
Definition ewf (t : list eev) : bool := match t with EvStart :: r => ewf_body 0 None r | _ => false end.

(* ---- the probing phase (engine/phases/probes.py: send / execute): one probe request ----
   What can happen on the probe, and what the phase does with it.  `PbRequestError` stands for ANY subclass of
   requests.RequestException other than MissingSchema (redirect loops, broken content encodings, invalid redirect targets,
   connection errors, timeouts, ...): all of them are turned into an ERROR outcome, none escapes the phase. *)
Inductive probe_beh :=
| PbResponse (status : nat)
| PbMissingSchema
| PbRequestError
| PbInterrupt.            (* KeyboardInterrupt: not caught by the phase; the plan closes the phase (KiBeforeFinish) *)

Inductive probe_outcome := PoSuccess | PoFailure | PoSkip | PoError.

Definition probe_send (b : probe_beh) : option probe_outcome :=
  match b with
  | PbResponse st => Some (if Nat.eqb st 400 then PoFailure else PoSuccess)
  | PbMissingSchema => Some PoSkip
  | PbRequestError => Some PoError
  | PbInterrupt => None
  end.

(* probes.execute as a phase of the plan: status ERROR iff the probe errored, SUCCESS otherwise *)
Definition probing_phase (b : probe_beh) : ephase :=
  match probe_send b with
  | Some o => {| e_enabled := true; e_body := 0; e_status := match o with PoError => ERROR | _ => SUCCESS end;
                 e_stop := false; e_limit := false; e_ki := KiNone |}
  | None => {| e_enabled := true; e_body := 0; e_status := SUCCESS; e_stop := true; e_limit := false; e_ki := KiBeforeFinish |}
  end.
