(* ExecutionPlan.execute (engine/core.py) with interruptions that escape a phase: a phase generator either finishes
   (its own PhaseFinished last) or lets a KeyboardInterrupt escape - before its PhaseFinished (e.g. Ctrl-C while the
   probing request is in flight: probes.execute has no handler of its own) or after it.  `fix_` = true is the code as it is
   now (the plan closes the phase it has announced); false is the code before the repair (regression sentinel).
   Executable definitions only. *)
From Coq Require Import List Bool Arith.
From Verif Require Import C11.Model_C11.
Import ListNotations.

Inductive ki := KiNone | KiBeforeFinish | KiAfterFinish.

Record ephase := {
  e_enabled : bool;
  e_body : nat;          (* events the phase yields before its PhaseFinished *)
  e_status : status;
  e_stop : bool;         (* engine.is_interrupted after the phase *)
  e_limit : bool;        (* has_reached_the_failure_limit after the phase *)
  e_ki : ki
}.

Inductive eev :=
| EvStart
| EvPhaseStart (p : nat)
| EvBody (p k : nat)
| EvPhaseFinish (p : nat) (st : status) (for_limit : bool)
| EvIntr
| EvFinish.

Definition ebody (p n : nat) : list eev := map (EvBody p) (seq 0 n).

Fixpoint eloop (fix_ : bool) (p : nat) (phases : list ephase) (stop0 limit0 : bool) : list eev :=
  match phases with
  | [] => []
  | ph :: rest =>
      if e_enabled ph && negb (stop0 || limit0) then
        match e_ki ph with
        | KiNone =>
            EvPhaseStart p :: ebody p (e_body ph) ++ EvPhaseFinish p (e_status ph) false
              :: (if e_stop ph then [] else eloop fix_ (S p) rest (e_stop ph) (e_limit ph))
        | KiBeforeFinish =>
            EvPhaseStart p :: ebody p (e_body ph) ++ EvIntr :: (if fix_ then [EvPhaseFinish p INTERRUPTED false] else [])
        | KiAfterFinish =>
            EvPhaseStart p :: ebody p (e_body ph) ++ [EvPhaseFinish p (e_status ph) false; EvIntr]
        end
      else
        EvPhaseStart p :: EvPhaseFinish p SKIP limit0 :: (if stop0 then [] else eloop fix_ (S p) rest stop0 limit0)
  end.

Definition eplan (fix_ : bool) (phases : list ephase) (stop0 : bool) : list eev :=
  if stop0 then [EvStart; EvFinish] else EvStart :: eloop fix_ 0 phases false false ++ [EvFinish].

(* reference automaton: one start first, one finish last, phases opened and closed once each, in order, body events
   inside their phase; an interruption notice may stand anywhere *)
Fixpoint ewf_body (next : nat) (open : option nat) (t : list eev) : bool :=
  match t with
  | [] => false
  | EvFinish :: r => match r, open with [], None => true | _, _ => false end
  | EvPhaseStart p :: r => match open with None => Nat.eqb p next && ewf_body (S next) (Some p) r | Some _ => false end
  | EvBody p _ :: r => match open with Some q => Nat.eqb p q && ewf_body next open r | None => false end
  | EvPhaseFinish p _ _ :: r => match open with Some q => Nat.eqb p q && ewf_body next None r | None => false end
  | EvIntr :: r => ewf_body next open r
  | EvStart :: _ => false
  end.
Definition ewf (t : list eev) : bool := match t with EvStart :: r => ewf_body 0 None r | _ => false end.
