(* The stateful phase (engine/phases/stateful/__init__.py: execute): one producer thread (execute_state_machine_loop)
   puts its events on a queue; the consumer polls with a timeout, and leaves when the thread is dead and the queue is
   empty.  The producer is abstracted to the list of events it will put (its script).  Executable definitions only. *)
From Coq Require Import List Bool Arith.
Import ListNotations.

Section Stateful.
  Variable E : Type.    (* event type: opaque here *)

  Inductive spc := SGet | SAlive | SEmpty | SDone.

  Record sstate := {
    s_queue : list E;
    s_emitted : list E;        (* newest first *)
    s_script : list E;         (* what the producer still has to put *)
    s_alive : bool;            (* thread.is_alive() *)
    s_cp : spc
  }.

  Inductive slabel := LC | LS.   (* consumer / state-machine thread *)

  Definition sstep (fix_ : bool) (s : sstate) (l : slabel) : sstate :=
    match l with
    | LS =>
        if s_alive s then
          match s_script s with
          | e :: k => {| s_queue := s_queue s ++ [e]; s_emitted := s_emitted s; s_script := k; s_alive := true; s_cp := s_cp s |}
          | [] => {| s_queue := s_queue s; s_emitted := s_emitted s; s_script := []; s_alive := false; s_cp := s_cp s |}
          end
        else s
    | LC =>
        match s_cp s with
        | SGet =>
            match s_queue s with
            | e :: q => {| s_queue := q; s_emitted := e :: s_emitted s; s_script := s_script s; s_alive := s_alive s; s_cp := SGet |}
            | [] => {| s_queue := []; s_emitted := s_emitted s; s_script := s_script s; s_alive := s_alive s; s_cp := SAlive |}
            end
        | SAlive =>
            (* `not thread.is_alive() and event_queue.empty()`; before the fix: `not thread.is_alive()` only *)
            {| s_queue := s_queue s; s_emitted := s_emitted s; s_script := s_script s; s_alive := s_alive s;
               s_cp := if s_alive s then SGet else if fix_ then SEmpty else SDone |}
        | SEmpty =>
            {| s_queue := s_queue s; s_emitted := s_emitted s; s_script := s_script s; s_alive := s_alive s;
               s_cp := match s_queue s with [] => SDone | _ => SGet end |}
        | SDone => s
        end
    end.

  Definition sinit (script : list E) : sstate :=
    {| s_queue := []; s_emitted := []; s_script := script; s_alive := true; s_cp := SGet |}.

  Definition srun (fix_ : bool) (sched : list slabel) (s : sstate) : sstate := fold_left (sstep fix_) sched s.

  Definition strace (s : sstate) : list E := rev (s_emitted s).

  Definition scode (s : sstate) (l : slabel) : nat :=
    match l with
    | LC => match s_cp s with SGet => 10 | SAlive => 12 | SEmpty => 14 | SDone => 13 end
    | LS => if s_alive s then 3 else 6
    end.

  Fixpoint srun_log (fix_ : bool) (sched : list slabel) (s : sstate) : list nat * sstate :=
    match sched with
    | [] => ([], s)
    | l :: r => let s' := sstep fix_ s l in let '(log, fin) := srun_log fix_ r s' in (scode s' l :: log, fin)
    end.
End Stateful.

Arguments s_queue {E}.
Arguments s_emitted {E}.
Arguments s_script {E}.
Arguments s_alive {E}.
Arguments s_cp {E}.
