(* One worker: the events are produced strictly one scenario after the other, so wherever the consumer stops
   (dead worker, failure limit) every announced scenario is closed unless a stop was requested. *)
From Coq Require Import List NArith Bool Arith Lia.
From Verif Require Import C11.Model_C11 C11.Proofs_C11.
Import ListNotations.

(* sequential reading of a history: at most one scenario open at a time *)
Fixpoint balance (open : option nat) (t : list ev) : option (option nat) :=
  match t with
  | [] => Some open
  | ScStart id :: r => match open with None => balance (Some id) r | Some _ => None end
  | NonFatal id :: r => match open with Some j => if Nat.eqb id j then balance open r else None | None => None end
  | ScFinish id _ :: r => match open with Some j => if Nat.eqb id j then balance None r else None | None => None end
  | Interrupt :: r => match open with None => balance None r | Some _ => None end
  end.

Lemma balance_app o a b : balance o (a ++ b) = match balance o a with Some o' => balance o' b | None => None end.
Proof.
  revert o. induction a as [|e a IH]; intros o; cbn; auto.
  destruct e; destruct o as [j|]; auto; destruct (Nat.eqb id j); auto.
Qed.

(* a balanced history in which nothing is open has every announced scenario closed *)
Lemma balance_closed_gen t : forall o seen,
  balance o t = Some None ->
  (forall id, In id (started_ids seen) -> (exists st, In (ScFinish id st) seen) \/ o = Some id) ->
  forall id, In id (started_ids (seen ++ t)) -> exists st, In (ScFinish id st) (seen ++ t).
Proof.
  induction t as [|e t IH]; intros o seen Hb Hs id Hin.
  - cbn in Hb. inversion Hb; subst. rewrite app_nil_r in *. destruct (Hs id Hin) as [H|H]; [exact H | discriminate].
  - replace (seen ++ e :: t) with ((seen ++ [e]) ++ t) in * by (rewrite <- app_assoc; reflexivity).
    destruct e; cbn in Hb.
    + destruct o; [discriminate|]. apply (IH (Some id0) (seen ++ [ScStart id0])); auto.
      intros j Hj. unfold started_ids in Hj. rewrite flat_map_app in Hj. apply in_app_or in Hj. destruct Hj as [Hj|Hj].
      * destruct (Hs j Hj) as [[st H]|H]; [left; exists st; apply in_or_app; auto | discriminate].
      * cbn in Hj. destruct Hj as [<-|[]]. right; reflexivity.
    + destruct o as [j|]; [|discriminate]. destruct (Nat.eqb id0 j) eqn:E; [|discriminate].
      apply (IH (Some j) (seen ++ [NonFatal id0])); auto.
      intros k Hk. unfold started_ids in Hk. rewrite flat_map_app in Hk. cbn in Hk. rewrite app_nil_r in Hk.
      destruct (Hs k Hk) as [[st H]|H]; [left; exists st; apply in_or_app; auto | right; exact H].
    + destruct o as [j|]; [|discriminate]. destruct (Nat.eqb id0 j) eqn:E; [|discriminate]. apply Nat.eqb_eq in E. subst j.
      apply (IH None (seen ++ [ScFinish id0 st])); auto.
      intros k Hk. unfold started_ids in Hk. rewrite flat_map_app in Hk. cbn in Hk. rewrite app_nil_r in Hk. left.
      destruct (Hs k Hk) as [[st' H]|H]; [exists st'; apply in_or_app; auto|].
      inversion H; subst. exists st. apply in_or_app; right; left; reflexivity.
    + destruct o; [discriminate|]. apply (IH None (seen ++ [Interrupt])); auto.
      intros k Hk. unfold started_ids in Hk. rewrite flat_map_app in Hk. cbn in Hk. rewrite app_nil_r in Hk.
      destruct (Hs k Hk) as [[st H]|H]; [left; exists st; apply in_or_app; auto | discriminate].
Qed.

Lemma balance_closed t : balance None t = Some None -> all_closed t = true.
Proof.
  intros Hb. unfold all_closed. apply forallb_forall. intros id Hid.
  destruct (balance_closed_gen t None [] Hb (fun _ H => match H with end) id Hid) as [st H].
  apply existsb_exists. exists (ScFinish id st). split; auto. cbn. apply Nat.eqb_refl.
Qed.

(* what the single worker still owes, read off its program counter *)
Definition wbal (h : list ev) (w : wpc) : Prop :=
  match w with
  | WLoop | WFetch | WDead | WStart _ => balance None h = Some None
  | WCheck o _ _ _ | WSend o _ _ _ => balance None h = Some (Some (op_id o))
  | WPut k => balance None (h ++ k) = Some None
  end.

Definition inv1 (s : state) : Prop :=
  dropped s = [] -> exists w, workers s = [w] /\ wbal (hist s) w.

Lemma wbal_next_case h o rest st : balance None h = Some (Some (op_id o)) -> wbal h (next_case o rest st).
Proof.
  intros H. unfold next_case. destruct rest; cbn; auto.
  rewrite balance_app, H. unfold final_script. destruct st; cbn; rewrite Nat.eqb_refl; reflexivity.
Qed.

Lemma inv1_worker c s w : workers s = [w] -> inv1 s -> inv1 (worker_step c s 0 w).
Proof.
  intros Hw H1 Hd.
  assert (Hd0 : dropped s = []).
  { destruct w; cbn [worker_step] in Hd; auto.
    - destruct (ops s); auto. destruct (build_err o); auto.
    - destruct (has_to_stop s); auto.
    - destruct c0; auto. destruct (cof c); auto.
    - destruct script; auto. }
  destruct (H1 Hd0) as [w0 [Ew Hb]]. rewrite Hw in Ew. inversion Ew; subst w0. clear Ew.
  assert (Hset : forall s' w', workers s' = upd 0 w' (workers s) -> wbal (hist s') w' -> exists w1, workers s' = [w1] /\ wbal (hist s') w1).
  { intros s' w' E Hw'. rewrite Hw in E. cbn in E. eauto. }
  destruct w; cbn [worker_step]; cbn in Hb.
  - destruct (has_to_stop s); (eapply Hset; [reflexivity|]); cbn; auto.
  - destruct (ops s) as [|o rest]; [eapply Hset; [reflexivity|]; cbn; auto|].
    destruct (build_err o); (eapply Hset; [reflexivity|]); cbn; auto.
    unfold hist. cbn. fold (hist s). rewrite balance_app, Hb. cbn. rewrite Nat.eqb_refl. reflexivity.
  - eapply Hset; [reflexivity|].
    assert (Hh : hist (set_worker (put s (ScStart (op_id o))) 0 (next_case o (cases o) SUCCESS)) = hist s ++ [ScStart (op_id o)])
      by (unfold hist; cbn; rewrite app_assoc; reflexivity).
    rewrite Hh. apply wbal_next_case. rewrite balance_app, Hb. reflexivity.
  - destruct (has_to_stop s); (eapply Hset; [reflexivity|]); cbn; auto.
    unfold hist. cbn. fold (hist s). rewrite balance_app, Hb. cbn. rewrite Nat.eqb_refl. reflexivity.
  - assert (Hh : forall w', hist (set_worker {| queue := queue s; emitted := emitted s; ops := ops s; stop := stop s; limit := limit s;
                   counter := counter s; cstatus := cstatus s; executed := executed s; cp := cp s;
                   workers := workers s; sent := (op_id o, has_to_stop s) :: sent s; dropped := dropped s |} 0 w') = hist s) by reflexivity.
    destruct c0; [|destruct (cof c)|]; (eapply Hset; [reflexivity|]); rewrite Hh.
    + apply wbal_next_case; auto.
    + apply wbal_next_case; auto.
    + cbn. rewrite balance_app, Hb. cbn. rewrite Nat.eqb_refl. reflexivity.
    + cbn. rewrite balance_app, Hb. cbn. rewrite !Nat.eqb_refl. reflexivity.
  - destruct script as [|e k]; [eapply Hset; [reflexivity|]; cbn; rewrite app_nil_r in Hb; auto|].
    eapply Hset; [reflexivity|].
    assert (Hh : hist (set_worker (put s e) 0 (after_put k)) = hist s ++ [e]) by (unfold hist; cbn; rewrite app_assoc; reflexivity).
    rewrite Hh. unfold after_put. destruct k as [|e2 k].
    + cbn. exact Hb.
    + cbn. rewrite <- app_assoc. exact Hb.
  - exists WDead. split; auto.
Qed.

Lemma inv1_consumer c s : invA s -> inv1 s -> inv1 (consumer_step c s).
Proof.
  intros [_ [_ HA3]] H1. unfold consumer_step. destruct (cp s) eqn:Ecp.
  - destruct (queue s) as [|e q] eqn:Eq.
    + intros Hd. destruct (H1 Hd) as [w [Ew Hb]]. exists w. split; auto. unfold hist in *. cbn. rewrite Eq in Hb. exact Hb.
    + destruct (stop s).
      * intros Hd. cbn in Hd. discriminate.
      * intros Hd. destruct (H1 Hd) as [w [Ew Hb]]. exists w. split; auto. unfold hist in *. cbn. rewrite <- app_assoc. cbn.
        rewrite Eq in Hb. exact Hb.
  - destruct (if counts_as_failure e then count_failure c (counter s) (limit s) else (counter s, limit s)) as [n lim]. exact H1.
  - exact H1.
  - exact H1.
  - exact H1.
Qed.

Definition inv1A (s : state) : Prop := invA s /\ inv1 s.

Lemma inv1A_step c s l : inv1A s -> inv1A (step c s l).
Proof.
  intros [HA H1]. split; [apply invA_step; auto|]. destruct l; cbn [step].
  - apply inv1_consumer; auto.
  - destruct (nth_error (workers s) i) eqn:Ei; auto.
    intros Hd.
    assert (Hd0 : dropped s = []).
    { destruct w; cbn [worker_step] in Hd; auto.
      - destruct (ops s); auto. destruct (build_err o); auto.
      - destruct (has_to_stop s); auto.
      - destruct c0; auto. destruct (cof c); auto.
      - destruct script; auto. }
    destruct (H1 Hd0) as [w0 [Ew _]]. rewrite Ew in Ei. destruct i; [|destruct i; discriminate]. cbn in Ei. inversion Ei; subst w0.
    apply (inv1_worker c s w Ew H1). exact Hd.
  - exact H1.
Qed.

Lemma inv1A_init os : inv1A (init 1 os).
Proof. split; [apply invA_init|]. intros _. exists WLoop. split; reflexivity. Qed.

(* emitted events form a prefix of the history and, whenever the consumer has just emitted a closing event, that prefix is balanced *)
Lemma prefix_balanced h : balance None h = Some None \/ (exists o, balance None h = Some (Some o)) \/ (exists k, balance None (h ++ k) = Some None) ->
  forall pre post, h = pre ++ post -> exists o, balance None pre = Some o.
Proof.
  intros Hb pre post E. subst h.
  assert (H : exists o k, balance None ((pre ++ post) ++ k) = Some o).
  { destruct Hb as [H|[[o H]|[k H]]].
    - exists None, []. rewrite app_nil_r. exact H.
    - exists (Some o), []. rewrite app_nil_r. exact H.
    - exists None, k. exact H. }
  destruct H as [o [k H]]. rewrite <- app_assoc, balance_app in H.
  destruct (balance None pre) as [o'|]; [eauto | discriminate].
Qed.

Lemma balance_snoc_finish pre id st o : balance None (pre ++ [ScFinish id st]) = Some o -> o = None.
Proof.
  rewrite balance_app. destruct (balance None pre) as [[j|]|]; cbn; try discriminate.
  destruct (Nat.eqb id j); [intros H; inversion H; reflexivity | discriminate].
Qed.

(* the limit is reached while post-processing a failed/errored ScenarioFinished, which stays the last emitted event *)
Definition invL (s : state) : Prop :=
  (limit s = true -> cp s = CDone /\ exists id st t, emitted s = ScFinish id st :: t) /\
  (dropped s <> [] -> stop s = true).

Lemma invL_step c s l : invP s -> invL s -> invL (step c s l).
Proof.
  intros HP [L1 L2]. destruct l; cbn [step].
  - unfold consumer_step. destruct (cp s) eqn:Ecp.
    + destruct (queue s) as [|e q].
      * split; auto. cbn. intros H. destruct (L1 H) as [Hc _]. discriminate.
      * destruct (stop s) eqn:Es.
        -- split; [|cbn; auto]. cbn. intros H. destruct (L1 H) as [Hc _]. discriminate.
        -- split; [|cbn; intros H; apply L2 in H; congruence]. cbn. intros H. destruct (L1 H) as [Hc _]. discriminate.
    + destruct (HP e Ecp) as [t Et].
      destruct (if counts_as_failure e then count_failure c (counter s) (limit s) else (counter s, limit s)) as [n lim] eqn:E.
      split.
      * cbn. intros Hl. subst lim. rewrite orb_true_r. split; auto.
        destruct (limit s) eqn:El; [destruct (L1 eq_refl) as [Hc _]; discriminate|].
        destruct (counts_as_failure e) eqn:Ec; [|inversion E; discriminate].
        destruct e; try discriminate. eauto.
      * cbn. intros H. apply L2 in H. rewrite H. rewrite orb_true_r. reflexivity.
    + split; [|exact L2]. cbn. intros H. destruct (L1 H) as [Hc _]. discriminate.
    + split; [|exact L2]. cbn. intros H. destruct (L1 H) as [Hc _]. discriminate.
    + split; [|exact L2]. rewrite Ecp. exact L1.
  - destruct (nth_error (workers s) i) eqn:Ei; [|split; auto].
    destruct (worker_step_flags c s i w) as (F1 & F2 & F3).
    assert (F : emitted (worker_step c s i w) = emitted s /\ dropped (worker_step c s i w) = dropped s).
    { destruct w; cbn [worker_step]; auto.
      - destruct (ops s); auto. destruct (build_err o); auto.
      - destruct (has_to_stop s); auto.
      - destruct c0; auto. destruct (cof c); auto.
      - destruct script; auto. }
    destruct F as [F4 F5]. unfold invL. rewrite F1, F2, F3, F4, F5. split; auto.
  - split; [exact L1|]. cbn. auto.
Qed.

Theorem closed_one_worker c sched os :
  drain_fix c = true ->
  let s := run c sched (init 1 os) in
  cp s = CDone -> stop s = false -> all_closed (trace s) = true.
Proof.
  intros Hfix s Hcp Hstop.
  assert (H1A : inv1A s) by (apply run_inv; [intros; apply inv1A_step; auto | apply inv1A_init]).
  assert (HPL : invP s /\ invL s).
  { apply (run_inv (fun x => invP x /\ invL x)).
    - intros x l [HP HL]. split; [apply invP_step; auto | apply invL_step; auto].
    - split; [apply invP_init|]. split; [cbn; discriminate | intros H; exfalso; apply H; reflexivity]. }
  destruct H1A as [HA H1]. destruct HPL as [_ [L1 L2]].
  destruct (limit s) eqn:El.
  2:{ apply closed_unless_stopped; auto. unfold has_to_stop. fold s. rewrite Hstop, El. reflexivity. }
  (* limit reached: the last emitted event is a ScenarioFinished; the emitted prefix of a sequential history is balanced *)
  destruct (L1 eq_refl) as [_ [id [st [t Et]]]].
  assert (Hd : dropped s = []).
  { destruct (dropped s) eqn:Ed; auto. assert (stop s = true) by (apply L2; discriminate). congruence. }
  destruct (H1 Hd) as [w [Ew Hb]].
  assert (Hpre : exists o, balance None (trace s) = Some o).
  { apply (prefix_balanced (hist s)) with (post := queue s); [|reflexivity].
    destruct w; cbn in Hb; eauto. }
  destruct Hpre as [o Ho]. unfold trace in *. rewrite Et in *. cbn [rev] in *.
  pose proof (balance_snoc_finish _ _ _ _ Ho). subst o. apply balance_closed. exact Ho.
Qed.

(* the bound on the number of workers is needed: two workers leave a scenario open at the limit (same witness as in Proofs_C11) *)
