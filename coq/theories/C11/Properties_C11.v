(* C11 property theorems only. *)
From Coq Require Import List NArith Bool Arith.
From Verif Require Import C11.Model_C11 C11.Proofs_C11 C11.Proofs1_C11 C11.ModelS_C11 C11.ProofsS_C11 C11.ModelP_C11 C11.ProofsP_C11 C11.ProofsP2_C11 C11.ModelE_C11 C11.ProofsE_C11.
Import ListNotations.

(* For every configuration, every behaviour of the operations, every number of workers and EVERY
   interleaving (schedule) including stop requests at any point: a closing event is never
   emitted without its opening one. *)
Theorem C11_finish_has_start : forall c sched n os,
  finishes_have_starts [] (trace (run c sched (init n os))) = true.
Proof. exact finish_has_start. Qed.
Print Assumptions C11_finish_has_start.

(* When the consumer leaves its loop and nobody asked to stop and the failure limit was not
   reached, every announced scenario has been closed (code as it is now: drain_fix = true). *)
Theorem C11_closed_unless_stopped : forall c sched n os,
  drain_fix c = true ->
  let s := run c sched (init n os) in
  cp s = CDone -> has_to_stop s = false -> all_closed (trace s) = true.
Proof. exact closed_unless_stopped. Qed.
Print Assumptions C11_closed_unless_stopped.

(* The property itself - an announced scenario may stay unclosed only if the run was interrupted -
   holds when no failure limit is configured ... *)
Theorem C11_closed_unless_interrupted_partial : forall c sched n os,
  drain_fix c = true -> maxf c = None ->
  let s := run c sched (init n os) in
  cp s = CDone -> stop s = false -> all_closed (trace s) = true.
Proof. exact closed_unless_interrupted. Qed.
Print Assumptions C11_closed_unless_interrupted_partial.

(* ... and with ONE worker for every max_failures as well: its events are produced strictly one scenario after the
   other, so the emitted prefix is balanced wherever the consumer stops (dead worker or failure limit). *)
Theorem C11_closed_unless_interrupted_one_worker : forall c sched os,
  drain_fix c = true ->
  let s := run c sched (init 1 os) in
  cp s = CDone -> stop s = false -> all_closed (trace s) = true.
Proof. exact closed_one_worker. Qed.
Print Assumptions C11_closed_unless_interrupted_one_worker.

(* ... and is false with a failure limit and two workers (finding C11-F2). *)
Theorem C11_closed_unless_interrupted_refuted : exists c sched n os,
  drain_fix c = true /\
  let s := run c sched (init n os) in
  cp s = CDone /\ stop s = false /\ all_closed (trace s) = false.
Proof.
  exists (cfg_now (Some 1)), sched_limit, 2, [op_fail 0; op_ok 1 2].
  split; [reflexivity|]. destruct closed_refuted_failure_limit as (H1 & H2 & H3 & _). auto.
Qed.
Print Assumptions C11_closed_unless_interrupted_refuted.

(* The behaviour before the fix (lost event after a queue timeout), kept as a regression witness. *)
Theorem C11_before_fix_refuted : exists sched n os,
  let s := run cfg_before_fix sched (init n os) in
  cp s = CDone /\ has_to_stop s = false /\ all_closed (trace s) = false.
Proof.
  exists sched_race, 1, [op_ok 0 2]. destruct race_refuted_before_fix as (H1 & H2 & H3 & _). auto.
Qed.
Print Assumptions C11_before_fix_refuted.

(* Statuses are consistent, for every schedule, configuration, behaviour and stop point: once the consumer is
   done, the phase status is at least as bad as every scenario status it emitted (SKIP aside), and is not SKIP. *)
Theorem C11_status_at_least_worst : forall c sched n os,
  let s := run c sched (init n os) in
  cp s = CDone ->
  forall id st, In (ScFinish id st) (trace s) -> st <> SKIP ->
    final_status s <> SKIP /\ srank st <= srank (final_status s).
Proof. exact status_at_least_worst. Qed.
Print Assumptions C11_status_at_least_worst.

(* Stateful phase (one producer thread, any event type, any script of events, every interleaving): what the stream
   yields is a prefix of what the thread produced - nothing invented, duplicated or reordered - and with the present
   exit test nothing is lost once the consumer is done.  The behaviour before the fix is refuted by a schedule. *)
Theorem C11_stateful_trace_is_prefix : forall (E : Type) fix_ (script : list E) sched,
  exists rest, script = strace E (srun E fix_ sched (sinit E script)) ++ rest.
Proof. exact stateful_trace_is_prefix. Qed.
Print Assumptions C11_stateful_trace_is_prefix.

Theorem C11_stateful_nothing_lost : forall (E : Type) (script : list E) sched,
  let s := srun E true sched (sinit E script) in
  s_cp s = SDone -> strace E s = script.
Proof. exact stateful_nothing_lost. Qed.
Print Assumptions C11_stateful_nothing_lost.

Theorem C11_stateful_before_fix_refuted : exists sched (script : list nat),
  let s := srun nat false sched (sinit nat script) in
  s_cp s = SDone /\ strace nat s <> script.
Proof.
  exists [LS; LC; LC; LS; LS; LC; LC], [1; 2]. destruct stateful_lost_before_fix as [H1 H2].
  split; [exact H1|]. rewrite H2. discriminate.
Qed.
Print Assumptions C11_stateful_before_fix_refuted.

(* Plan level: one start first, exactly one finish last, phases opened and closed once, in order,
   whatever each phase did and wherever the run was stopped. *)
Theorem C11_plan_wf : forall phases stop0, plan_wf (plan_events phases stop0) = true.
Proof. exact plan_events_wf. Qed.
Print Assumptions C11_plan_wf.

Theorem C11_nothing_after_finish : forall phases stop0, exists t,
  plan_events phases stop0 = EngineStarted :: t ++ [EngineFinished] /\ ~ In EngineFinished t /\ ~ In EngineStarted t.
Proof. exact plan_nothing_after_finish. Qed.
Print Assumptions C11_nothing_after_finish.

(* non-vacuity: the race schedule on the present code ends with everything closed *)
Theorem C11_example_now :
  let s := run (cfg_now None) (sched_race ++ [C; C; C; C; C; C]) (init 1 [op_ok 0 2]) in
  cp s = CDone /\ has_to_stop s = false /\ trace s = [ScStart 0; ScFinish 0 SUCCESS].
Proof. exact race_schedule_now. Qed.
Print Assumptions C11_example_now.

(* ---- the stateful phase's producer thread (execute_state_machine_loop), ModelP_C11 ----
   For every behaviour of Hypothesis inside `run` (any number of suites, scenarios, steps, any outcome of every step, any
   way `run` ends), every failure limit, every initial state of the stop flags and every point at which a stop request
   arrives, and every pattern of faults in ctx.maximize_metrics() during teardown (the ScenarioFinished is put before it): every
   prefix of what the thread puts is properly nested - suites one at a time, scenarios inside their suite,
   matching identifiers, no closing event without its opening one ... *)
Theorem C11_stateful_producer_nested : forall c faults stop0 limit0 counter0 behs ls,
  nested (pscript (prun c ls (pinit_f faults stop0 limit0 counter0 behs))) = true.
Proof. exact producer_nested. Qed.
Print Assumptions C11_stateful_producer_nested.

(* ... and when the thread has ended every announced suite and scenario is closed, interrupted or not. *)
Theorem C11_stateful_producer_closed : forall c faults stop0 limit0 counter0 behs ls,
  let s := prun c ls (pinit_f faults stop0 limit0 counter0 behs) in
  p_pc s = PDone -> all_closed_p (pscript s) = true.
Proof. exact producer_closed. Qed.
Print Assumptions C11_stateful_producer_closed.

(* Composition with the consumer (ModelS_C11): when the consumer is done, the stream holds exactly what the thread
   produced, hence is nested and closed. *)
Theorem C11_stateful_stream_nested : forall c faults stop0 limit0 counter0 behs ls sched,
  let p := prun c ls (pinit_f faults stop0 limit0 counter0 behs) in
  let s := srun pev true sched (sinit pev (pscript p)) in
  p_pc p = PDone -> s_cp s = SDone ->
  nested (strace pev s) = true /\ all_closed_p (strace pev s) = true.
Proof.
  intros c faults stop0 limit0 counter0 behs ls sched p s Hp Hs.
  unfold s. rewrite (stateful_nothing_lost pev (pscript p) sched Hs).
  split; [apply producer_nested|apply producer_closed; exact Hp].
Qed.
Print Assumptions C11_stateful_stream_nested.

(* non-vacuity: a failing suite followed by a stop request right before the second suite's interruption test *)
Example C11_stateful_producer_example :
  let s := prun {| p_maxf := None; p_maxex := 5 |} (repeat LP 9 ++ [LStop] ++ repeat LP 6)
                (pinit false false 0 [([[StOk; StFail 0]], RFailureGroup); ([[StOk]], ROk)]) in
  p_pc s = PDone /\
  pscript s = [SuS 0; ScS 0 0; ScF 0 0 FAILURE; SuF 0 FAILURE; SuS 1; PIntr; SuF 1 INTERRUPTED].
Proof. vm_compute. split; reflexivity. Qed.

(* Statuses of the stateful phase: when the thread has ended, the phase status (the consumer's fold over SuiteFinished)
   is at least as bad as the worst scenario reported, for every behaviour in which an exception raised by a step is what
   Hypothesis' run() ends with (or something worse), every limit and every stop point.  The contract is needed. *)
Theorem C11_stateful_status_covers_partial : forall c stop0 limit0 counter0 behs ls,
  forallb consistent_beh behs = true ->
  let s := prun c ls (pinit stop0 limit0 counter0 behs) in
  p_pc s = PDone -> worst_scenario (pscript s) <= phase_rank (pscript s).
Proof. exact producer_status_covers. Qed.
Print Assumptions C11_stateful_status_covers_partial.

Theorem C11_stateful_status_covers_needs_contract : exists c behs ls,
  let s := prun c ls (pinit false false 0 behs) in
  p_pc s = PDone /\ ~ worst_scenario (pscript s) <= phase_rank (pscript s).
Proof.
  exists {| p_maxf := None; p_maxex := 5 |}, [([[StFail 0]], RSkipTest)], (repeat LP 12).
  destruct producer_status_needs_contract as (H1 & H2 & H3). split; [exact H1|]. rewrite H2, H3. intros Hc. inversion Hc.
Qed.
Print Assumptions C11_stateful_status_covers_needs_contract.

(* ---- the plan level with interruptions that escape a phase (ModelE_C11: ExecutionPlan.execute) ----
   Whatever the phases do - enabled or not, any number of events, any status, stop flag or failure limit set, a
   KeyboardInterrupt escaping before or after the phase's own PhaseFinished - the run has one start first, one finish last,
   and every phase that was announced is closed exactly once, in order.  Before the repair an interruption that escaped the
   phase (Ctrl-C while the probing request is in flight) left the phase open. *)
Theorem C11_plan_closed_under_interrupts : forall phases stop0, ewf (eplan true phases stop0) = true.
Proof. exact eplan_wf. Qed.
Print Assumptions C11_plan_closed_under_interrupts.

Theorem C11_plan_before_fix_refuted : exists phases, ewf (eplan false phases false) = false.
Proof. eexists. exact eplan_before_fix_open. Qed.
Print Assumptions C11_plan_before_fix_refuted.

(* The probing phase: whatever the probe request meets - any response, a local URL, ANY requests error, Ctrl-C - the phase is
   opened and closed exactly once and the run finishes properly; it is ERROR exactly when the probe errored. *)
Theorem C11_probing_phase_closed : forall b rest stop0, ewf (eplan true (probing_phase b :: rest) stop0) = true.
Proof. exact probing_closed. Qed.
Print Assumptions C11_probing_phase_closed.

Theorem C11_probing_phase_status : forall b,
  e_ki (probing_phase b) = KiNone ->
  e_status (probing_phase b) = match b with PbRequestError => ERROR | _ => SUCCESS end.
Proof. exact probing_status. Qed.
Print Assumptions C11_probing_phase_status.
