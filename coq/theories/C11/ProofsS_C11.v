From Coq Require Import List Bool Arith Lia.
From Verif Require Import C11.ModelS_C11.
Import ListNotations.

Section StatefulProofs.
  Variable E : Type.
  Notation st := (sstate E).

  Definition sinv (fix_ : bool) (script0 : list E) (s : st) : Prop :=
    script0 = rev (s_emitted s) ++ s_queue s ++ s_script s /\
    (s_alive s = false -> s_script s = []) /\
    (s_cp s = SEmpty -> s_alive s = false) /\
    (fix_ = true -> s_cp s = SDone -> s_alive s = false /\ s_queue s = []).

  Lemma sinv_step fix_ script0 s l : sinv fix_ script0 s -> sinv fix_ script0 (sstep E fix_ s l).
  Proof.
    intros (H1 & H2 & H3 & H4). destruct l; cbn [sstep].
    - destruct (s_cp s) eqn:Ecp.
      + destruct (s_queue s) as [|e q] eqn:Eq; unfold sinv; cbn [s_queue s_emitted s_script s_alive s_cp].
        * repeat split; auto; try (intros; discriminate).
        * cbn [rev]. rewrite <- !app_assoc. cbn [app]. repeat split; auto; try (intros; discriminate).
      + unfold sinv; cbn [s_queue s_emitted s_script s_alive s_cp]. split; auto. split; auto.
        destruct (s_alive s) eqn:Ea; [split; intros; discriminate|].
        destruct fix_; split; auto; intros; discriminate.
      + unfold sinv; cbn [s_queue s_emitted s_script s_alive s_cp]. split; auto. split; auto. specialize (H3 eq_refl).
        destruct (s_queue s) eqn:Eq; split; auto; intros; try discriminate; try (split; auto).
      + unfold sinv. rewrite Ecp. split; auto.
    - destruct (s_alive s) eqn:Ea; [|unfold sinv; rewrite Ea; repeat split; auto; apply H4; auto].
      destruct (s_script s) as [|e k] eqn:Es; unfold sinv; cbn [s_queue s_emitted s_script s_alive s_cp].
      + repeat split; auto; try (intros Hc; specialize (H3 Hc); discriminate);
          try (intros Hf Hc; destruct (H4 Hf Hc) as [Hx Hy]; try discriminate; auto);
          try (match goal with Hf : fix_ = true, Hc : s_cp s = SDone |- _ => destruct (H4 Hf Hc) as [Hx Hy]; try discriminate; auto end);
          try (match goal with Hc : s_cp s = SEmpty |- _ => specialize (H3 Hc); discriminate end).
      + rewrite H1. rewrite <- !app_assoc. cbn [app]. repeat split; auto; try (intros; discriminate);
          try (intros Hc; specialize (H3 Hc); discriminate);
          try (intros Hf Hc; destruct (H4 Hf Hc) as [Hx Hy]; try discriminate; auto);
          try (match goal with Hf : fix_ = true, Hc : s_cp s = SDone |- _ => destruct (H4 Hf Hc) as [Hx Hy]; try discriminate; auto end);
          try (match goal with Hc : s_cp s = SEmpty |- _ => specialize (H3 Hc); discriminate end).
  Qed.

  Lemma sinv_init fix_ script : sinv fix_ script (sinit E script).
  Proof. unfold sinv, sinit. cbn. repeat split; auto; intros; discriminate. Qed.

  Lemma sinv_run fix_ script sched : sinv fix_ script (srun E fix_ sched (sinit E script)).
  Proof.
    unfold srun. generalize (sinit E script) (sinv_init fix_ script).
    induction sched as [|l sched IH]; intros s H; cbn; auto. apply IH. apply sinv_step. exact H.
  Qed.

  (* nothing is invented, duplicated or reordered: what was yielded is a prefix of what the thread produced *)
  Lemma stateful_trace_is_prefix fix_ script sched :
    exists rest, script = strace E (srun E fix_ sched (sinit E script)) ++ rest.
  Proof.
    destruct (sinv_run fix_ script sched) as (H1 & _). unfold strace. eexists. exact H1.
  Qed.

  (* with the present exit test nothing is lost: once the consumer is done, everything the thread produced was yielded *)
  Lemma stateful_nothing_lost script sched :
    let s := srun E true sched (sinit E script) in
    s_cp s = SDone -> strace E s = script.
  Proof.
    intros s Hd. destruct (sinv_run true script sched) as (H1 & H2 & _ & H4). fold s in H1, H2, H4.
    destruct (H4 eq_refl Hd) as [Ha Hq]. rewrite (H2 Ha), Hq in H1. rewrite !app_nil_r in H1. unfold strace. auto.
  Qed.
End StatefulProofs.

(* before the fix: timeout, the thread puts its last event and dies, liveness test -> the event is lost *)
Lemma stateful_lost_before_fix :
  let s := srun nat false [LS; LC; LC; LS; LS; LC; LC] (sinit nat [1; 2]) in
  s_cp s = SDone /\ strace nat s = [1].
Proof. vm_compute. split; reflexivity. Qed.

Lemma stateful_same_schedule_now :
  let s := srun nat true [LS; LC; LC; LS; LS; LC; LC; LC; LC; LC; LC] (sinit nat [1; 2]) in
  s_cp s = SDone /\ strace nat s = [1; 2].
Proof. vm_compute. split; reflexivity. Qed.
