(* Status consistency of the stateful producer (ModelP_C11). *)
From Coq Require Import List Bool Arith Lia.
From Verif Require Import C11.Model_C11 C11.ModelP_C11 C11.ProofsP_C11.
Import ListNotations.

Record rst := { r_fin : nat; r_closed : nat; r_cur : nat }.
Definition rstep (r : rst) (e : pev) : rst :=
  match e with
  | ScF _ _ st => {| r_fin := r_fin r; r_closed := r_closed r; r_cur := Nat.max (r_cur r) (rk st) |}
  | SuF _ st => {| r_fin := Nat.max (r_fin r) (rk st); r_closed := Nat.max (r_closed r) (r_cur r); r_cur := 0 |}
  | _ => r
  end.
Definition rinit : rst := {| r_fin := 0; r_closed := 0; r_cur := 0 |}.
Definition rfold (l : list pev) : rst := fold_left rstep l rinit.

Lemma rfold_snoc e out : rfold (rev (e :: out)) = rstep (rfold (rev out)) e.
Proof. unfold rfold. cbn [rev]. rewrite fold_left_app. reflexivity. Qed.

(* -- the fold agrees with the definitions the theorem is about -- *)
Definition rk_opt (o : option status) : nat := match o with Some st => rk st | None => 0 end.

Lemma fold_status_rank l : forall acc, acc <> Some SKIP ->
  fold_left fold_status l acc <> Some SKIP /\
  rk_opt (fold_left fold_status l acc) =
  fold_left (fun n e => match e with SuF _ st => Nat.max n (rk st) | _ => n end) l (rk_opt acc).
Proof.
  induction l as [|e l IH]; intros acc Hacc; cbn [fold_left]; [split; auto|].
  destruct e; cbn [fold_status]; try (apply IH; exact Hacc).
  destruct (status_eqb st SKIP) eqn:Es.
  - destruct st; try discriminate. cbn [rk]. rewrite Nat.max_0_r. apply IH, Hacc.
  - destruct acc as [a|].
    + destruct (status_lt a st) eqn:El.
      * assert (Hn : Some st <> Some SKIP) by (intros Hc; inversion Hc; subst; discriminate).
        destruct (IH (Some st) Hn) as [H1 H2]. split; auto. rewrite H2. f_equal. cbn [rk_opt].
        destruct a, st; cbn in *; try discriminate; try reflexivity; exfalso; apply Hacc; reflexivity.
      * destruct (IH (Some a) Hacc) as [H1 H2]. split; auto. rewrite H2. f_equal. cbn [rk_opt].
        destruct a, st; cbn in *; try discriminate; try reflexivity; exfalso; apply Hacc; reflexivity.
    + assert (Hn : Some st <> Some SKIP) by (intros Hc; inversion Hc; subst; discriminate).
      destruct (IH (Some st) Hn) as [H1 H2]. split; auto.
Qed.

Lemma rfold_fin_gen l : forall r,
  r_fin (fold_left rstep l r) = fold_left (fun n e => match e with SuF _ st => Nat.max n (rk st) | _ => n end) l (r_fin r).
Proof. induction l as [|e l IH]; intros r; cbn [fold_left]; auto. rewrite IH. destruct e; reflexivity. Qed.

Lemma phase_rank_is_fin l : phase_rank l = r_fin (rfold l).
Proof.
  unfold phase_rank, phase_status, rfold. rewrite rfold_fin_gen. cbn [r_fin rinit].
  assert (Hn : (None : option status) <> Some SKIP) by discriminate.
  destruct (fold_status_rank l None Hn) as [H1 H2]. cbn [rk_opt] in H2. rewrite <- H2.
  destruct (fold_left fold_status l None); reflexivity.
Qed.

Lemma worst_gen l : forall r,
  Nat.max (r_closed (fold_left rstep l r)) (r_cur (fold_left rstep l r)) =
  fold_left (fun n st => Nat.max n (rk st)) (scenario_statuses l) (Nat.max (r_closed r) (r_cur r)).
Proof.
  induction l as [|e l IH]; intros r; cbn [fold_left scenario_statuses]; auto.
  destruct e; cbn [scenario_statuses fold_left]; rewrite IH; cbn [rstep r_closed r_cur]; try reflexivity.
  - f_equal. lia.
  - f_equal. lia.
Qed.

Lemma worst_is_fold l : worst_scenario l = Nat.max (r_closed (rfold l)) (r_cur (rfold l)).
Proof. unfold worst_scenario, rfold. rewrite worst_gen. reflexivity. Qed.

(* -- the invariant -- *)
Definition cons_steps (steps : list step_out) (e : run_end) : bool := forallb (fun st => rank_step st <=? rank_end e) steps.
Definition cons_scs (scs : list (list step_out)) (e : run_end) : bool := forallb (fun steps => cons_steps steps e) scs.

(* what the SuiteFinished of the open suite will at least be, and what must hold of the pending behaviour *)
Definition promise (pc : ppc) : nat :=
  match pc with
  | PTop | PDone | PIntrCheck | PEarlyIntr | PEarlyFin => 0
  | PScen _ e | PCheck _ _ _ e | PBody _ _ _ e | PTear (TNext _ e) | PExcept (ByRun e) => rank_end e
  | PTear TRaise | PExcept ByKI | PPutIntr => 3
  | PPutNFE => 2
  | PFinally st _ => rk st
  end.
Definition side (pc : ppc) : bool :=
  match pc with
  | PScen scs e | PTear (TNext scs e) => cons_scs scs e
  | PCheck st steps scs e | PBody st steps scs e => (rank_step st <=? rank_end e) && cons_steps steps e && cons_scs scs e
  | _ => true
  end.
Definition cur_ok (pc : ppc) (cur : option status) : bool :=
  match pc with
  | PCheck _ _ _ e | PBody _ _ _ e | PTear (TNext _ e) => rk_opt cur <=? rank_end e
  | PTop | PIntrCheck | PScen _ _ => is_none cur
  | _ => true
  end.

Definition RInv (s : pstate) : Prop :=
  let n := rfold (pscript s) in
  r_closed n <= r_fin n /\ r_cur n <= promise (p_pc s) /\ side (p_pc s) = true /\ cur_ok (p_pc s) (p_cur s) = true /\
  forallb consistent_beh (p_behs s) = true /\ p_faults s = [].

Lemma rk_le3 st : rk st <= 3.
Proof. destruct st; cbn; lia. Qed.
Lemma rank_end_le3 e : rank_end e <= 3.
Proof. destruct e; cbn; lia. Qed.

Lemma next_step_info steps scs e :
  cons_steps steps e = true -> cons_scs scs e = true ->
  promise (next_step steps scs e) = rank_end e /\ side (next_step steps scs e) = true.
Proof.
  intros H1 H2. destruct steps as [|st steps]; cbn [next_step promise side]; [auto|].
  cbn [cons_steps forallb] in H1. apply andb_true_iff in H1. destruct H1 as [Ha Hb].
  split; auto. rewrite Ha, H2. unfold cons_steps. rewrite Hb. reflexivity.
Qed.

Lemma next_step_cur steps scs e cur : rk_opt cur <= rank_end e -> cur_ok (next_step steps scs e) cur = true.
Proof. intros H. destruct steps; cbn [next_step cur_ok]; apply Nat.leb_le; exact H. Qed.

Ltac rinv_open :=
  unfold RInv, pscript, pset, pput in *; cbn [p_out p_pc p_cur p_behs p_faults tl] in *;
  rewrite ?rfold_snoc; cbn [rstep r_fin r_closed r_cur promise side cur_ok rk rk_opt srank] in *.

Lemma RInv_step c s l : RInv s -> RInv (pstep c s l).
Proof.
  intros H. destruct l; cbn [pstep]; [|exact H].
  unfold RInv in H. destruct H as (H1 & H2 & H3 & H4 & H5 & Hf).
  destruct (p_pc s) eqn:Epc; cbn [promise side cur_ok] in *.
  - (* PTop *) rinv_open. repeat split; auto.
  - (* PIntrCheck *) destruct (p_stop s); [rinv_open; repeat split; auto|].
    destruct (p_behs s) as [|[scs e] rest] eqn:Eb; rinv_open.
    + repeat split; auto; lia.
    + cbn [forallb] in H5. apply andb_true_iff in H5. destruct H5 as [Ha Hb]. repeat split; auto; try lia.
  - rinv_open. repeat split; auto.
  - rinv_open. repeat split; auto; lia.
  - (* PScen *) destruct scs as [|steps scs].
    + rinv_open. repeat split; auto.
    + cbn [cons_scs forallb] in H3. apply andb_true_iff in H3. destruct H3 as [Ha Hb].
      destruct (next_step_info steps scs e Ha Hb) as [Hp Hs].
      unfold RInv, pscript. cbn [p_out p_pc p_cur p_behs]. rewrite rfold_snoc. cbn [rstep]. rewrite Hp, Hs.
      repeat split; auto. apply next_step_cur. destruct (p_cur s); [discriminate|]. cbn. lia.
  - (* PCheck *) destruct (p_has_to_stop s); rinv_open; repeat split; auto.
    pose proof (rank_end_le3 e). lia.
  - (* PBody *) apply andb_true_iff in H3. destruct H3 as [H3 Hc]. apply andb_true_iff in H3. destruct H3 as [Ha Hb].
    apply Nat.leb_le in Ha. destruct st.
    + destruct (next_step_info steps scs e Hb Hc) as [Hp Hs].
      unfold RInv, pscript. cbn [p_out p_pc p_cur p_behs]. rewrite Hp, Hs. repeat split; auto.
      apply next_step_cur. cbn. lia.
    + destruct (count_failures (p_maxf c) (S extra) (p_counter s) (p_limit s)) as [cnt lim]. rinv_open.
      repeat split; auto. apply Nat.leb_le. exact Ha.
    + rinv_open. repeat split; auto. apply Nat.leb_le. exact Ha.
    + rinv_open. repeat split; auto. pose proof (rank_end_le3 e). lia.
  - (* PTear *) destruct k as [scs e|]; rinv_open; rewrite ?Hf; cbn [tl].
    + apply Nat.leb_le in H4. repeat split; auto. destruct (p_cur s) as [st|]; cbn [rk_opt rk] in *; lia.
    + repeat split; auto. destruct (p_cur s) as [st|]; [pose proof (rk_le3 st)|cbn]; lia.
  - (* PExcept *) destruct w as [e|].
    + destruct e; try (rinv_open; repeat split; auto; cbn [rank_end] in *; lia).
      destruct (0 <? p_completed s); rinv_open; repeat split; auto; cbn [rank_end] in *; lia.
    + rinv_open. repeat split; auto.
  - rinv_open. repeat split; auto.
  - rinv_open. repeat split; auto.
  - (* PFinally *) destruct again; rinv_open; repeat split; auto; lia.
  - (* PDone *) unfold RInv. rewrite Epc. cbn [promise side cur_ok]. repeat split; auto.
Qed.

Lemma RInv_init stop0 limit0 counter0 behs :
  forallb consistent_beh behs = true -> RInv (pinit stop0 limit0 counter0 behs).
Proof. intros H. unfold RInv, pinit, pinit_f, pscript. cbn. repeat split; auto. Qed.

Lemma RInv_run c ls s : RInv s -> RInv (prun c ls s).
Proof. unfold prun. revert s. induction ls as [|l ls IH]; intros s H; cbn [fold_left]; auto. apply IH, RInv_step, H. Qed.

(* When the thread has ended, the phase status folded from its SuiteFinished events is at least as bad as the worst
   scenario it reported - provided an exception raised by a step is what `run` ends with (Hypothesis' contract). *)
Lemma producer_status_covers c stop0 limit0 counter0 behs ls :
  forallb consistent_beh behs = true ->
  let s := prun c ls (pinit stop0 limit0 counter0 behs) in
  p_pc s = PDone -> worst_scenario (pscript s) <= phase_rank (pscript s).
Proof.
  intros Hc s Hd. destruct (RInv_run c ls _ (RInv_init stop0 limit0 counter0 behs Hc)) as (H1 & H2 & _). fold s in H1, H2.
  rewrite Hd in H2. cbn [promise] in H2. rewrite worst_is_fold, phase_rank_is_fin. lia.
Qed.

(* without the contract the statement is false: a step fails, Hypothesis ends the run with SkipTest *)
Lemma producer_status_needs_contract :
  let s := prun {| p_maxf := None; p_maxex := 5 |} (repeat LP 12) (pinit false false 0 [([[StFail 0]], RSkipTest)]) in
  p_pc s = PDone /\ worst_scenario (pscript s) = 1 /\ phase_rank (pscript s) = 0.
Proof. vm_compute. auto. Qed.
